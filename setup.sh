#!/bin/bash
# Build the framework from files on disk only (offline): regenerate the data part of the model from
# /repo, kernel-check every theorem, link the model driver, prime the axiom audit.
set -e
cd "$(dirname "$0")"
PY=/venv/bin/python; [ -x $PY ] || PY=python3
export HPACK_REPO=${HPACK_REPO:-/repo}
$PY tools/translate.py || true
$PY tools/py2lean.py || true
cd lean
lake build HpackVerif driver
lake build HpackVerif.Props.Src || echo "setup: source tie (Props.Src) unavailable on this tree"
lake build HpackVerif.Props.SrcHuff || echo "setup: source tie (Props.SrcHuff) unavailable on this tree"
lake build HpackVerif.Props.SrcDec || echo "setup: source tie (Props.SrcDec) unavailable on this tree"
lake build HpackVerif.Props.SrcEnc || echo "setup: source tie (Props.SrcEnc) unavailable on this tree"
lake build HpackVerif.Props.SrcEncApi || echo "setup: source tie (Props.SrcEncApi) unavailable on this tree"
lake build HpackVerif.Props.SrcHuffEnc || echo "setup: source tie (Props.SrcHuffEnc) unavailable on this tree"
lake build HpackVerif.Props.SrcTable || echo "setup: source tie (Props.SrcTable) unavailable on this tree"
for m in SrcConn OnSourceInt OnSourceHuff OnSourceDec OnSourceTable OnSourceEnc OnSourceEncApi; do lake build HpackVerif.Props.$m || echo "setup: source-level corollaries (Props.$m) unavailable on this tree"; done
lake env lean Audit.lean > .lake/audit_setup.txt 2>&1 || true
echo "setup: $(grep -c AUDIT .lake/audit_setup.txt) theorems audited"
