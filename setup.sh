#!/bin/bash
set -e
cd "$(dirname "$0")"
PY=/venv/bin/python; [ -x $PY ] || PY=python3
$PY tools/translate.py
cd lean && lake build HpackVerif driver
