#!/usr/bin/env python3
"""
C20 probe (subprocess, real classes):  multi_probe.py <seed> <n_pairs> <mode>

Generates, from the seed alone, histories for n encoder/decoder pairs (blocks with lists, dicts with
several pseudo-headers, odd value types that go through str(), size changes, malformed input to the
decoders) and runs them in one process in the given mode:
   isolated      each pair's history alone, in a fresh ... same process, one after the other
   interleaved   round-robin over the pairs
   reversed      pairs in reverse order (instances "used earlier" differ)
   warm          an unrelated noisy workload first (other instances, odd types, errors), then `isolated`
   debuglog      logging at DEBUG with a handler attached, then `interleaved`
Prints JSON: {"transcripts": {pair: sha256 of its outputs}, "static": digest of shared tables before/after,
"n_ops": ...}.  The caller compares transcripts across modes and across PYTHONHASHSEED values.
"""
import sys, os, json, random, hashlib, logging, decimal, enum

repo = os.environ.get('HPACK_REPO', '/repo')
sys.path.insert(0, os.path.join(repo, 'src'))
import hpack
from hpack import Encoder, Decoder, HeaderTuple, NeverIndexedHeaderTuple
from hpack.table import HeaderTable
import hpack.huffman_table as HT
import hpack.huffman_constants as HC


class Status(enum.IntEnum):
    OK = 200


ODD = [1, 1.0, True, 0, 0.0, False, 200, 200.0, decimal.Decimal('1'), Status.OK, None, 3.5]


def static_digest():
    h = hashlib.sha256()
    h.update(repr(tuple(HeaderTable.STATIC_TABLE)).encode())
    mp = HeaderTable.STATIC_TABLE_MAPPING
    h.update(repr([(k, mp[k][0], sorted(mp[k][1].items())) for k in sorted(mp)]).encode())
    h.update(repr(list(HT.HUFFMAN_TABLE)).encode())
    h.update(repr(list(HC.REQUEST_CODES)).encode()); h.update(repr(list(HC.REQUEST_CODES_LENGTH)).encode())
    h.update(repr((HeaderTable.DEFAULT_SIZE, HeaderTable.STATIC_TABLE_LENGTH, hpack.hpack.DEFAULT_MAX_HEADER_LIST_SIZE)).encode())
    h.update(repr(sorted((k, repr(v)) for k, v in vars(Encoder).items() if not callable(v) and not k.startswith('__') and not isinstance(v, property))).encode())
    h.update(repr(sorted((k, repr(v)) for k, v in vars(Decoder).items() if not callable(v) and not k.startswith('__') and not isinstance(v, property))).encode())
    return h.hexdigest()


def gen_many_names_history(rnd):
    """~150 distinct names live in a default-size table, steady evictions, mid-table fields re-sent: what a
    per-table hash-bucket filter or any hash-ordered structure needs in order to show"""
    ops = []
    names = ['x-h%03d' % i for i in range(150)]
    for rnd_i in range(3):
        order = names[:]
        rnd.shuffle(order)
        for i in range(0, len(order), 10):
            ops.append(('list', [('2', n, 'v%d' % (len(n) + rnd_i)) for n in order[i:i + 10]], False))
            if i % 30 == 0:
                back = order[max(i - 40, 0):max(i - 35, 0)]
                if back:
                    ops.append(('list', [('2', n, 'v%d' % (len(n) + rnd_i)) for n in back], False))
    return ops


def gen_pair_history(rnd):
    """list of ops for one encoder/decoder pair"""
    ops = []
    names = [':method', ':path', ':scheme', ':authority', 'cookie', 'x-a', 'x-b', 'etag', b'bin\xff', 'k']
    vals = ['GET', '/', 'https', 'h', 'v1', 'v2', '', b'\x00\x01', 'long' * 20]
    for _ in range(rnd.randint(3, 9)):
        r = rnd.random()
        if r < 0.15:
            ops.append(('size', rnd.choice([0, 64, 100, 4096, 200])))
            if rnd.random() < 0.5:
                ops.append(('list', [], False))          # a block that carries only the size update
        elif r < 0.35:
            ks = rnd.sample(names[:8], rnd.randint(2, 6))          # dict with several pseudo-headers
            ops.append(('dict', [(k, rnd.choice(vals[:7])) for k in ks], rnd.random() < 0.5))
        elif r < 0.5:
            ops.append(('odd', [(rnd.choice(['x-a', 'x-b', 'k']), rnd.randrange(len(ODD))) for _ in range(rnd.randint(1, 4))], rnd.random() < 0.5))
        elif r < 0.6:
            ops.append(('garbage', bytes(rnd.randrange(256) for _ in range(rnd.randint(1, 12)))))
        elif r < 0.68:
            # a Huffman-coded literal that fails AFTER some symbols were decoded (EOS / over-long padding / cut mid-code)
            good = bytes.fromhex('41496153')           # 'secret' ... a valid Huffman prefix
            tail = rnd.choice([b'\xff\xff\xff\xff', b'\xff\xff', b'\xfe', b'\x00\xff'])
            e = good + tail
            ops.append(('garbage', b'\x00' + bytes([0x80 | len(e)]) + e + b'\x01v'))
        else:
            hs = []
            for _ in range(rnd.randint(0, 6)):
                n, v = rnd.choice(names), rnd.choice(vals)
                k = rnd.random()
                if k < 0.2:
                    hs.append(('N', n, v))
                elif k < 0.4:
                    hs.append(('3', n, v, rnd.random() < 0.3))
                else:
                    hs.append(('2', n, v))
            ops.append(('list', hs, rnd.random() < 0.5))
    return ops


def mk(h):
    if h[0] == 'N':
        return NeverIndexedHeaderTuple(h[1], h[2])
    if h[0] == '3':
        return (h[1], h[2], h[3])
    return (h[1], h[2])


RECV = bytearray()


class Pair:
    def __init__(self):
        self.e = Encoder(); self.d = Decoder()
        self.d.max_allowed_table_size = 8192
        self.log = hashlib.sha256()
        self.n = 0

    def rec(self, x):
        self.log.update(repr(x).encode()); self.log.update(b'\n'); self.n += 1

    def step(self, op):
        try:
            if op[0] == 'size':
                self.e.header_table_size = op[1]; self.rec(('size', op[1])); return
            if op[0] == 'garbage':
                try:
                    self.rec(('garbage', [tuple(x) for x in self.d.decode(op[1], raw=True)]))
                except hpack.HPACKDecodingError as ex:
                    self.rec(('garbage-err', type(ex).__name__))
                    self.d = Decoder(); self.d.max_allowed_table_size = 8192      # a failed block ends the connection
                    self.e = Encoder()
                return
            if op[0] == 'dict':
                out = self.e.encode(dict(op[1]), huffman=op[2])
            elif op[0] == 'odd':
                out = self.e.encode([(n, ODD[i]) for n, i in op[1]], huffman=op[2])
            else:
                hs = [mk(h) for h in op[1]]
                shape = len(op[1]) % 3
                out = self.e.encode(hs if shape == 0 else ((x for x in hs) if shape == 1 else iter(hs)), huffman=op[2])
            self.rec(('block', bytes(out).hex()))
            # the application receives every block into ONE buffer shared by all connections of the process
            RECV[:] = out
            got = self.d.decode(memoryview(RECV) if len(out) % 2 else RECV, raw=True)
            self.rec(('decoded', [(bytes(a).hex(), bytes(b).hex(), type(h).__name__) for h in got for a, b in [h]]))
            if isinstance(got, list):      # the caller owns the returned list
                got.append(('x-poison', 'p')); got.reverse()
            self.rec(('tables', [(bytes(a).hex(), bytes(b).hex()) for a, b in self.e.header_table.dynamic_entries],
                      self.e.header_table_size, self.d.header_table_size))
        except Exception as ex:
            self.rec(('exception', type(ex).__name__))


def noise(rnd):
    # instances built through every optional constructor parameter the harness does not know (new options of the library
    # under test, given non-default values) are used first: whatever they configure must stay theirs
    try:
        import impl_driver
        for cls in (Encoder, Decoder):
            o = impl_driver.with_options(cls)
            if cls is Encoder:
                o.encode([('x-a', '1'), ('cookie', 'c'), (':path', '/x'), ('k', 'v'), ('etag', 'e')])
                o.header_table_size = 100
                o.encode([('x-b', '2'), ('cookie', 'c')])
            else:
                o.decode(b'\x82\x40\x01k\x01v\xbe')
    except Exception:
        pass
    for _ in range(6):
        p = Pair()
        for op in gen_pair_history(rnd):
            p.step(op)
        p.e.encode([('x-a', o) for o in ODD[:8]])
        p.e.encode({':path': '/n', ':method': 'X', ':zz': 'q', 'a': 'b'})


def first_use(seed):
    """For every name of the static table (the library's own universe of well-known header names) and a few others: the
    same short history run (a) as the very first use of the library in a process and (b) after other instances have been
    used -- each in a child forked from this pristine process, so module- and class-level state is exactly as import left
    it. One-shot iterators, lazily filled caches and first-call initialisation at module or class level show as a
    difference for the name that happens to be looked up first."""
    names = []
    for n_, _ in HeaderTable.STATIC_TABLE:
        n_ = bytes(n_).decode()
        if n_ not in names:
            names.append(n_)
    names += ['x-custom', 'keep-alive', 'te', 'upgrade', 'x-forwarded-for']
    def history(name):
        p = Pair()
        p.step(('list', [('2', name, 'v1')], False))
        p.step(('list', [('2', name, 'v1')], True))
        p.step(('list', [('2', name, 'v2'), ('3', name, 'v1', True)], False))
        p.step(('dict', [(name, 'v3')], False))
        p.step(('garbage', b'\x82\x86\x84', None))
        return p.log.hexdigest(), p.n
    def child(name, warm):
        r, w = os.pipe()
        pid = os.fork()
        if pid == 0:
            try:
                os.close(r)
                if warm:
                    q = Pair()
                    q.step(('list', [('2', 'x-other', '1'), ('2', ':path', '/'), ('2', 'zzz', '1')], False))
                    q.step(('dict', [('x-d', '1')], True))
                    q.step(('garbage', b'\x82\x40\x01k\x01v\xbe', None))
                d, k = history(name)
                os.write(w, ('%s %d' % (d, k)).encode())
            finally:
                os._exit(0)
        os.close(w)
        data = b''
        while True:
            c = os.read(r, 4096)
            if not c:
                break
            data += c
        os.close(r)
        os.waitpid(pid, 0)
        return data.decode().split(' ') if data else ['died', '0']
    alone, after, n_ops = [], [], 0
    for name in names:
        a = child(name, False); b = child(name, True)
        alone.append(a[0]); after.append(b[0]); n_ops += int(a[1]) + int(b[1])
    print(json.dumps({'names': names, 'alone': alone, 'after': after, 'n_ops': n_ops}))


def main():
    seed, n, mode = int(sys.argv[1]), int(sys.argv[2]), sys.argv[3]
    if mode == 'firstuse':
        return first_use(seed)
    rnd = random.Random(seed)
    hist = [gen_pair_history(rnd) for _ in range(n)]
    if n >= 2:
        hist[-1] = gen_many_names_history(rnd)
    before = static_digest()
    if mode == 'debuglog':
        lg = logging.getLogger('hpack')
        lg.setLevel(logging.DEBUG)
        lg.addHandler(logging.StreamHandler(open(os.devnull, 'w')))
    if mode == 'warm':
        noise(random.Random(seed + 99991))
    crowd = []
    if mode == 'crowded':
        # thousands of other connections alive in the same process, each with a filled table, while the histories run
        filler = [('x-filler-%02d' % i, 'v' * 60) for i in range(40)]
        for i in range(4000):
            q = Pair.__new__(Pair)
            q.e = Encoder(); q.d = Decoder()
            q.d.decode(q.e.encode(filler, huffman=False), raw=True)
            crowd.append(q)
    pairs = [Pair() for _ in range(n)]
    if mode in ('isolated', 'warm', 'crowded'):
        for p, h in zip(pairs, hist):
            for op in h:
                p.step(op)
        for p in pairs:
            p.step(('list', [('2', 'x-nest', 'inner')], False))
        for p in pairs:
            p.step(('list', [('2', 'x-nest', 'outer-a'), ('2', 'x-nest', 'outer-b')], False))
    elif mode == 'reversed':
        for p, h in reversed(list(zip(pairs, hist))):
            for op in h:
                p.step(op)
    else:
        k = 0
        more = True
        while more:
            more = False
            for p, h in zip(pairs, hist):
                if k < len(h):
                    p.step(h[k]); more = True
            k += 1
    if mode not in ('isolated', 'warm', 'crowded'):
        # overlapping use: while pair k's encode() is consuming its (lazy) header iterable, pair k+1 encodes a block
        order = list(reversed(range(len(pairs)))) if mode == 'reversed' else list(range(len(pairs)))
        inner_done = set()
        def lazy(k):
            yield ('x-nest', 'outer-a')
            j = order[(order.index(k) + 1) % len(order)]
            if j not in inner_done:
                inner_done.add(j)
                pairs[j].step(('list', [('2', 'x-nest', 'inner')], False))
            yield ('x-nest', 'outer-b')
        # every pair's own history must read: inner block first, then outer block — arrange that for all pairs
        first = order[0]
        inner_done.add(first)
        pairs[first].step(('list', [('2', 'x-nest', 'inner')], False))
        for k in order:
            p = pairs[k]
            try:
                out = p.e.encode(lazy(k), huffman=False)
                p.rec(('block', bytes(out).hex()))
                RECV[:] = out
                got = p.d.decode(RECV, raw=True)
                p.rec(('decoded', [(bytes(a).hex(), bytes(b).hex(), type(h).__name__) for h in got for a, b in [h]]))
                p.rec(('tables', [(bytes(a).hex(), bytes(b).hex()) for a, b in p.e.header_table.dynamic_entries],
                       p.e.header_table_size, p.d.header_table_size))
            except Exception as ex:
                p.rec(('exception', type(ex).__name__))
    after = static_digest()
    print(json.dumps({'transcripts': [p.log.hexdigest() for p in pairs], 'static_before': before, 'static_after': after,
                      'n_ops': sum(p.n for p in pairs)}))


if __name__ == '__main__':
    main()
