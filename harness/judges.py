"""
Property judges: predicates evaluated DIRECTLY on what the implementation answered (the reply lines of
impl_driver.py), using only the independent reference reading of RFC 7541 (refmodel.py, frozen tables)
as the expected value.  No Lean artefact is involved: the judges are what turns a broken proof
obligation or a broken correspondence into a concrete failing input (and what is run on every generated
history anyway).  A judge returns a list of Failure(op index, signature, text).

Signatures are short stable strings; known_findings.json matches on (property, signature).
"""
import re
from collections import namedtuple, deque
from refmodel import (STATIC, RefDecoder, RefTable, RefError, int_octets, int_decode, huff_encode, huff_decode, esize, fit,
                      DEC, IDX, SIZE, OVER, valid_utf8)

Failure = namedtuple('Failure', 'index sig text')

_TBL = re.compile(r'max=(\S+) cur=(\S+) res=(\S+) \[(.*?)\]')
BIG = 1 << 200


def unhex(s):
    return b'' if s == '-' else bytes.fromhex(s)


def hx(b):
    b = bytes(b)
    return b.hex() if b else '-'


class TableDump:
    def __init__(self, text):
        m = _TBL.search(text)
        self.ok = bool(m)
        if not m:
            return
        self.max = int(m.group(1))
        self.cur = None if m.group(2) == '?' else int(m.group(2))
        self.res = m.group(3)
        self.entries = []
        self.tags = []
        body = m.group(4)
        if body:
            for ent in body.split(','):
                n, v = ent.split(':')
                self.entries.append((unhex(n[:-1]), unhex(v[:-1])))
                self.tags.append((n[-1], v[-1]))
        m2 = re.search(r'changes=\[(.*?)\]', text)
        self.changes = None
        if m2:
            self.changes = [int(x) for x in m2.group(1).split(',')] if m2.group(1) else []
        m3 = re.search(r'allowed=(\S+) limit=(\S+)', text)
        self.allowed = int(m3.group(1)) if m3 else None
        self.limit = int(m3.group(2)) if m3 else None

    def size(self):
        return sum(esize(n, v) for n, v in self.entries)


def split_reply(r):
    p = r.split(' | ', 1)
    return p[0], (p[1] if len(p) > 1 else '')


def parse_headers(s):
    """'-' or 'n:v:C,...' -> list of (name, value, cls)"""
    if s == '-':
        return []
    out = []
    for item in s.split(','):
        n, v, c = item.split(':')
        out.append((unhex(n), unhex(v), c))
    return out


def strip_ann(op):
    return op.split('#', 1)[0].split()


def ann_of(op):
    a = {}
    if '#' in op:
        for kv in op.split('#', 1)[1].split():
            if '=' in kv:
                k, v = kv.split('=', 1)
                a[k] = v
    return a


# ======================================================================================================
# pure codecs
# ======================================================================================================
def judge_c11(ops, rep, ctx):
    """integer codec against section 5.1 (refmodel.int_octets / int_decode)."""
    F = []
    cap_cont = ctx.get('cap_cont')     # max continuation octets the implementation admits (None = unbounded)
    for i, (op, r) in enumerate(zip(ops, rep)):
        t = strip_ann(op)
        if t[0] in ('ienc', 'ienchex'):
            n, N = (int(t[1]) if t[0] == 'ienc' else int.from_bytes(unhex(t[1]), 'big')), int(t[2])
            shown = ('%d' % n) if abs(n) < (1 << 300) else ('0x%x (%d bits)' % (n, n.bit_length()))
            if n < 0 or N < 1 or N > 8:
                if r != 'esc ValueError':
                    F.append(Failure(i, 'ienc-not-refused', 'encode_integer(%s,%d) must be refused with ValueError, got %s' % (shown, N, r)))
            else:
                want = 'ok ' + hx(int_octets(n, N))
                if r != want:
                    F.append(Failure(i, 'ienc-wire', 'encode_integer(%s,%d) = %s, section 5.1 octets are %s' % (shown, N, r[:200], want[:200])))
        elif t[0] == 'idec':
            data, N = unhex(t[1]), int(t[2])
            if N < 1 or N > 8:
                if r != 'esc ValueError':
                    F.append(Failure(i, 'idec-not-refused', 'decode_integer(..,%d) must be refused with ValueError, got %s' % (N, r)))
                continue
            try:
                v, pos, cont = int_decode(data, N)
                want = 'ok %s %d' % (hex(v), pos)
                if r == want:
                    continue
                # latitude: an encoding with more octets than a 64-bit value needs may be refused
                if cont > 10 and r == 'err HPACKDecodingError':
                    continue
                F.append(Failure(i, 'idec-value', 'decode_integer(%s,%d) = %s, section 5.1 gives %s (continuation octets: %d)' % (t[1][:80], N, r, want, cont)))
            except RefError:
                if r != 'err HPACKDecodingError':
                    F.append(Failure(i, 'idec-truncated', 'decode_integer(%s,%d) on truncated input = %s, must raise the decoding error' % (t[1][:80], N, r)))
    return F


def judge_c12(ops, rep, ctx):
    F = []
    for i, (op, r) in enumerate(zip(ops, rep)):
        t = strip_ann(op)
        if t[0] == 'henc':
            s = unhex(t[1])
            want = 'ok ' + hx(huff_encode(s))
            if r != want:
                F.append(Failure(i, 'henc-bits', 'HuffmanEncoder.encode(%s) = %s, Appendix B gives %s' % (t[1][:60], r[:80], want[:80])))
            else:
                # round trip through the real decoder is judged by C13's stream; here through the reference decoder
                try:
                    if huff_decode(unhex(r[3:])) != s:
                        F.append(Failure(i, 'henc-roundtrip', 'output does not decode to the input'))
                except RefError as e:
                    F.append(Failure(i, 'henc-roundtrip', 'output is not valid Huffman data: %s' % e.why))
        elif t[0] == 'hrt':        # encode then decode with the real functions
            if r != 'ok ' + t[1]:
                F.append(Failure(i, 'henc-roundtrip', 'decode_huffman(encode(%s)) = %s' % (t[1][:60], r[:80])))
    return F


def judge_c13(ops, rep, ctx):
    F = []
    for i, (op, r) in enumerate(zip(ops, rep)):
        t = strip_ann(op)
        if t[0] != 'hdec':
            continue
        w = unhex(t[1])
        try:
            want = 'ok ' + hx(huff_decode(w))
        except RefError:
            want = 'err HPACKDecodingError'
        if r != want:
            F.append(Failure(i, 'hdec-accept' if r.startswith('ok') else ('hdec-reject' if want.startswith('ok') else 'hdec-class'),
                             'decode_huffman(%s) = %s, Appendix B inverse gives %s' % (t[1][:60], r[:80], want[:80])))
    return F


# ======================================================================================================
# HeaderTable directly (C06, C14)
# ======================================================================================================
def _check_dump(i, td, ref, F, who, need_cur=True):
    """C06 clauses on one dump against the reference table"""
    if not td.ok:
        F.append(Failure(i, 'no-dump', who + ': state not observable')); return
    sz = td.size()
    if sz > td.max:
        F.append(Failure(i, 'over-max', '%s: table holds %d octets, maximum is %d' % (who, sz, td.max)))
    if td.cur is not None and td.cur != sz:
        F.append(Failure(i, 'accounting', '%s: size accounting says %d, entries sum to %d' % (who, td.cur, sz)))
    if ref is not None:
        if td.max != ref.maxsize:
            F.append(Failure(i, 'max-differs', '%s: maximum %d, expected %d' % (who, td.max, ref.maxsize)))
        if td.entries != list(ref.entries):
            F.append(Failure(i, 'eviction', '%s: entries %s, RFC 4.4 eviction gives %s' % (
                who, [(hx(n)[:16], hx(v)[:16]) for n, v in td.entries][:6], [(hx(n)[:16], hx(v)[:16]) for n, v in list(ref.entries)][:6])))


def judge_table(ops, rep, ctx, want=('c06', 'c14')):
    F = []
    tabs = {}
    for i, (op, r) in enumerate(zip(ops, rep)):
        t = strip_ann(op)
        k = t[0]
        if k == 'tnew':
            tabs[t[1]] = RefTable()
            if 'c06' in want:
                _check_dump(i, TableDump(r), tabs[t[1]], F, 'HeaderTable()')
        elif k == 'tcopy' and t[2] in tabs:
            import copy as _copy
            tabs[t[1]] = _copy.deepcopy(tabs[t[2]])
            head, st = split_reply(r)
            if head != 'ok':
                F.append(Failure(i, 'table-op-raised', 'copying a HeaderTable raised %s' % head))
            elif 'c06' in want or 'c14' in want:
                _check_dump(i, TableDump(st), tabs[t[1]], F, 'copy of a HeaderTable')
        elif k in ('tadd', 'tmax', 'tdump') and t[1] in tabs:
            rt = tabs[t[1]]
            if k == 'tadd':
                rt.add(unhex(t[2]), unhex(t[3]))
            elif k == 'tmax':
                rt.set_max(int(t[2]))
            head, st = split_reply(r)
            if head != 'ok':
                F.append(Failure(i, 'table-op-raised', '%s raised %s' % (k, head)))
            if 'c06' in want:
                _check_dump(i, TableDump(st), rt, F, op.split('#')[0][:60])
        elif k == 'tget' and t[1] in tabs and 'c14' in want:
            rt = tabs[t[1]]
            idx = int(t[2])
            try:
                n, v = rt.get(idx)
                w = 'ok %s:%s' % (hx(n), hx(v))
            except RefError:
                w = 'err InvalidTableIndexError'
            if r != w:
                F.append(Failure(i, 'index-space', 'get_by_index(%d) = %s, expected %s (dynamic entries: %d)' % (idx, r[:80], w[:80], len(rt.entries))))
        elif k == 'tsearch' and t[1] in tabs and 'c14' in want:
            rt = tabs[t[1]]
            n, v = unhex(t[2]), unhex(t[3])
            addr = rt.addressable()
            if r == 'none':
                if any(a == n for a, _ in addr):
                    # not a C14 clause (soundness only), but C19 relies on completeness; record softly
                    ctx.setdefault('notes', []).append('search missed name at op %d' % i)
                continue
            m = re.match(r'(\d+) ([PN])$', r)
            if not m:
                F.append(Failure(i, 'search-raised', 'search raised %s' % r)); continue
            idx, kind = int(m.group(1)), m.group(2)
            if not (1 <= idx <= len(addr)):
                F.append(Failure(i, 'search-sound', 'search reports index %d, out of range' % idx)); continue
            an, av = addr[idx - 1]
            if an != n or (kind == 'P' and av != v):
                F.append(Failure(i, 'search-sound', 'search(%s,%s) reports index %d (%s) which resolves to (%s,%s)' % (hx(n)[:20], hx(v)[:20], idx, kind, hx(an)[:20], hx(av)[:20])))
    return F


def judge_c06(ops, rep, ctx):
    return judge_table(ops, rep, ctx, ('c06',)) + judge_endpoints(ops, rep, ctx, {'c06'})


def judge_c14(ops, rep, ctx):
    return judge_table(ops, rep, ctx, ('c14',)) + judge_endpoints(ops, rep, ctx, {'c14'})


# ======================================================================================================
# Encoder / Decoder histories: one simulation, many clauses
# ======================================================================================================
class EncShadow:
    """what an independent RFC peer makes of everything a real Encoder emitted"""
    def __init__(self):
        self.peer = RefDecoder(list_limit=BIG)
        self.peer.allowed = BIG
        self.size_in_force = 4096        # as of the previous block
        self.assigned = []               # values set since the previous block
        self.broken = False              # peer lost sync (after a reported failure): stop judging this encoder


def judge_endpoints(ops, rep, ctx, clauses):
    """
    Replays the op stream against reference decoders/tables and judges the implementation's replies.
    clauses subset of: c01 c02 c03 c04 c05 c06 c07 c08 c09 c10 c14 c15 c17 c19
    """
    F = []
    encs, decs, lastout, lasthdrs = {}, {}, {}, {}
    known = ctx.setdefault('known_hits', [])

    def fail(i, sig, text):
        F.append(Failure(i, sig, text))

    for i, (op, r) in enumerate(zip(ops, rep)):
        t = strip_ann(op)
        k = t[0]
        head, st = split_reply(r)
        # -------------------------------------------------------------------------------- encoder side
        if k == 'enew':
            encs[t[1]] = EncShadow()
        elif k == 'esize' and t[1] in encs:
            es = encs[t[1]]
            es.assigned.append(int(t[2]))
            if head != 'ok':
                fail(i, 'esize-raised', 'header_table_size = %s raised %s' % (t[2], head))
            td = TableDump(st)
            if 'c06' in clauses and td.ok:
                _check_dump(i, td, None, F, 'encoder after ' + op[:40])
                if td.max != int(t[2]):
                    fail(i, 'max-differs', 'encoder: maximum %d after assigning %s' % (td.max, t[2]))
        elif k == 'ecopy' and t[2] in encs:
            import copy as _copy
            encs[t[1]] = _copy.deepcopy(encs[t[2]])
            lastout[t[1]] = lastout.get(t[2], b''); lasthdrs[t[1]] = lasthdrs.get(t[2], [])
            if head != 'ok' and {'c01', 'c03', 'c09', 'c10', 'c15', 'c19', 'c20'} & clauses:
                fail(i, 'copy-raised', 'copying a live Encoder (%s) raised %s' % (t[3], head))
            td = TableDump(st)
            if 'c06' in clauses and td.ok:
                _check_dump(i, td, None, F, 'copy of an encoder')
        elif k == 'dcopy' and t[2] in decs:
            import copy as _copy
            decs[t[1]] = _copy.deepcopy(decs[t[2]])
            if head != 'ok' and {'c01', 'c02', 'c04', 'c10', 'c20'} & clauses:
                fail(i, 'copy-raised', 'copying a live Decoder (%s) raised %s' % (t[3], head))
            if 'c06' in clauses and decs[t[1]].sync:
                _check_dump(i, TableDump(st), decs[t[1]].table, F, 'copy of a decoder')
        elif k in ('eenc', 'eapi', 'eev', 'eadd') and t[1] in encs:
            es = encs[t[1]]
            if es.broken:
                if 'c06' in clauses:
                    _check_dump(i, TableDump(st), None, F, 'encoder (after an earlier failed encode)')
                continue
            huff = t[2] == '1'
            inblock = []          # sizes the header generator assigns while the block is being encoded (eev)
            nfirst = None          # number of fields yielded before the first such assignment
            if k == 'eenc':
                hs = [] if t[3:] == ['-'] else [(unhex(a), unhex(b), c == '1') for a, b, c in (x.split(':') for x in t[3:])]
            elif k == 'eadd':      # Encoder.add((name, value), sensitive, huffman) called directly: one field, no prologue
                hs = [(unhex(t[4]), unhex(t[5]), t[3] == '1')]
            elif k == 'eev':
                ftoks = []
                for x in t[3:]:
                    if x.startswith('!size='):
                        inblock.append(int(x[6:]))
                        if nfirst is None:
                            nfirst = len(ftoks)
                    else:
                        ftoks.append(x)
                hs = _norm_api('gen', ftoks)
            else:
                hs = _norm_api(t[3], t[4:])
            if not head.startswith('ok'):
                malformed = k == 'eapi' and any(x.startswith('X') for x in t[4:])
                if not malformed and {'c01', 'c03', 'c09', 'c10', 'c15', 'c19'} & clauses:
                    fail(i, 'encode-raised', 'encode raised %s' % head)
                if 'c06' in clauses:
                    _check_dump(i, TableDump(st), None, F, 'encoder after an encode() that raised')
                es.broken = True        # the caller broke the connection: nothing the peer can be compared with
                es.c06_only = True
                continue
            data = unhex(head[3:]) if len(head) > 2 else b''
            lastout[t[1]] = data
            lasthdrs[t[1]] = hs
            before = es.peer.table.copy()
            trace = []
            try:
                got = es.peer.decode(data, trace)
            except RefError as e:
                if {'c03', 'c01', 'c09', 'c19', 'c15'} & clauses:
                    fail(i, 'emitted-malformed', 'an independent RFC 7541 decoder rejects the emitted block %s: %s (%s) after %d representations' % (
                        hx(data)[:80], e.cls, e.why, len(trace)))
                es.broken = True
                continue
            # ---- C03: meaning
            if 'c03' in clauses or 'c01' in clauses:
                if [(n, v) for n, v, _ in got] != [(n, v) for n, v, _ in hs]:
                    fail(i, 'emitted-meaning', 'emitted block decodes (independent decoder) to %s, input was %s' % (_short(got), _short(hs)))
            kinds = [x['kind'] for x in trace]
            upd = [x for x in trace if x['kind'] == 'U']
            nupd = len(upd)
            if 'c03' in clauses or 'c09' in clauses:
                if any(kk == 'U' for kk in kinds[nupd:]) or kinds[:nupd] != ['U'] * nupd:
                    fail(i, 'update-position', 'table-size update after the first field: kinds %s' % ''.join(kinds))
                if 'c03' in clauses:
                    for x in trace:
                        if x.get('hname') or x.get('hvalue'):
                            pass      # padding validity is implied by the reference decoder accepting the string
            # ---- C09
            if 'c09' in clauses and not inblock and k != 'eadd':
                vals = [x['size'] for x in upd]
                td = TableDump(st)
                encmax = td.max if td.ok else (es.assigned[-1] if es.assigned else es.size_in_force)
                eff = []
                cur = es.size_in_force
                for v in es.assigned:          # the effective changes, as the statement reads them
                    if v != cur:
                        eff.append(v); cur = v
                final = cur
                if es.peer.table.maxsize != encmax:
                    fail(i, 'size-not-signalled', 'after sizes %s (in force before: %d) the block %s leaves a decoder at table size %d, the encoder is at %d' % (
                        es.assigned, es.size_in_force, hx(data)[:40], es.peer.table.maxsize, encmax))
                elif es.assigned and min(es.assigned) != es.size_in_force and min(es.assigned) not in vals:
                    fail(i, 'smallest-not-signalled', 'sizes set since the previous block: %s (in force before: %d); updates emitted: %s — the smallest (%d) is missing' % (
                        es.assigned, es.size_in_force, vals, min(es.assigned)))
                else:
                    stray = [u for u in vals if u not in es.assigned]
                    if stray:
                        fail(i, 'update-never-set', 'updates %s emitted, the application set %s' % (vals, es.assigned))
                    over = [u for u in vals if u > final]
                    if over and not stray:
                        # D5: every recorded change is emitted, intermediate values above the final one included
                        known.append((i, 'update-exceeds-size-in-force', 'sizes %s -> updates %s: %s exceed(s) the size in force %d' % (es.assigned, vals, over, final)))
            # ---- C15 / C19: representation choice, against the table as it was
            addr = list(STATIC) + list(before.entries)
            j = 0
            tbl_before = before
            fi = nupd
            tcur = before.copy()
            for u in upd:
                tcur.set_max(u['size'])
            for fidx, ((n, v, s), x) in enumerate(zip(hs, trace[nupd:])):
                if nfirst is not None and fidx >= nfirst:
                    break          # the encoder's table was resized under the generator's feet: the peer's view lags by design
                addr = tcur.addressable()
                exact = (n, v) in addr
                if 'c19' in clauses and exact and x['kind'] != 'I':
                    fail(i, 'not-indexed', 'field (%s,%s) equals an addressable entry (index %d) but was emitted as kind %s' % (
                        hx(n)[:24], hx(v)[:24], addr.index((n, v)) + 1, x['kind']))
                if 'c19' in clauses and x['kind'] == 'I' and isinstance(x.get('index'), int):
                    # "sent as a single index *resolving to it*": the index must name this very field on a peer in step
                    j_ = x['index']
                    got_ = addr[j_ - 1] if 1 <= j_ <= len(addr) else None
                    if got_ != (n, v):
                        fail(i, 'index-resolves-elsewhere', 'field (%s,%s) was emitted as index %d, which a peer in step resolves to %s' % (
                            hx(n)[:24], hx(v)[:24], j_, ('(%s,%s)' % (hx(got_[0])[:24], hx(got_[1])[:24])) if got_ else 'nothing (out of range)'))
                if 'c15' in clauses and s:
                    if x['kind'] == 'I':
                        if not exact:
                            fail(i, 'sensitive-indexed-wrong', 'sensitive field emitted as an index that is not an exact match')
                    elif x['kind'] != 'N':
                        fail(i, 'sensitive-indexable', 'sensitive field (%s, …) emitted as kind %s (must be never-indexed literal or exact index)' % (hx(n)[:24], x['kind']))
                if x['kind'] == 'L':
                    tcur.add(n, v)
            # ---- encoder table vs what the peer now holds (C03/C10/C15/C06 view through the encoder's own dump)
            td = TableDump(st)
            if td.ok:
                if 'c06' in clauses:
                    _check_dump(i, td, None, F, 'encoder after encode')
                if {'c10', 'c03', 'c15', 'c19'} & clauses and not inblock:
                    if td.entries != list(es.peer.table.entries) or td.max != es.peer.table.maxsize:
                        sens = [(n, v) for n, v, s in hs if s]
                        leak = [e for e in td.entries if e in sens and e not in list(es.peer.table.entries)]
                        sig = 'sensitive-inserted' if (leak and 'c15' in clauses) else 'tables-differ'
                        fail(i, sig, 'encoder table (max %d) %s differs from what a peer holds after the block (max %d) %s' % (
                            td.max, _short(td.entries), es.peer.table.maxsize, _short(list(es.peer.table.entries))))
                        es.broken = True
            es.size_in_force = es.peer.table.maxsize
            es.assigned = list(inblock)       # what the generator assigned during this block is owed to the NEXT block
        # -------------------------------------------------------------------------------- decoder side
        elif k == 'dnew':
            rd = RefDecoder(list_limit=int(t[2]) if len(t) > 2 else 65536)
            decs[t[1]] = rd
            rd.sync = True
            td = TableDump(st)
            if td.ok and len(t) > 2 and td.limit != int(t[2]) and {'c07', 'c02', 'c05'} & clauses:
                fail(i, 'limit-not-configured', 'Decoder(max_header_list_size=%s) reports limit %s' % (t[2], td.limit))
        elif k in ('dallow', 'dsize', 'dlimit') and t[1] in decs:
            rd = decs[t[1]]
            if k == 'dallow':
                rd.allowed = int(t[2])
            elif k == 'dsize':
                rd.table.set_max(int(t[2]))
            else:
                rd.list_limit = int(t[2])
            if head != 'ok' and 'c04' in clauses:
                fail(i, 'setter-raised', '%s raised %s' % (k, head))
            if 'c06' in clauses and rd.sync:
                _check_dump(i, TableDump(st), rd.table, F, 'decoder after ' + op[:40])
        elif k in ('ddec', 'pipe') and t[1] in decs:
            rd = decs[t[1]]
            raw = t[2] == '1'
            data = lastout.get(t[3], b'') if k == 'pipe' else unhex(t[3])
            before_entries = list(rd.table.entries)
            before_max = rd.table.maxsize
            trace = []
            try:
                exp = rd.decode(data, trace)
                want = None
            except RefError as e:
                exp = None
                want = e.cls
            cont = rd.last_maxcont
            # text mode: invalid UTF-8 is the general decoding error (after the block was processed)
            if exp is not None and not raw and not all(valid_utf8(n) and valid_utf8(v) for n, v, _ in exp):
                exp = None; want = DEC
            # ---- C04
            if 'c04' in clauses and head.startswith('esc'):
                fail(i, 'escape', 'decode(%s) let %s escape (documented family only)' % (hx(data)[:80], head[4:]))
                rd.sync = False
                continue
            if head.startswith('esc') and rd.sync:
                # an undocumented exception where the property prescribes an outcome
                if exp is None:
                    relevant = 'c05' in clauses or ('c07' in clauses and want == OVER) or ('c08' in clauses and want == SIZE)
                    if relevant:
                        fail(i, 'error-class', 'block %s raised %s, the defect calls for %s' % (hx(data)[:80], head[4:], want))
                elif {'c02', 'c05', 'c01', 'c07', 'c08', 'c10'} & clauses:
                    fail(i, 'wellformed-rejected', 'well-formed block %s raised %s (expected %s)' % (hx(data)[:80], head[4:], _short(exp)))
                rd.sync = False
            if not rd.sync:
                continue
            accepted = head.startswith('ok')
            # the one latitude: integers with more continuation octets than a 64-bit value needs may be refused
            lat = cont > 10 and head == 'err ' + DEC
            if lat:
                rd.sync = False       # reference went on, implementation refused: stop comparing this decoder
                continue
            # ---- accept / reject, class (C05, C02, C07, C08)
            if exp is not None and not accepted:
                if {'c02', 'c05', 'c01', 'c07', 'c08', 'c10'} & clauses or ('c14' in clauses and head == 'err ' + IDX):
                    sig = 'wellformed-rejected'
                    if head == 'err ' + OVER and 'c07' in clauses:
                        sig = 'limit-boundary'
                    fail(i, sig, 'well-formed block %s rejected with %s (expected %s)' % (hx(data)[:80], head, _short(exp)))
                rd.sync = False
                continue
            if exp is None and accepted:
                sig = {OVER: 'oversized-accepted', SIZE: 'table-size-accepted', IDX: 'bad-index-accepted'}.get(want, 'malformed-accepted')
                relevant = bool({'c05', 'c02'} & clauses) or ('c07' in clauses and want == OVER) or ('c08' in clauses and want == SIZE) \
                    or ('c14' in clauses and want == IDX)
                if relevant:
                    fail(i, sig, 'block %s accepted (%s); it must be refused with %s' % (hx(data)[:80], head[:80], want))
                rd.sync = False
                continue
            if exp is None and not accepted:
                if head != 'err ' + want:
                    relevant = 'c05' in clauses or ('c07' in clauses and OVER in (want, head[4:])) or ('c08' in clauses and SIZE in (want, head[4:]))
                    if relevant:
                        fail(i, 'error-class', 'block %s refused with %s, the defect calls for %s' % (hx(data)[:80], head, want))
                # state after a refused block: what was applied before the defect stays (sequential decoder)
                td = TableDump(st)
                if td.ok and {'c06', 'c08'} & clauses:
                    _check_dump(i, td, rd.table if 'c06' in clauses else None, F, 'decoder after refused block')
                    if 'c08' in clauses and td.max > max(before_max, rd.allowed):
                        fail(i, 'table-enlarged', 'refused block enlarged the table to %d (permitted %d)' % (td.max, rd.allowed))
                continue
            # ---- accepted by both: fields, classes, table
            got = parse_headers(head[3:])
            if {'c02', 'c01', 'c05', 'c15', 'c07', 'c14'} & clauses:
                if [(n, v) for n, v, _ in got] != [(n, v) for n, v, _ in exp]:
                    fail(i, 'fields-differ', 'decode(%s) = %s, RFC 7541 meaning is %s' % (hx(data)[:80], _short(got), _short(exp)))
                    rd.sync = False
                    continue
            if {'c02', 'c15'} & clauses:
                cls = [c for _, _, c in got]
                wantcls = ['N' if nv else 'P' for _, _, nv in exp]
                if cls != wantcls:
                    fail(i, 'tuple-class', 'tuple classes %s, expected %s (N = never-indexed literal only)' % (''.join(cls), ''.join(wantcls)))
            if 'c07' in clauses:
                sz = sum(esize(n, v) for n, v, _ in got)
                if sz > rd.list_limit:
                    fail(i, 'list-over-limit', 'returned list of %d octets, limit %d' % (sz, rd.list_limit))
            td = TableDump(st)
            if td.ok:
                if 'c08' in clauses and td.max > rd.allowed:
                    fail(i, 'size-above-permitted', 'after an accepted block the table maximum is %d, permitted %d' % (td.max, rd.allowed))
                if {'c02', 'c06', 'c10', 'c15', 'c08'} & clauses:
                    _check_dump(i, td, rd.table, F, 'decoder after block')
                    if td.entries != list(rd.table.entries) or td.max != rd.table.maxsize:
                        rd.sync = False
                if 'c17' in clauses:
                    bad = [tg for tg in td.tags if tg != ('o', 'o')]
                    if bad:
                        fail(i, 'view-stored', 'decoder table stores %d string(s) that are not bytes objects (views of the input buffer)' % (2 * len(bad)))
            # ---- C01 / C10 on connections
            if k == 'pipe' and {'c01', 'c10'} & clauses:
                hs = lasthdrs.get(t[3], [])
                if 'c01' in clauses and [(n, v) for n, v, _ in got] != [(n, v) for n, v, _ in hs]:
                    fail(i, 'roundtrip', 'decoded %s, encoded %s' % (_short(got), _short(hs)))
        elif k == 'dget' and t[1] in decs and decs[t[1]].sync and {'c14', 'c02'} & clauses:
            rd = decs[t[1]]
            try:
                n, v = rd.table.get(int(t[2]))
                w = 'ok %s:%s' % (hx(n), hx(v))
            except RefError:
                w = 'err InvalidTableIndexError'
            if r != w:
                fail(i, 'index-space', 'decoder get_by_index(%s) = %s, expected %s' % (t[2], r[:80], w[:80]))
        elif k == 'cmp' and 'c10' in clauses:
            pass
    return F


def _short(hs):
    out = []
    for h in list(hs)[:6]:
        out.append('(' + ','.join((hx(x)[:20] if isinstance(x, (bytes, bytearray)) else str(x)) for x in h) + ')')
    if len(hs) > 6:
        out.append('…%d more' % (len(hs) - 6))
    return '[' + ' '.join(out) + ']'


def _norm_api(cont, fs):
    """normalised (name, value, sensitive) list of an eapi op, by the documented rules"""
    fs = [] if fs == ['-'] else fs
    out = []
    if cont == 'dict':
        items = {}
        for s in fs:
            k, n, v = s.split(':')
            items[(k[1], unhex(n))] = unhex(v)     # 'a' and b'a' are different dict keys; same key twice overwrites
        items = [(kk[1], vv) for kk, vv in items.items()]
        sp = [kv for kv in items if kv[0].startswith(b':')] + [kv for kv in items if not kv[0].startswith(b':')]
        return [(n, v, False) for n, v in sp]
    for s in fs:
        k, n, v = s.split(':')
        sens = k[0] in 'NS' or (k[0] == '3' and k[1] in 't1y2')
        out.append((unhex(n), unhex(v), sens))
    return out


# ------------------------------------------------------------------------------------------------------
def mk(clauses):
    return lambda ops, rep, ctx: judge_endpoints(ops, rep, ctx, set(clauses))


def judge_c10(ops, rep, ctx):
    """both REAL tables after every block of a connection (plus everything C01 checks)"""
    F = judge_endpoints(ops, rep, ctx, {'c10'})
    last_enc = {}
    app_sized = set()
    for i, (op, r) in enumerate(zip(ops, rep)):
        t = strip_ann(op)
        head, st = split_reply(r)
        if t[0] == 'dsize':
            # the application assigned the DECODER's table size itself (no update on the wire): outside the histories C10
            # quantifies over (encoder table-size changes); the two maxima then differ by the application's own doing
            app_sized.add(t[1])
        if t[0] in ('eenc', 'eapi') and head.startswith('ok'):
            last_enc[t[1]] = TableDump(st)
        elif t[0] in ('eev', 'eadd', 'esize', 'ecopy'):
            # the size was assigned while the block was being produced (or fields were added outside encode, or the
            # encoder is a fresh copy): an update may be pending, and until the next block signals it the decoder's table
            # is the encoder's only modulo that update -- the endpoint judge follows this case; no strict comparison here
            last_enc.pop(t[1], None)
        elif t[0] == 'pipe' and head.startswith('ok') and t[3] in last_enc and t[1] not in app_sized:
            te, tdd = last_enc[t[3]], TableDump(st)
            if te.ok and tdd.ok and (te.entries != tdd.entries or te.max != tdd.max):
                F.append(Failure(i, 'lockstep', 'after the block: encoder table (max %d) %s, decoder table (max %d) %s' % (
                    te.max, _short(te.entries), tdd.max, _short(tdd.entries))))
    return F


def judge_c18(ops, rep, ctx):
    """equivalent forms => identical output and state (groups / pairs are given in ctx)"""
    F = []
    byid = {}
    for i, (op, r) in enumerate(zip(ops, rep)):
        t = strip_ann(op)
        if t[0] in ('eapi', 'eenc', 'esize'):
            byid.setdefault(t[1], []).append((i, r))
        if t[0] == 'ddec':
            byid.setdefault('d' + t[1], []).append((i, r))
    for ids in ctx.get('groups', []):
        base = byid.get(str(ids[0]), [])
        for other in ids[1:]:
            o = byid.get(str(other), [])
            for (i0, r0), (i1, r1) in zip(base, o):
                if r0 != r1:
                    F.append(Failure(i1, 'forms-differ', 'equivalent input forms give different results: %s  vs  %s' % (r0[:120], r1[:120])))
                    break
    for a, b in ctx.get('pairs', []):
        ra, rb = byid.get('d%d' % a, []), byid.get('d%d' % b, [])
        for (i0, r0), (i1, r1) in zip(ra, rb):
            h0, s0 = split_reply(r0)
            h1, s1 = split_reply(r1)
            if s0 != s1:
                F.append(Failure(i1, 'modes-state', 'raw and text mode leave different state: %s  vs  %s' % (s0[:100], s1[:100]))); break
            if h1.startswith('ok') and h0 != h1:
                F.append(Failure(i1, 'modes-fields', 'text mode returned %s, raw mode %s' % (h1[:100], h0[:100]))); break
            if h0.startswith('ok') and not h1.startswith('ok'):
                hs = parse_headers(h0[3:])
                if all(valid_utf8(n) and valid_utf8(v) for n, v, _ in hs):
                    F.append(Failure(i1, 'modes-fields', 'raw mode returned %s, text mode raised %s although all strings are UTF-8' % (h0[:100], h1))); break
                if h1 != 'err HPACKDecodingError':
                    F.append(Failure(i1, 'modes-class', 'text mode raised %s on non-UTF-8 strings' % h1)); break
            if not h0.startswith('ok') and h0 != h1:
                F.append(Failure(i1, 'modes-error', 'raw mode: %s, text mode: %s' % (h0, h1))); break
    # the absolute meaning of the forms (so that a change hitting all variants alike is still seen)
    F += judge_endpoints(ops, rep, ctx, {'c03', 'c15'})
    return F


JUDGES = {
    'C01': mk(['c01', 'c10']),
    'C02': mk(['c02']),
    'C03': mk(['c03']),
    'C04': mk(['c04']),
    'C05': mk(['c05']),
    'C06': judge_c06,
    'C07': mk(['c07']),
    'C08': mk(['c08']),
    'C09': mk(['c09']),
    'C10': judge_c10,
    'C11': judge_c11,
    'C12': judge_c12,
    'C13': judge_c13,
    'C14': judge_c14,
    'C15': mk(['c15']),
    'C17': mk(['c17']),
    'C18': judge_c18,
    'C19': mk(['c19']),
    'C20': mk(['c01', 'c02', 'c10']),     # per-instance reference semantics: an instance's results depend on its own history only
}
