"""
Implementation-only probes for the properties whose truth lives partly in the runtime (C16 cost,
C17 buffer retention, C20 isolation). Each returns
  {'failures': [judges.Failure(index=<probe dict>, sig, text)], 'known_hits': [], 'evaluations': n,
   'distinct_nontrivial': n, 'summary': {...}}
"""
import os, sys, json, subprocess, time
import runner
from judges import Failure

HERE = os.path.dirname(os.path.abspath(__file__))


def _run(script, args, env=None, timeout=900):
    e = dict(os.environ)
    e['HPACK_REPO'] = runner.repo_dir()
    e['PYTHONDONTWRITEBYTECODE'] = '1'
    e.setdefault('PYTHONHASHSEED', '0')
    if env:
        e.update(env)
    p = subprocess.run([runner.python_exe(), os.path.join(HERE, script)] + [str(a) for a in args], capture_output=True, text=True, env=e, timeout=timeout)
    if p.returncode != 0:
        return {'error': (p.stderr.strip().splitlines() or ['rc=%d' % p.returncode])[-1][:300]}
    try:
        return json.loads(p.stdout.strip().splitlines()[-1])
    except Exception:
        return {'error': 'unparsable probe output: ' + p.stdout[-200:]}


# ---------------------------------------------------------------------------------------------------- C16
def cost(tier, seed, info):
    import cost_probe
    fams = cost_probe.FAMILIES
    out = {'failures': [], 'known_hits': [], 'evaluations': 0, 'distinct_nontrivial': 0, 'summary': {'work': {}, 'time': {}}}
    suspects = []
    # (1) deterministic work units of the cost model, measured on the real code
    from concurrent.futures import ThreadPoolExecutor
    with ThreadPoolExecutor(max_workers=8) as ex:          # work units are counted, not timed: parallel runs do not disturb them
        work_runs = dict(zip([(f, n) for f in fams for n in (256, 1024)],
                             ex.map(lambda fn: _run('cost_probe.py', [fn[0], fn[1], 'work']), [(f, n) for f in fams for n in (256, 1024)])))
    for f in fams:
        a = work_runs[(f, 256)]
        b = work_runs[(f, 1024)]
        out['evaluations'] += 2
        if 'error' in a or 'error' in b:
            out['failures'].append(Failure({'family': f, 'n': 1024, 'mode': 'work'}, 'probe-crash', 'cost probe crashed on %s: %s' % (f, a.get('error') or b.get('error'))))
            continue
        out['distinct_nontrivial'] += 2
        ratio = b['work'] / max(a['work'], 1)
        lin = b['len'] / max(a['len'], 1)
        out['summary']['work'][f] = {'w256': a['work'], 'w1024': b['work'], 'ratio': round(ratio, 2), 'len_ratio': round(lin, 2),
                                    'copy': b['copy'], 'limb': b['limb'], 'result': b['result']}
        lratio = b['lines'] / max(a['lines'], 1)
        if b['lines'] > 3000 and lratio > 1.6 * lin + 0.5:
            # executed lines of the library itself grow faster than the input: deterministic, needs no clock
            out['failures'].append(Failure({'family': f, 'n': 1024, 'n0': 256, 'mode': 'lines'}, 'superlinear-work',
                                           'family %s: the library executes %d lines on %d octets and %d lines on %d octets (x%.1f work for x%.1f input)' % (
                                               f, a['lines'], a['len'], b['lines'], b['len'], lratio, lin)))
        elif b['work'] > 3000 and ratio > 1.6 * lin + 0.5:
            suspects.append((f, 'work units grow x%.1f for x%.1f input (lines %d, limb %d, copied %d)' % (ratio, lin, b['lines'], b['limb'], b['copy'])))
        if b['result'].startswith('esc'):
            out['failures'].append(Failure({'family': f, 'n': 1024, 'mode': 'work'}, 'escape', 'family %s: %s' % (f, b['result'])))
    # (1b) tiny blocks that declare something large: neither time nor memory may follow the declared number
    for f in cost_probe.TINY:
        for n in ((1 << 20, 1 << 26) if tier == 'quick' else (1 << 16, 1 << 20, 1 << 24, 1 << 26, 1 << 28)):
            r = _run('cost_probe.py', [f, n, 'tiny'])
            out['evaluations'] += 1
            if 'error' in r:
                out['failures'].append(Failure({'family': f, 'n': n, 'mode': 'tiny'}, 'probe-crash', 'cost probe crashed on %s: %s' % (f, r['error']))); break
            out['distinct_nontrivial'] += 1
            out['summary'].setdefault('tiny', {})[f + '/%d' % n] = {'len': r['len'], 'time': round(r['time'], 4), 'peak': r['peak'], 'result': r['result']}
            if r['peak'] > (2 << 20) or r['time'] > 0.5 or r['result'].startswith('esc'):
                out['failures'].append(Failure({'family': f, 'n': n, 'mode': 'tiny'}, 'cost-follows-declared-size',
                                               'family %s: a block of %d octets that declares %d costs %.3f s CPU and %d octets of memory (%s)' % (
                                                   f, r['len'], n, r['time'], r['peak'], r['result'])))
                break
    # (2) CPU time: modest sizes in the quick tier, large in the thorough tier / for suspects
    sizes = (1 << 12, 1 << 14, 1 << 16, 1 << 18) if tier == 'quick' else (1 << 12, 1 << 14, 1 << 16, 1 << 18, 1 << 20)
    def timed(f, szs, reps=3, mode='time'):
        """ascending sizes; stops as soon as one run needs more than 3 s of CPU (a super-linear family shows long
        before the large sizes; a linear one reaches them cheaply)"""
        res = []
        for n in szs:
            r = _run('cost_probe.py', [f, n, mode, reps if n < (1 << 16) else (2 if n < (1 << 18) else 1)], timeout=1800)
            out['evaluations'] += 1
            if 'error' in r:
                return None, r['error']
            res.append((n, r['len'], r['time']))
            if r['time'] > 3:
                break
        return res, None
    def judge_times(f, res):
        for (n0, l0, t0), (n1, l1, t1) in zip(res, res[1:]):
            growth = l1 / max(l0, 1)
            if t1 > 0.25 and t0 > 0 and t1 / max(t0, 1e-4) > 2.3 * growth:
                return 'family %s: CPU %.3fs at %d octets, %.3fs at %d octets (x%.1f time for x%.1f input)' % (f, t0, l0, t1, l1, t1 / max(t0, 1e-4), growth), {'family': f, 'n': n1, 'n0': n0}
        return None, None
    by_lines = {x.index.get('family') for x in out['failures'] if isinstance(x.index, dict) and x.index.get('mode') == 'lines'}
    for f in fams:
        if f in by_lines:
            continue          # already shown super-linear by counting executed lines: no need to time it
        res, err = timed(f, sizes)
        if res is None:
            out['failures'].append(Failure({'family': f, 'mode': 'time'}, 'probe-crash', 'cost probe crashed on %s: %s' % (f, err))); continue
        out['distinct_nontrivial'] += len(res)
        out['summary']['time'][f] = [(l, round(t, 4)) for _, l, t in res]
        txt, pr = judge_times(f, res)
        if txt:
            # confirm before reporting: three further rounds, each measuring the two sizes again and, straight afterwards, the
            # harness's own reference decoder (independent of the library, linear by construction) on plain literals of the
            # same two sizes. A loaded machine (cache / memory pressure from other jobs) inflates the large runs of every
            # Python workload alike and changes from minute to minute, so the family is reported only if in EVERY round it
            # is super-linear by the criterion above and grows at least 1.6 times faster than the control of that round.
            rounds = []
            txt2, pr2 = None, None
            for _round in range(3):
                res2, _ = timed(f, (pr['n0'], pr['n']), reps=3)
                t2, p2 = (None, None) if res2 is None else judge_times(f, res2)
                ctl = mine = None
                if t2:
                    resc, _ = timed('plain-literals', (pr['n0'], pr['n']), reps=3, mode='time-ref')
                    if resc and len(resc) == 2 and len(res2) == 2 and resc[0][2] > 0 and res2[0][2] > 0:
                        ctl = (resc[1][2] / resc[0][2]) / max(resc[1][1] / max(resc[0][1], 1), 1e-9)      # time growth / length growth
                        mine = (res2[1][2] / res2[0][2]) / max(res2[1][1] / max(res2[0][1], 1), 1e-9)
                        if mine < 1.6 * ctl:
                            t2 = None
                rounds.append({'superlinear': bool(t2), 'control_ratio': ctl, 'family_ratio': mine})
                if not t2:
                    txt2 = None
                    break
                txt2, pr2 = t2, p2
            out['summary'].setdefault('confirmations', []).append({'family': f, 'first': txt, 'confirmed': bool(txt2), 'rounds': rounds})
            if txt2:
                out['failures'].append(Failure(dict(pr2, mode='time'), 'superlinear-time', txt2))
    # (3) suspects from the work model: search at large sizes (this only runs when the tie is broken)
    flagged = {f.index.get('family') for f in out['failures'] if isinstance(f.index, dict)}
    for f, why in suspects:
        if f in flagged:
            continue
        res, err = timed(f, (1 << 11, 1 << 13, 1 << 15, 1 << 17, 1 << 19), reps=1)
        txt, pr = (None, None) if res is None else judge_times(f, res)
        if txt:
            out['failures'].append(Failure(dict(pr, mode='time'), 'superlinear-time', txt + ' — ' + why))
        else:
            info.setdefault('cost_tie_broken', []).append('%s: %s; timing up to 2^19 octets did not confirm: %s' % (f, why, res))
    out['summary']['suspects'] = [s for s in suspects]
    return out


def cost_replay(p):
    f = p['family']
    if p.get('mode') == 'tiny':
        r = _run('cost_probe.py', [f, p['n'], 'tiny'])
        if 'error' in r:
            return 'probe crashed: %s' % r
        if r['peak'] > (2 << 20) or r['time'] > 0.5 or r['result'].startswith('esc'):
            return 'family %s: a block of %d octets that declares %d costs %.3f s CPU and %d octets of memory (%s)' % (f, r['len'], p['n'], r['time'], r['peak'], r['result'])
        return None
    if p.get('mode') == 'work':
        r = _run('cost_probe.py', [f, p.get('n', 1024), 'work'])
        return ('family %s: %s' % (f, r)) if r.get('result', '').startswith('esc') or 'error' in r else None
    if p.get('mode') == 'lines':
        a = _run('cost_probe.py', [f, p.get('n0', 256), 'work'])
        b = _run('cost_probe.py', [f, p.get('n', 1024), 'work'])
        if 'error' in a or 'error' in b:
            return 'probe crashed: %s %s' % (a, b)
        lin = b['len'] / max(a['len'], 1)
        lratio = b['lines'] / max(a['lines'], 1)
        if b['lines'] > 3000 and lratio > 1.6 * lin + 0.5:
            return 'family %s: %d lines on %d octets, %d lines on %d octets' % (f, a['lines'], a['len'], b['lines'], b['len'])
        return None
    a = _run('cost_probe.py', [f, p.get('n0', p['n'] // 4), 'time', 2], timeout=1800)
    b = _run('cost_probe.py', [f, p['n'], 'time', 2], timeout=1800)
    if 'error' in a or 'error' in b:
        return 'probe crashed: %s %s' % (a, b)
    growth = b['len'] / max(a['len'], 1)
    if b['time'] > 0.25 and b['time'] / max(a['time'], 1e-4) > 2.3 * growth:
        return 'family %s: CPU %.3fs at %d octets, %.3fs at %d octets' % (f, a['time'], a['len'], b['time'], b['len'])
    return None


# ---------------------------------------------------------------------------------------------------- C17
def buffers(tier, seed, info):
    n = 60 if tier == 'quick' else 600
    r = _run('buffer_probe.py', [seed, n], timeout=3000)
    out = {'failures': [], 'known_hits': [], 'evaluations': r.get('evaluations', 0), 'distinct_nontrivial': r.get('evaluations', 0), 'summary': {'kinds': r.get('kinds')}}
    if 'error' in r:
        out['failures'].append(Failure({'probe': 'buffer'}, 'probe-crash', 'buffer probe crashed: ' + r['error']))
        return out
    for f in r['failures'][:3]:
        out['failures'].append(Failure({'probe': 'buffer', 'steps': f.get('steps'), 'sig': f['sig']}, f['sig'], f['text']))
    return out


def buffers_replay(p):
    if not p.get('steps'):
        # a fixed history of the probe (retention histories): they are deterministic, run them again
        r = _run('buffer_probe.py', [0, 0], timeout=3000)
        if 'error' in r:
            return 'probe crashed: ' + r['error']
        hits = [f for f in r['failures'] if f.get('sig') == p.get('sig')] or r['failures']
        return hits[0]['text'] if hits else None
    r = _run('buffer_probe.py', [0, 0, json.dumps(p['steps'])])
    if 'error' in r:
        return 'probe crashed: ' + r['error']
    return r['failures'][0]['text'] if r['failures'] else None


# ---------------------------------------------------------------------------------------------------- C20
def isolation(tier, seed, info):
    n = 6 if tier == 'quick' else 12
    rounds = 2 if tier == 'quick' else 8
    seeds_hash = ['0', '1', '4242'] if tier == 'quick' else ['0', '1', '2', '3', '4242', '99', '12345', 'random']
    out = {'failures': [], 'known_hits': [], 'evaluations': 0, 'distinct_nontrivial': 0, 'summary': {'runs': 0}}
    # first use in a process against later use, per well-known header name (children forked from a pristine process)
    fu = _run('multi_probe.py', [seed, 0, 'firstuse'])
    if 'error' in fu:
        out['failures'].append(Failure({'probe': 'multi', 'seed': seed, 'n': 0, 'mode': 'firstuse'}, 'probe-crash', 'first-use probe crashed: ' + fu['error']))
        return out
    out['evaluations'] += fu['n_ops']; out['summary']['first_use_names'] = len(fu['names'])
    bad = [nm for nm, a, b in zip(fu['names'], fu['alone'], fu['after']) if a != b]
    if bad:
        out['failures'].append(Failure({'probe': 'multi', 'seed': seed, 'n': 0, 'mode': 'firstuse'}, 'first-use-differs',
                                       'a history starting with header name(s) %s gives different results as the first use of the library in a process than after other instances were used' % bad[:5]))
        return out
    for rd in range(rounds):
        s = seed * 100 + rd
        base = _run('multi_probe.py', [s, n, 'isolated'])
        if 'error' in base:
            out['failures'].append(Failure({'probe': 'multi', 'seed': s, 'n': n, 'mode': 'isolated'}, 'probe-crash', 'isolation probe crashed: ' + base['error']))
            return out
        out['evaluations'] += base['n_ops']; out['distinct_nontrivial'] += base['n_ops']
        if base['static_before'] != base['static_after']:
            out['failures'].append(Failure({'probe': 'multi', 'seed': s, 'n': n, 'mode': 'isolated'}, 'static-modified', 'shared static tables / class attributes changed during the run'))
        variants = [('interleaved', '0'), ('reversed', '0'), ('warm', '0'), ('debuglog', '0')] + ([('crowded', '0')] if rd == 0 else []) + [('isolated', h) for h in seeds_hash[1:]] + [('interleaved', seeds_hash[-1])]
        for mode, hs in variants:
            r = _run('multi_probe.py', [s, n, mode], env={'PYTHONHASHSEED': hs})
            out['summary']['runs'] += 1
            if 'error' in r:
                out['failures'].append(Failure({'probe': 'multi', 'seed': s, 'n': n, 'mode': mode, 'hashseed': hs}, 'probe-crash', 'isolation probe crashed: ' + r['error'])); continue
            out['evaluations'] += r['n_ops']
            if r['static_before'] != base['static_before'] or r['static_after'] != r['static_before']:
                out['failures'].append(Failure({'probe': 'multi', 'seed': s, 'n': n, 'mode': mode, 'hashseed': hs}, 'static-modified', 'shared static tables / class attributes differ (mode %s, hash seed %s)' % (mode, hs)))
            diff = [i for i, (a, b) in enumerate(zip(base['transcripts'], r['transcripts'])) if a != b]
            if diff:
                what = {'interleaved': 'interleaving with other instances', 'reversed': 'instances used earlier', 'warm': 'instances used earlier',
                        'crowded': '4000 other live connections with filled tables in the process',
                        'debuglog': 'the logging level', 'isolated': 'hash randomisation (PYTHONHASHSEED=%s)' % hs}[mode]
                out['failures'].append(Failure({'probe': 'multi', 'seed': s, 'n': n, 'mode': mode, 'hashseed': hs}, 'not-isolated' if mode != 'isolated' else 'hash-dependent',
                                               'outputs of instance pair(s) %s differ from the isolated run under %s' % (diff[:4], what)))
            if len(out['failures']) >= 3:
                return out
    return out


def isolation_replay(p):
    if p.get('mode') == 'firstuse':
        fu = _run('multi_probe.py', [p['seed'], 0, 'firstuse'])
        if 'error' in fu:
            return 'probe crashed: ' + fu['error']
        bad = [nm for nm, a, b in zip(fu['names'], fu['alone'], fu['after']) if a != b]
        return ('first use differs from later use for header name(s) %s' % bad[:5]) if bad else None
    base = _run('multi_probe.py', [p['seed'], p['n'], 'isolated'])
    r = _run('multi_probe.py', [p['seed'], p['n'], p['mode']], env={'PYTHONHASHSEED': str(p.get('hashseed', '0'))})
    if 'error' in base or 'error' in r:
        return 'probe crashed: %s %s' % (base.get('error'), r.get('error'))
    if base['transcripts'] != r['transcripts']:
        return 'transcripts differ between isolated run and mode %s (hash seed %s)' % (p['mode'], p.get('hashseed'))
    if r['static_before'] != r['static_after'] or base['static_before'] != r['static_before']:
        return 'static data differs'
    return None


# ---------------------------------------------------------------------------------------------------- C07
def memory(tier, seed, info):
    r = _run('mem_probe.py', [], timeout=900)
    out = {'failures': [], 'known_hits': [], 'evaluations': len(r.get('cases', [])), 'distinct_nontrivial': len(r.get('cases', [])),
           'summary': {'peaks': [(c['kind'], c['limit'], c['refs'], c['peak'], c['result']) for c in r.get('cases', [])]}}
    if 'error' in r:
        out['failures'].append(Failure({'probe': 'memory'}, 'probe-crash', 'memory probe crashed: ' + r['error']))
        return out
    for f in r['failures'][:2]:
        out['failures'].append(Failure({'probe': 'memory'}, f['sig'], f['text']))
    return out


def memory_replay(p):
    r = _run('mem_probe.py', [], timeout=900)
    if 'error' in r:
        return 'probe crashed: ' + r['error']
    return r['failures'][0]['text'] if r['failures'] else None


# ---------------------------------------------------------------------------------------------------- schedules
THREAD_KINDS = {'C12': ['huffenc'], 'C13': ['huffdec'], 'C20': ['huffenc', 'huffdec', 'codec'], 'C01': ['codec'], 'C02': ['codec'], 'C03': ['codec']}


def threads(prop, tier, seed, info):
    """own instances per thread, sequential results against concurrent ones (thread_probe.py)"""
    out = {'failures': [], 'known_hits': [], 'evaluations': 0, 'distinct_nontrivial': 0, 'summary': {'thread_runs': 0}}
    for kind in THREAD_KINDS.get(prop, []):
        for s in ([seed] if tier == 'quick' else [seed, seed + 1, seed + 2, seed + 3]):
            r = _run('thread_probe.py', [s, kind, 3 if tier == 'quick' else 6])
            out['summary']['thread_runs'] += 1
            if 'error' in r:
                out['failures'].append(Failure({'probe': 'threads', 'seed': s, 'kind': kind}, 'probe-crash', 'thread probe crashed: ' + r['error']))
                return out
            out['evaluations'] += r['evaluations']; out['distinct_nontrivial'] += r['evaluations']
            for f in r['failures'][:1]:
                out['failures'].append(Failure({'probe': 'threads', 'seed': s, 'kind': kind}, 'schedule-dependent',
                                               'with 4 threads, each using its own instances, call %d of thread %d (%s) gave %s; alone it gives %s' % (
                                                   f['index'], f['thread'], f['call'][:80], f['got'][:100], f['expected'][:100])))
                return out
    return out


def threads_replay(p):
    for attempt in range(5):
        r = _run('thread_probe.py', [p['seed'], p['kind'], 6])
        if 'error' in r:
            return 'probe crashed: ' + r['error']
        if r['failures']:
            f = r['failures'][0]
            return 'call %d of thread %d gave %s; alone it gives %s' % (f['index'], f['thread'], f['got'][:100], f['expected'][:100])
    return None


def _merge(a, b):
    for k in ('failures', 'known_hits'):
        a[k] = a.get(k, []) + b.get(k, [])
    for k in ('evaluations', 'distinct_nontrivial'):
        a[k] = a.get(k, 0) + b.get(k, 0)
    if b.get('summary'):
        a['summary'] = dict(a.get('summary') or {}, **b['summary'])
    return a


def longrun(prop, tier, seed, info):
    """counters that only grow over a connection's life pushed past 2^31 / 2^32 / 2^16 (longrun_probe.py)"""
    out = {'failures': [], 'known_hits': [], 'evaluations': 0, 'distinct_nontrivial': 0, 'summary': {}}
    which = ['encoder'] if prop in ('C19', 'C10') else []
    r = _run('longrun_probe.py', which)
    if 'error' in r:
        out['failures'].append(Failure({'probe': 'longrun', 'which': which}, 'probe-crash', 'long-run probe crashed: ' + r['error']))
        return out
    out['evaluations'] = out['distinct_nontrivial'] = r['evaluations']
    out['summary'] = {'longrun_evaluations': r['evaluations']}
    for f in r['failures'][:1]:
        out['failures'].append(Failure({'probe': 'longrun', 'which': which}, f['sig'], f['text']))
    return out


def run(prop, tier, seed, info):
    base = _run_one(prop, tier, seed, info)
    if prop in ('C06', 'C14', 'C19', 'C10') and not base['failures']:
        base = _merge(base, longrun(prop, tier, seed, info))
    if prop in THREAD_KINDS and not base['failures']:
        base = _merge(base, threads(prop, tier, seed, info))
    return base


def _run_one(prop, tier, seed, info):
    if prop == 'C07':
        return memory(tier, seed, info)
    if prop == 'C16':
        return cost(tier, seed, info)
    if prop == 'C17':
        return buffers(tier, seed, info)
    if prop == 'C20':
        return isolation(tier, seed, info)
    return {'failures': [], 'known_hits': [], 'evaluations': 0, 'distinct_nontrivial': 0, 'summary': None}


def replay(prop, p):
    if isinstance(p, dict) and p.get('probe') == 'threads':
        return threads_replay(p)
    if isinstance(p, dict) and p.get('probe') == 'longrun':
        r = _run('longrun_probe.py', p.get('which') or [])
        return ('probe crashed: ' + r['error']) if 'error' in r else (r['failures'][0]['text'] if r['failures'] else None)
    if prop == 'C07':
        return memory_replay(p)
    if prop == 'C16':
        return cost_replay(p)
    if prop == 'C17':
        return buffers_replay(p)
    if prop == 'C20':
        return isolation_replay(p)
    return None
