#!/usr/bin/env python3
"""
C16 probe, run as a subprocess against $HPACK_REPO/src:   cost_probe.py <family> <n> work|time [reps]

work: executes Decoder.decode on the family's input of parameter n under sys.settrace and prints the WORK
      UNITS of the cost model measured on the real code (deterministic):
        lines  = executed lines of the hpack modules,
        limb   = sum over executed lines of decode_integer's loop of (shift // 30 + 1)   (bigint limb work),
        copy   = sum over calls into hpack functions of len(arg) for every bytes/bytearray argument named
                 `data`/`huffman_string`... that is NOT the caller's original buffer object (a slice copy),
        alloc  = length of strings handed to bytes()/decode_huffman (payload copies; linear by construction)
time: CPU seconds (time.process_time, min over reps) of the same call without tracing.
Prints one JSON object.
"""
import sys, os, json, time

repo = os.environ.get('HPACK_REPO', '/repo')
sys.path.insert(0, os.path.join(repo, 'src'))
sys.path.insert(0, os.path.dirname(os.path.abspath(__file__)))

from refmodel import huff_encode, int_octets


def _utime():
    import resource
    return resource.getrusage(resource.RUSAGE_SELF).ru_utime


def family(name, n):
    """-> (setup blocks, block, decoder kwargs)"""
    big = 1 << 40
    if name == 'index-run':
        return [], b'\xff' + b'\xff' * n + b'\x01', {}
    if name == 'index-run-zero':
        return [], b'\xff' + b'\x80' * n + b'\x01', {}
    if name == 'namelen-run':
        return [], b'\x00\x7f' + b'\xff' * n + b'\x01', {}
    if name == 'valuelen-run':
        return [], b'\x00\x01a\x7f' + b'\xff' * n + b'\x01', {}
    if name == 'update-run':
        return [], b'\x3f' + b'\xff' * n + b'\x01', {}
    if name == 'litname-index-run':
        return [], b'\x7f' + b'\xff' * n + b'\x01', {}
    if name == 'plain-string':
        return [], b'\x00\x01a' + int_octets(n, 7) + b'v' * n, {'limit': big}
    if name == 'huffman-string':
        e = huff_encode(b'a' * n)
        return [], b'\x00\x01a' + int_octets(len(e), 7, 0x80) + e, {'limit': big}
    if name == 'indexed-fields':
        return [], b'\x82' * n, {'limit': big}
    if name == 'dyn-indexed-fields':
        return [b'\x40\x01a\x01b'], b'\xbe' * n, {'limit': big}
    if name == 'inserted-literals':
        return [], b'\x40\x01a\x01b' * n, {'limit': big}
    if name == 'plain-literals':
        return [], b'\x00\x01a\x01b' * n, {'limit': big}
    # pairwise DIFFERENT fields (anything that compares a field with the ones before it: duplicate checks, merging, sorting)
    if name == 'distinct-plain-literals':
        return [], b''.join(b'\x00\x03' + bytes([97 + i % 26, 97 + (i // 26) % 26, 97 + (i // 676) % 26]) + b'\x00' for i in range(n // 6 + 1)), {'limit': big}
    if name == 'distinct-values':
        return [], b''.join(b'\x0f\x00\x03' + bytes([97 + i % 26, 97 + (i // 26) % 26, 97 + (i // 676) % 26]) for i in range(n // 6 + 1)), {'limit': big}
    if name == 'distinct-inserted-literals':
        return [], b''.join(b'\x40\x03' + bytes([97 + i % 26, 97 + (i // 26) % 26, 97 + (i // 676) % 26]) + b'\x01v' for i in range(n // 7 + 1)), {'limit': big}
    if name == 'never-literals-idxname':
        return [], b'\x1f\x00\x01b' * n, {'limit': big}
    if name == 'size-updates':
        return [], b'\x20' * n, {}
    if name == 'size-updates-2':
        return [], b'\x3f\xe1\x1f\x20' * (n // 2 + 1), {}
    if name == 'evicting-literals':
        return [b'\x3f\x45'], b'\x40\x01a\x01b' * n, {'limit': big}        # table of 100: every insertion evicts
    if name == 'high-index-fields':        # 70 entries in the table, then fields with a two-octet index (ff 00 = index 127)
        setup = b''.join(bytes([0x40, 0x01, 1 + i, 0x00]) for i in range(70))
        return [setup], b'\xff\x00' * n, {'limit': big}
    if name == 'high-index-literals':      # literal without indexing, two-octet name index (0f 70 = index 127), empty value
        setup = b''.join(bytes([0x40, 0x01, 1 + i, 0x00]) for i in range(70))
        return [setup], b'\x0f\x70\x00' * n, {'limit': big}
    if name == 'huffman-ff-refused':       # a Huffman string of 0xff octets (over-long padding / EOS): refused, cheaply
        return [], b'\x00' + int_octets(n, 7, 0x80) + b'\xff' * n + b'\x01v', {'limit': big}
    if name == 'huffman-good-then-ff':     # valid code for n/2 symbols, then a tail of 0xff: refused at the end
        e = huff_encode(b'a' * (n // 2)) + b'\xff' * (n // 2)
        return [], b'\x00' + int_octets(len(e), 7, 0x80) + e + b'\x01v', {'limit': big}
    # a table of 64 KiB (a common HTTP/2 setting; the property fixes the limits, so per-field work that is bounded by
    # the table size - a list instead of a deque, say - is still linear and must not be flagged: the table is full
    # after 2048 of these fields, long before the larger sizes of the ladder)
    if name == 'table64k-inserted-literals':
        return [int_octets(1 << 16, 5, 0x20)], b'\x40\x01a\x00' * n, {'limit': big, 'allowed': 1 << 16}
    if name == 'table64k-inserted-and-referenced':   # ... each insertion followed by references to entries in the middle and near the old end
        return [int_octets(1 << 16, 5, 0x20) + b'\x40\x01a\x00' * 2048], (b'\x40\x01a\x00' + int_octets(1062, 7, 0x80) + int_octets(2040, 7, 0x80)) * n, {'limit': big, 'allowed': 1 << 16}
    if name == 'huffman-literals':
        return [], b'\x40\x81\x1f\x81\x1f' * n, {'limit': big}
    # the same integer runs once the application has set its permitted table size to 0 / 1 (HTTP/2: SETTINGS_HEADER_TABLE_SIZE=0)
    if name == 'update-run-allowed0':
        return [], b'\x3f' + b'\xff' * n + b'\x01', {'allowed': 0}
    if name == 'update-run-zero-allowed0':
        return [], b'\x3f' + b'\x80' * n + b'\x01', {'allowed': 0}
    if name == 'update-run-allowed1':
        return [], b'\x3f' + b'\xff' * n + b'\x01', {'allowed': 1}
    if name == 'index-run-table-off':
        return [b'\x20'], b'\xff' + b'\xff' * n + b'\x01', {'allowed': 0}
    # string CONTENT (anything that inspects a name or value: searches, strips, splits, pattern matches): long inner runs
    # of one octet class followed by something else, and many short tokens
    if name in CONTENT:
        body = CONTENT[name](n)
        return [], b'\x00\x01a' + int_octets(len(body), 7) + body, {'limit': big}
    if name.startswith('huffman-') and name[8:] in CONTENT:
        e = huff_encode(CONTENT[name[8:]](n))
        return [], b'\x40\x01a' + int_octets(len(e), 7, 0x80) + e, {'limit': big}
    if name.startswith('name-') and name[5:] in CONTENT:
        body = CONTENT[name[5:]](n)
        return [], b'\x10' + int_octets(len(body), 7) + body + b'\x01v', {'limit': big}
    # integers carrying redundant zero digits (legal on the wire, never produced by this library's encoder), many of them
    if name == 'size-updates-padded':
        return [], b'\x3f\x80\x00' * n, {}
    if name == 'literals-padded-name-index':
        return [], b'\x0f\x80\x00\x00' * n, {'limit': big}
    if name == 'indexed-padded':
        setup = b''.join(bytes([0x40, 0x01, 1 + i, 0x00]) for i in range(70))
        return [setup], b'\xff\x80\x00' * n, {'limit': big}
    if name == 'string-lengths-padded':
        return [], (b'\x00\x7f\x80\x00' + b'a' * 127 + b'\x7f\x80\x00' + b'v' * 127) * (n // 64 + 1), {'limit': big}
    # TINY blocks that merely DECLARE something large (n = the declared number): cost must follow the block, not the claim
    if name == 'declared-plain-value':
        return [], b'\x00\x01a' + int_octets(n, 7) + b'vvvv', {'limit': big}
    if name == 'declared-plain-name':
        return [], b'\x00' + int_octets(n, 7) + b'nnnn', {'limit': big}
    if name == 'declared-huffman-value':
        return [], b'\x00\x01a' + int_octets(n, 7, 0x80) + b'\x1c\x1c\x1c\x1c', {'limit': big}
    if name == 'declared-huffman-name':
        return [], b'\x40' + int_octets(n, 7, 0x80) + b'\x1c\x1c\x1c\x1c', {'limit': big}
    if name == 'declared-index':
        return [], b'\xff' + int_octets(n, 8)[1:] if n >= 255 else b'\xbe', {'limit': big}
    if name == 'declared-table-size':
        return [], int_octets(n, 5, 0x20) + b'\x82', {'limit': big, 'allowed': 1 << 40}
    if name.startswith('text-'):          # the same family decoded in text mode (raw=False, the default)
        a, b, kw = family(name[5:], n)
        return a, b, dict(kw, raw=False)
    raise SystemExit('unknown family ' + name)


CONTENT = {
    'value-inner-blanks': lambda n: b'a' + b' ' * n + b'b',
    'value-inner-tabs': lambda n: b'a' + b' \t' * (n // 2) + b'b',
    'value-leading-blanks': lambda n: b' ' * n + b'b',
    'value-tokens': lambda n: b'a, ' * (n // 3) + b'b',
    'value-inner-nuls': lambda n: b'a' + b'\x00' * n + b'b',
    'value-inner-digits': lambda n: b'a' + b'0' * n + b'b',
    'value-inner-upper': lambda n: b'a' + b'A' * n + b'b',
    'value-crlf': lambda n: b'a' + b'\r\n' * (n // 2) + b'b',
    'value-nonascii': lambda n: b'a' + '\u00e9\u20ac'.encode() * (n // 5) + b'b',
    'value-colons': lambda n: b':' * n + b'b',
}

FAMILIES = ['index-run', 'index-run-zero', 'namelen-run', 'valuelen-run', 'update-run', 'litname-index-run', 'plain-string',
            'huffman-string', 'indexed-fields', 'dyn-indexed-fields', 'inserted-literals', 'plain-literals', 'never-literals-idxname',
            'size-updates', 'size-updates-2', 'evicting-literals', 'huffman-literals', 'high-index-fields', 'high-index-literals',
            'huffman-ff-refused', 'huffman-good-then-ff', 'table64k-inserted-literals', 'table64k-inserted-and-referenced',
            'update-run-allowed0', 'update-run-zero-allowed0', 'update-run-allowed1', 'index-run-table-off',
            'value-inner-blanks', 'value-inner-tabs', 'value-leading-blanks', 'value-tokens', 'value-inner-nuls', 'value-inner-digits',
            'value-inner-upper', 'value-crlf', 'value-colons', 'huffman-value-inner-blanks', 'name-value-inner-blanks', 'name-value-inner-upper',
            'text-value-inner-blanks', 'text-value-nonascii', 'text-value-tokens', 'text-plain-literals', 'text-indexed-fields', 'text-huffman-literals',
            'text-name-value-inner-upper', 'distinct-plain-literals', 'distinct-values', 'distinct-inserted-literals', 'text-distinct-plain-literals', 'bytearray-indexed-fields', 'bytearray-plain-literals', 'bytearray-distinct-plain-literals',
            'debuglog-plain-literals', 'debuglog-distinct-plain-literals', 'debuglog-indexed-fields', 'size-updates-padded', 'literals-padded-name-index', 'indexed-padded', 'string-lengths-padded']
TINY = ['declared-plain-value', 'declared-plain-name', 'declared-huffman-value', 'declared-huffman-name', 'declared-index', 'declared-table-size']


def main():
    name, n, mode = sys.argv[1], int(sys.argv[2]), sys.argv[3]
    reps = int(sys.argv[4]) if len(sys.argv) > 4 else 3
    kind = os.environ.get('HPACK_VERIF_BUF', 'bytes')
    import hpack
    from hpack.exceptions import HPACKDecodingError
    base = name
    if base.startswith('bytearray-'):          # the block arrives in the application's (mutable) receive buffer
        kind = 'bytearray'; base = base[10:]
    if base.startswith('debuglog-'):           # the application runs with the library's logger at DEBUG, handler attached
        import logging
        lg = logging.getLogger('hpack'); lg.setLevel(logging.DEBUG); lg.addHandler(logging.StreamHandler(open(os.devnull, 'w')))
        base = base[9:]
    setup, block, kw = family(base, n)
    if kind == 'bytearray':
        block = bytearray(block)

    def fresh():
        d = hpack.Decoder(kw['limit']) if 'limit' in kw else hpack.Decoder()
        if 'allowed' in kw:
            d.max_allowed_table_size = kw['allowed']
        for s in setup:
            d.decode(s)
        return d

    out = {'family': name, 'n': n, 'len': len(block)}
    if mode == 'tiny':
        # a block of a few octets: CPU time and peak traced memory of the call
        import tracemalloc
        d = fresh()
        tracemalloc.start()
        t = _utime()
        try:
            r = d.decode(block, raw=kw.get('raw', True)); res = 'ok %d' % len(r)
        except HPACKDecodingError as e:
            res = 'err ' + type(e).__name__
        except MemoryError:
            res = 'esc MemoryError'
        except Exception as e:
            res = 'esc ' + type(e).__name__
        dt = _utime() - t
        peak = tracemalloc.get_traced_memory()[1]
        tracemalloc.stop()
        out.update(time=dt, peak=peak, result=res)
    elif mode == 'time-ref':
        # the same measurement on the harness's reference decoder (control for machine load; never the library)
        from refmodel import RefDecoder, RefError
        best = None
        for _ in range(reps):
            rd = RefDecoder(list_limit=kw.get('limit', 65536))
            if 'allowed' in kw:
                rd.allowed = kw['allowed']
            for s_ in setup:
                rd.decode(bytes(s_))
            t = _utime()
            try:
                r = rd.decode(bytes(block)); res = 'ok %d' % len(r)
            except RefError as e:
                res = 'err'
            dt = _utime() - t
            best = dt if best is None else min(best, dt)
        out.update(time=best, result=res)
    elif mode == 'time':
        best = None
        res = None
        for _ in range(reps):
            d = fresh()
            t = _utime()          # user CPU only: page-fault (system) time depends on the machine's memory pressure
            try:
                r = d.decode(block, raw=kw.get('raw', True)); res = 'ok %d' % len(r)
            except HPACKDecodingError as e:
                res = 'err ' + type(e).__name__
            except Exception as e:
                res = 'esc ' + type(e).__name__
            dt = _utime() - t
            best = dt if best is None else min(best, dt)
        out.update(time=best, result=res)
    else:
        srcdir = os.path.join(repo, 'src', 'hpack')
        cnt = {'lines': 0, 'limb': 0, 'copy': 0, 'calls': 0}
        orig_id = id(block)
        orig_len = len(block)

        def tracer(frame, event, arg):
            co = frame.f_code
            if not co.co_filename.startswith(srcdir):
                return None
            if event == 'call':
                cnt['calls'] += 1
                for nm in ('data', 'huffman_string'):
                    v = frame.f_locals.get(nm)
                    if isinstance(v, (bytes, bytearray)) and id(v) != orig_id and co.co_name not in ('decode_huffman',):
                        cnt['copy'] += len(v)
                return tracer
            if event == 'line':
                cnt['lines'] += 1
                if co.co_name == 'decode_integer':
                    sh = frame.f_locals.get('shift')
                    num = frame.f_locals.get('number')
                    if isinstance(sh, int) and sh > 0:
                        cnt['limb'] += sh // 30 + 1
                    elif isinstance(num, int) and num.bit_length() > 64:
                        cnt['limb'] += num.bit_length() // 30
            return tracer

        d = fresh()
        sys.settrace(tracer)
        try:
            try:
                r = d.decode(block, raw=kw.get('raw', True)); res = 'ok %d' % len(r)
            except HPACKDecodingError as e:
                res = 'err ' + type(e).__name__
            except Exception as e:
                res = 'esc ' + type(e).__name__
        finally:
            sys.settrace(None)
        out.update(cnt, result=res, work=cnt['lines'] + cnt['limb'] + cnt['copy'])
    print(json.dumps(out))


if __name__ == '__main__':
    main()
