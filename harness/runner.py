"""Run op streams through the implementation driver and the Lean model driver; compare replies."""
import os, subprocess, sys, re, time

HERE = os.path.dirname(os.path.abspath(__file__))
ROOT = os.path.dirname(HERE)
DRIVER = os.path.join(ROOT, 'lean', '.lake', 'build', 'bin', 'driver')


def python_exe():
    for p in (os.environ.get('HPACK_VERIF_PYTHON'), '/venv/bin/python', sys.executable):
        if p and os.path.exists(p):
            return p
    return 'python3'


def repo_dir():
    return os.environ.get('HPACK_REPO', '/repo')


class InfraError(Exception):
    pass


def run_impl(ops, extra_env=None, timeout=1800):
    env = dict(os.environ)
    env['HPACK_REPO'] = repo_dir()
    env.setdefault('PYTHONHASHSEED', '0')
    env['PYTHONDONTWRITEBYTECODE'] = '1'
    flags = []
    if extra_env:
        extra_env = dict(extra_env)
        flags = extra_env.pop('_PYFLAGS', '').split()          # interpreter options that have no environment variable (-bb, -X …)
        env.update(extra_env)
    p = subprocess.run([python_exe()] + flags + [os.path.join(HERE, 'impl_driver.py')], input='\n'.join(ops) + '\n',
                       capture_output=True, text=True, env=env, timeout=timeout)
    out = p.stdout.splitlines()
    if p.returncode != 0 or len(out) != len(ops):
        # the implementation could not even be driven (import error, crash): every missing reply is a crash reply
        out += ['esc DriverCrash:' + (p.stderr.strip().splitlines()[-1][:200] if p.stderr.strip() else 'rc=%d' % p.returncode)] * (len(ops) - len(out))
    return out


def strip_ann(op):
    return op.split('#', 1)[0].rstrip()


def run_model(ops, cfg=None, timeout=1800):
    if not os.path.exists(DRIVER):
        raise InfraError('model driver not built: ' + DRIVER)
    lines = [strip_ann(o) for o in ops]
    pre = []
    if cfg:
        pre = ['cfg ' + cfg]
    p = subprocess.run([DRIVER], input='\n'.join(pre + lines) + '\n', capture_output=True, text=True, timeout=timeout)
    out = p.stdout.splitlines()[len(pre):]
    if p.returncode != 0 or len(out) != len(ops):
        raise InfraError('model driver failed: rc=%s replies=%d ops=%d stderr=%s' % (p.returncode, len(out), len(ops), p.stderr[:300]))
    return out


_PRIV = re.compile(r' cur=\S+ res=\S+')
_CHG = re.compile(r' changes=\S+')
_TAG = re.compile(r'([0-9a-f]+|-)[ov](?=[:,\]])')


def mask_private(impl, model):
    """if the implementation no longer exposes a private attribute (`?`), drop that column on both sides"""
    if ' cur=? ' in impl or ' res=? ' in impl:
        def fix(s):
            m = re.search(r' cur=(\S+) res=(\S+)', s)
            return s
        ic = re.search(r' cur=(\S+) res=(\S+)', impl)
        mc = re.search(r' cur=(\S+) res=(\S+)', model)
        if ic and mc:
            cur = mc.group(1) if ic.group(1) == '?' else ic.group(1)
            res = mc.group(2) if ic.group(2) == '?' else ic.group(2)
            impl = impl[:ic.start()] + ' cur=%s res=%s' % (cur, res) + impl[ic.end():]
    if 'changes=?' in impl:
        mc = _CHG.search(model)
        if mc:
            impl = impl.replace(' changes=?', mc.group(0))
    return impl, model


def result_part(reply):
    return reply.split(' | ', 1)[0]


def state_part(reply):
    p = reply.split(' | ', 1)
    return p[1] if len(p) > 1 else ''


def drop_tags(s):
    return _TAG.sub(lambda m: m.group(1), s)


def compare(ops, impl, model, project=None):
    """indices where the (projected) replies differ"""
    bad = []
    for i, (o, a, b) in enumerate(zip(ops, impl, model)):
        a2, b2 = mask_private(a, b)
        if project:
            a2, b2 = project(o, a2), project(o, b2)
        if a2 != b2:
            bad.append(i)
    return bad
