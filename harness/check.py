#!/usr/bin/env python3
"""
check.py <ID> --tier quick|thorough [--replay FILE]

One property check = (1) regenerate the data part of the Lean model from the working tree ($HPACK_REPO,
default /repo) with tools/translate.py, (2) `lake build` the property's theorem module and the model
driver (kernel re-checks every data obligation whose input changed), (3) audit the axioms of every theorem
of the property, (4) correspondence: run the property's operation streams through the real classes and
through the compiled Lean model and compare reply by reply, (5) judge: evaluate the property's predicate
directly on the implementation's observations (reference = independent reading of RFC 7541 on frozen
tables), (6) write evidence/<ID>.json.

Exit 0: property held on everything explored and every obligation checked.
Exit 1: `VIOLATION property=<ID> replay=<path>` (a failing input was found, replay shows it) or
        `VIOLATION property=<ID> replay=<path> no-failing-input-found` (a theorem or the correspondence no
        longer checks and the search found no failing input; the replay names what broke).
Exit 2: infrastructure problem (lean missing, timeout, ...).
"""
import sys, os, json, time, subprocess, re, hashlib, fcntl, random, traceback

HERE = os.path.dirname(os.path.abspath(__file__))
ROOT = os.path.dirname(HERE)
LEAN = os.path.join(ROOT, 'lean')
sys.path.insert(0, HERE)

import runner
import judges
from gen import Gen
import gen as genmod

ALLOWED_AXIOMS = {'propext', 'Classical.choice', 'Quot.sound'}
FORBIDDEN = re.compile(r'\b(sorry|admit|native_decide|bv_decide|implemented_by|unsafe)\b|^\s*axiom\s|maxHeartbeats\s+0')

ALL_PROPS = ['C%02d' % i for i in range(1, 21)]
# shared lemmas of Props/Common.lean and which properties lean on them (default: all)
SHARED_USERS = {
    'consts_ok': ALL_PROPS,
    'cap_admits_64': ['C11', 'C05'], 'capOK': ['C04', 'C05', 'C14', 'C16'], 'cap_eq': ['C04', 'C05', 'C11', 'C16', 'C02'],
    'setSize_encOK': ['C01', 'C03', 'C06', 'C09', 'C10', 'C15', 'C19', 'C20'], 'encode_encOK': ['C01', 'C03', 'C06', 'C09', 'C10', 'C15', 'C19', 'C20'],
    'encStep_ok': ['C01', 'C03', 'C06', 'C09', 'C10', 'C15', 'C19', 'C20'], 'encReach_ok': ['C01', 'C03', 'C06', 'C09', 'C10', 'C15', 'C19', 'C20'],
    'encReach_step': ['C09', 'C15', 'C19', 'C20'], 'freshEnc_ok': ['C01', 'C03', 'C06', 'C09', 'C10', 'C15', 'C19'],
    'decStep_inv': ['C02', 'C04', 'C05', 'C06', 'C07', 'C08', 'C15', 'C17', 'C20'], 'decRun_inv': ['C02', 'C04', 'C05', 'C06', 'C07', 'C08', 'C15', 'C17'],
    'decReach_inv': ['C02', 'C04', 'C05', 'C06', 'C07', 'C08', 'C15', 'C17'], 'decReach_step': ['C17', 'C04'], 'freshDec_inv': ['C01', 'C02', 'C04', 'C05', 'C06', 'C10', 'C17'],
    'curDecode_state': ['C04', 'C06', 'C07', 'C08', 'C17', 'C18'],
}
TITLES = {}
for _l in open(os.path.join(ROOT, 'properties.jsonl')):
    _p = json.loads(_l)
    TITLES[_p['id']] = _p['title']


def log(*a):
    print(*a, flush=True)


class Infra(Exception):
    pass


# ----------------------------------------------------------------------------------------------------
# build + audit
# ----------------------------------------------------------------------------------------------------
def sh(cmd, cwd=None, timeout=3600, env=None):
    p = subprocess.run(cmd, cwd=cwd, capture_output=True, text=True, timeout=timeout, env=env)
    return p.returncode, p.stdout + p.stderr


def strip_comments(text):
    text = re.sub(r'/-.*?-/', '', text, flags=re.S)
    return '\n'.join(l.split('--', 1)[0] for l in text.splitlines())


def forbidden_scan():
    hits = []
    for base, _, files in os.walk(LEAN):
        if '.lake' in base:
            continue
        for f in files:
            if f.endswith('.lean'):
                p = os.path.join(base, f)
                for n, line in enumerate(strip_comments(open(p).read()).splitlines(), 1):
                    if FORBIDDEN.search(line):
                        hits.append('%s:%d: %s' % (os.path.relpath(p, ROOT), n, line.strip()[:100]))
    return hits


def build(prop, info):
    """returns dict(proof_ok, driver_ok, errors, audit) ; holds the build lock"""
    lock = open(os.path.join(ROOT, '.build.lock'), 'w')
    fcntl.flock(lock, fcntl.LOCK_EX)
    try:
        py = runner.python_exe()
        t0 = time.time()
        rc, out = sh([py, os.path.join(ROOT, 'tools', 'translate.py')], env=dict(os.environ, HPACK_REPO=runner.repo_dir()))
        rep = {}
        try:
            rep = json.load(open(os.path.join(LEAN, 'HpackVerif', 'Generated', 'translate_report.json')))
        except Exception:
            pass
        info['translate'] = {'rc': rc, 'written': rep.get('written', []), 'missing': rep.get('missing', []), 'notes': rep.get('notes', []),
                             'wall_s': round(time.time() - t0, 2)}
        info['pins'] = rep.get('pins', {})
        res = {'proof_ok': False, 'driver_ok': False, 'errors': [], 'audit': {}, 'translate_rc': rc}
        if rc not in (0, 3):
            res['errors'].append('translate.py failed: ' + out[-400:])
        mod = 'HpackVerif.Props.' + prop
        t1 = time.time()
        cmd = ['lake', 'build', mod, 'driver']
        rc2, out2 = sh(cmd, cwd=LEAN, timeout=5400)
        info['checker_cmd'] = 'cd lean && ' + ' '.join(cmd) + ' && lake env lean Audit.lean'
        info['build_wall_s'] = round(time.time() - t1, 2)
        if rc2 == 0:
            res['proof_ok'] = True
            res['driver_ok'] = True
        else:
            errs = [l for l in out2.splitlines() if l.startswith('error:') or ': error:' in l]
            res['errors'] += [e[:300] for e in errs[:12]]
            failed = re.findall(r'^- (\S+)', out2, flags=re.M)
            res['failed_targets'] = failed
            # is the driver itself buildable?  (needed for the correspondence and the search)
            rc3, out3 = sh(['lake', 'build', 'driver'], cwd=LEAN, timeout=3600)
            res['driver_ok'] = rc3 == 0
            if rc3 != 0:
                res['errors'].append('driver does not build: ' + '; '.join([l for l in out3.splitlines() if 'error' in l][:3])[:300])
        # audit (cached on the hash of the property's .olean files)
        if res['proof_ok']:
            res['audit'] = audit(prop)
        if prop in SOURCE_TIE_USERS:
            info['source_tie'] = source_tie(prop)
        return res
    finally:
        fcntl.flock(lock, fcntl.LOCK_UN)
        lock.close()


# second tie (DESIGN 3.2a): source text -> Lean by tools/py2lean.py, proved equal to the hand-written model
SOURCE_TIES = {
    'integer codec': {'unit': 'SrcInt', 'module': 'HpackVerif.Props.Src', 'audit': 'AuditSrc.lean',
                      'users': {'C11', 'C04', 'C05', 'C02', 'C16'}},
    'Huffman decoder': {'unit': 'SrcHuff', 'module': 'HpackVerif.Props.SrcHuff', 'audit': 'AuditSrcHuff.lean',
                        'users': {'C13', 'C05', 'C04', 'C02'}},
    'Decoder methods': {'unit': 'SrcDec', 'module': 'HpackVerif.Props.SrcDec', 'audit': 'AuditSrcDec.lean',
                        'users': {'C02', 'C04', 'C05', 'C07', 'C08', 'C15', 'C17', 'C20'}},
    'Encoder methods': {'unit': 'SrcEnc', 'module': 'HpackVerif.Props.SrcEnc', 'audit': 'AuditSrcEnc.lean',
                        'users': {'C03', 'C19', 'C15', 'C09', 'C01', 'C20'}},
    'Encoder.encode': {'unit': 'SrcEnc', 'module': 'HpackVerif.Props.SrcEncApi', 'audit': 'AuditSrcEncApi.lean',
                       'needs': ['_to_bytes', '_dict_to_iterable', 'Encoder.encode'],
                       'users': {'C18', 'C01', 'C03', 'C09', 'C15'}},
    'round trip on the source': {'unit': 'SrcEnc', 'module': 'HpackVerif.Props.SrcConn', 'audit': 'AuditSrcConn.lean',
                                 'needs': ['_to_bytes', '_dict_to_iterable', 'Encoder.encode'], 'held_text': 'property theorem composed with the tie: stated on the translated source itself', 'users': {'C01', 'C10'}},
    'integer round trip on the source': {'unit': 'SrcInt', 'module': 'HpackVerif.Props.OnSourceInt', 'audit': 'AuditOnSourceInt.lean',
                                         'held_text': 'property theorem composed with the tie: stated on the translated source itself', 'users': {'C11'}},
    'Huffman round trip on the source': {'unit': 'SrcHuffEnc', 'module': 'HpackVerif.Props.OnSourceHuff', 'audit': 'AuditOnSourceHuff.lean',
                                         'held_text': 'property theorem composed with the tie: stated on the translated source itself', 'users': {'C12', 'C13'}},
    'decoder properties on the source': {'unit': 'SrcDec', 'module': 'HpackVerif.Props.OnSourceDec', 'audit': 'AuditOnSourceDec.lean',
                                         'held_text': 'property theorem composed with the tie: stated on the translated source itself', 'users': {'C04', 'C07', 'C02', 'C08', 'C05', 'C15', 'C16'}},
    'table properties on the source': {'unit': 'SrcTable', 'module': 'HpackVerif.Props.OnSourceTable', 'audit': 'AuditOnSourceTable.lean',
                                       'held_text': 'property theorem composed with the tie: stated on the translated source itself', 'users': {'C06', 'C14'}},
    'encoder properties on the source': {'unit': 'SrcEnc', 'module': 'HpackVerif.Props.OnSourceEnc', 'audit': 'AuditOnSourceEnc.lean',
                                         'held_text': 'property theorem composed with the tie: stated on the translated source itself', 'users': {'C19', 'C15'}},
    'encode properties on the source': {'unit': 'SrcEnc', 'module': 'HpackVerif.Props.OnSourceEncApi', 'audit': 'AuditOnSourceEncApi.lean',
                                        'needs': ['_to_bytes', '_dict_to_iterable', 'Encoder.encode'],
                                        'held_text': 'property theorem composed with the tie: stated on the translated source itself', 'users': {'C03', 'C09', 'C18'}},
    'Huffman encoder': {'unit': 'SrcHuffEnc', 'module': 'HpackVerif.Props.SrcHuffEnc', 'audit': 'AuditSrcHuffEnc.lean',
                        'users': {'C12', 'C03', 'C01'}},
    'header table': {'unit': 'SrcTable', 'module': 'HpackVerif.Props.SrcTable', 'audit': 'AuditSrcTable.lean',
                     'users': {'C06', 'C14', 'C10', 'C08', 'C19', 'C20'}},
}
SOURCE_TIE_USERS = set().union(*[v['users'] for v in SOURCE_TIES.values()])


def py_semantics():
    """Src/Py.lean (the meaning the ties give to Python's primitives) against the interpreter that runs the library, on
    generated arguments; cached on the files involved and the interpreter version"""
    h = hashlib.sha256()
    for f in (os.path.join(LEAN, 'HpackVerif', 'Src', 'Py.lean'), os.path.join(LEAN, 'PySem.lean'), os.path.join(ROOT, 'harness', 'pysem_check.py')):
        h.update(open(f, 'rb').read())
    n = 600 if os.environ.get('VERIF_TIER') == 'thorough' else 120
    seed = int(os.environ.get('VERIF_SEED', '0') or 0)
    rc, ver = sh([runner.python_exe(), '-c', 'import sys; print(sys.version)'])
    key = h.hexdigest() + '|' + ver.strip() + '|%d|%d' % (seed, n)
    cache = os.path.join(LEAN, '.lake', 'pysem_cache.json')
    try:
        c = json.load(open(cache))
        if c.get('key') == key:
            return dict(c['result'], cached=True)
    except Exception:
        pass
    t0 = time.time()
    rc, txt = sh([runner.python_exe(), os.path.join(ROOT, 'harness', 'pysem_check.py'), str(seed), str(n)], timeout=1800)
    try:
        res = json.loads(txt.strip().splitlines()[-1])
    except Exception:
        res = {'error': 'pysem_check.py failed: ' + txt[-200:]}
    res['wall_s'] = round(time.time() - t0, 2)
    try:
        json.dump({'key': key, 'result': res}, open(cache, 'w'))
    except Exception:
        pass
    return res


def source_tie(prop):
    """For each translated unit this property's theorems rest on: tools/py2lean.py rewrites Generated/<unit>.lean from
    the source text; the Props.Src* module proves that translation equal to the hand-written model for all arguments.
    Informational: when the source is in a shape the translator or the proofs do not follow, the tie is 'unavailable'
    (never an alarm; the correspondence remains the deciding tie and the streams get a larger budget)."""
    t0 = time.time()
    rc, txt = sh([runner.python_exe(), os.path.join(ROOT, 'tools', 'py2lean.py')], env=dict(os.environ, HPACK_REPO=runner.repo_dir()))
    try:
        reps = json.loads(txt.strip().splitlines()[-1])
    except Exception:
        reps = {}
    out = {'held': True, 'units': {}}
    out['py_semantics'] = py_semantics()
    for what, cfg in SOURCE_TIES.items():
        if prop not in cfg['users']:
            continue
        rep = reps.get(cfg['unit'], {'available': False, 'reason': 'py2lean.py failed: ' + txt[-200:]})
        u = {'held': False, 'translator': rep}
        out['units'][what] = u
        if not rep.get('available'):
            u['status'] = 'unavailable: the translator does not cover this source (%s)' % rep.get('reason', '?')
            continue
        lost = [(n_, (rep.get('functions', {}).get(n_) or {}).get('unavailable', 'not emitted')) for n_ in cfg.get('needs', [])
                if 'unavailable' in (rep.get('functions', {}).get(n_) or {'unavailable': 1})]
        if lost:
            u['status'] = 'unavailable: the translator does not cover this source (%s)' % '; '.join('%s: %s' % x for x in lost)
            continue
        rc, bt = sh(['lake', 'build', cfg['module']], cwd=LEAN, timeout=1800)
        if rc != 0:
            errs = [l for l in bt.splitlines() if l.startswith('error:') or ': error:' in l]
            u['status'] = 'unavailable: the translated source is not proved equal to the model (%s)' % '; '.join(e[:160] for e in errs[:2])
            continue
        rc, at = sh(['lake', 'env', 'lean', cfg['audit']], cwd=LEAN, timeout=600)
        thms = {}
        for l in at.splitlines():
            m = re.match(r'.*AUDIT (\S+) \| ?(.*)$', l)
            if m and not re.search(r'\._|\.(eq_\d+|match_\d+|proof_\d+)$', m.group(1)):
                thms[m.group(1)] = m.group(2).split()
        u['theorems'] = thms
        bad = [k for k, v in thms.items() if not set(v) <= ALLOWED_AXIOMS]
        u['held'] = bool(thms) and not bad and rc == 0
        u['status'] = ('held: %s (%d theorems)' % (cfg.get('held_text', 'translation of the source text proved equal to the model'), len(thms))) if u['held'] else 'unavailable: audit failed'
    if out['py_semantics'].get('n_disagreements') or out['py_semantics'].get('error'):
        for u in out['units'].values():          # the ties are stated over a semantics that is not CPython's here: informational
            u['held'] = False
            u['status'] = 'unavailable: Src/Py.lean disagrees with this interpreter (%s)' % (out['py_semantics'].get('error') or out['py_semantics']['disagreements'][:1])
    out['held'] = all(u['held'] for u in out['units'].values())
    out['status'] = '; '.join('%s — %s' % (k, u['status']) for k, u in out['units'].items())
    out['wall_s'] = round(time.time() - t0, 2)
    return out


def audit(prop):
    libdir = os.path.join(LEAN, '.lake', 'build', 'lib', 'lean', 'HpackVerif')
    h = hashlib.sha256()
    for base, _, files in sorted(os.walk(libdir)):
        for f in sorted(files):
            if f.endswith('.olean'):
                st = os.stat(os.path.join(base, f))
                h.update(('%s %d %d' % (f, st.st_size, st.st_mtime_ns)).encode())
    key = h.hexdigest()
    cache = os.path.join(LEAN, '.lake', 'audit_cache.json')
    data = None
    if os.path.exists(cache):
        try:
            c = json.load(open(cache))
            if c.get('key') == key:
                data = c['lines']
        except Exception:
            pass
    if data is None:
        # the audit imports every property module; build them all first (no-op when up to date)
        rc0, out0 = sh(['lake', 'build', 'HpackVerif'], cwd=LEAN, timeout=5400)
        rc, out = sh(['lake', 'env', 'lean', 'Audit.lean'], cwd=LEAN, timeout=1800)
        data = [l[l.index('AUDIT '):] for l in out.splitlines() if 'AUDIT ' in l]
        if rc != 0 or not data:
            # fall back: audit only this property
            src = 'import HpackVerif.Props.%s\n' % prop + open(os.path.join(LEAN, 'Audit.lean')).read().split('\n', 1)[1]
            tmp = os.path.join(LEAN, '.lake', 'AuditOne_%s.lean' % prop)
            open(tmp, 'w').write(src)
            rc, out = sh(['lake', 'env', 'lean', tmp], cwd=LEAN, timeout=1800)
            data = [l[l.index('AUDIT '):] for l in out.splitlines() if 'AUDIT ' in l]
        else:
            json.dump({'key': key, 'lines': data}, open(cache, 'w'))
    res = {'theorems': {}, 'shared': {}, 'bad': []}
    for l in data:
        m = re.match(r'AUDIT (\S+) \| ?(.*)$', l)
        if not m:
            continue
        name, axs = m.group(1), m.group(2).split()
        last = name.split('.')[-1]
        if re.match(r'(eq_\d+|eq_def|match_\d+|proof_\d+|inj|injEq|sizeOf_spec|noConfusion.*|rec.*|_.*)$', last) or '._' in name:
            continue
        if name.startswith('Props.%s.' % prop):
            res['theorems'][name] = axs
        elif name.count('.') == 1 and prop in SHARED_USERS.get(name.split('.')[1], ALL_PROPS):
            res['shared'][name] = axs
        else:
            continue
        if not set(axs) <= ALLOWED_AXIOMS:
            res['bad'].append('%s depends on %s' % (name, sorted(set(axs) - ALLOWED_AXIOMS)))
    return res


# ----------------------------------------------------------------------------------------------------
# streams
# ----------------------------------------------------------------------------------------------------
_ENV_KEYS = None


def env_keys():
    """names of environment variables read by the library's own code (harness/envscan.py), once per run"""
    global _ENV_KEYS
    if _ENV_KEYS is None:
        rc, txt = sh([runner.python_exe(), os.path.join(ROOT, 'harness', 'envscan.py')], env=dict(os.environ, HPACK_REPO=runner.repo_dir()), timeout=120)
        try:
            _ENV_KEYS = [k for k in json.loads(txt.strip().splitlines()[-1]) if not k.startswith(('PYTHON', 'HPACK_VERIF', 'HPACK_REPO'))]
        except Exception:
            _ENV_KEYS = []
    return _ENV_KEYS


def streams_for(prop, seed, tier, boost=1):
    """list of (name, ops, ctx). All randomness from Gen(seed-derived)."""
    T = tier == 'thorough'
    k = (6 if T else 1) * boost
    boost = boost
    out = []

    def G(tag):
        return Gen(int(hashlib.sha256(('%s/%s/%s' % (seed, prop, tag)).encode()).hexdigest()[:12], 16))

    def add(name, ops, ctx=None):
        out.append((name, ops, ctx or {}))

    if prop == 'C11':
        add('int', G('int').int_stream(n_random=400 * k))
        add('int-extra', genmod.int_extra_stream(G('ix')))
        add('int-memoryview', genmod.int_memoryview_truncations())
        add('int-call-forms', genmod.int_call_forms_stream())
        add('int-optimized', G('into').int_stream(n_random=60) + genmod.int_call_forms_stream(), {'env': {'PYTHONOPTIMIZE': '1'}})
        if T:
            add('int-exhaustive', G('x').int_exhaustive())
    elif prop == 'C12':
        g = G('henc')
        ops = g.henc_stream(n_random=200 * k, pairs=T)
        longs = genmod.long_huffman_strings(g.rnd, n_random=4 * k)
        ops += ['henc ' + genmod.hx(s) for s in longs] + ['hrt ' + genmod.hx(s) for s in longs]
        ops += ['hrt %02x' % b for b in range(256)] + ['hrt ' + genmod.hx(bytes(g.rnd.randrange(256) for _ in range(g.rnd.randint(1, 40)))) for _ in range(100 * k)]
        add('henc', ops)
        add('henc-extra', genmod.huff_extra_stream(G('hx')))
        add('huff-alignment', genmod.huff_alignment_catalogue())
        pw = genmod.huff_power_length_strings(17 if T else 15)
        add('huff-power-lengths', ['hrt ' + genmod.hx(x) for x in pw] + ['henc ' + genmod.hx(x) for x in pw[:40]])
        zc = genmod.zero_carry_huffman_strings(70000 if T else 34000)
        add('huff-zero-carry', ['hrt ' + genmod.hx(x) for x in zc])
        add('hrt-large', ['hrt ' + genmod.hx(bytes(0x80 + (j * 7) % 128 for j in range(14000))),
                          'hrt ' + genmod.hx(bytes(g.rnd.randrange(256) for _ in range(29000))),
                          'hrt ' + genmod.hx(b'plain ascii text ' * 3300)])
        add('henc-debuglog', genmod.with_debug_log(['henc %02x' % b for b in range(256)] + ['hrt ' + genmod.hx(bytes(range(256)))] +
                                                   ['henc ' + genmod.hx(bytes(g.rnd.randrange(256) for _ in range(20))) for _ in range(40)]))
        mixed = []
        for j in range(120 * k):          # rejected inputs (incomplete, EOS, bad padding) between round trips, one process
            mixed.append(g.rnd.choice(['hdec 1c', 'hdec ffffffff', 'hdec 00', 'hdec 1e', 'hdec ' + genmod.hx(bytes(g.rnd.randrange(256) for _ in range(3)))]))
            mixed.append('hrt ' + genmod.hx(bytes(g.rnd.choice(b'custom-key0123abc') for _ in range(g.rnd.randint(1, 12)))))
        add('henc-after-rejects', mixed)
        add('huff-large', genmod.huff_large_stream(full=T))
        add('huff-copies', genmod.huff_copy_stream(G('hc')))
        add('henc-shared-buffer', genmod.henc_shared_stream(G('hsb'), n=60 * k))
        add('huff-all-pairs', genmod.huff_pairs_stream())
        add('copies', genmod.copy_stream(G('cp')))
    elif prop == 'C13':
        add('hdec', G('hdec').hdec_stream(n_random=400 * k))
        add('hdec-transitions', genmod.huff_transition_catalogue())
        add('hdec-optimized', genmod.huff_transition_catalogue()[::5], {'env': {'PYTHONOPTIMIZE': '1'}})
        add('huff-alignment', genmod.huff_alignment_catalogue())
        add('hdec-shared-buffer', genmod.hdec_shared_stream(G('hs'), n=80 * k))
        rep = G('hdec2').hdec_stream(n_random=150 * k)
        add('hdec-repeated-in-one-process', rep + rep[::-1] + rep)
        add('huff-large', genmod.huff_large_stream(full=T))
        add('huff-copies', genmod.huff_copy_stream(G('hc')))
        add('copies', genmod.copy_stream(G('cp')))
        add('hdec-buffer-kinds', [o.split(' #')[0] + ' #buf=' + kd for o in genmod.huff_transition_catalogue()[::7] for kd in ('mv-bytearray', 'array-B', 'mv-slice', 'mv-strided', 'mv-reversed')])
        if T:
            add('hdec-exhaustive', G('x').hdec_exhaustive())
    elif prop in ('C06', 'C14'):
        add('table', G('table').table_stream(n_tables=12 * k))
        add('split-ambiguity', genmod.split_ambiguity_stream())
        add('huffman-expanding-near-table-size', genmod.huffman_expanding_table_stream())
        add('table-big', big_table_stream())
        add('copies', genmod.copy_stream(G('cp')))
        add('evict-binary', genmod.evict_binary_stream())
        add('whitespace-search', genmod.whitespace_search_stream())
        add('small-sizes-allowed', genmod.small_sizes_allowed_stream())
        add('table-long-history', genmod.big_history_table_stream(4300))
        add('enc-failing', genmod.enc_fail_stream(G('ef'), n=15 * k))
        add('coincidences', genmod.coincidence_stream(G('co')))
        add('call-orders', genmod.call_order_stream())
        add('enc-big-tables', genmod.big_table_encoder_stream(G('bt')))
        add('high-index', genmod.high_index_limit_stream())
        add('dec-churn', genmod.dec_churn_stream(G('ch'), n=8 * k))
        add('table-debuglog', genmod.with_debug_log(G('table2').table_stream(n_tables=6 * k)))
        add('dec-update-runs', genmod.dec_updates_stream(G('du'), n=15 * k))
        add('dec-extra', genmod.dec_extra_catalogue(G('dx')))
        add('deccat', G('deccat').dec_catalogue())
        add('conn-evict', evict_stream(G('ev'), 8 * k))
        add('enc', G('enc').enc_stream(n_conn=20 * k))
        add('dec', G('dec').dec_stream(n_conn=30 * k, mal=0.2))
        add('ctor-options', genmod.ctor_options_stream(G('co2')), {'nocorr': True})
        add('table-optimized', G('tableo').table_stream(n_tables=5 * k), {'env': {'PYTHONOPTIMIZE': '1'}})
        if T:
            add('table-exhaustive', G('x').table_exhaustive())
    elif prop in ('C02',):
        add('deccat', G('deccat').dec_catalogue())
        add('dec-wf', G('dec').dec_stream(n_conn=60 * k, mal=0.0))
        add('deccat-optimized', G('deccat').dec_catalogue(), {'env': {'PYTHONOPTIMIZE': '1'}})
        add('deccat-debuglog', genmod.with_debug_log(G('deccat').dec_catalogue()))
        add('conn-big-binary', genmod.big_binary_conn_stream(G('bb')))
        add('dec-mixed', G('dec2').dec_stream(n_conn=20 * k, mal=0.3, start_id=3000))
        add('dec-update-runs', genmod.dec_updates_stream(G('du'), n=20 * k))
        add('dec-ambiguity', genmod.ambiguity_stream(G('am'), n_random=50 * k))
        add('dec-churn', genmod.dec_churn_stream(G('ch'), n=10 * k))
        add('coincidences', genmod.coincidence_stream(G('co')))
        add('call-orders', genmod.call_order_stream())
        add('table-big', big_table_stream())
        add('high-index', genmod.high_index_limit_stream())
        add('dec-setters', genmod.dec_setter_stream(G('ds'), n=15 * k))
        add('dec-extra', genmod.dec_extra_catalogue(G('dx')))
        add('never-indexed-utf8', genmod.never_indexed_utf8_stream())
        add('failed-then-fresh', genmod.failed_then_fresh_stream())
        add('limits-interleaved', genmod.limit_interleaved_stream())
        add('utf8-tails', genmod.utf8_tail_stream()[0])
        add('copies', genmod.copy_stream(G('cp')))
        add('evict-binary', genmod.evict_binary_stream())
        add('allowed-down-up', genmod.allowed_down_up_stream(G('adu')))
        add('utf8-limits', genmod.utf8_limit_stream())
        add('update-then-limit', genmod.update_then_limit_stream())
        add('small-sizes-allowed', genmod.small_sizes_allowed_stream())
        add('static-entry-limits', genmod.static_entry_limit_stream())
        add('updates-then-never-indexed', genmod.updates_then_never_indexed_stream())
        add('huffman-expanding-near-table-size', genmod.huffman_expanding_table_stream())
    elif prop in ('C04', 'C05'):
        add('deccat', G('deccat').dec_catalogue())
        add('dec-mal', G('dec').dec_stream(n_conn=60 * k, mal=0.55))
        add('deccat-optimized', G('deccat').dec_catalogue(), {'env': {'PYTHONOPTIMIZE': '1'}})
        add('deccat-debuglog', genmod.with_debug_log(G('deccat').dec_catalogue()))
        add('dec-wf', G('dec2').dec_stream(n_conn=20 * k, mal=0.0, start_id=3000))
        add('dec-setters', genmod.dec_setter_stream(G('ds'), n=20 * k))
        add('dec-update-runs', genmod.dec_updates_stream(G('du'), n=10 * k))
        add('dec-ambiguity', genmod.ambiguity_stream(G('am'), n_random=20 * k))
        add('dec-churn', genmod.dec_churn_stream(G('ch'), n=8 * k))
        add('coincidences', genmod.coincidence_stream(G('co')))
        add('call-orders', genmod.call_order_stream())
        add('table-big', big_table_stream())
        add('high-index', genmod.high_index_limit_stream())
        add('dec-extra', genmod.dec_extra_catalogue(G('dx')))
        add('utf8-tails', genmod.utf8_tail_stream()[0])
        add('copies', genmod.copy_stream(G('cp')))
        add('evict-binary', genmod.evict_binary_stream())
        add('utf8-limits', genmod.utf8_limit_stream())
        add('update-then-limit', genmod.update_then_limit_stream())
        add('small-sizes-allowed', genmod.small_sizes_allowed_stream())
        add('allowed-down-up', genmod.allowed_down_up_stream(G('adu')))
        add('never-indexed-utf8', genmod.never_indexed_utf8_stream())
        add('limits-interleaved', genmod.limit_interleaved_stream())
        add('failed-then-fresh', genmod.failed_then_fresh_stream())
        add('deccat-warnings-as-errors', G('deccat').dec_catalogue(), {'env': {'HPACK_VERIF_WARNINGS': 'error', 'PYTHONDEVMODE': '1', '_PYFLAGS': '-bb'}})
        add('format-chars', genmod.format_chars_stream())
        add('format-chars-debuglog', genmod.with_debug_log(genmod.format_chars_stream(start_id=51000)))
        add('hdec-in-block', ['dnew 1'] + ['ddec 1 1 ' + genmod.hx(bytes([0x00, 0x80 | (len(o.split()[1]) // 2)]) + bytes.fromhex(o.split()[1]) + b'\x00')
                                          for o in genmod.huff_transition_catalogue() if o.split()[1] != '-' and len(o.split()[1]) // 2 < 127])
        if T:
            add('dec-small', G('x').dec_exhaustive_small())
    elif prop in ('C07', 'C08'):
        add('deccat', G('deccat').dec_catalogue())
        add('dec-limits', G('dec').dec_stream(n_conn=80 * k, mal=0.15))
        add('deccat-optimized', G('deccat').dec_catalogue(), {'env': {'PYTHONOPTIMIZE': '1'}})
        add('dec-bounds', bounds_stream(G('b'), 40 * k))
        add('conn-big-binary', genmod.big_binary_conn_stream(G('bb')))
        add('high-index', genmod.high_index_limit_stream())
        add('coincidences', genmod.coincidence_stream(G('co')))
        add('call-orders', genmod.call_order_stream())
        add('dec-churn', genmod.dec_churn_stream(G('ch'), n=6 * k))
        add('dec-extra', genmod.dec_extra_catalogue(G('dx')))
        add('dec-update-runs', genmod.dec_updates_stream(G('du'), n=10 * k))
        add('dec-setters', genmod.dec_setter_stream(G('ds'), n=8 * k))
        add('raise-then-reference', genmod.raise_then_reference_stream())
        add('explicit-config', genmod.explicit_config_stream())
        add('decoder-copies-keep-config', genmod.decoder_copies_keep_config_stream())
        add('table-size-above-permitted', genmod.table_size_above_permitted_stream())
        add('setters-via-table', genmod._via_table(genmod.dec_setter_stream(G('dsv'), n=8 * k)))
        add('copies', genmod.copy_stream(G('cp')))
        add('utf8-limits', genmod.utf8_limit_stream())
        add('update-then-limit', genmod.update_then_limit_stream())
        add('small-sizes-allowed', genmod.small_sizes_allowed_stream())
        add('allowed-down-up', genmod.allowed_down_up_stream(G('adu')))
        add('evict-binary', genmod.evict_binary_stream())
        add('static-entry-limits', genmod.static_entry_limit_stream())
        add('updates-then-never-indexed', genmod.updates_then_never_indexed_stream())
        add('limits-interleaved', genmod.limit_interleaved_stream())
        add('failed-then-fresh', genmod.failed_then_fresh_stream())
    elif prop in ('C03', 'C19', 'C15'):
        add('enccat', G('enccat').enc_catalogue())
        add('enc', G('enc').enc_stream(n_conn=60 * k))
        add('enc-sizes', genmod.enc_size_stream(G('es'), n=10 * k))
        add('split-ambiguity', genmod.split_ambiguity_stream())
        add('conn-evict', evict_stream(G('ev'), 12 * k))
        add('enc-big-tables', genmod.big_table_encoder_stream(G('bt')))
        add('api-forms-conn', genmod.api_forms_conn_stream(G('af'), n=15 * k))
        if prop == 'C03':
            add('conn-power-lengths', genmod.power_length_conn_stream(full=T))
        add('coincidences', genmod.coincidence_stream(G('co')))
        add('call-orders', genmod.call_order_stream())
        add('enccat-debuglog', genmod.with_debug_log(G('enccat').enc_catalogue()))
        add('conn-evict-debuglog', genmod.with_debug_log(evict_stream(G('ev2'), 6 * k)))
        if prop == 'C15':
            add('dec-text', G('dect').dec_stream(n_conn=25 * k, mal=0.05, start_id=4000))
            add('dec-extra', genmod.dec_extra_catalogue(G('dx')))
            add('conn', G('conn').conn_stream(n_conn=15 * k))
            add('deccat', G('deccat').dec_catalogue())
            add('never-indexed-utf8', genmod.never_indexed_utf8_stream())
            add('updates-then-never-indexed', genmod.updates_then_never_indexed_stream())
        add('name-index-boundaries', genmod.name_index_boundary_stream())
        add('enc-failing', genmod.enc_fail_stream(G('ef'), n=12 * k))
        add('ctor-options', genmod.ctor_options_stream(G('co2')), {'nocorr': True})
        add('enc-optimized', G('enco').enc_stream(n_conn=10 * k), {'env': {'PYTHONOPTIMIZE': '1'}})
        add('enc-docstrings-stripped-warnings-as-errors', G('enco2').enc_stream(n_conn=6 * k), {'env': {'PYTHONOPTIMIZE': '2', 'HPACK_VERIF_WARNINGS': 'error'}})
        add('copies', genmod.copy_stream(G('cp')))
        add('direct-add', genmod.eadd_stream())
        add('generator-assigns-size', genmod.eev_stream(G('ev')))
        add('static-names-other-values', genmod.static_names_other_values_stream())
        add('cross-encoder-sensitive', genmod.cross_encoder_sensitive_stream())
        add('whitespace-search', genmod.whitespace_search_stream())
        add('evict-binary', genmod.evict_binary_stream())
        if prop == 'C03':
            add('content-catalogue', genmod.content_catalogue_stream())
            add('length-collisions', genmod.length_collision_stream())
            add('huffman-switch-kinds', genmod._huff_kinds(G('hk').enc_stream(n_conn=10 * k)))
        ops_dg, _g = genmod.dict_dupkey_stream()
        add('dict-and-generators', ops_dg)
        add('dict-and-generators-debuglog', genmod.with_debug_log(ops_dg))
        add('dict-subclasses', genmod._dict_kinds(ops_dg))
        ops_bs2, _g2 = genmod.both_sensitivities_stream(G('pib'), n=6 * k)
        add('headers-deciding-indexable-per-instance', genmod.api_forms_conn_stream(G('pih'), n=10 * k) + ops_bs2, {'env': {'HPACK_VERIF_HDRKIND': 'instance'}})
        ops_, groups_ = genmod.both_sensitivities_stream(G('bs'), n=6 * k)
        add('both-sensitivities', ops_)
    elif prop == 'C09':
        add('enccat', G('enccat').enc_catalogue())
        add('enc-sizes', genmod.enc_size_stream(G('es'), n=60 * k))
        add('enc', G('enc').enc_stream(n_conn=30 * k))
        add('enc-failing', genmod.enc_fail_stream(G('ef'), n=10 * k))
        add('enc-sizes-optimized', genmod.enc_size_stream(G('eso'), n=10 * k), {'env': {'PYTHONOPTIMIZE': '1'}})
        add('api-forms-conn', genmod.api_forms_conn_stream(G('af'), n=8 * k))
        add('coincidences', genmod.coincidence_stream(G('co')))
        add('call-orders', genmod.call_order_stream())
        add('enc-sizes-debuglog', genmod.with_debug_log(genmod.enc_size_stream(G('es2'), n=10 * k)))
        add('copies', genmod.copy_stream(G('cp')))
        add('generator-assigns-size', genmod.eev_stream(G('ev')))
        ops_, groups_ = genmod.dict_dupkey_stream()
        add('dict-and-generators', ops_)
    elif prop in ('C01', 'C10'):
        add('conn', G('conn').conn_stream(n_conn=40 * k))
        if prop == 'C01':
            add('content-catalogue', genmod.content_catalogue_stream())
            add('length-collisions', genmod.length_collision_stream())
            ops_dg, _g = genmod.dict_dupkey_stream()
            add('dict-and-generators', ops_dg)
            add('dict-and-generators-debuglog', genmod.with_debug_log(ops_dg))
            add('dict-subclasses', genmod._dict_kinds(ops_dg))
            add('huffman-switch-kinds', genmod._huff_kinds(G('hk').conn_stream(n_conn=8 * k)))
        add('enc-failing', genmod.enc_fail_stream(G('ef'), n=10 * k))
        add('ctor-options', genmod.ctor_options_stream(G('co2')), {'nocorr': True})
        add('conn-optimized', G('conno').conn_stream(n_conn=8 * k, start_id=900), {'env': {'PYTHONOPTIMIZE': '1'}})
        add('conn-text', G('conntext').conn_text_stream(n_conn=15 * k))
        add('enc-sizes', genmod.enc_size_stream(G('es'), n=25 * k))
        add('split-ambiguity', genmod.split_ambiguity_stream())
        add('huffman-expanding-near-table-size', genmod.huffman_expanding_table_stream())
        add('conn-evict', evict_stream(G('ev'), 12 * k))
        add('api-forms-conn', genmod.api_forms_conn_stream(G('af'), n=20 * k))
        add('enc-big-tables', genmod.big_table_encoder_stream(G('bt')))
        add('conn-big-binary', genmod.big_binary_conn_stream(G('bb')))
        add('conn-power-lengths', genmod.power_length_conn_stream(full=T))
        add('name-index-boundaries', genmod.name_index_boundary_stream())
        add('copies', genmod.copy_stream(G('cp')))
        add('generator-assigns-size', genmod.eev_stream(G('ev')))
        add('allowed-down-up', genmod.allowed_down_up_stream(G('adu')))
        add('evict-binary', genmod.evict_binary_stream())
        add('whitespace-search', genmod.whitespace_search_stream())
        zc = genmod.zero_carry_huffman_strings(70000 if T else 34000)
        add('conn-zero-carry', ['enew 35001', 'dnew 35001 100000000'] + [o for x in zc for o in ('eenc 35001 1 %s:%s:0' % (genmod.hx(b'z'), genmod.hx(x)), 'pipe 35001 1 35001')])
        add('coincidences', genmod.coincidence_stream(G('co')))
        add('call-orders', genmod.call_order_stream())
        add('conn-debuglog', genmod.with_debug_log(G('conn2').conn_stream(n_conn=10 * k, start_id=700)))
        ops_, groups_ = genmod.dict_dupkey_stream()
        add('dict-and-generators', ops_)
    elif prop == 'C17':
        add('deccat', G('deccat').dec_catalogue())
        add('dec-buffers', G('dec').dec_stream(n_conn=60 * k, mal=0.2))
        add('dec-extra', genmod.dec_extra_catalogue(G('dx')))
        add('dec-update-runs', genmod.dec_updates_stream(G('du'), n=8 * k))
    elif prop == 'C18':
        ops, groups = G('api').api_stream(n=60 * k)
        add('api', ops, {'groups': groups})
        ops, pairs = G('modes').modes_stream(n=40 * k)
        add('modes', ops, {'pairs': pairs})
        add('conn-text', G('conntext').conn_text_stream(n_conn=10 * k))
        ops, groups = genmod.empty_forms_stream()
        add('empty-forms', ops, {'groups': groups})
        add('api-forms-conn', genmod.api_forms_conn_stream(G('af'), n=15 * k))
        ops, pairs = modes_extra(G('mx'))
        add('modes-extra', ops, {'pairs': pairs})
        ops, groups = genmod.dict_dupkey_stream()
        add('dict-and-generators', ops, {'groups': groups})
        add('dict-and-generators-debuglog', genmod.with_debug_log(ops), {'groups': groups})
        add('dict-subclasses', genmod._dict_kinds(ops), {'groups': groups})
        ops2, groups2 = G('apidk').api_stream(n=25 * k)
        add('api-dict-subclasses', genmod._dict_kinds(ops2), {'groups': groups2})
        ops, groups = G('apilog').api_stream(n=25 * k)
        add('api-debuglog', genmod.with_debug_log(ops), {'groups': groups})
        ops, pairs = genmod.utf8_tail_stream()
        add('utf8-tails', ops, {'pairs': pairs})
        ops, groups = genmod.both_sensitivities_stream(G('bs'), n=12 * k)
        add('both-sensitivities', ops, {'groups': groups})
        add('never-indexed-utf8', genmod.never_indexed_utf8_stream())
    elif prop == 'C16':
        add('deccat', G('deccat').dec_catalogue())
        add('dec-mal', G('dec').dec_stream(n_conn=30 * k, mal=0.4))
    elif prop == 'C20':
        add('conn', G('conn').conn_stream(n_conn=10 * k))
        add('failed-then-fresh', genmod.failed_then_fresh_stream())
        add('limits-interleaved', genmod.limit_interleaved_stream())
        ops_, groups_ = genmod.both_sensitivities_stream(G('bs'), n=4 * k)
        add('both-sensitivities', ops_)
        add('copies', genmod.copy_stream(G('cp')))
        add('cross-encoder-sensitive', genmod.cross_encoder_sensitive_stream())
        add('ctor-options', genmod.ctor_options_stream(G('co2')), {'nocorr': True})
    # environment variables the library itself reads (none on the unchanged tree): the explicit-configuration stream once per
    # variable and plausible value, judged only
    for key in env_keys()[:3]:
        for val in ('1', '0', '1048576', '100', 'true'):
            add('env-%s=%s' % (key, val), genmod.explicit_config_stream(), {'env': {key: val}, 'nocorr': True})
    # the application holds trivial SUBCLASSES of Encoder / Decoder / HeaderTable (a counter attribute, a helper method; nothing
    # overridden): a random stream of the property once more, constructed that way (the model is the same)
    # the same idea for the interpreter: docstrings stripped and asserts off (-OO), warnings raised as errors
    oo = {'C11': lambda: G('ooi').int_stream(n_random=80) + genmod.int_call_forms_stream(),
          'C12': lambda: G('ooh').henc_stream(n_random=60) + ['henc ' + genmod.hx(bytes((j * 7 + 3) % 256 for j in range(n_))) for n_ in (16384, 16385, 20000)], 'C13': lambda: G('ood').hdec_stream(n_random=150) + genmod.huff_transition_catalogue()[::9],
          'C06': lambda: G('oot').table_stream(n_tables=6 * k, n_ops=25), 'C14': lambda: G('oot').table_stream(n_tables=6 * k, n_ops=25),
          'C02': lambda: G('oodc').dec_stream(n_conn=12 * k, mal=0.3), 'C04': lambda: G('oodc').dec_stream(n_conn=12 * k, mal=0.5),
          'C05': lambda: G('oodc').dec_stream(n_conn=12 * k, mal=0.5), 'C07': lambda: G('oodc').dec_stream(n_conn=12 * k, mal=0.2),
          'C08': lambda: G('oodc').dec_stream(n_conn=12 * k, mal=0.2), 'C17': lambda: G('oodc').dec_stream(n_conn=8 * k, mal=0.2)}
    if prop == 'C18':
        ops_b, groups_b = G('bb').api_stream(n=20 * k)
        add('no-asserts-no-docstrings-warnings-as-errors', ops_b, {'groups': groups_b, 'env': {'PYTHONOPTIMIZE': '2', 'HPACK_VERIF_WARNINGS': 'error', '_PYFLAGS': '-bb'}})
        ops_dk, groups_dk = genmod.dict_dupkey_stream()
        add('dicts-warnings-as-errors', ops_dk, {'groups': groups_dk, 'env': {'HPACK_VERIF_WARNINGS': 'error'}})     # (no -bb here: these dicts mix str and bytes keys of equal hash, which Python itself refuses under -bb)
        ops_bs2, groups_bs2 = genmod.both_sensitivities_stream(G('pib'), n=8 * k)
        add('headers-deciding-indexable-per-instance', ops_bs2, {'groups': groups_bs2, 'env': {'HPACK_VERIF_HDRKIND': 'instance'}})
    if prop not in ('C16', 'C18'):
        add('no-asserts-no-docstrings-warnings-as-errors', oo.get(prop, lambda: G('ooc').conn_stream(n_conn=8 * k))(),
            {'env': {'PYTHONOPTIMIZE': '2', 'HPACK_VERIF_WARNINGS': 'error', '_PYFLAGS': '-bb'}})
    if prop not in ('C11', 'C12', 'C13', 'C16'):
        sub = {'C06': lambda: G('subt').table_stream(n_tables=6 * k, n_ops=25), 'C14': lambda: G('subt').table_stream(n_tables=6 * k, n_ops=25),
               'C02': lambda: G('subd').dec_stream(n_conn=15 * k, mal=0.2), 'C04': lambda: G('subd').dec_stream(n_conn=15 * k, mal=0.5),
               'C05': lambda: G('subd').dec_stream(n_conn=15 * k, mal=0.5), 'C07': lambda: G('subd').dec_stream(n_conn=15 * k, mal=0.2),
               'C08': lambda: G('subd').dec_stream(n_conn=15 * k, mal=0.2), 'C17': lambda: G('subd').dec_stream(n_conn=10 * k, mal=0.2),
               }.get(prop, lambda: G('subc').conn_stream(n_conn=10 * k))
        if prop == 'C18':
            ops_s, groups_s = G('suba').api_stream(n=20 * k)
            add('app-subclasses', ops_s, {'groups': groups_s, 'env': {'HPACK_VERIF_SUBCLASS': '1'}})
        else:
            add('app-subclasses', sub(), {'env': {'HPACK_VERIF_SUBCLASS': '1'}})
    return out


def modes_extra(g):
    """raw/text decoder pairs fed the deterministic extra catalogue (static entries as never-indexed literals, the
    same field under every representation, non-UTF-8 at the limit)"""
    ops0 = genmod.dec_extra_catalogue(g)
    ops, pairs, seen = [], [], {}
    for o in ops0:
        t = o.split('#')[0].split()
        ann = (' #' + o.split('#', 1)[1]) if '#' in o else ''
        if t[0] == 'dnew':
            a = 100000 + 2 * len(seen); b = a + 1
            seen[t[1]] = (a, b); pairs.append((a, b))
            for x in (a, b):
                ops.append(' '.join(['dnew', str(x)] + t[2:]))
        elif t[1] in seen:
            a, b = seen[t[1]]
            if t[0] == 'ddec':
                ops.append('ddec %d 1 %s%s' % (a, t[3], ann)); ops.append('ddec %d 0 %s%s' % (b, t[3], ann))
            else:
                ops.append(' '.join([t[0], str(a)] + t[2:])); ops.append(' '.join([t[0], str(b)] + t[2:]))
    return ops, pairs


def big_table_stream():
    """tables with more dynamic entries than the static table has (62, 63, 100, 124): every index from 0 to
    past the end, on HeaderTable directly and through a Decoder"""
    ops = []
    hxs = genmod.hx
    tid = 700
    for count in (61, 62, 63, 100, 124):
        tid += 1
        ops.append('tnew %d' % tid)
        ops.append('dnew %d 1000000' % tid)
        blk = b''
        for i in range(count):
            ops.append('tadd %d %s -' % (tid, hxs(bytes([i + 1]))))
            blk += bytes([0x40, 0x01, i + 1, 0x00])
        ops.append('ddec %d 1 %s' % (tid, hxs(blk)))
        for i in [0, 1, 61, 62, 63, 61 + count - 1, 61 + count, 62 + count, 63 + count, 127, 128, 200, 255, 256]:
            ops.append('tget %d %d' % (tid, i))
            ops.append('dget %d %d' % (tid, i))
            from refmodel import int_octets
            ops.append('ddec %d 1 %s' % (tid, hxs(int_octets(i, 7, 0x80))))
            if i:
                ops.append('ddec %d 1 %s' % (tid, hxs(int_octets(i, 4, 0x00) + b'\x00')))
                ops.append('ddec %d 1 %s' % (tid, hxs(int_octets(i, 4, 0x10) + b'\x00')))
        ops.append('tsearch %d 01 -' % tid)
        ops.append('tsearch %d %s -' % (tid, hxs(bytes([count]))))
    return ops


def bounds_stream(g, n):
    """list-limit and table-size boundaries met exactly: limit == size, size±1, 0; allowed == update, ±1"""
    from refmodel import esize
    ops = []
    rnd = g.rnd
    d = 8000
    for _ in range(n):
        d += 1
        names = [rnd.choice([b'a', b'bb', b'', b'x-k']) for _ in range(rnd.randint(1, 5))]
        vals = [rnd.choice([b'', b'1', b'vv', b'w' * rnd.randint(0, 40)]) for _ in names]
        total = sum(esize(nm, v) for nm, v in zip(names, vals))
        lim = rnd.choice([total, total, total - 1, total + 1, 0, max(total - 32, 0)])
        ops.append('dnew %d %d' % (d, max(lim, 0)))
        blk = b''
        for nm, v in zip(names, vals):
            blk += bytes([rnd.choice([0x40, 0x00, 0x10])]) + g.string(nm, None, 0) + g.string(v, None, 0)
        ops.append('ddec %d 1 %s' % (d, genmod.hx(blk)))
        # the same list through indexed references to one big entry
        if rnd.random() < 0.5:
            ops.append('ddec %d 1 %s' % (d, genmod.hx(b'\xbe' * rnd.choice([1, 2, 3, 50]))))
        # permitted maximum boundaries
        a = rnd.choice([0, 31, 32, 64, 100, 4096, 5000])
        ops.append('dallow %d %d' % (d, a))
        from refmodel import int_octets
        for u in (a, a + 1, max(a - 1, 0)):
            ops.append('ddec %d 1 %s' % (d, genmod.hx(int_octets(u, 5, 0x20, g.zeros()) + b'\x82')))
        ops.append('ddec %d 1 -' % d)
        ops.append('ddec %d 1 %s' % (d, genmod.hx(int_octets(max(a - 5, 0), 5, 0x20) + int_octets(a + 7, 5, 0x20) + int_octets(a, 5, 0x20))))
        ops.append('ddec %d 1 %s' % (d, genmod.hx(int_octets(a, 5, 0x20) + int_octets(max(a - 3, 0), 5, 0x20) + b'\x82')))
    return ops


def evict_stream(g, n):
    """connections built to evict: small tables, entries larger than the table, exact fits, repeats of
    names after an oversized field, upper-case static names"""
    ops = []
    rnd = g.rnd
    i = 9000
    hxs = genmod.hx
    for _ in range(n):
        i += 1
        ops.append('enew %d' % i); ops.append('dnew %d 1000000' % i)
        size = rnd.choice([64, 100, 128, 200, 4096])
        if size != 4096:
            ops.append('esize %d %d' % (i, size))
        known = []
        for b in range(rnd.randint(3, 8)):
            hs = []
            for _ in range(rnd.randint(1, 4)):
                r = rnd.random()
                if r < 0.2:      # larger than the whole table
                    n_, v_ = rnd.choice([b'cookie', b'big', b'a']), b'Z' * (size + rnd.randint(-40, 40))
                elif r < 0.4 and known:
                    n_, v_ = rnd.choice(known)
                elif r < 0.5 and known:
                    n_, v_ = rnd.choice(known)[0], b'other' + bytes([65 + rnd.randrange(26)])
                elif r < 0.6:
                    n_, v_ = rnd.choice([b'Cookie', b'ETag', b':Method', b'Accept', b'cookie']), rnd.choice([b'', b'x', b'GET'])
                else:
                    n_, v_ = rnd.choice([b'a', b'bb', b'k' * 10, b'cookie', b'etag']), bytes([97 + rnd.randrange(26)]) * rnd.randint(0, 30)
                known.append((n_, v_))
                hs.append((n_, v_, rnd.random() < 0.15))
            known = known[-10:]
            ops.append('eenc %d %d %s' % (i, rnd.random() < 0.5, ' '.join('%s:%s:%d' % (hxs(a), hxs(b_), int(s)) for a, b_, s in hs)))
            ops.append('pipe %d 1 %d' % (i, i))
    return ops


# ----------------------------------------------------------------------------------------------------
# shrink
# ----------------------------------------------------------------------------------------------------
def ids_of(op):
    t = op.split('#')[0].split()
    if not t:
        return set()
    if t[0] == 'pipe':
        return {t[1], t[3]}
    if t[0] in ('ienc', 'idec', 'henc', 'hdec', 'hrt', 'utf8', 'cfg'):
        return set()
    return {t[1]} if len(t) > 1 else set()


def shrink(ops, idx, still_fails, budget_s=25):
    """restrict to the instances the failing op touches, cut after it, then greedy removal"""
    t0 = time.time()
    want = ids_of(ops[idx])
    # close over pipes
    changed = True
    while changed:
        changed = False
        for o in ops[:idx + 1]:
            s = ids_of(o)
            if s & want and not s <= want:
                want |= s; changed = True
    cand = [o for o in ops[:idx + 1] if (ids_of(o) & want) or not ids_of(o) and o is ops[idx]]
    if not want:
        cand = [ops[idx]]
    if not still_fails(cand):
        cand = ops[:idx + 1]
        if not still_fails(cand):
            return ops[:idx + 1]
    # greedy: try dropping chunks, never the last op
    n = max(len(cand) // 2, 1)
    while n >= 1 and time.time() - t0 < budget_s:
        i = 0
        while i < len(cand) - 1 and time.time() - t0 < budget_s:
            trial = cand[:i] + cand[min(i + n, len(cand) - 1):]
            if len(trial) < len(cand) and still_fails(trial):
                cand = trial
            else:
                i += n
        n //= 2
    return cand


# ----------------------------------------------------------------------------------------------------
# main
# ----------------------------------------------------------------------------------------------------
def load_known():
    try:
        return json.load(open(os.path.join(ROOT, 'known_findings.json')))
    except Exception:
        return {'known': [], 'fixed': []}


def _one_stream(prop, name, ops, ctx, judge, corr):
    J = judges.JUDGES.get(prop)
    t0 = time.time()
    impl = runner.run_impl(ops, extra_env=ctx.get('env'))
    # constructor-with-options operations are plain constructors to the model and to the judges
    ops = [re.sub(r'^(enew|dnew|tnew)x\b', r'\1', o) for o in ops]
    t1 = time.time()
    model, note = None, None
    if corr and not ctx.get('nocorr'):
        try:
            model = runner.run_model(ops)
        except runner.InfraError as e:
            note = 'model driver: %s' % e
    t2 = time.time()
    disag = [(name, i, ops[i], impl[i], model[i]) for i in runner.compare(ops, impl, model)] if model is not None else []
    fails, known = [], []
    if judge and J:
        c = dict(ctx)
        fails = [(name, f) for f in J(ops, impl, c)]
        known = [(name,) + tuple(kh) for kh in c.get('known_hits', [])]
    kinds, nontriv = {}, set()
    for o, r in zip(ops, impl):
        op = o.split()[0]
        kind = r.split(' | ')[0].split(' ')
        kk = op + ':' + (kind[0] if kind[0] != 'err' and kind[0] != 'esc' else ' '.join(kind[:2]))
        kinds[kk] = kinds.get(kk, 0) + 1
        if is_nontrivial(o, r):
            nontriv.add(hashlib.sha1((strip_ids(o) + '|' + r.split(' | ')[0][:60]).encode()).hexdigest())
    return {'name': name, 'fails': fails, 'disag': disag, 'known': known, 'kinds': kinds, 'nontriv': nontriv, 'note': note,
            'stat': {'ops': len(ops), 'impl_s': round(t1 - t0, 2), 'model_s': round(t2 - t1, 2)}}


def run_streams(prop, streams, info, judge=True, corr=True):
    """-> (judge_failures, disagreements, known_hits, stats); streams run concurrently (each is two subprocesses)"""
    from concurrent.futures import ThreadPoolExecutor
    fails, disag, known = [], [], []
    stats = {'ops': 0, 'streams': {}, 'reply_kinds': {}, 'nontrivial': set()}
    workers = int(os.environ.get('HPACK_VERIF_JOBS', '6'))
    with ThreadPoolExecutor(max_workers=workers) as ex:
        results = list(ex.map(lambda t: _one_stream(prop, t[0], t[1], t[2], judge, corr), streams))
    for r in results:           # in stream order: the first failure reported is deterministic
        fails += r['fails']; disag += r['disag']; known += r['known']
        if r['note']:
            info.setdefault('infra_notes', []).append(r['note'])
        for k, v in r['kinds'].items():
            stats['reply_kinds'][k] = stats['reply_kinds'].get(k, 0) + v
        stats['nontrivial'] |= r['nontriv']
        stats['ops'] += r['stat']['ops']
        stats['streams'][r['name']] = r['stat']
    return fails, disag, known, stats


def strip_ids(o):
    t = o.split('#')[0].split()
    if len(t) > 1 and t[0] not in ('ienc', 'idec', 'henc', 'hdec', 'hrt'):
        t[1] = '_'
    if t and t[0] == 'pipe' and len(t) > 3:
        t[3] = '_'
    return ' '.join(t)


def is_nontrivial(o, r):
    """a case is non-trivial if it reached a non-default branch: an error, an eviction or non-empty table,
    a size update, a continuation integer, a Huffman string, a match"""
    op = o.split()[0]
    if op in ('enew', 'dnew', 'tnew', 'edump', 'ddump', 'tdump', 'cfg'):
        return False
    if r.startswith('err') or r.startswith('esc'):
        return True
    if op in ('ienc', 'idec', 'henc', 'hdec', 'hrt', 'tsearch', 'tget', 'dget'):
        return len(o) > 8
    return '[' in r and not r.endswith('[]') or 'changes=[' in r and 'changes=[]' not in r or op in ('eenc', 'eapi', 'ddec', 'pipe', 'tadd', 'tmax', 'esize', 'dsize', 'dallow', 'dlimit')


def write_replay(prop, seed, tier, kind, payload):
    d = os.path.join(ROOT, 'evidence', 'replays')
    os.makedirs(d, exist_ok=True)
    p = os.path.join(d, '%s-%s-%s-%s.json' % (prop, tier, seed, kind))
    payload = dict(payload, property=prop, seed=seed, tier=tier, kind=kind, repo=runner.repo_dir())
    json.dump(payload, open(p, 'w'), indent=1)
    return os.path.relpath(p, ROOT)


def judged_fail_on(prop, ops, ctx=None, sig=None):
    impl = runner.run_impl(ops, extra_env=(ctx or {}).get('env'))        # the interpreter options / environment of the stream it came from
    J = judges.JUDGES.get(prop)
    c = dict(ctx or {})
    if any(r == 'bad-id' or r == 'bad-op' for r in impl):
        return [], impl          # not a history: an instance was used before it was created (invalid reduction)
    fs = J(ops, impl, c) if J else []
    if sig:
        fs = [f for f in fs if f.sig == sig]
    return fs, impl


def main():
    import argparse
    ap = argparse.ArgumentParser()
    ap.add_argument('prop')
    ap.add_argument('--tier', default=os.environ.get('VERIF_TIER', 'quick'))
    ap.add_argument('--replay')
    a = ap.parse_args()
    prop, tier = a.prop, a.tier
    os.environ['VERIF_TIER'] = tier
    seed = int(os.environ.get('VERIF_SEED', '0') or 0)
    t_start = time.time()
    info = {}
    if a.replay:
        return do_replay(prop, a.replay)
    import probes
    try:
        b = build(prop, info)
    except subprocess.TimeoutExpired:
        log('check: build timed out'); return 2
    except FileNotFoundError as e:
        log('check: tool missing: %s' % e); return 2
    forb = forbidden_scan()
    known_cfg = load_known()
    broken = []          # names of obligations / ties that no longer check
    if not b['proof_ok']:
        broken.append({'what': 'proof', 'module': 'HpackVerif.Props.' + prop, 'failed_targets': b.get('failed_targets', []), 'errors': b['errors']})
    if b['proof_ok'] and b['audit'].get('bad'):
        broken.append({'what': 'axioms', 'detail': b['audit']['bad']})
    if forb:
        broken.append({'what': 'forbidden-construct', 'detail': forb[:10]})
    if info['translate']['missing']:
        broken.append({'what': 'translator', 'detail': info['translate']['missing']})
    drift = drift_report(info.get('pins', {}))
    src_lost = 'source_tie' in info and not info['source_tie'].get('held')
    boost = 3 if (drift['changed'] or broken or src_lost) else 1
    # ---------------- streams: correspondence + judge (a larger budget when the modelled functions were rewritten)
    streams = streams_for(prop, seed, tier, boost=2 if (drift['changed'] or src_lost) else 1)
    if tier == 'thorough':
        # further shards of the random streams with independent seeds (the catalogues are deterministic: keep one copy)
        base_names = {n for n, _, _ in streams}
        for shard in range(1, 4):
            for n_, o_, c_ in streams_for(prop, seed * 1000 + shard, tier, boost=1):
                if not re.search(r'cat|catalogue|transitions|exhaustive|extra|table-big|long-history|big-tables|empty-forms|small', n_):
                    streams.append(('%s#%d' % (n_, shard), o_, c_))
        if b['proof_ok']:
            t_lc = time.time()
            rc_lc, out_lc = sh(['lake', 'env', 'leanchecker', 'HpackVerif.Props.' + prop], cwd=LEAN, timeout=3600)
            info['leanchecker'] = {'rc': rc_lc, 'wall_s': round(time.time() - t_lc, 1), 'tail': out_lc.strip().splitlines()[-1][:200] if out_lc.strip() else ''}
            if rc_lc != 0:
                broken.append({'what': 'leanchecker', 'detail': out_lc[-400:]})
            # the source-tie modules that hold are re-checked independently too (informational, like the ties themselves)
            held_units = [(what, u) for what, u in (info.get('source_tie') or {}).get('units', {}).items() if u.get('held')]
            if held_units:
                t_lc = time.time()
                rc_all, _ = sh(['lake', 'env', 'leanchecker'] + [SOURCE_TIES[w]['module'] for w, _ in held_units], cwd=LEAN, timeout=3600)
                for what, u in held_units:
                    mod = SOURCE_TIES[what]['module']
                    rc2_ = 0
                    if rc_all != 0:          # find which one it rejects
                        rc2_, _ = sh(['lake', 'env', 'leanchecker', mod], cwd=LEAN, timeout=3600)
                    u['leanchecker'] = {'rc': rc2_, 'wall_s': round(time.time() - t_lc, 1)}
                    if rc2_ != 0:
                        u['held'] = False
                        u['status'] = 'unavailable: leanchecker rejects ' + mod
    fails, disag, known_hits, stats = run_streams(prop, streams, info, corr=b['driver_ok'])
    extra = probes.run(prop, tier, seed, info)          # impl-only probes (C16 cost, C17 buffers, C20 isolation)
    fails += [('probe', f) for f in extra.get('failures', [])]
    known_hits += extra.get('known_hits', [])
    if disag:
        broken.append({'what': 'correspondence', 'stream': disag[0][0], 'count': len(disag),
                       'first': {'op': disag[0][2][:400], 'impl': disag[0][3][:400], 'model': disag[0][4][:400]}})
    if not b['driver_ok']:
        broken.append({'what': 'model-driver-does-not-build', 'errors': b['errors'][:4]})
    # ---------------- a broken tie / obligation and no judged failure yet: search harder
    searched = None
    if broken and not fails:
        searched = {'rounds': 0, 'ops': 0}
        t_search = time.time()
        budget = 240 if tier == 'quick' else 1500
        rnd = 0
        # first: the disagreeing sequences themselves, then fresh seeds with larger budgets
        while time.time() - t_search < budget and not fails and rnd < (4 if tier == 'quick' else 12):
            rnd += 1
            st2 = streams_for(prop, seed * 1000 + 7919 * rnd + 1, tier, boost=2 + rnd)
            f2, d2, k2, s2 = run_streams(prop, st2, info, corr=False)
            searched['rounds'] = rnd
            searched['ops'] += s2['ops']
            if f2:
                fails = f2
                streams = st2
        if not fails and tier != 'quick':
            ex = probes.run(prop, 'thorough', seed + 1, info)
            fails += [('probe', f) for f in ex.get('failures', [])]
    # ---------------- verdict
    kn_lines = []
    known_sigs = {(k['property'], k['signature']): k for k in known_cfg.get('known', [])}
    for kh in known_hits:
        k = known_sigs.get((prop, kh[2]))
        if k and k['line'] not in kn_lines:
            kn_lines.append(k['line'])
        elif not k:
            fails.append((kh[0], judges.Failure(kh[1], kh[2], kh[3])))
    for l in kn_lines:
        log(l)
    exit_code = 0
    replay_path = None
    verdict = 'held'
    if fails:
        name, f = fails[0]
        ops, ctx = None, {}
        for n_, o_, c_ in streams:
            if n_ == name:
                ops, ctx = o_, c_
        payload = {'failure': {'signature': f.sig, 'text': f.text, 'stream': name}, 'title': TITLES.get(prop), 'broken': broken}
        if ops is not None and f.index is not None and 0 <= f.index < len(ops):
            def still(trial):
                try:
                    fs, _ = judged_fail_on(prop, trial, ctx, f.sig)
                    return bool(fs)
                except Exception:
                    return False
            try:
                small = shrink(ops, f.index, still)
            except Exception:
                small = ops[:f.index + 1]
            fs, impl = judged_fail_on(prop, small, ctx, f.sig)
            payload['ops'] = small
            payload['ctx'] = ctx
            payload['impl_replies'] = impl[-5:]
            if fs:
                payload['failure']['text'] = fs[0].text
            try:
                payload['model_replies'] = runner.run_model(small)[-5:] if b['driver_ok'] else None
            except Exception:
                pass
        elif isinstance(getattr(f, 'index', None), dict):
            payload['probe'] = f.index
        replay_path = write_replay(prop, seed, tier, 'input', payload)
        log('FAILING INPUT: ' + payload['failure']['text'][:600])
        if 'ops' in payload:
            for o in payload['ops'][-12:]:
                log('   op: ' + o[:300])
        log('VIOLATION property=%s replay=%s' % (prop, replay_path))
        exit_code = 1
        verdict = 'violated'
    elif broken:
        payload = {'broken': broken, 'title': TITLES.get(prop), 'searched': searched,
                   'note': 'a proof obligation or the model/implementation correspondence no longer checks; the search found no input on which the property itself fails'}
        if disag:
            name, i, op, ir, mr = disag[0]
            for n_, o_, c_ in streams:
                if n_ == name:
                    def still(trial):
                        try:
                            im = runner.run_impl(trial); mo = runner.run_model(trial)
                            return bool(runner.compare(trial, im, mo))
                        except Exception:
                            return False
                    try:
                        payload['ops'] = shrink(o_, i, still)
                    except Exception:
                        payload['ops'] = o_[:i + 1][-50:]
        replay_path = write_replay(prop, seed, tier, 'tie', payload)
        for bk in broken:
            log('BROKEN: ' + json.dumps(bk)[:700])
        log('VIOLATION property=%s replay=%s no-failing-input-found' % (prop, replay_path))
        exit_code = 1
        verdict = 'tie-broken'
    # ---------------- evidence
    thms = b.get('audit', {}).get('theorems', {}) if b['proof_ok'] else {}
    shared = b.get('audit', {}).get('shared', {}) if b['proof_ok'] else {}
    n_obl = len(thms) + len(shared)
    if not b['proof_ok']:
        n_obl = max(n_obl, 1)
    discharged = (len([1 for x in thms.values() if set(x) <= ALLOWED_AXIOMS]) + len([1 for x in shared.values() if set(x) <= ALLOWED_AXIOMS])) if b['proof_ok'] else 0
    samples = []
    for name, ops, ctx in streams[:3]:
        mid = len(ops) // 2
        samples.append({'stream': name, 'ops': [o[:200] for o in ops[mid:mid + 3]]})
    samples.append({'theorems': sorted(thms)[:8]})
    ev = {
        'property_id': prop, 'tier': tier, 'seed': seed, 'level': 'proof',
        'coverage': {
            'obligations': n_obl, 'discharged': discharged,
            'checker_cmd': info.get('checker_cmd', ''),
            'trusted_base': [
                'Lean 4 kernel (lake build); axioms used by the property theorems: ' + ', '.join(sorted({x for v in list(thms.values()) + list(shared.values()) for x in v})),
                'tools/translate.py dumps the run-time tables/constants of the working tree into lean/HpackVerif/Generated (witnesses untrusted)',
                'tools/py2lean.py + lean/HpackVerif/Src/Py.lean (source text of the integer codec / decode_huffman / HuffmanEncoder.encode / HeaderTable / Decoder / Encoder incl. encode -> Lean; Props.Src / SrcHuff / SrcHuffEnc / SrcTable / SrcDec / SrcEnc / SrcEncApi prove it equal to the model): ' + (info.get('source_tie') or {}).get('status', 'not used by this property'),
                'hand-written L2 model lean/HpackVerif/Impl/* tied to the code by the correspondence streams of this run (%d operations, %d disagreements)' % (stats['ops'], len(disag)),
                'L0 reading of RFC 7541 (lean/HpackVerif/RFC/*) and frozen Appendix A/B tables',
                'CPython semantics of int/bytes/deque/dict as modelled (DESIGN.md 5.2)',
            ],
            'theorems': {k: v for k, v in sorted(thms.items())},
            'shared_lemmas': len(shared),
            'evaluations': stats['ops'] + extra.get('evaluations', 0),
            'distinct_nontrivial': len(stats['nontrivial']) + extra.get('distinct_nontrivial', 0),
            'rule': 'operations of the property-scoped streams (boundary catalogue + structured random + malformed), each run on the real classes and on the Lean model; distinct = distinct (operation with instance ids erased, result kind); non-trivial = raised an error, touched a non-empty table / pending change, or carried a non-empty payload',
            'samples': samples,
            'traces_validated_against_impl': stats['ops'] if b['driver_ok'] else 0,
            'disagreements': len(disag),
            'judge_failures': len(fails),
            'known_findings_reported': kn_lines,
            'streams': stats['streams'],
            'distribution': dict(sorted(stats['reply_kinds'].items(), key=lambda kv: -kv[1])[:40]),
            'probe': extra.get('summary'),
            'broken': broken,
            'search': searched,
            'drift': drift,
            'source_tie': info.get('source_tie'),
            'translate': info.get('translate'),
            'leanchecker': info.get('leanchecker'),
            'verdict': verdict,
            'exhaustive': False,
        },
        'assumptions': [
            'the theorems are about the Lean model; the model is tied to the code by the translator (data) and the correspondence (logic) of this run',
            'hypotheses of the theorems are listed in lean/HpackVerif/Props/%s.lean and DESIGN.md section 6' % prop,
        ],
        'wall_s': round(time.time() - t_start, 2),
        'violations': 1 if exit_code == 1 else 0,
    }
    os.makedirs(os.path.join(ROOT, 'evidence'), exist_ok=True)
    json.dump(ev, open(os.path.join(ROOT, 'evidence', prop + '.json'), 'w'), indent=1)
    log('%s %s: %s — theorems %d/%d, %d ops, %d disagreements, %d judge failures, %.1fs' % (
        prop, tier, verdict, discharged, n_obl, stats['ops'], len(disag), len(fails), time.time() - t_start))
    return exit_code


def drift_report(pins):
    base = {}
    try:
        base = json.load(open(os.path.join(HERE, 'model_pins.json')))
    except Exception:
        pass
    changed = sorted(k for k in pins if k in base and base[k] != pins[k])
    missing = sorted(k for k in base if k not in pins)
    return {'changed': changed, 'missing': missing, 'note': 'AST hashes of the modelled functions vs the tree the model was written against; never an alarm, only raises the search budget'}


def do_replay(prop, path):
    if not os.path.isabs(path):
        path = os.path.join(ROOT, path)
    p = json.load(open(path))
    info = {}
    if p.get('kind') == 'input' and 'ops' in p:
        fs, impl = judged_fail_on(prop, p['ops'], p.get('ctx'), None)
        known_cfg = load_known()
        for o, r in list(zip(p['ops'], impl))[-10:]:
            log('  %s\n    -> %s' % (o[:200], r[:300]))
        if fs:
            log('REPLAY: still fails: ' + fs[0].text[:500])
            log('VIOLATION property=%s replay=%s' % (prop, os.path.relpath(path, ROOT)))
            return 1
        log('REPLAY: the recorded input no longer fails')
        return 0
    if p.get('kind') == 'input' and 'probe' in p:
        import probes
        r = probes.replay(prop, p['probe'])
        if r:
            log('REPLAY: still fails: ' + r[:500]); log('VIOLATION property=%s replay=%s' % (prop, os.path.relpath(path, ROOT))); return 1
        log('REPLAY: the recorded probe no longer fails'); return 0
    # tie replay: rebuild and re-run the disagreeing ops
    b = build(prop, info)
    bad = not b['proof_ok'] or bool(b.get('audit', {}).get('bad'))
    if 'ops' in p and b['driver_ok']:
        im = runner.run_impl(p['ops']); mo = runner.run_model(p['ops'])
        d = runner.compare(p['ops'], im, mo)
        for i in d[:3]:
            log('  disagreement at: %s\n    impl : %s\n    model: %s' % (p['ops'][i][:200], im[i][:300], mo[i][:300]))
        bad = bad or bool(d)
    if bad:
        log('REPLAY: the obligation / correspondence named in the replay is still broken: %s' % json.dumps(b['errors'][:3])[:400])
        log('VIOLATION property=%s replay=%s no-failing-input-found' % (prop, os.path.relpath(path, ROOT)))
        return 1
    log('REPLAY: obligation and correspondence check again')
    return 0


if __name__ == '__main__':
    try:
        sys.exit(main())
    except Infra as e:
        log('check: infrastructure failure: %s' % e)
        sys.exit(2)
    except subprocess.TimeoutExpired as e:
        log('check: timeout: %s' % e)
        sys.exit(2)
    except Exception:
        traceback.print_exc()
        sys.exit(2)
