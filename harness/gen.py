"""
Generators of operation streams for the correspondence check and the judges.

Every random choice derives from one `random.Random(seed)`; a stream is a list of op lines
(`protocol` of lean/Driver.lean; impl-only annotations after `#`).  Streams never depend on what the
implementation answers (a replay is just the op list); blocks are made meaningful by tracking the table
state with the independent reference model (harness/refmodel.py).

Each stream = deterministic boundary catalogue (taken from the property texts) + structured mostly-valid
random part + separate malformed part.
"""
import random
from refmodel import (STATIC, RefDecoder, RefTable, RefError, int_octets, huff_encode, esize)


def hx(b):
    b = bytes(b)
    return b.hex() if b else '-'


NAMES = [b'a', b'bb', b':method', b'cookie', b'x-long-' + b'n' * 40, b'', bytes([0, 255, 128]), b'accept-charset',
         b':authority', b'x', b'set-cookie', b'\xc3\xa9t\xc3\xa9', b':path']
VALS = [b'', b'ab\x00cd', b'1', b'GET', b'v' * 30, bytes(range(200, 256)), b'\xff\xfe', b'zz' * 70, b'0' * 8, b'b', b'/',
        b'\xe2\x82\xac', b'gzip, deflate', b'q' * 127, b'r' * 128]
BIG = [b'L' * 16383, b'M' * 16384, b'K' * 5000]


class Gen:
    def __init__(self, seed):
        self.rnd = random.Random(seed)

    # ------------------------------------------------------------------ helpers
    def zeros(self):
        return self.rnd.choice([0, 0, 0, 0, 1, 2, 3])

    def string(self, s, huff=None, z=None):
        if huff is None:
            huff = self.rnd.random() < 0.4
        if z is None:
            z = self.zeros()
        if huff:
            e = huff_encode(s)
            return int_octets(len(e), 7, 0x80, z) + e
        return int_octets(len(s), 7, 0, z) + bytes(s)

    def pick_name(self):
        r = self.rnd.random()
        if r < 0.2:
            return self.rnd.choice(STATIC)[0]
        return self.rnd.choice(NAMES)

    def pick_value(self):
        r = self.rnd.random()
        if r < 0.03:
            return self.rnd.choice(BIG)
        if r < 0.15:
            return bytes(self.rnd.randrange(256) for _ in range(self.rnd.randint(0, 12)))
        return self.rnd.choice(VALS)

    def index(self, dynlen, bad=0.08):
        r = self.rnd.random()
        top = 61 + dynlen
        if r < bad:
            return self.rnd.choice([0, top + 1, top + 2, top + 100, 10 ** 9])
        if r < 0.5 and dynlen:
            return self.rnd.choice([62, top, self.rnd.randint(62, top)])
        return self.rnd.choice([1, 61, self.rnd.randint(1, 61)])

    def rep(self, rd, allow_update=True, bad=0.08):
        """octets of one random representation against reference decoder state rd"""
        k = self.rnd.random()
        dynlen = len(rd.table.entries)
        if k < 0.3:
            return int_octets(self.index(dynlen, bad), 7, 0x80, self.rnd.choice([0, 0, 0, 1, 2]))
        if k < 0.38 and allow_update:
            a = rd.allowed
            n = self.rnd.choice([0, 33, 34, 66, 70, 100, a, a, max(a - 1, 0), a + 1 if self.rnd.random() < 0.3 else a, 4096,
                                 2 * a + 5 if self.rnd.random() < 0.2 else a, 65536 if self.rnd.random() < 0.1 else a])
            return int_octets(n, 5, 0x20, self.zeros())
        pat, N = self.rnd.choice([(0x40, 6), (0x40, 6), (0x00, 4), (0x10, 4)])
        if self.rnd.random() < 0.5:
            i = self.index(dynlen, bad)
            if i == 0:
                i = 1
            return int_octets(i, N, pat, self.zeros()) + self.string(self.pick_value())
        return bytes([pat]) + self.string(self.pick_name()) + self.string(self.pick_value())

    def block(self, rd, nmax=6, bad=0.08):
        """a block of representations; leading size updates possible; tracks rd (a RefDecoder) forward"""
        out = b''
        n = self.rnd.randint(0, nmax)
        first = True
        for _ in range(n):
            r = self.rep(rd, allow_update=first or self.rnd.random() < 0.05, bad=bad)
            if not (r[0] & 0xe0 == 0x20):
                first = False
            out += r
        return out

    def track(self, rd, data):
        try:
            rd.decode(data)
        except RefError:
            pass

    def corrupt(self, data):
        """single-defect style corruptions of a block: (kind, bytes)"""
        r = self.rnd.random()
        if not data:
            return 'random', bytes(self.rnd.randrange(256) for _ in range(self.rnd.randint(1, 6)))
        if r < 0.35:
            return 'prefix', data[:self.rnd.randint(0, len(data) - 1)]
        if r < 0.65:
            i = self.rnd.randrange(len(data))
            return 'flip', data[:i] + bytes([data[i] ^ (1 << self.rnd.randrange(8))]) + data[i + 1:]
        if r < 0.75:
            i = self.rnd.randrange(len(data) + 1)
            return 'insert', data[:i] + bytes([self.rnd.randrange(256)]) + data[i:]
        if r < 0.85:
            i = self.rnd.randrange(len(data))
            return 'delete', data[:i] + data[i + 1:]
        return 'random', bytes(self.rnd.randrange(256) for _ in range(self.rnd.randint(1, 16)))

    # ------------------------------------------------------------------ C11: integers
    def int_stream(self, n_random=300, cap=None):
        ops = []
        for N in (-1, 0, 9, 100):
            ops.append('ienc 5 %d' % N)
            ops.append('idec 05 %d' % N)
            ops.append('idec - %d' % N)
        for N in range(1, 9):
            ops.append('ienc -1 %d' % N)
            ops.append('ienc -%d %d' % (2 ** 70, N))
            m = 2 ** N - 1
            cat = [0, 1, m - 1, m, m + 1, m + 127, m + 128, m + 129, m + 128 ** 2 - 1, m + 128 ** 2, m + 128 ** 2 + 1,
                   m + 128 ** 3, m + 128 ** 4 - 1, m + 128 ** 9, 2 ** 32, 2 ** 63, 2 ** 64 - 1, 2 ** 64, 2 ** 64 + m,
                   2 ** 70 + 5, 2 ** 128, self.rnd.getrandbits(200), self.rnd.getrandbits(64), self.rnd.getrandbits(31)]
            for v in cat:
                if v < 0:
                    continue
                ops.append('ienc %d %d' % (v, N))
                hi = (self.rnd.randrange(256) >> N) << N if N < 8 else 0
                for z in (0, 1, 3):
                    enc = int_octets(v, N, hi, z if v >= m else 0)
                    rest = bytes(self.rnd.randrange(256) for _ in range(self.rnd.choice([0, 0, 1, 5])))
                    ops.append('idec %s %d' % (hx(enc + rest), N))
                enc = int_octets(v, N, hi)
                for cut in range(len(enc)):        # every proper prefix
                    ops.append('idec %s %d' % (hx(enc[:cut]), N))
            # runs of continuation octets around any cap
            for k in (9, 10, 11, 17, 18, 19, 20, 21, 30, 100, 2100):
                ops.append('idec %s %d' % (hx(bytes([0xff]) + b'\xff' * k + b'\x01'), N))
                ops.append('idec %s %d' % (hx(bytes([0xff]) + b'\x80' * k + b'\x00'), N))
                ops.append('idec %s %d' % (hx(bytes([0xff]) + b'\xff' * k), N))
        for _ in range(n_random):
            N = self.rnd.randint(1, 8)
            r = self.rnd.random()
            if r < 0.4:
                v = self.rnd.getrandbits(self.rnd.choice([3, 7, 8, 14, 21, 32, 64, 100]))
                ops.append('ienc %d %d' % (v, N))
                hi = (self.rnd.randrange(256) >> N) << N if N < 8 else 0
                enc = int_octets(v, N, hi, self.zeros() if v >= 2 ** N - 1 else 0)
                rest = bytes(self.rnd.randrange(256) for _ in range(self.rnd.choice([0, 0, 1, 5])))
                ops.append('idec %s %d%s' % (hx(enc + rest), N, ' #buf=memoryview' if self.rnd.random() < 0.3 else ''))
            else:
                alpha = [0x00, 0x01, 0x7f, 0x80, 0x81, 0xff]
                first = self.rnd.randrange(256)
                data = bytes([first]) + bytes(self.rnd.choice(alpha) if self.rnd.random() < 0.8 else self.rnd.randrange(256)
                                              for _ in range(self.rnd.randint(0, 6)))
                ops.append('idec %s %d' % (hx(data), N))
        return ops

    def int_exhaustive(self):
        """all first octets x all N x all continuation patterns of length <= 3 over a 6-letter alphabet"""
        ops = []
        alpha = [0x00, 0x01, 0x7f, 0x80, 0x81, 0xff]
        import itertools
        for N in range(1, 9):
            for first in range(256):
                for ln in range(0, 4):
                    for tail in itertools.product(alpha, repeat=ln):
                        if ln == 3 and first & (2 ** N - 1) != 2 ** N - 1:
                            continue
                        ops.append('idec %s %d' % (hx(bytes([first]) + bytes(tail)), N))
        return ops

    # ------------------------------------------------------------------ C12 / C13: Huffman
    def henc_stream(self, n_random=200, pairs=False):
        ops = ['henc -']
        for s in range(256):
            ops.append('henc %02x' % s)
        for k in range(1, 26):
            ops.append('henc ' + hx(b'0' * k))          # code 00000: leading zero bits
        for k in range(1, 10):
            ops.append('henc ' + hx(b'\x00' * k))       # 13-bit code
            ops.append('henc ' + hx(b'a' * k))          # 5-bit code: multiples of 8 at k = 8
            ops.append('henc ' + hx(b'\xff' * k))
        ops.append('henc ' + hx(bytes(range(256))))
        ops.append('henc ' + hx(bytes(range(255, -1, -1))))
        if pairs:
            for a in range(256):
                for b in range(256):
                    ops.append('henc %02x%02x' % (a, b))
        for _ in range(n_random):
            r = self.rnd.random()
            if r < 0.5:
                b = bytes(self.rnd.randrange(256) for _ in range(self.rnd.randint(1, 24)))
            elif r < 0.8:
                b = bytes(self.rnd.choice(b'0123456789abcdefghijklmnopqrstuvwxyz-:/ ') for _ in range(self.rnd.randint(1, 40)))
            else:
                b = bytes(self.rnd.randrange(256) for _ in range(self.rnd.randint(100, 400)))
            ops.append('henc ' + hx(b))
        return ops

    def hdec_stream(self, n_random=400):
        ops = ['hdec -']
        for s in range(256):
            e = huff_encode(bytes([s]))
            ops.append('hdec ' + hx(e))
            ops.append('hdec ' + hx(e + b'\xff'))                 # >= 8 bits of padding
            ops.append('hdec ' + hx(e[:-1]) if len(e) > 1 else 'hdec ' + hx(e + e))
            ops.append('hdec ' + hx(e[:-1] + bytes([e[-1] & 0xfe])))   # zero bit in padding (or different symbol)
        # EOS = 30 ones
        ops += ['hdec ffffffff', 'hdec ffffffffff', 'hdec 3fffffff', 'hdec 1fffffffff', 'hdec ff', 'hdec ffff', 'hdec fffffffc',
                'hdec 00', 'hdec 07', 'hdec 0f', 'hdec 1f', 'hdec 3f', 'hdec 7f', 'hdec fe', 'hdec fc', 'hdec f8']
        for k in range(0, 17):         # 'a' (00011) followed by k one bits, zero-filled to an octet
            bits = '00011' + '1' * k
            bits += '1' * ((8 - len(bits) % 8) % 8)
            ops.append('hdec ' + hx(bytes(int(bits[i:i + 8], 2) for i in range(0, len(bits), 8))))
        for _ in range(n_random):
            r = self.rnd.random()
            s = bytes(self.rnd.randrange(256) for _ in range(self.rnd.randint(1, 12)))
            e = huff_encode(s)
            if r < 0.3:
                d = e
            elif r < 0.5:
                d = e[:self.rnd.randint(0, len(e))]
            elif r < 0.7:
                i = self.rnd.randrange(len(e)); d = e[:i] + bytes([e[i] ^ (1 << self.rnd.randrange(8))]) + e[i + 1:]
            elif r < 0.8:
                d = e + b'\xff' * self.rnd.randint(1, 4)
            else:
                d = bytes(self.rnd.randrange(256) for _ in range(self.rnd.randint(1, 8)))
            ann = self.rnd.choice(['', '', ' #buf=memoryview', ' #buf=bytearray'])
            ops.append('hdec ' + hx(d) + ann)
        return ops

    def hdec_exhaustive(self):
        ops = []
        for a in range(256):
            ops.append('hdec %02x' % a)
        for a in range(256):
            for b in range(256):
                ops.append('hdec %02x%02x' % (a, b))
        return ops

    # ------------------------------------------------------------------ C06 / C14: HeaderTable directly
    def table_probe(self, tid, dynlen):
        ops = []
        top = 61 + dynlen
        idx = {0, 1, 2, 30, 61, 62, 63, top - 1, top, top + 1, top + 2, top + 3, 10 ** 6}
        for i in sorted(i for i in idx if i >= 0):
            ops.append('tget %d %d' % (tid, i))
        return ops

    def table_stream(self, n_tables=12, n_ops=25):
        ops = []
        # catalogue: exact fits
        tid = 0
        for (mx, seq) in [
            (100, [(b'a' * 1, b'b' * 1), (b'c' * 1, b'd' * 1), (b'e', b'f' * 33), (b'g' * 34, b'h' * 34), (b'i' * 34, b'j' * 35)]),
            (66, [(b'', b''), (b'', b'x' * 2), (b'', b''), (b'', b'y' * 34), (b'', b'y' * 35), (b'', b'')]),
            (33, [(b'', b'1'), (b'', b''), (b'2', b''), (b'', b'')]),
            (0, [(b'', b''), (b'a', b'b')]),
            (4096, [(b'n' * 2000, b'v' * 2032), (b'n' * 2000, b'v' * 2033), (b'k', b'v'), (b'n' * 2000, b'v' * 2064)]),
        ]:
            tid += 1
            ops.append('tnew %d' % tid)
            ops.append('tmax %d %d' % (tid, mx))
            ln = 0
            for n, v in seq:
                ops.append('tadd %d %s %s' % (tid, hx(n), hx(v)))
                ops += self.table_probe(tid, 4)
                ops.append('tsearch %d %s %s' % (tid, hx(n), hx(v)))
                ops.append('tsearch %d %s %s' % (tid, hx(n), hx(v + b'!')))
            for m2 in (mx, mx + 1, max(mx - 1, 0), 34, 33, 32, 31, 0, 5000):
                ops.append('tmax %d %d' % (tid, m2))
                ops += self.table_probe(tid, 2)
        # all static pairs / names with foreign value / name-only
        tid += 1
        ops.append('tnew %d' % tid)
        for i, (n, v) in enumerate(STATIC):
            ops.append('tget %d %d' % (tid, i + 1))
            ops.append('tsearch %d %s %s' % (tid, hx(n), hx(v)))
            ops.append('tsearch %d %s %s' % (tid, hx(n), hx(v + b'~x')))
            ops.append('tsearch %d %s -' % (tid, hx(n)))                     # the name with an EMPTY value
            ops.append('tsearch %d %s %s' % (tid, hx(n.upper()), hx(v)))     # other letter case: a different name
            ops.append('tsearch %d %s %s' % (tid, hx(n.title()), hx(v)))
        ops.append('tsearch %d %s -' % (tid, hx(b'nonexistent')))
        ops.append('tsearch %d - -' % tid)
        # dynamic duplicates of static names / repeated names
        for n, v in [(b':method', b'PUT'), (b':method', b'GET'), (b'x', b'1'), (b'x', b'2'), (b'x', b'1'), (b'x', b''), (b':authority', b''),
                     (b':authority', b'h')]:
            ops.append('tadd %d %s %s' % (tid, hx(n), hx(v)))
            for n2, v2 in [(b':method', b'PUT'), (b':method', b'GET'), (b':method', b'zz'), (b'x', b'1'), (b'x', b'2'), (b'x', b''),
                           (b'x', b'3'), (b':authority', b''), (b':authority', b'h'), (b'y', b'')]:
                ops.append('tsearch %d %s %s' % (tid, hx(n2), hx(v2)))
        ops += self.table_probe(tid, 8)
        # random histories
        for _ in range(n_tables):
            tid += 1
            ops.append('tnew %d' % tid)
            rt = RefTable()
            for _ in range(self.rnd.randint(3, n_ops)):
                r = self.rnd.random()
                if r < 0.55:
                    free = rt.maxsize - rt.size()
                    k = self.rnd.random()
                    n = self.rnd.choice(NAMES[:6])
                    if k < 0.25 and free >= 32 + len(n):
                        v = b'f' * (free - 32 - len(n) + self.rnd.choice([0, 0, 1, -1 if free - 32 - len(n) > 0 else 0]))
                    elif k < 0.4 and rt.maxsize >= 32 + len(n):
                        v = b'm' * (rt.maxsize - 32 - len(n) + self.rnd.choice([0, 1, -1 if rt.maxsize - 32 - len(n) > 0 else 0]))
                    else:
                        v = self.rnd.choice(VALS)
                    if len(v) > 20000:
                        v = v[:20000]
                    ops.append('tadd %d %s %s' % (tid, hx(n), hx(v)))
                    rt.add(n, v)
                elif r < 0.8:
                    cur = rt.maxsize; sz = rt.size()
                    m = self.rnd.choice([0, 33, 34, 66, 67, 100, 150, 4096, 8192, cur, sz, max(sz - 1, 0), sz + 1,
                                         self.rnd.randint(0, 300)])
                    ops.append('tmax %d %d' % (tid, m))
                    rt.set_max(m)
                elif r < 0.9:
                    n = self.rnd.choice(NAMES[:6]); v = self.rnd.choice(VALS[:5])
                    ops.append('tsearch %d %s %s' % (tid, hx(n), hx(v)))
                    if rt.entries:
                        n, v = self.rnd.choice(list(rt.entries))
                        if len(v) < 300:
                            ops.append('tsearch %d %s %s' % (tid, hx(n), hx(v)))
                else:
                    ops += self.table_probe(tid, len(rt.entries))
            ops += self.table_probe(tid, len(rt.entries))
        return ops

    def table_exhaustive(self):
        """all op sequences of length <= 5 over entry sizes {33,34,66} and maxima {0,33,66,67,100}"""
        import itertools
        ops = []
        adds = [('tadd', b'', b'1'), ('tadd', b'a', b'2'), ('tadd', b'', b'3' * 34)]
        maxs = [('tmax', m) for m in (0, 33, 66, 67, 100)]
        alpha = adds + maxs
        tid = 1000
        for ln in range(1, 6):
            for seq in itertools.product(alpha, repeat=ln):
                if ln == 5 and seq[0][0] != 'tmax':
                    continue
                tid += 1
                ops.append('tnew %d' % tid)
                for o in seq:
                    if o[0] == 'tadd':
                        ops.append('tadd %d %s %s' % (tid, hx(o[1]), hx(o[2])))
                    else:
                        ops.append('tmax %d %d' % (tid, o[1]))
                ops.append('tget %d 62' % tid); ops.append('tget %d 63' % tid); ops.append('tget %d 64' % tid)
        return ops

    # ------------------------------------------------------------------ decoder streams
    def dec_catalogue(self):
        """deterministic boundary histories for the decoder (ids 1..)"""
        ops = []
        did = [0]

        def new(limit=None, allowed=None):
            did[0] += 1
            ops.append('dnew %d' % did[0] if limit is None else 'dnew %d %d' % (did[0], limit))
            if allowed is not None:
                ops.append('dallow %d %d' % (did[0], allowed))
            return did[0]

        def dec(d, data, raw=1, ann=''):
            ops.append('ddec %d %d %s%s' % (d, raw, hx(data), ann))

        lit = lambda n, v, pat=0x40, h=False: bytes([pat]) + self.string(n, h, 0) + self.string(v, h, 0)
        # every static index, 0, 62 on empty table
        d = new()
        for i in list(range(0, 64)) + [127, 128, 255, 16383]:
            dec(d, int_octets(i, 7, 0x80))
        # dynamic indices incl. oldest surviving entry after eviction
        d = new()
        dec(d, int_octets(100, 5, 0x20) + lit(b'a', b'1') + lit(b'b', b'2') + lit(b'c', b'3'))   # 34 each: two fit in 100
        for i in (62, 63, 64, 65):
            dec(d, int_octets(i, 7, 0x80))
        dec(d, lit(b'dd', b''))                        # 34: evicts oldest
        for i in (62, 63, 64):
            dec(d, int_octets(i, 7, 0x80))
        dec(d, int_octets(62, 6, 0x40) + self.string(b'v', False, 0))     # indexed name from dynamic table
        dec(d, int_octets(63, 4, 0x00) + self.string(b'w', True, 0))
        dec(d, int_octets(64, 4, 0x10) + self.string(b'w', True, 0))
        dec(d, int_octets(65, 4, 0x10) + self.string(b'w', True, 0))      # invalid
        # exact-fit / too-large insertions
        d = new()
        dec(d, int_octets(66, 5, 0x20) + lit(b'', b'') + lit(b'', b'xx'))          # 32 + 34 = 66: exact
        dec(d, b'\xbe\xbf')
        dec(d, lit(b'', b'y'))                                                      # 33: evicts one
        dec(d, b'\xbe\xbf\xc0')
        dec(d, lit(b'n' * 20, b'v' * 15))                                           # 67 > 66: empties, not stored
        dec(d, b'\xbe')
        dec(d, lit(b'n' * 20, b'v' * 14))                                           # 66 == max: kept
        dec(d, b'\xbe\xbf')
        # size updates: 0, exact, above; several; after a field; lowered limit
        d = new()
        dec(d, lit(b'k', b'v'))
        dec(d, int_octets(0, 5, 0x20)); dec(d, b'\xbe')
        dec(d, int_octets(4096, 5, 0x20)); dec(d, int_octets(4097, 5, 0x20))
        dec(d, int_octets(10, 5, 0x20) + int_octets(4096, 5, 0x20) + int_octets(50, 5, 0x20) + lit(b'k', b'v'))
        dec(d, lit(b'k', b'v') + int_octets(40, 5, 0x20))
        dec(d, b'\x82' + int_octets(40, 5, 0x20))
        d = new(allowed=100)
        dec(d, b'')                                    # empty block while table max (4096) > allowed (100)
        dec(d, b'\x82')
        dec(d, int_octets(101, 5, 0x20))
        dec(d, int_octets(100, 5, 0x20)); dec(d, b''); dec(d, b'\x82')
        d = new(allowed=8192)
        dec(d, int_octets(8192, 5, 0x20) + lit(b'n' * 4000, b'v' * 4000)); dec(d, b'\xbe')
        dec(d, int_octets(8193, 5, 0x20))
        ops.append('dallow %d 50' % d); dec(d, b'\x82'); dec(d, int_octets(50, 5, 0x20) + b'\x82')
        d = new()
        ops.append('dsize %d 64' % d); dec(d, lit(b'a', b'b') + lit(b'c', b'd')); dec(d, b'\xbe\xbf')
        ops.append('dsize %d 9000' % d); dec(d, b'\x82')      # setter above allowed: rejected at end of block
        # list limit boundaries
        for lim in (0, 33, 34, 35, 67, 68, 69):
            d = new(limit=lim)
            dec(d, lit(b'a', b'b'))                     # size 34
            dec(d, b'\xbe\xbe')                         # 68
            dec(d, b'')
        d = new(limit=38 * 3)
        dec(d, lit(b'abc', b'def') * 3); dec(d, lit(b'abc', b'def') * 3 + b'\x82'); dec(d, b'\xbe' * 3); dec(d, b'\xbe' * 4)
        # one entry filling the table referenced many times (bomb)
        d = new(limit=65536)
        dec(d, lit(b'n' * 2000, b'v' * 2064)); dec(d, b'\xbe' * 15); dec(d, b'\xbe' * 16); dec(d, b'\xbe' * 5000)
        # string lengths 127/128/16383/16384, Huffman names, non-minimal integers
        d = new(limit=10 ** 6)
        for s in (b'', b'x' * 126, b'x' * 127, b'x' * 128, b'L' * 16383, b'M' * 16384):
            for h in (False, True):
                dec(d, bytes([0x00]) + self.string(b'nm', h, 0) + self.string(s, h, 0))
                dec(d, bytes([0x10]) + self.string(s, h, 1) + self.string(b'v', h, 2))
        dec(d, bytes([0x00]) + self.string(b'custom-key', True, 0) + self.string(b'custom-header', True, 0))
        dec(d, int_octets(2, 7, 0x80, 3) + int_octets(70, 7, 0x80, 1))
        # Huffman defects inside a block
        d = new()
        dec(d, bytes([0x00, 0x81, 0xff, 0x01, 0x61]))         # name = 8 padding bits
        dec(d, bytes([0x00, 0x84, 0xff, 0xff, 0xff, 0xff, 0x01, 0x61]))     # EOS
        dec(d, bytes([0x00, 0x01, 0x61, 0x81, 0x1e]))         # value 'a' + padding with zero bit (00011 110)
        dec(d, bytes([0x00, 0x01, 0x61, 0x81, 0x1f]))         # ok
        # text mode / UTF-8
        d = new()
        for v in (b'\xff', b'\xc3\xa9', b'\xc3', b'\xed\xa0\x80', b'\xf4\x90\x80\x80', b'\xe2\x82\xac', b'\xc0\x80'):
            dec(d, lit(b'k', v), raw=0); dec(d, b'\xbe', raw=0); dec(d, b'\xbe', raw=1)
            dec(d, bytes([0x00]) + self.string(v, True, 0) + self.string(b'ok', False, 0), raw=0)
        # truncations of a rich block: every proper prefix
        blk = int_octets(200, 5, 0x20) + lit(b'name', b'value') + b'\x82' + int_octets(62, 6, 0x40) + self.string(b'v2', True, 0) + \
            bytes([0x10]) + self.string(b'secret', True, 0) + self.string(b's' * 130, False, 0) + b'\xbe'
        for cut in range(len(blk) + 1):
            d = new()
            dec(d, blk[:cut])
        # over-long integers in every position
        for k in (5, 9, 10, 11, 18, 19, 20, 100, 2100, 3000):
            d = new()
            run = b'\xff' * k
            dec(d, b'\xff' + run + b'\x01')
            dec(d, b'\x3f' + run + b'\x01')
            dec(d, b'\x7f' + run + b'\x01' + b'\x00')
            dec(d, b'\x00\x7f' + run + b'\x01')
            dec(d, b'\x00\x01a\x7f' + run + b'\x01')
            dec(d, b'\xff' + b'\x80' * k + b'\x00')            # redundant zeros: value 127
            dec(d, b'\x3f' + b'\x80' * k + b'\x00')
            dec(d, b'\xff' + b'\x80' * k + b'\x01')            # zero-payload run, then a non-zero digit: huge value
            dec(d, b'\x7f' + b'\x80' * k + b'\x7f' + b'\x00')
            dec(d, b'\x00\x7f' + b'\x80' * k + b'\x01')
            dec(d, b'\x3f' + b'\x80' * k + b'\x01')
        # buffer kinds
        d = new()
        for ann in (' #buf=bytearray', ' #buf=memoryview', ' #buf=memoryview-bytearray', ''):
            dec(d, lit(b'buf', b'kind' + ann.encode()), 1, ann); dec(d, b'\xbe', 1, ann)
        return ops

    def dec_stream(self, n_conn=60, mal=0.3, start_id=500):
        ops = []
        for c in range(n_conn):
            d = start_id + c
            limit = None
            if self.rnd.random() < 0.3:
                limit = self.rnd.choice([0, 33, 64, 100, 300, 70000, 34, 68])
            ops.append('dnew %d' % d if limit is None else 'dnew %d %d' % (d, limit))
            rd = RefDecoder(list_limit=65536 if limit is None else limit)
            if self.rnd.random() < 0.3:
                a = self.rnd.choice([0, 40, 100, 4096, 8192, 66])
                ops.append('dallow %d %d' % (d, a)); rd.allowed = a
            for b in range(self.rnd.randint(1, 8)):
                r = self.rnd.random()
                if r < 0.05:
                    a = self.rnd.choice([0, 40, 100, 4096, 8192])
                    ops.append('dallow %d %d' % (d, a)); rd.allowed = a
                elif r < 0.08:
                    a = self.rnd.choice([0, 64, 100, 4096, 5000])
                    ops.append('dsize %d %d' % (d, a)); rd.table.set_max(a)
                elif r < 0.1:
                    a = self.rnd.choice([0, 34, 100, 65536])
                    ops.append('dlimit %d %d' % (d, a)); rd.list_limit = a
                data = self.block(rd, bad=0.04 if self.rnd.random() < 0.8 else 0.3)
                tagk = 'wf'
                if self.rnd.random() < mal:
                    tagk, data = self.corrupt(data)
                raw = 1 if self.rnd.random() < 0.7 else 0
                ann = self.rnd.choice(['', '', '', ' #buf=bytearray', ' #buf=memoryview'])
                ops.append('ddec %d %d %s%s' % (d, raw, hx(data), ann))
                self.track(rd, data)
                if self.rnd.random() < 0.15:
                    top = 61 + len(rd.table.entries)
                    for i in (62, top, top + 1):
                        ops.append('dget %d %d' % (d, i))
        return ops

    def dec_exhaustive_small(self):
        """all 1- and 2-octet blocks on three contexts"""
        ops = []
        ctxs = [[], ['ddec {d} 1 ' + hx(bytes([0x40]) + self.string(b'a', False, 0) + self.string(b'b', False, 0))],
                ['dallow {d} 100', 'ddec {d} 1 ' + hx(int_octets(100, 5, 0x20) + bytes([0x40]) + self.string(b'a', False, 0) + self.string(b'b', False, 0) * 1)]]
        d = 5000
        for ci, ctx in enumerate(ctxs):
            for a in range(256):
                d += 1
                ops.append('dnew %d' % d)
                for o in ctx:
                    ops.append(o.format(d=d))
                ops.append('ddec %d 1 %02x' % (d, a))
            for a in range(256):
                for b in range(256):
                    if (a * 256 + b + ci) % 3 and ci:      # thin the two non-empty contexts
                        continue
                    d += 1
                    ops.append('dnew %d' % d)
                    for o in ctx:
                        ops.append(o.format(d=d))
                    ops.append('ddec %d 1 %02x%02x' % (d, a, b))
        return ops

    # ------------------------------------------------------------------ encoder streams
    def header(self):
        r = self.rnd.random()
        if r < 0.25:
            n, v = self.rnd.choice(STATIC)
        elif r < 0.35:
            n, v = self.rnd.choice(STATIC)[0], self.pick_value()
        else:
            n, v = self.pick_name(), self.pick_value()
        return n, v, self.rnd.random() < 0.25

    def enc_sizes(self, cur):
        return self.rnd.choice([0, 33, 34, 40, 64, 66, 100, 4096, 4097, 8192, cur, cur, 70, 35])

    def enc_catalogue(self):
        ops = []
        eid = [0]

        def new():
            eid[0] += 1; ops.append('enew %d' % eid[0]); return eid[0]

        def enc(e, hs, huff=0):
            ops.append('eenc %d %d %s' % (e, huff, ' '.join('%s:%s:%d' % (hx(n), hx(v), int(s)) for n, v, s in hs) if hs else '-'))
        # all static pairs, each on a fresh encoder and repeated on one
        e = new()
        for n, v in STATIC:
            enc(e, [(n, v, False)])
        e = new()
        for n, v in STATIC:
            enc(e, [(n, v, True)], 1)
        e = new()
        enc(e, [(n, v, False) for n, v in STATIC])
        e = new()
        enc(e, [(n, b'', False) for n, v in STATIC])        # every static name with an empty value
        enc(e, [(n, b'', True) for n, v in STATIC[:20]], 1)
        e = new()
        enc(e, [(n.title(), v, False) for n, v in STATIC if n.title() != n][:30])       # letter case differs: not the static name
        enc(e, [(n.title(), v, False) for n, v in STATIC if n.title() != n][:30])
        enc(e, [(n, v + b'x', False) for n, v in STATIC[:20]], 1)
        enc(e, [(n, v + b'x', False) for n, v in STATIC[:20]], 1)
        # dynamic entries with empty values, repeated blocks
        e = new()
        blk = [(b'x', b'', False), (b'y', b'', False), (b'x', b'1', False), (b'', b'', False), (b':authority', b'', False)]
        enc(e, blk); enc(e, blk); enc(e, blk, 1)
        # sensitive paths: no match / name match / exact match (static and dynamic)
        e = new()
        enc(e, [(b'secret', b'v', True), (b'secret', b'v', False), (b'secret', b'v', True), (b'secret', b'w', True),
                (b':method', b'GET', True), (b':method', b'PATCH', True), (b'cookie', b'c', True), (b'cookie', b'c', False)])
        enc(e, [(b'secret', b'w', False), (b'secret', b'w', True)], 1)
        # sizes: set twice, return, shrink/grow orders, zero
        for seq in ([40, 40], [40, 4096], [40, 100, 40], [100, 40], [40, 100], [0], [0, 4096], [4096], [4096, 4096], [5000, 4096],
                    [33], [34], [66, 0, 66], [8192, 40, 8192]):
            e = new()
            enc(e, [(b'a', b'b', False), (b'c', b'd', False)])
            for s in seq:
                ops.append('esize %d %d' % (e, s))
            enc(e, [(b'a', b'b', False), (b'e', b'f', False)])
            enc(e, [(b'a', b'b', False)])
            enc(e, [])
        e = new()
        ops.append('esize %d 40' % e); enc(e, []); ops.append('esize %d 40' % e); enc(e, [(b'a', b'b', False)])
        # exact fit / larger than the table / long strings
        e = new()
        ops.append('esize %d 66' % e)
        enc(e, [(b'', b'', False), (b'', b'xx', False)]); enc(e, [(b'', b'', False), (b'', b'xx', False)])
        enc(e, [(b'', b'y', False)]); enc(e, [(b'n' * 20, b'v' * 15, False)]); enc(e, [(b'n' * 20, b'v' * 14, False)])
        e = new()
        for s in (b'x' * 126, b'x' * 127, b'x' * 128, b'L' * 16383, b'M' * 16384, b'K' * 5000):
            enc(e, [(b'n', s, False)], 0); enc(e, [(s, b'v', False)], 1)
        return ops

    def enc_stream(self, n_conn=60, start_id=500):
        ops = []
        for c in range(n_conn):
            e = start_id + c
            ops.append('enew %d' % e)
            cur = 4096
            recent = []
            for b in range(self.rnd.randint(1, 10)):
                for _ in range(self.rnd.choice([0, 0, 0, 1, 2, 3])):
                    v = self.enc_sizes(cur)
                    ops.append('esize %d %d' % (e, v)); cur = v
                hs = []
                for _ in range(self.rnd.randint(0, 6)):
                    if recent and self.rnd.random() < 0.3:
                        n, v, s = self.rnd.choice(recent)
                        hs.append((n, v, self.rnd.random() < 0.25))
                    else:
                        hs.append(self.header())
                recent = (recent + hs)[-12:]
                huff = self.rnd.random() < 0.5
                ops.append('eenc %d %d %s' % (e, huff, ' '.join('%s:%s:%d' % (hx(n), hx(v), int(s)) for n, v, s in hs) if hs else '-'))
        return ops

    # ------------------------------------------------------------------ connection streams (encoder -> decoder)
    def conn_stream(self, n_conn=50, start_id=500, sizes=True):
        ops = []
        for c in range(n_conn):
            i = start_id + c
            ops.append('enew %d' % i)
            limit = self.rnd.choice([None, None, 10 ** 6])
            ops.append('dnew %d' % i if limit is None else 'dnew %d %d' % (i, limit))
            allowed = 4096
            if self.rnd.random() < 0.4:
                allowed = self.rnd.choice([8192, 16384, 4096])
                ops.append('dallow %d %d' % (i, allowed))
            cur = 4096
            recent = []
            for b in range(self.rnd.randint(1, 10)):
                if sizes:
                    for _ in range(self.rnd.choice([0, 0, 0, 1, 2, 3])):
                        v = self.rnd.choice([0, 33, 34, 40, 64, 66, 100, 4096, cur, cur, 70, 35] + ([8192, 4097] if allowed >= 8192 else []))
                        ops.append('esize %d %d' % (i, v)); cur = v
                hs = []
                for _ in range(self.rnd.randint(0, 6)):
                    if recent and self.rnd.random() < 0.35:
                        n, v, s = self.rnd.choice(recent)
                        hs.append((n, v, self.rnd.random() < 0.25))
                    else:
                        hs.append(self.header())
                if limit is None:      # keep the list under the default limit
                    while sum(esize(n, v) for n, v, _ in hs) > 65536:
                        hs.pop()
                recent = (recent + hs)[-12:]
                huff = self.rnd.random() < 0.5
                ops.append('eenc %d %d %s' % (i, huff, ' '.join('%s:%s:%d' % (hx(n), hx(v), int(s)) for n, v, s in hs) if hs else '-'))
                ops.append('pipe %d %d %d' % (i, 1, i))
        return ops

    def conn_text_stream(self, n_conn=15, start_id=900):
        """text-mode connections: valid UTF-8 only, forms mixed"""
        ops = []
        TN = ['a', 'é', 'naïve', ':path', 'x-€', 'k']
        TV = ['', 'v', 'ü' * 5, '€€', '/idx', '\U0001f600', 'plain']
        for c in range(n_conn):
            i = start_id + c
            ops.append('enew %d' % i); ops.append('dnew %d' % i)
            for b in range(self.rnd.randint(1, 6)):
                fs = []
                for _ in range(self.rnd.randint(0, 5)):
                    n = self.rnd.choice(TN).encode(); v = self.rnd.choice(TV).encode()
                    k = self.rnd.choice(['2', '3f', '3t', 'H', 'N'])
                    fs.append('%s%s%s:%s:%s' % (k, self.rnd.choice('bs'), self.rnd.choice('bs'), hx(n), hx(v)))
                ops.append('eapi %d %d %s %s' % (i, self.rnd.random() < 0.5, self.rnd.choice(['list', 'iter', 'tuple', 'gen']), ' '.join(fs) if fs else '-'))
                ops.append('pipe %d %d %d' % (i, 0, i))
        return ops

    # ------------------------------------------------------------------ API forms (C18)
    def api_stream(self, n=60, start_id=2000):
        """groups of encoders fed the same header list in different but equivalent forms"""
        ops = []
        TN = [b'a', b'\xc3\xa9', b':path', b':method', b'cookie', b'x-\xe2\x82\xac', b'k', b':authority', b'']
        TV = [b'', b'v', b'GET', b'\xc3\xbc' * 5, b'/idx', b'\xf0\x9f\x98\x80', b'plain', b'1']
        groups = []
        eid = start_id
        for g in range(n):
            variants = self.rnd.randint(2, 4)
            ids = list(range(eid, eid + variants)); eid += variants
            for i in ids:
                ops.append('enew %d' % i)
            for b in range(self.rnd.randint(1, 4)):
                if self.rnd.random() < 0.2:
                    s = self.rnd.choice([0, 40, 100, 4096])
                    for i in ids:
                        ops.append('esize %d %d' % (i, s))
                huff = int(self.rnd.random() < 0.5)
                if self.rnd.random() < 0.25:
                    # dict container: unique names
                    names = self.rnd.sample(TN, self.rnd.randint(0, 5))
                    items = [(n, self.rnd.choice(TV)) for n in names]
                    for vi, i in enumerate(ids):
                        if vi == 0:     # the list of items with specials first, stable
                            sp = [kv for kv in items if kv[0].startswith(b':')] + [kv for kv in items if not kv[0].startswith(b':')]
                            fs = ['2bb:%s:%s' % (hx(n), hx(v)) for n, v in sp]
                            ops.append('eapi %d %d list %s' % (i, huff, ' '.join(fs) if fs else '-'))
                        else:
                            fs = ['D%s%s:%s:%s' % (self.rnd.choice('bs'), self.rnd.choice('bs'), hx(n), hx(v)) for n, v in items]
                            ops.append('eapi %d %d dict %s' % (i, huff, ' '.join(fs) if fs else '-'))
                else:
                    hs = [(self.rnd.choice(TN), self.rnd.choice(TV), self.rnd.random() < 0.3) for _ in range(self.rnd.randint(0, 5))]
                    for vi, i in enumerate(ids):
                        fs = []
                        for n, v, s in hs:
                            if vi == 0:
                                k = '3t' if s else '3f'; nf = vf = 'b'
                            else:
                                k = self.rnd.choice(['3t', 'N']) if s else self.rnd.choice(['2', '3f', 'H'])
                                nf = self.rnd.choice('bs'); vf = self.rnd.choice('bs')
                            fs.append('%s%s%s:%s:%s' % (k, nf, vf, hx(n), hx(v)))
                        cont = 'list' if vi == 0 else self.rnd.choice(['list', 'iter', 'tuple', 'gen'])
                        ops.append('eapi %d %d %s %s' % (i, huff, cont, ' '.join(fs) if fs else '-'))
            groups.append(ids)
        return ops, groups

    def modes_stream(self, n=40, start_id=3000):
        """pairs of decoders fed the same blocks, one in raw and one in text mode"""
        ops = []
        pairs = []
        for c in range(n):
            a, b = start_id + 2 * c, start_id + 2 * c + 1
            ops.append('dnew %d' % a); ops.append('dnew %d' % b)
            rd = RefDecoder()
            for _ in range(self.rnd.randint(1, 6)):
                data = self.block(rd, bad=0.03)
                if self.rnd.random() < 0.15:
                    _, data = self.corrupt(data)
                ops.append('ddec %d 1 %s' % (a, hx(data)))
                ops.append('ddec %d 0 %s' % (b, hx(data)))
                self.track(rd, data)
            pairs.append((a, b))
        return ops, pairs


# ====================================================================================================
# additions: exhaustive transition catalogue of the Huffman automaton, long strings, size histories
# ====================================================================================================
def _code_tree():
    from refmodel import CODES, LENGTHS
    code = {format(c, '0%db' % l): s for s, (c, l) in enumerate(zip(CODES, LENGTHS))}
    internal = set()
    for k in code:
        for j in range(len(k)):
            internal.add(k[:j])
    return code, sorted(internal, key=lambda p: (len(p), p))


def _bits_to_bytes(bits):
    return bytes(int(bits[i:i + 8], 2) for i in range(0, len(bits), 8))


def huff_transition_catalogue():
    """for EVERY internal node p of the Appendix B code tree (= every state of a nibble automaton) and every
    nibble x: inputs that reach p at a nibble boundary, feed x, and end in several ways (at once, after
    more one-bits, after zero bits, after completing a symbol). Covers all 4096 (state, nibble) entries of
    the decoding table, both as a last and as an inner transition."""
    code, internal = _code_tree()
    sym_by_len = {}
    for k, s in code.items():
        if s < 256:
            sym_by_len.setdefault(len(k), k)
    # prefixes W of whole symbols with every residue mod 8
    base = [sym_by_len[l] for l in (5, 6, 7, 8) if l in sym_by_len]
    pref = {0: ''}
    frontier = ['']
    for _ in range(4):
        nxt = []
        for w in frontier:
            for b in base:
                ww = w + b
                if len(ww) % 8 not in pref:
                    pref[len(ww) % 8] = ww
                nxt.append(ww)
        frontier = nxt[:64]
    def completion(p):
        # shortest way from partial path p to a leaf that is not EOS
        best = None
        for k, s in code.items():
            if s < 256 and k.startswith(p) and (best is None or len(k) < len(best)):
                best = k
        return best[len(p):] if best else ''
    ops = []
    seen = set()
    for p in internal:
        for want_res in (0, 4):
            w = pref.get((want_res - len(p)) % 8)
            if w is None:
                continue
            for x in range(16):
                head = w + p + format(x, '04b')
                # partial path after x
                cur = ''
                for ch in p + format(x, '04b'):
                    cur += ch
                    if cur in code:
                        cur = ''
                for tail in ('', '1111', '11111111', '0000', completion(cur) if cur else ''):
                    bits = head + tail
                    bits += '1' * ((8 - len(bits) % 8) % 8)
                    if bits in seen:
                        continue
                    seen.add(bits)
                    ops.append('hdec ' + hx(_bits_to_bytes(bits)))
    return ops


def long_huffman_strings(rnd, n_random=6):
    """long inputs (chunking / flushing code paths): exact multiples of 512/1024/4096 of symbols whose
    code length is 5, 6, 7, 8, 13 bits; strings starting with all-zero octets of code; random long"""
    out = []
    for ch in (b'X', b'a', b'0', b'A', b'\x00', b'\xc3\xa9'):
        for k in (512, 1023, 1024, 1025, 2048, 4096):
            out.append(ch * (k // len(ch)))
    out += [b'00' + b'X' * 1100, b'X' * 1024 + b'00' + b'X' * 1100, b'0' * 3000, b'0a' * 700, b'01' * 1500]
    for _ in range(n_random):
        ln = rnd.choice([1000, 1024, 2000, 3000, 5000])
        out.append(bytes(rnd.choice(b'0123456789aeiost/-: X') for _ in range(ln)))
        out.append(bytes(rnd.randrange(256) for _ in range(ln // 4)))
    return out


def enc_size_stream(g, n=40, start_id=7000):
    """histories of table-size assignments between blocks (C09/C10): repeats, returns to the old value,
    shrink/grow in every order, zero first/last, several blocks after one change; decoded by a piped decoder"""
    ops = []
    rnd = g.rnd
    pool = [0, 30, 31, 32, 33, 34, 40, 64, 66, 100, 158, 159, 200, 300, 4096, 4097, 8192, 65536, 65537, 100000, 1 << 20]
    cat = [[40, 40], [40, 4096], [4096, 40, 4096], [200, 0, 200], [200, 100, 300, 200], [0], [0, 4096], [100, 0], [0, 100],
           [64, 4096], [4096, 64], [40, 100, 40], [100, 40, 100], [8192], [8192, 4096], [33, 34, 33], [0, 0], [4096], [4096, 4096, 4096],
           [1024] + [2048 + j for j in range(16)] + [2063], [300 + j for j in range(20)] + [319, 319], [65537], [100000, 65536], [1 << 20, 70000], [31], [64, 31, 31], [30, 31, 32], [158, 159], [40, 100, 60], [200, 40, 200],
           *[[1000 + j for j in range(kk)] + [1000 + kk - 1] for kk in (2, 3, 4, 5, 8, 15, 16, 17, 31, 32, 33, 64, 65)],
           *[[500] + [1000 + j for j in range(kk)] + [1000 + kk - 1, 1000 + kk - 1] for kk in (7, 15, 16, 31)],
           [0] + list(range(1000, 1200, 10)) + [4096], list(range(4000, 4040)), [100 + (7 * j) % 50 for j in range(30)] + [35]]
    cat += [[(1 << 32) + 4096], [1 << 33, (1 << 32) + 1], [(1 << 32) - 1, 1 << 32], [1 << 32, 4096], [(1 << 64) + 7, 100], [1 << 31, (1 << 31) + 1]]
    i = start_id
    for seq in cat + [[rnd.choice(pool) for _ in range(rnd.randint(1, 5))] for _ in range(n)]:
        i += 1
        ops.append('enew %d' % i); ops.append('dnew %d 1000000' % i); ops.append('dallow %d %d' % (i, (1 << 70) if max(seq) >= (1 << 21) else (1 << 21)))
        warm = [(b'a', b'b', False), (b'c', b'd' * 10, False), (b'e', b'f', False)]
        ops.append('eenc %d 0 %s' % (i, ' '.join('%s:%s:%d' % (hx(n), hx(v), int(s)) for n, v, s in warm)))
        ops.append('pipe %d 1 %d' % (i, i))
        rounds = rnd.choice([1, 1, 2, 3])
        for r in range(rounds):
            for s in (seq if r == 0 else [rnd.choice(pool) for _ in range(rnd.randint(0, 3))]):
                ops.append('esize %d %d' % (i, s))
            hs = [(b'a', b'b', False), (rnd.choice([b'c', b'g', b'x']), rnd.choice([b'd' * 10, b'h', b'']), rnd.random() < 0.2)]
            if rnd.random() < 0.3:
                hs = []
            ops.append('eenc %d %d %s' % (i, rnd.random() < 0.5, ' '.join('%s:%s:%d' % (hx(n), hx(v), int(s)) for n, v, s in hs) if hs else '-'))
            ops.append('pipe %d 1 %d' % (i, i))
            if rnd.random() < 0.5:
                ops.append('eenc %d 0 %s' % (i, '%s:%s:0' % (hx(b'a'), hx(b'b'))))
                ops.append('pipe %d 1 %d' % (i, i))
    return ops


# ====================================================================================================
# round-2 additions (histories that sneaky caches / fast paths / boundary shortcuts need to manifest)
# ====================================================================================================
def _lit(g, pat, n, v, hn=False, hv=False):
    return bytes([pat]) + g.string(n, hn, 0) + g.string(v, hv, 0)


def dec_updates_stream(g, n=30, start_id=11000):
    """non-empty tables, then blocks that OPEN WITH RUNS of 2..6 size updates (minimum first / in the middle /
    last; values around the sizes of the entries held), then references to every index up to past the end"""
    ops = []
    rnd = g.rnd
    d = start_id
    for _ in range(n):
        d += 1
        ops.append('dnew %d 1000000' % d)
        ops.append('dallow %d 8192' % d)
        sizes = []
        blk = b''
        for i in range(rnd.randint(1, 5)):
            nm = bytes([97 + i]) * rnd.randint(1, 6)
            v = bytes([48 + i]) * rnd.randint(0, 40)
            blk += _lit(g, 0x40, nm, v)
            sizes.append(32 + len(nm) + len(v))
        ops.append('ddec %d 1 %s' % (d, hx(blk)))
        tot = sum(sizes)
        marks = sorted({0, sizes[-1], sizes[-1] - 1, sizes[-1] + 1, tot, tot - 1, sum(sizes[-2:]), sum(sizes[-2:]) + 1, 40, 100, 4096, 8192, 8193, tot + 50})
        marks = [m for m in marks if m >= 0]
        for _r in range(rnd.randint(1, 3)):
            k = rnd.choice([2, 3, 3, 3, 4, 5, 6])
            run = [rnd.choice(marks) for _ in range(k)]
            if rnd.random() < 0.5:          # force the strict minimum into the middle
                lo = min(marks[1:4]) if len(marks) > 3 else 0
                run[rnd.randrange(1, k - 1) if k > 2 else 0] = lo
            b2 = b''.join(int_octets(u, 5, 0x20, g.zeros()) for u in run)
            tail = b''.join(int_octets(i, 7, 0x80) for i in range(62, 62 + len(sizes) + 1)) if rnd.random() < 0.6 else b''
            ops.append('ddec %d 1 %s' % (d, hx(b2)))
            for i in range(62, 62 + len(sizes) + 2):
                ops.append('ddec %d 1 %s' % (d, hx(int_octets(i, 7, 0x80))))
            if rnd.random() < 0.5:
                nm = bytes([110 + _r]) * 3
                ops.append('ddec %d 1 %s' % (d, hx(b2 + _lit(g, 0x40, nm, b'zz') + b'\xbe')))
    return ops


def ambiguity_stream(g, n_random=60, start_id=12000):
    """the same wire octets once as a plain string and once with the Huffman flag (different strings!), on ONE
    decoder, in both orders, as names and as values, with and without indexing"""
    from refmodel import huff_decode, RefError
    ops = []
    rnd = g.rnd
    cands = []
    for a in range(256):
        for w in (bytes([a]), bytes([a, 0x65]), bytes([0x34, a]), bytes([a, a])):
            try:
                s = huff_decode(w)
                if s != w:
                    cands.append((w, s))
            except RefError:
                pass
    rnd.shuffle(cands)
    d = start_id
    for w, s in cands[:n_random]:
        d += 1
        ops.append('dnew %d' % d)
        plain = bytes([len(w)]) + w
        huff = bytes([0x80 | len(w)]) + w
        order = [plain, huff] if rnd.random() < 0.5 else [huff, plain]
        pat = rnd.choice([0x00, 0x10, 0x40])
        for x in order + order[::-1]:
            ops.append('ddec %d %d %s' % (d, rnd.choice([0, 1]), hx(bytes([pat]) + x + b'\x01\x32')))       # as name
        for x in order:
            ops.append('ddec %d 1 %s' % (d, hx(bytes([pat, 0x01, 0x6b]) + x)))                              # as value
        ops.append('ddec %d 1 %s' % (d, hx(b'\xbe\xbf')))
    return ops


def dec_setter_stream(g, n=25, start_id=13000):
    """fill the table, reference every dynamic index, evict through the SETTER (not in-band), reference every
    index again (now partly invalid), grow, insert, reference again"""
    ops = []
    rnd = g.rnd
    d = start_id
    for _ in range(n):
        d += 1
        ops.append('dnew %d 1000000' % d)
        k = rnd.randint(2, 6)
        blk = b''.join(_lit(g, 0x40, bytes([97 + i]) * 2, bytes([48 + i]) * rnd.randint(0, 20)) for i in range(k))
        ops.append('ddec %d 1 %s' % (d, hx(blk)))
        refs = [int_octets(i, 7, 0x80) for i in range(62, 62 + k + 1)]
        for r in refs:
            ops.append('ddec %d %d %s' % (d, rnd.choice([0, 1]), hx(r)))
        for newsize in [rnd.choice([0, 34, 40, 70, 100, 150]), rnd.choice([0, 4096, 60, 200])]:
            ops.append('dsize %d %d' % (d, newsize))
            for r in refs:
                ops.append('ddec %d %d %s' % (d, rnd.choice([0, 1]), hx(r)))
            if rnd.random() < 0.5:
                ops.append('ddec %d 1 %s' % (d, hx(int_octets(62, 6, 0x40) + g.string(b'nv', False, 0))))
                ops.append('ddec %d 1 %s' % (d, hx(refs[0])))
    return ops


def dec_extra_catalogue(g):
    """single deterministic histories added after the second seeding round"""
    ops = dispatch_boundary_stream()
    d = 14000
    def new(*a):
        nonlocal d
        d += 1
        ops.append('dnew %d %s' % (d, ' '.join(str(x) for x in a)) if a else 'dnew %d' % d)
        return d
    # thousands of consecutive size updates (recursion / re-scan)
    x = new()
    ops.append('ddec %d 1 %s' % (x, hx(b'\x20' * 3000)))
    ops.append('ddec %d 1 %s' % (x, hx(b'\x3f\xe1\x1f' * 1500 + b'\x82')))
    ops.append('ddec %d 1 %s' % (x, hx(b'\x20' * 2500 + b'\x3f\xe2\x1f')))          # run ending in an oversized update
    # table switched off, then on again by an update that opens the very block that inserts (buffer kinds)
    for ann in ('', ' #buf=bytearray', ' #buf=memoryview-bytearray', ' #buf=shared'):
        x = new()
        ops.append('ddec %d 1 20' % x)
        ops.append('ddec %d 1 %s%s' % (x, hx(int_octets(200, 5, 0x20) + _lit(g, 0x40, b'abc', b'xyz') + _lit(g, 0x40, b'de', b'')), ann))
        ops.append('ddec %d 1 be%s' % (x, ann)); ops.append('ddec %d 1 bfbe' % x)
        x = new()
        ops.append('dsize %d 0' % x)
        ops.append('ddec %d 1 %s%s' % (x, hx(int_octets(100, 5, 0x20) + _lit(g, 0x40, b'abc', b'xyz')), ann))
        ops.append('ddec %d 1 be' % x)
    # an entry that exactly fills the table, in every buffer kind
    for ann in ('', ' #buf=bytearray', ' #buf=memoryview', ' #buf=shared'):
        x = new()
        ops.append('ddec %d 1 %s%s' % (x, hx(int_octets(100, 5, 0x20) + _lit(g, 0x40, b'n' * 30, b'v' * 38)), ann))
        ops.append('ddec %d 1 be' % x)
        x = new()
        ops.append('ddec %d 1 %s%s' % (x, hx(_lit(g, 0x40, b'n' * 64, b'v' * 4000)), ann))
        ops.append('ddec %d 1 be' % x)
    # permitted maximum lowered, raised (still below the table size), lowered again; updates equal to the size in force
    x = new()
    for a in (64, 100):
        ops.append('dallow %d %d' % (x, a))
    ops.append('ddec %d 1 82' % x); ops.append('ddec %d 1 -' % x)
    ops.append('ddec %d 1 %s' % (x, hx(int_octets(4096, 5, 0x20) + b'\x82')))
    ops.append('ddec %d 1 %s' % (x, hx(int_octets(4096, 5, 0x20) + int_octets(4096, 5, 0x20))))
    x = new()
    ops.append('ddec %d 1 %s' % (x, hx(int_octets(1000, 5, 0x20) + _lit(g, 0x40, b'a', b'b'))))
    ops.append('dallow %d 999' % x)
    ops.append('ddec %d 1 %s' % (x, hx(int_octets(1000, 5, 0x20) + b'\xbe')))
    ops.append('ddec %d 1 %s' % (x, hx(int_octets(1000, 5, 0x20))))
    ops.append('dallow %d 0' % x); ops.append('dallow %d 4095' % x); ops.append('ddec %d 1 82' % x)
    # table at 0, then ONE block that raises it, inserts a large entry and references it many times; limits around
    big_lit = _lit(g, 0x40, b'n' * 30, b'v' * 1000)
    blk = int_octets(4096, 5, 0x20) + big_lit + b'\xbe' * 44
    true_size = 45 * 1062
    for lim in (30000, true_size, true_size - 1, 65536, 1062, 1061):
        x = new(lim)
        ops.append('ddec %d 1 20' % x)
        ops.append('ddec %d 1 %s' % (x, hx(blk)))
        ops.append('ddec %d 1 be' % x)
    # an entry of the minimum size 32 (empty name, empty value) and a table of exactly 32 / 31 / 33
    for u in (32, 31, 33):
        x = new()
        ops.append('ddec %d 1 400000' % x)
        ops.append('ddec %d 1 %s' % (x, hx(int_octets(u, 5, 0x20) + b'\xbe')))
        ops.append('ddec %d 1 be' % x)
        x = new()
        ops.append('ddec %d 1 %s' % (x, hx(int_octets(u, 5, 0x20) + b'\x40\x80\x80' + b'\xbe')))
    # permitted maximum beyond 32 bits and updates in that range
    x = new(); ops.append('dallow %d %d' % (x, 1 << 40))
    for u in ((1 << 32) - 1, 1 << 32, (1 << 32) + 5, 1 << 40, (1 << 40) + 1):
        ops.append('ddec %d 1 %s' % (x, hx(int_octets(u, 5, 0x20))))
    # far-above-limit updates (multi-octet, already above the limit before their last octet)
    x = new()
    for u in (4097, 8192, 16384, 32768, 65536, 1 << 20, 1 << 40):
        ops.append('ddec %d 1 %s' % (x, hx(int_octets(u, 5, 0x20))))
        ops.append('ddec %d 1 %s' % (x, hx(int_octets(u, 5, 0x20, 2) + b'\x82')))
    x = new(); ops.append('dallow %d 127' % x)
    for u in (128, 286, 127 + 128 * 128):
        ops.append('ddec %d 1 %s' % (x, hx(int_octets(u, 5, 0x20))))
    x = new(); ops.append('dallow %d 0' % x)
    for u in (1, 31, 4096):
        ops.append('ddec %d 1 %s' % (x, hx(int_octets(u, 5, 0x20))))
    # the same (name, value) under every representation, text mode, one decoder (and static entries as literals)
    x = new()
    for raw in (0, 1, 0):
        ops.append('ddec %d %d %s' % (x, raw, hx(_lit(g, 0x40, b'tok', b'val'))))
        ops.append('ddec %d %d %s' % (x, raw, hx(_lit(g, 0x10, b'tok', b'val'))))
        ops.append('ddec %d %d %s' % (x, raw, hx(b'\xbe')))
        ops.append('ddec %d %d %s' % (x, raw, hx(_lit(g, 0x00, b'tok', b'val') + _lit(g, 0x10, b'tok', b'val') + b'\xbe')))
    for i, (n, v) in enumerate(STATIC):
        if i % 3 == 0:
            x = new()
        for raw in (0, 1):
            ops.append('ddec %d %d %s' % (x, raw, hx(_lit(g, 0x10, n, v, i % 2 == 0, i % 2 == 1))))
            ops.append('ddec %d %d %s' % (x, raw, hx(int_octets(i + 1, 7, 0x80) + int_octets(i + 1, 4, 0x10) + g.string(v, False, 0))))
    # list limit met exactly by fields whose Huffman form is much longer than the text (long codes), and non-UTF-8
    # fields at the crossing point in text mode
    for raw in (1, 0):
        v = bytes(range(1, 25))
        e = bytes([0x00]) + g.string(b'k', False, 0) + g.string(v, True, 0)
        sz = 32 + 1 + len(v)
        for lim in (sz, sz + 1, sz - 1, sz + 10):
            x = new(lim)
            ops.append('ddec %d %d %s' % (x, raw, hx(e)))
        x = new(100)
        ops.append('ddec %d 1 %s' % (x, hx(_lit(g, 0x40, b'l1', b'\xe9\xff'))))
        ops.append('ddec %d %d %s' % (x, raw, hx(b'\x82\xbe\xbe\xbe\xbe')))
        x = new(40)
        ops.append('ddec %d %d %s' % (x, raw, hx(_lit(g, 0x00, b'\xff\xfe' * 3, b'vvvv'))))
    return ops


def int_extra_stream(g):
    """integers at powers of 128 and 2 (digit-count boundaries), after an Encoder in the same process has emitted
    multi-octet integers with every prefix width (process-wide caches)"""
    ops = ['enew 1']
    for s in (31, 100, 4096, 1000):
        ops.append('esize 1 %d' % s)
    ops.append('eenc 1 0 %s' % ' '.join('%s:%s:%d' % (hx(bytes([120, 45, 97 + i])), hx(b'v' * (10 + 40 * i)), i % 2) for i in range(6)))
    ops.append('eenc 1 1 %s:%s:0' % (hx(b'x' * 300), hx(b'y' * 2000)))
    for N in range(1, 9):
        m = 2 ** N - 1
        vals = set()
        for k in range(1, 10):
            for dlt in (-1, 0, 1):
                vals.add(128 ** k + dlt); vals.add(128 ** k + m + dlt); vals.add(128 ** k + m - 1 + dlt)
        for j in range(0, 72):
            vals.add(2 ** j); vals.add(2 ** j - 1); vals.add(2 ** j + 1)
        vals |= {1000, 1337, 31, 32, 127, 128, 255, 256, 16383, 16384}
        for v in sorted(x for x in vals if x >= 0):
            ops.append('ienc %d %d' % (v, N))
    # and again, to see a cache hit
    for N in (4, 5, 6, 7):
        for v in (31, 32, 1000, 4096, 16384, 100000):
            ops.append('ienc %d %d' % (v, N))
    for N in range(1, 9):
        for v in (1000, 16384, 2 ** 32):
            e = int_octets(v, N)
            ops.append('idec %s %d' % (hx(e), N))
    # integers far beyond anything a decimal conversion admits (CPython refuses int->str above 4300 digits)
    for bits in (300, 1000, 14285, 14286, 14300, 20000, 70000):
        for n in ((1 << bits), (1 << bits) - 1, (1 << bits) + 12345):
            ops.append('ienchex %s %d' % (hx(n.to_bytes((n.bit_length() + 7) // 8, 'big')), g.rnd.choice([1, 4, 5, 7, 8])))
    n = 10 ** 4300
    for N in (1, 5, 8):
        ops.append('ienchex %s %d' % (hx(n.to_bytes((n.bit_length() + 7) // 8, 'big')), N))
    # remainders n - (2^N - 1) of every bit length 1..130 (all-ones and a single one)
    for N in (1, 4, 5, 6, 7, 8):
        for bl in range(1, 131):
            for r_ in ((1 << bl) - 1, 1 << (bl - 1)):
                ops.append('ienc %d %d' % (r_ + (1 << N) - 1, N))
    return ops


def huff_extra_stream(g):
    """another coder over a different table used in the same process first; strings longer than 4 KiB whose last
    code bits are zero / one; in-place reused buffers"""
    ops = []
    rnd = g.rnd
    pool = [b'www.example.com', b'0', b'00', b'no-cache', bytes(range(32, 90)), b'X' * 100, b'a', b'\x00\xff']
    for s in pool:
        ops.append('hother ' + hx(s))
        ops.append('henc ' + hx(s))
        ops.append('hrt ' + hx(s))
    for ch in (b'0', b'1', b'E', b'=', b'X', b'a', b';'):
        for ln in (4096, 4097, 4098, 4100, 8191, 8193, 9000):
            ops.append('henc ' + hx(ch * ln))
    for _ in range(6):
        ln = rnd.choice([4097, 5000, 6001, 8200])
        s = bytes(rnd.choice(b'0123456789abcdefE=;/') for _ in range(ln))
        ops.append('henc ' + hx(s)); ops.append('hrt ' + hx(s))
    return ops


def hdec_shared_stream(g, n=80):
    """an application that receives into ONE bytearray and decodes from it: the object is identical from call to
    call, its contents are not"""
    ops = []
    rnd = g.rnd
    prev = None
    for _ in range(n):
        s = bytes(rnd.choice(b'abcdefgh012') for _ in range(rnd.choice([1, 3, 3, 3, 8])))
        e = huff_encode(s)
        r = rnd.random()
        if r < 0.25 and prev is not None and len(prev) == len(e):
            pass
        if r < 0.2:
            e = e[:-1] + bytes([e[-1] & 0xfe]) if e else e
        ops.append('hdec %s #buf=shared' % hx(e))
        prev = e
    # same length, different content, alternating valid / invalid
    for a, b in [(b'abc', b'abd'), (b'0', b'1'), (b'xyz', b'xy')]:
        ea, eb = huff_encode(a), huff_encode(b)
        ops.append('hdec %s #buf=shared' % hx(ea)); ops.append('hdec %s #buf=shared' % hx(eb)); ops.append('hdec %s #buf=shared' % hx(ea))
        ops.append('hdec %s #buf=shared' % hx(b'\xff' * len(ea)))
    return ops


def big_history_table_stream(count=4300):
    """more than 4096 pairwise different insertions into one table, then look-ups of live entries"""
    ops = ['tnew 900']
    for i in range(count):
        ops.append('tadd 900 %s %s' % (hx(b'n%d' % (i % 97)), hx(b'v%d' % i)))
        if i in (4094, 4096, 4097, 4099, 4110) or i % 1024 == 1023:
            for j in range(max(i - 70, 0), i + 1, 3):          # every third live entry, oldest to newest
                ops.append('tsearch 900 %s %s' % (hx(b'n%d' % (j % 97)), hx(b'v%d' % j)))
        if i % 500 == 499 or i > count - 4:
            ops.append('tsearch 900 %s %s' % (hx(b'n%d' % (i % 97)), hx(b'v%d' % i)))
            ops.append('tsearch 900 %s %s' % (hx(b'n%d' % ((i - 20) % 97)), hx(b'v%d' % (i - 20))))
            ops.append('tget 900 62'); ops.append('tget 900 80')
    for j in range(count - 60, count, 7):
        ops.append('tsearch 900 %s %s' % (hx(b'n%d' % (j % 97)), hx(b'v%d' % j)))
    return ops


def big_table_encoder_stream(g, start_id=15000):
    """tables larger than the default with hundreds of live entries; every field re-encoded afterwards"""
    ops = []
    e = start_id
    for size, cnt in ((16384, 200), (65536, 300)):
        e += 1
        ops.append('enew %d' % e); ops.append('dnew %d 10000000' % e); ops.append('dallow %d %d' % (e, size))
        ops.append('esize %d %d' % (e, size))
        fields = [(b'f%03d' % i, b'v%d' % (i * 7)) for i in range(cnt)]
        for i in range(0, cnt, 25):
            ops.append('eenc %d %d %s' % (e, i % 2, ' '.join('%s:%s:0' % (hx(n), hx(v)) for n, v in fields[i:i + 25])))
            ops.append('pipe %d 1 %d' % (e, e))
        for i in range(0, cnt, 30):
            ops.append('eenc %d 0 %s' % (e, ' '.join('%s:%s:0' % (hx(n), hx(v)) for n, v in fields[i:i + 30])))
            ops.append('pipe %d 1 %d' % (e, e))
    # a single entry that exactly fills the table, sent twice (default size and a small one)
    for size in (4096, 48, 100):
        e += 1
        ops.append('enew %d' % e)
        if size != 4096:
            ops.append('esize %d %d' % (e, size))
        n = b'x-trace-id'
        v = b'c' * (size - 32 - len(n))
        for _ in range(3):
            ops.append('eenc %d 0 %s:%s:0' % (e, hx(n), hx(v)))
        ops.append('eenc %d 0 %s:%s:0 %s:%s:0' % (e, hx(b'a'), hx(b'b'), hx(n), hx(v)))
    return ops


def api_forms_conn_stream(g, n=25, start_id=16000):
    """connections fed through the API forms, including falsy/truthy non-bool sensitivity marks (None, 0, 1) and
    application subclasses of the two tuple classes; names that match the table with a different value"""
    ops = []
    rnd = g.rnd
    names = [b'cookie', b':path', b'x-a', b'etag', b'accept', b':method']
    vals = [b'', b'1', b'GET', b'/idx', b'abc', b'zz' * 10]
    for c in range(n):
        i = start_id + c
        ops.append('enew %d' % i); ops.append('dnew %d' % i)
        for b in range(rnd.randint(2, 6)):
            fs = []
            for _ in range(rnd.randint(1, 5)):
                nm, v = rnd.choice(names), rnd.choice(vals)
                k = rnd.choice(['2', '3f', '3t', '3n', '30', '31', '3y', '32', '3e', 'H', 'N', 'T', 'S'])
                fs.append('%s%s%s:%s:%s' % (k, rnd.choice('bs'), rnd.choice('bs'), hx(nm), hx(v)))
            ops.append('eapi %d %d %s %s' % (i, rnd.random() < 0.5, rnd.choice(['list', 'iter', 'tuple', 'gen']), ' '.join(fs)))
            ops.append('pipe %d %d %d' % (i, rnd.choice([0, 1]), i))
    return ops


def empty_forms_stream(start_id=17000):
    """empty header sets in every container form, with a size change pending"""
    ops = []
    i = start_id
    groups = []
    for size in (100, 0, 4096):
        ids = []
        for cont in ('list', 'iter', 'tuple', 'gen', 'dict'):
            i += 1
            ids.append(i)
            ops.append('enew %d' % i)
            ops.append('eapi %d 0 list 2bb:61:62' % i)
            ops.append('esize %d %d' % (i, size))
            ops.append('eapi %d 0 %s -' % (i, cont))
            ops.append('eapi %d 0 list 2bb:61:62' % i)
        groups.append(ids)
    return ops, groups


# ====================================================================================================
# round-3 additions
# ====================================================================================================
def enc_fail_stream(g, n=20, start_id=18000):
    """encode() calls that raise part-way (a malformed header — a 1-tuple — after some good ones), observed by the
    NEXT calls on the same encoder: exception paths must not leave the table half-updated"""
    ops = []
    rnd = g.rnd
    for c in range(n):
        i = start_id + c
        ops.append('enew %d' % i)
        size = rnd.choice([4096, 100, 70, 200])
        if size != 4096:
            ops.append('esize %d %d' % (i, size))
        for b in range(rnd.randint(2, 5)):
            fs = []
            for _ in range(rnd.randint(1, 4)):
                nm = rnd.choice([b'a', b'bb', b'cookie', b'k' * 10])
                v = bytes([97 + rnd.randrange(26)]) * rnd.randint(0, 30)
                fs.append('2bb:%s:%s' % (hx(nm), hx(v)))
            if rnd.random() < 0.5:
                fs.insert(rnd.randint(0, len(fs)), 'Xbb:%s:-' % hx(b'oops'))
                if rnd.random() < 0.3:
                    ops.append('esize %d %d' % (i, rnd.choice([64, 100, 4096])))
            ops.append('eapi %d %d %s %s' % (i, rnd.random() < 0.5, rnd.choice(['list', 'gen', 'iter']), ' '.join(fs)))
            if rnd.random() < 0.4:
                ops.append('esize %d %d' % (i, rnd.choice([34, 66, 100, 4096])))
        ops.append('eapi %d 0 list 2bb:%s:%s 2bb:%s:%s' % (i, hx(b'a'), hx(b'z' * 34), hx(b'fin'), hx(b'')))
        ops.append('edump %d' % i)
    return ops


def with_debug_log(ops):
    """the same operations with the `hpack` logger at DEBUG (a handler attached): output must not change"""
    if not ops:
        return ops
    return [ops[0] + (' log=debug' if '#' in ops[0] else ' #log=debug')] + ops[1:]


def _dict_kinds(ops):
    """the same `eapi … dict …` operations with the dict handed over as OrderedDict / defaultdict / a user subclass"""
    out = []
    for j, o in enumerate(ops):
        t = o.split()
        if t[0] == 'eapi' and len(t) > 3 and t[3] == 'dict':
            out.append(o + (' ' if '#' in o else ' #') + 'dictkind=' + ('ordered', 'default', 'sub')[j % 3])
        else:
            out.append(o)
    return out


def dict_dupkey_stream(start_id=19000):
    """dict containers holding the same name once as str and once as bytes (two different keys), and iterables
    passed as one-shot generators while a size change is pending"""
    ops = []
    groups = []
    i = start_id
    cases = [
        [('s', b'set-cookie', b'a=1'), ('b', b'set-cookie', b'b=2')],
        [('b', b':authority', b'h1'), ('s', b':authority', b'h2'), ('s', b'x', b'1')],
        [('s', b'k', b''), ('b', b'k', b''), ('s', b':path', b'/')],
    ]
    for items in cases:
        ids = []
        # variant 0: the equivalent list; variant 1: the dict
        sp = [it for it in items if it[1].startswith(b':')] + [it for it in items if not it[1].startswith(b':')]
        for variant in range(2):
            i += 1
            ids.append(i)
            ops.append('enew %d' % i)
            if variant == 0:
                ops.append('eapi %d 0 list %s' % (i, ' '.join('2bb:%s:%s' % (hx(n), hx(v)) for _, n, v in sp)))
            else:
                ops.append('eapi %d 0 dict %s' % (i, ' '.join('D%sb:%s:%s' % (t, hx(n), hx(v)) for t, n, v in items)))
        groups.append(ids)
    # pending size change + first block given as list / generator / iterator / tuple / map-like
    for size in (100, 0):
        ids = []
        for cont in ('list', 'gen', 'iter', 'tuple', 'dict'):
            i += 1
            ids.append(i)
            ops.append('enew %d' % i)
            ops.append('esize %d %d' % (i, size))
            kf = 'Dbb' if cont == 'dict' else '2bb'
            ops.append('eapi %d 0 %s %s:%s:%s %s:%s:%s' % (i, cont, kf, hx(b'first'), hx(b'1'), kf, hx(b'second'), hx(b'2')))
            ops.append('eapi %d 0 %s %s:%s:%s' % (i, cont, kf, hx(b'first'), hx(b'1')))
        groups.append(ids)
    return ops, groups


def utf8_tail_stream(start_id=19500):
    """text mode on strings that END in a truncated multi-byte sequence, as names and as values, literal and indexed"""
    ops = []
    pairs = []
    d = start_id
    tails = [b'caf\xc3', b'x\xe2\x82', b'y\xf0\x9f\x98', b'\xc3', b'ok\xed\xa0', b'z\xf4\x90', b'fine\xc3\xa9']
    for t in tails:
        a, b = d + 1, d + 2
        d += 2
        pairs.append((a, b))
        for x, raw in ((a, 1), (b, 0)):
            ops.append('dnew %d' % x)
            ops.append('ddec %d %d %s' % (x, raw, hx(bytes([0x40, 1, 0x6b, len(t)]) + t)))
            ops.append('ddec %d %d be' % (x, raw))
            ops.append('ddec %d %d %s' % (x, raw, hx(bytes([0x00, len(t)]) + t + b'\x01v')))
            e = huff_encode(t)
            ops.append('ddec %d %d %s' % (x, raw, hx(bytes([0x10, 1, 0x6b, 0x80 | len(e)]) + e)))
    return ops, pairs


def big_binary_conn_stream(g, start_id=19800):
    """binary values whose Huffman form is far longer than the text (up to ~2x 64 KiB on the wire while the list
    stays under the default 64 KiB limit), Huffman on and off"""
    ops = []
    rnd = g.rnd
    i = start_id
    for ln, fill in ((17500, bytes([10, 13, 22])), (29000, None), (16384, bytes([0xfe, 0xff]))):
        for huff in (1, 0):
            i += 1
            ops.append('enew %d' % i); ops.append('dnew %d' % i)
            v = bytes(rnd.randrange(256) for _ in range(ln)) if fill is None else bytes(rnd.choice(fill) for _ in range(ln))
            ops.append('eenc %d %d %s:%s:0 %s:%s:1' % (i, huff, hx(b'blob'), hx(v), hx(b'k'), hx(v[:100])))
            ops.append('pipe %d 1 %d' % (i, i))
            ops.append('eenc %d %d %s:%s:0' % (i, huff, hx(b'after'), hx(b'1')))
            ops.append('pipe %d 1 %d' % (i, i))
    return ops


def int_memoryview_truncations():
    """truncated and over-long integers handed over as memoryview (as Decoder.decode does) and bytearray"""
    ops = []
    for N in (1, 4, 5, 6, 7, 8):
        for k in (1, 5, 15, 16, 17, 18, 19, 20, 40):
            data = bytes([0xff]) + b'\xff' * k
            for ann in (' #buf=memoryview', ''):
                ops.append('idec %s %d%s' % (hx(data), N, ann))
            ops.append('idec %s %d #buf=memoryview' % (hx(data + b'\x00'), N))
            ops.append('idec %s %d #buf=memoryview' % (hx(bytes([0xff]) + b'\x80' * k + b'\x00'), N))
    return ops


def dec_churn_stream(g, n=12, start_id=20000):
    """long decoder connections on SMALL tables with a tiny alphabet: the peer inserts the same field again and
    again (duplicates are legal), entries are evicted all the time, every live index is referenced"""
    ops = []
    rnd = g.rnd
    for c in range(n):
        d = start_id + c
        ops.append('dnew %d 1000000' % d)
        size = rnd.choice([100, 150, 200, 300])
        first = True
        live = 0
        for b in range(rnd.randint(15, 40)):
            blk = int_octets(size, 5, 0x20) if first else b''
            first = False
            for _ in range(rnd.randint(1, 4)):
                nm = rnd.choice([b'a', b'bb', b'a', b'c'])
                v = rnd.choice([b'1', b'22', b'1', b'', b'x' * 20])
                if rnd.random() < 0.75:
                    blk += _lit(g, 0x40, nm, v, rnd.random() < 0.3, rnd.random() < 0.3)
                else:
                    blk += int_octets(rnd.randint(62, 66), 7, 0x80)
            ops.append('ddec %d 1 %s' % (d, hx(blk)))
            if rnd.random() < 0.3:
                for i in range(62, 68):
                    ops.append('ddec %d 1 %s' % (d, hx(int_octets(i, 7, 0x80))))
    return ops


def high_index_limit_stream(start_id=21000):
    """a large entry that sits at an index >= 127 (two-octet index on the wire), referenced after a small field,
    with list limits around the true size; and plain high-index references on a table larger than the default"""
    ops = []
    d = start_id
    small = b''.join(bytes([0x40, 0x01, 1 + i, 0x00]) for i in range(66))           # 66 entries of 33 octets
    big = bytes([0x40]) + int_octets(30, 7) + b'N' * 30 + int_octets(1700, 7) + b'V' * 1700      # 1762 octets, inserted FIRST
    true_one = 32 + 30 + 1700
    for k, lims in ((1, [true_one + 42, true_one + 41, 100]), (30, [30 * true_one + 42, 30 * true_one + 41, 8000, 1875])):
        for lim in lims:
            d += 1
            ops.append('dnew %d 10000000' % d)
            ops.append('ddec %d 1 %s' % (d, hx(big + small)))
            ops.append('dlimit %d %d' % (d, lim))
            ops.append('ddec %d 1 %s' % (d, hx(b'\x82' + int_octets(128, 7, 0x80) * k)))
            ops.append('ddec %d 1 %s' % (d, hx(int_octets(128, 7, 0x80) * k)))
            ops.append('ddec %d 1 %s' % (d, hx(b'\x82' + (int_octets(128, 4, 0x00) + b'\x00') * k)))
    # table of 16 KiB with 250 live entries: every index up to past the end, on the decoder and on HeaderTable
    d += 1
    ops.append('dnew %d 10000000' % d); ops.append('dallow %d 16384' % d); ops.append('tnew %d' % d); ops.append('tmax %d 16384' % d)
    ops.append('ddec %d 1 %s' % (d, hx(int_octets(16384, 5, 0x20))))
    blk = b''
    for i in range(250):
        nm = b'h%03d' % i
        blk += bytes([0x40]) + int_octets(len(nm), 7) + nm + b'\x00'
        ops.append('tadd %d %s -' % (d, hx(nm)))
    ops.append('ddec %d 1 %s' % (d, hx(blk)))
    for i in (127, 128, 189, 190, 191, 250, 310, 311, 312, 400):
        ops.append('ddec %d 1 %s' % (d, hx(int_octets(i, 7, 0x80))))
        ops.append('dget %d %d' % (d, i)); ops.append('tget %d %d' % (d, i))
    ops.append('tsearch %d %s -' % (d, hx(b'h000'))); ops.append('tsearch %d %s -' % (d, hx(b'h100')))
    # ... then shrunk to a small non-zero size, to one entry, and to zero (in-band and through the HeaderTable setter)
    for u in (5000, 100, 36, 35, 0, 16384):
        ops.append('ddec %d 1 %s' % (d, hx(int_octets(u, 5, 0x20))))
        ops.append('tmax %d %d' % (d, u))
        ops.append('ddec %d 1 be' % d)
    return ops


# ====================================================================================================
# numeric coincidences and call orders
# ====================================================================================================
LENS = [0, 1, 30, 31, 32, 33, 61, 62, 63, 126, 127, 128, 129, 255, 256, 4031, 4032, 4033, 4063, 4064, 4065, 4095, 4096, 4097]
SIZES = [0, 1, 31, 32, 33, 61, 62, 63, 64, 65, 126, 127, 128, 129, 4095, 4096, 4097, 16383, 16384, 65535, 65536, 65537]


def coincidence_stream(g, start_id=22000):
    """lengths, sizes, indices and limits that coincide with constants of the format or of the code (32, 61, 62,
    127, 128, 4096, 16384, 65536 ...), in every position: value length, name length, table size, list limit"""
    ops = []
    rnd = g.rnd
    i = start_id
    # string lengths: as value and as name, plain and Huffman, sent twice (second time indexed)
    for L in LENS:
        i += 1
        ops.append('enew %d' % i); ops.append('dnew %d 10000000' % i); ops.append('dallow %d %d' % (i, 1 << 21))
        if L > 4000:
            ops.append('esize %d 8192' % i)
        for huff in (0, 1):
            v = bytes([97 + (L + huff) % 26]) * L
            v2 = bytes([65 + (L + huff) % 26]) * L
            for hs in ([(b'k', v, False)], [(b'k', v2, False)], [(b'cookie', v, False)], [(v, b'v', False)], [(b'k', v, True)], [(b'cookie', v2, True)]):
                for _ in range(2):
                    ops.append('eenc %d %d %s' % (i, huff, ' '.join('%s:%s:%d' % (hx(n), hx(x), int(s)) for n, x, s in hs)))
                    ops.append('pipe %d %d %d' % (i, rnd.choice([0, 1]), i))
    # table sizes: set, fill with entries whose sizes straddle the table size, re-send
    for S in SIZES:
        i += 1
        ops.append('enew %d' % i); ops.append('dnew %d 10000000' % i); ops.append('dallow %d %d' % (i, 1 << 21))
        ops.append('esize %d %d' % (i, S))
        fields = [(b'a', b'1'), (b'bb', b'22' * 3), (b'c', b'x' * max(S - 33 - 1, 0)), (b'c', b'x' * max(S - 33, 0)), (b'c', b'x' * max(S - 32, 0)), (b'a', b'1')]
        for n, v in fields:
            if len(v) > 70000:
                continue
            ops.append('eenc %d 0 %s:%s:0' % (i, hx(n), hx(v)))
            ops.append('pipe %d 1 %d' % (i, i))
        ops.append('eenc %d 1 %s' % (i, ' '.join('%s:%s:0' % (hx(n), hx(v)) for n, v in fields[:2])))
        ops.append('pipe %d 1 %d' % (i, i))
    # list limits equal to such constants, met exactly / exceeded by one
    for X in (32, 33, 61, 62, 64, 127, 128, 4096, 65536):
        for dlt in (-1, 0, 1):
            i += 1
            ops.append('dnew %d %d' % (i, X))
            need = X + dlt - 32 - 1
            if need < 0:
                ops.append('ddec %d 1 %s' % (i, hx(bytes([0x00, 0x00, 0x00]))))      # ('','') = 32
                continue
            v = b'v' * need
            ops.append('ddec %d 1 %s' % (i, hx(bytes([0x00, 0x01, 0x6e]) + int_octets(len(v), 7) + v)))
            ops.append('ddec %d 1 %s' % (i, hx(bytes([0x40, 0x01, 0x6e]) + int_octets(len(v), 7) + v + b'\xbe')))
    return ops


def call_order_stream(start_id=23000):
    """every order of three public calls on a Decoder / an Encoder drawn from small sets: setter vs in-band update vs
    permitted-maximum change vs block; size assignment vs encode vs size assignment"""
    import itertools
    ops = []
    i = start_id
    dcalls = ['dallow {d} 100', 'dallow {d} 8192', 'dsize {d} 64', 'dsize {d} 5000', 'ddec {d} 1 3f45', 'ddec {d} 1 20', 'ddec {d} 1 400161016240016301' + '64', 'ddec {d} 1 be', 'ddec {d} 1 -', 'dlimit {d} 40']
    for seq in itertools.permutations(dcalls, 3):
        if hash(seq) % 3:           # thin deterministically (hash of a tuple of str is stable under PYTHONHASHSEED=0 only; use index instead)
            pass
    k = 0
    for seq in itertools.permutations(range(len(dcalls)), 3):
        k += 1
        if k % 3:
            continue
        i += 1
        ops.append('dnew %d' % i)
        ops.append('ddec %d 1 %s' % (i, '4001780179'))
        for j in seq:
            ops.append(dcalls[j].format(d=i))
        ops.append('ddec %d 1 bebf' % i)
        ops.append('ddec %d 1 82' % i)
    ecalls = ['esize {e} 40', 'esize {e} 4096', 'esize {e} 0', 'esize {e} 100', 'eenc {e} 0 61:62:0', 'eenc {e} 1 63:64:1', 'eenc {e} 0 -']
    for seq in itertools.permutations(range(len(ecalls)), 3):
        i += 1
        ops.append('enew %d' % i); ops.append('dnew %d' % i)
        ops.append('eenc %d 0 61:62:0 78:79:0' % i); ops.append('pipe %d 1 %d' % (i, i))
        for j in seq:
            c = ecalls[j].format(e=i)
            ops.append(c)
            if c.startswith('eenc'):
                ops.append('pipe %d 1 %d' % (i, i))
        ops.append('eenc %d 0 61:62:0 78:79:0' % i); ops.append('pipe %d 1 %d' % (i, i))
    return ops



def huff_alignment_catalogue():
    """strings whose code has NO padding (total length a multiple of 8) for every code-length class, of every length up
    to 48 symbols; and pairs of symbols that put a long run of one-bits across a symbol boundary, at every bit offset"""
    from refmodel import CODES, LENGTHS
    ops = []
    by_len = {}
    for s_ in range(256):
        by_len.setdefault(LENGTHS[s_], []).append(s_)
    for L, syms in sorted(by_len.items()):
        for k in range(1, 49):
            if (L * k) % 8 == 0 or k in (1, 2, 3, 7, 8, 9, 15, 16, 17):
                for variant in range(2):
                    s = bytes(syms[(j * (variant + 1)) % len(syms)] for j in range(k))
                    ops.append('hrt ' + hx(s))
                    ops.append('hdec ' + hx(huff_encode(s)))
                    ops.append('henc ' + hx(s))
    def lead(c, l):
        b = format(c, '0%db' % l); return len(b) - len(b.lstrip('1'))
    def trail(c, l):
        b = format(c, '0%db' % l); return len(b) - len(b.rstrip('1'))
    A = sorted(range(256), key=lambda s_: -trail(CODES[s_], LENGTHS[s_]))[:12]
    B = sorted(range(256), key=lambda s_: -lead(CODES[s_], LENGTHS[s_]))[:12]
    for a in A:
        for b in B:
            for shift in range(8):
                s = b'0' * shift + bytes([a, b]) + b'0' * (shift % 3)
                ops.append('hrt ' + hx(s))
                ops.append('hdec ' + hx(huff_encode(s)))
    return ops



# ====================================================================================================
# round-4 additions
# ====================================================================================================
def raise_then_reference_stream(start_id=24000):
    """the table was shrunk earlier (by a size update in a block, or by the header_table_size setter); the next block
    RAISES it again, inserts one large entry and references it many times; limits just below / at / far below the
    real list size (and far above 60 x the block length)"""
    ops = []
    d = start_id
    for shrink in ('update0', 'update64', 'setter0'):
        for esz, k in ((233, 200), (1000, 50), (4000, 20), (100, 400)):
            n = b'n' * 20
            v = b'v' * (esz - 32 - 20)
            blk = int_octets(4096, 5, 0x20) + b'\x40' + int_octets(len(n), 7) + n + int_octets(len(v), 7) + v + b'\xbe' * k
            total = esz * (k + 1)
            for lim in (total - 1, total, total // 2, 61 * len(blk), 60 * len(blk) - 1, esz * 3 - 1):
                if lim < esz:
                    continue
                d += 1
                ops.append('dnew %d %d' % (d, lim))
                if shrink == 'update0':
                    ops.append('ddec %d 1 20' % d)
                elif shrink == 'update64':
                    ops.append('ddec %d 1 3f21' % d)
                else:
                    ops.append('dsize %d 0' % d)
                ops.append('ddec %d 1 %s' % (d, hx(blk)))
                ops.append('ddec %d 1 be' % d)
    return ops


def limit_interleaved_stream(start_id=25000):
    """several decoders with DIFFERENT list-size limits alive at once; another one is constructed, or has its limit
    assigned, between configuring a decoder and using it"""
    ops = []
    lims = [100, 65536, 50, 1000, 0, 124, 123]
    ids = [start_id + j for j in range(len(lims))]
    for i, l in zip(ids, lims):
        ops.append('dnew %d %d' % (i, l))
    blocks = [b'\x00\x01a\x01b',                                   # 34
              b'\x00\x05aaaaa\x0dbbbbbbbbbbbbb',                   # 50
              b'\x00\x05aaaaa\x0ebbbbbbbbbbbbbb',                  # 51
              b'\x00\x01a\x01b' * 3,                               # 102
              b'\x00\x0aaaaaaaaaaa\x14' + b'b' * 20 + b'\x00\x0aaaaaaaaaaa\x14' + b'b' * 20,     # 124
              b'\x82' * 30]                                         # 30 x 42
    for b in blocks:
        for i in ids:
            ops.append('ddec %d 1 %s' % (i, hx(b)))
    ops.append('dnew %d' % (start_id + 50))
    for b in blocks:
        for i in reversed(ids):
            ops.append('ddec %d 0 %s' % (i, hx(b)))
    ops.append('dlimit %d 10' % ids[1])
    for b in blocks[:3]:
        for i in ids:
            ops.append('ddec %d 1 %s' % (i, hx(b)))
    ops.append('dlimit %d 1000000' % ids[2])
    ops.append('dnew %d 7' % (start_id + 51))
    for b in blocks:
        for i in ids:
            ops.append('ddec %d 1 %s' % (i, hx(b)))
    # the same for the permitted table size and the table size itself
    for j, a in enumerate((0, 100, 4096, 8192)):
        ops.append('dallow %d %d' % (ids[j], a))
    for i in ids:
        ops.append('ddec %d 1 %s' % (i, hx(b'\x3f\x45\x40\x01a\x01b\xbe')))
        ops.append('ddec %d 1 be' % i)
    return ops


def never_indexed_utf8_stream(start_id=26000):
    """never-indexed (and the other two) literals whose name or value holds non-ASCII UTF-8, literal name and indexed
    name, plain and Huffman, decoded in text mode and in raw mode: the class of the returned tuple"""
    ops = []
    d = start_id
    strs = ['caf\u00e9', 'na\u00efve', '\u20ac', 'pass\u00f8rd', '\U0001f600', 'ascii', '\u00e9', 'x\u00e9x']
    for raw in (0, 1):
        d += 1
        ops.append('dnew %d' % d)
        for pat in (0x10, 0x00, 0x40):
            for s_ in strs:
                u = s_.encode('utf-8')
                for huff in (False, True):
                    def st(x):
                        if huff:
                            e = huff_encode(x); return int_octets(len(e), 7, 0x80) + e
                        return int_octets(len(x), 7) + x
                    ops.append('ddec %d %d %s' % (d, raw, hx(bytes([pat]) + st(b'x-name') + st(u))))          # value
                    ops.append('ddec %d %d %s' % (d, raw, hx(bytes([pat]) + st(u) + st(b'value'))))           # name
                    ops.append('ddec %d %d %s' % (d, raw, hx(bytes([pat]) + st(u) + st(u))))                  # both
                    idxpat = {0x10: 0x1f, 0x00: 0x0f, 0x40: 0x7f}[pat]
                    pre = {0x10: 4, 0x00: 4, 0x40: 6}[pat]
                    ops.append('ddec %d %d %s' % (d, raw, hx(int_octets(23, pre, pat) + st(u))))              # authorization: <u>
                    ops.append('ddec %d %d %s' % (d, raw, hx(bytes([pat]) + st(b'a') + st(b'ok') + bytes([0x10]) + st(b'b') + st(u) + bytes([pat]) + st(u) + st(b'z'))))
    return ops


def both_sensitivities_stream(g, n=12, start_id=27000):
    """ONE encoder is given the same (name, value) with different sensitivity, in forms that compare equal as tuples
    (2-tuple / HeaderTuple / NeverIndexedHeaderTuple / subclasses) and in 3-tuples, within a call and across calls.
    Returns (ops, groups): encoders of a group get the same normalised sequence in different forms."""
    ops, groups = [], []
    rnd = g.rnd
    i = start_id
    fields = [(b'n', b'v'), (b'cookie', b'secret'), (b':path', b'/'), (b'authorization', b'basic abc'), (b'x', b''), (b'etag', b'"1"')]
    plain = ['2', 'H', '3f', '30', '3n', 'T']
    sens = ['N', '3t', '31', 'S', '3y']
    cat = [[0, 1], [1, 0], [0, 1, 0], [1, 0, 1], [0, 0, 1, 1, 0], [1, 1, 0, 0, 1]]
    for pattern in cat + [[rnd.randrange(2) for _ in range(rnd.randint(2, 6))] for _ in range(n)]:
        f = rnd.choice(fields)
        tb = rnd.choice(['bb', 'ss'])
        variants = [('2', 'N'), ('H', 'N'), ('3f', '3t'), ('T', 'S'), ('2', 'S'), ('H', '3t')]
        for split, tsize in ((False, None), (True, None), (True, 0), (True, 40), (False, 0)):
            ids = []
            for pf, sf in variants:
                i += 1
                ids.append(i)
                ops.append('enew %d' % i)
                if tsize is not None:
                    # a table that keeps nothing (0) or at most the last small entry (40): the field is never / no longer
                    # in the table when it comes back with the other sensitivity
                    ops.append('esize %d %d' % (i, tsize))
                toks = ['%s%s:%s:%s' % (sf if sbit else pf, tb, hx(f[0]), hx(f[1])) for sbit in pattern]
                if split:
                    for t in toks:
                        ops.append('eapi %d 0 list %s' % (i, t))
                else:
                    ops.append('eapi %d 0 list %s' % (i, ' '.join(toks)))
                ops.append('eapi %d 1 tuple %s' % (i, ' '.join(toks[::-1])))
            groups.append(ids)
    return ops, groups


def failed_then_fresh_stream(start_id=28000):
    """a decoder (or the module function) is given input that FAILS part-way - a Huffman string cut in mid-code, with
    EOS, with bad padding, a bad index, an oversized list, a truncated block - and then another, fresh decoder (and the
    same one) decodes ordinary blocks: nothing of the failed call may show"""
    ops = []
    d = start_id
    good = huff_encode(b'x-request-id')
    goodv = huff_encode(b'deadbeef')
    okblock = b'\x40' + int_octets(len(good), 7, 0x80) + good + int_octets(len(goodv), 7, 0x80) + goodv + b'\xbe\x82'
    sec = huff_encode(b'secret')
    bad_strings = [sec + b'\xff\xff\xff\xff', sec[:-1], sec + b'\x00'[:0] + b'\xff', huff_encode(b'secretsecret')[:-2] + b'\x3f\xff\xff\xff\xff',
                   huff_encode(b'\x00\x01\x02')[:-1], huff_encode(b'abc') + b'\xff\xff']
    fails = [b'\x00' + int_octets(len(b), 7, 0x80) + b + b'\x01v' for b in bad_strings]
    fails += [b'\x40\x01a\x01b\xc5', b'\x40\x01a\x01b\x00\x05ab', b'\x40\x03abc\x7f', b'\x82\x3f\xff\xff\x7f', b'\x40\x01a\x01b\x80']
    for f in fails:
        d += 1
        a, b, c = d * 3, d * 3 + 1, d * 3 + 2
        ops.append('dnew %d' % a)
        ops.append('ddec %d 1 %s' % (a, hx(okblock)))
        ops.append('ddec %d 1 %s' % (a, hx(f)))
        ops.append('dnew %d' % b)
        ops.append('ddec %d 1 %s' % (b, hx(okblock)))
        ops.append('ddec %d 0 %s' % (b, hx(okblock)))
        ops.append('ddec %d 1 %s' % (a, hx(okblock)))
        ops.append('enew %d' % c)
        ops.append('eenc %d 1 %s:%s:0' % (c, hx(b'x-request-id'), hx(b'deadbeef')))
        ops.append('pipe %d 1 %d' % (a, c))
    for b in bad_strings:
        ops.append('hdec ' + hx(b))
        ops.append('hdec ' + hx(good))
        ops.append('hrt ' + hx(b'deadbeef'))
        ops.append('henc ' + hx(b'deadbeef'))
    return ops



def split_ambiguity_stream(start_id=29000):
    """fields whose name+value concatenation equals that of a table entry but splits elsewhere (accept / -charset vs
    accept-charset / ''), with separators a composite key might use (NUL, ':', ': ', space), against the static
    table and against dynamic entries; searched on a table, encoded over a connection"""
    from refmodel import STATIC
    ops = []
    tid = start_id
    ops.append('tnew %d' % tid)
    fields = []
    for n, v in STATIC:
        cat = n + v
        for k in range(0, len(cat) + 1):
            if k != len(n) and (k in (0, len(cat)) or cat[:k] in [x for x, _ in STATIC] or abs(k - len(n)) <= 2):
                fields.append((cat[:k], cat[k:]))
        for sep in (b'\x00', b':', b': ', b' ', b'\n', b'='):
            fields.append((n + sep + v, b''))
            fields.append((n, sep + v))
            if v:
                fields.append((n + sep, v))
    seen = set()
    uniq = []
    for f in fields:
        if f not in seen:
            seen.add(f); uniq.append(f)
    for n, v in uniq:
        ops.append('tsearch %d %s %s' % (tid, hx(n), hx(v)))
    # dynamic entries with the same ambiguity
    tid += 1
    ops.append('tnew %d' % tid)
    dyn = [(b'ab', b'c'), (b'x-key', b'value'), (b'a', b''), (b'', b'a'), (b'k:', b'v'), (b'k', b':v')]
    for n, v in dyn:
        ops.append('tadd %d %s %s' % (tid, hx(n), hx(v)))
    for n, v in dyn:
        cat = n + v
        for k in range(len(cat) + 1):
            ops.append('tsearch %d %s %s' % (tid, hx(cat[:k]), hx(cat[k:])))
    # the same fields through an Encoder and a piped Decoder (chunks of 6 fields per block)
    e = tid + 1
    ops.append('enew %d' % e); ops.append('dnew %d 1000000' % e)
    allf = uniq[:] + [(cat[:k], cat[k:]) for n, v in dyn for cat in [n + v] for k in range(len(cat) + 1)]
    for i in range(0, len(allf), 6):
        chunk = allf[i:i + 6]
        ops.append('eenc %d %d %s' % (e, (i // 6) % 2, ' '.join('%s:%s:0' % (hx(n), hx(v)) for n, v in chunk)))
        ops.append('pipe %d 1 %d' % (e, e))
    return ops



def huffman_expanding_table_stream(start_id=30000):
    """literals whose Huffman form is LONGER on the wire than the decoded string (NUL / control / high octets), with
    entry sizes at, just below and just above the table size measured by the decoded length; names too; every
    literal kind; followed by references"""
    ops = []
    d = start_id
    for tsize in (100, 64, 4096, 200):
        for sym in (0x00, 0x01, 0xfe, 0x0a):
            for slack in (0, 1, -1, 5):
                for where in ('value', 'name'):
                    total = tsize - slack            # entry size aimed at
                    other = b'k' if where == 'value' else b''
                    ln = total - 32 - len(other)
                    if ln < 1:
                        continue
                    sv = bytes([sym]) * ln
                    e = huff_encode(sv)
                    hs = int_octets(len(e), 7, 0x80) + e
                    ps = int_octets(len(other), 7) + other
                    lit = b'\x40' + ((ps + hs) if where == 'value' else (hs + ps))
                    d += 1
                    ops.append('dnew %d 1000000' % d)
                    ops.append('ddec %d 1 %s' % (d, hx(int_octets(tsize, 5, 0x20) + b'\x40\x01a\x01b' + lit)))
                    ops.append('ddec %d 1 be' % d)
                    ops.append('ddec %d 1 bf' % d)
                    ops.append('ddec %d 0 %s' % (d, hx(lit + b'\xbe')))
    # the same through an Encoder with Huffman on, piped
    e_ = d + 1
    for tsize in (100, 4096):
        e_ += 1
        ops.append('enew %d' % e_); ops.append('dnew %d 1000000' % e_)
        ops.append('esize %d %d' % (e_, tsize))
        for ln in (tsize - 33, tsize - 34, tsize - 32, (tsize - 33) * 5 // 8):
            ops.append('eenc %d 1 %s:%s:0 %s:%s:0' % (e_, hx(b'a'), hx(b'b'), hx(b'k'), hx(b'\x00' * ln)))
            ops.append('pipe %d 1 %d' % (e_, e_))
            ops.append('eenc %d 1 %s:%s:0' % (e_, hx(b'k'), hx(b'\x00' * ln)))
            ops.append('pipe %d 1 %d' % (e_, e_))
    return ops



def huff_power_length_strings(maxk=17):
    """strings whose Huffman code is exactly 2^k bits long (k = 10..17), one symbol shorter and one longer, for
    symbols of every code length that divides it, plain repetition and a mix: flushing / slicing at a power-of-two
    number of pending bits or octets shows only there"""
    from refmodel import LENGTHS
    by_len = {}
    for s_ in range(256):
        by_len.setdefault(LENGTHS[s_], []).append(s_)
    out = []
    for k in range(10, maxk + 1):
        bits = 1 << k
        for L in (5, 6, 7, 8):
            if bits % L:
                # mix: fill with L-bit symbols and finish with 8-bit ones so that the total is exact
                cnt = bits // L
                while cnt > 0 and (bits - cnt * L) % 8:
                    cnt -= 1
                rest = (bits - cnt * L) // 8
                s = bytes(by_len[L][j % len(by_len[L])] for j in range(cnt)) + bytes(by_len[8][j % len(by_len[8])] for j in range(rest))
                out.append(s)
                continue
            cnt = bits // L
            syms = by_len[L]
            out.append(bytes([syms[0]]) * cnt)
            out.append(bytes(syms[j % len(syms)] for j in range(cnt)))
            out.append(bytes([syms[0]]) * (cnt - 1))
            out.append(bytes([syms[0]]) * (cnt + 1))
    # the same at octet counts that are powers of two (slicing by input length), varied content
    for k in (12, 13, 15, 16):
        if k > maxk:
            continue
        n = 1 << k
        for delta in (0, 1, 7):
            out.append(bytes((j * 37 + j // 251) % 256 for j in range(n + delta)))
            out.append(bytes(b'abcdefghijklmnopqrstuvwxyz0123456789-_ '[(j * 7) % 39] for j in range(n + delta)))
    return out



def power_length_conn_stream(start_id=31000, full=False):
    """connections (Huffman on) carrying values and names of the power-of-two code lengths / octet counts, values
    beyond 32 KiB of varied text, on a default table and on a raised one (so that they are also indexed)"""
    ops = []
    i = start_id
    strs = [x for x in huff_power_length_strings(17 if full else 14) if len(x) <= 70000]
    al = b'abcdefghijklmnopqrstuvwxyz0123456789-_ /=;'
    strs += [bytes(al[(j * 11 + j // 97) % len(al)] for j in range(n)) for n in ((32767, 32768, 32769, 40000, 66000) if full else (32769, 40000))]
    # several long strings of different content: a carry lost at a slice boundary shows only for some bit patterns
    strs += [bytes(al[(j * m + j // 89 + m) % len(al)] for j in range(33000 + 1000 * m)) for m in ((3, 5, 7, 13, 17, 19, 23, 29) if full else (3, 5, 7, 13, 17))]
    for tsize in (4096, 1 << 20):
        i += 1
        ops.append('enew %d' % i); ops.append('dnew %d 100000000' % i); ops.append('dallow %d %d' % (i, 1 << 21))
        if tsize != 4096:
            ops.append('esize %d %d' % (i, tsize))
        for j, x in enumerate(strs):
            if tsize != 4096 and j % 3:
                continue
            if j % 4 == 3:
                ops.append('eenc %d 1 %s:%s:0' % (i, hx(x[:60000]), hx(b'v')))
            else:
                ops.append('eenc %d 1 %s:%s:%d' % (i, hx(b'k%d' % (j % 5)), hx(x), 1 if j % 7 == 6 else 0))
            ops.append('pipe %d 1 %d' % (i, i))
    return ops



# ====================================================================================================
# round-5 additions
# ====================================================================================================
def zero_carry_huffman_strings(n=34000):
    """long strings whose code, cut at ANY octet position that is a multiple of 8, leaves 1..7 pending bits that are
    all zero (j six-bit symbols, then '0' = 00000 throughout), and the mirror image with pending bits that are all one
    as far as the code allows; a chunked encoder that loses or mis-merges its carry shows on these at every chunk size"""
    out = []
    six = b' %-./34'                     # six-bit codes
    for j in range(1, 8):
        out.append(six[:j] + b'0' * n)
    out.append(b'0' * 7 + b'1' * n)     # 00001 repeated: pending bits 0..., 1 at varying offsets
    out.append(b' ' + b'\x00' * (n // 3))     # 13-bit codes of mostly ones
    return out


def static_entry_limit_stream(start_id=32000):
    """each of the 61 static entries referenced under a list limit of exactly its size, one less, and k times under
    k*size and k*size-1; as an indexed field and as an indexed-name literal with an empty value"""
    from refmodel import STATIC
    ops = []
    d = start_id
    for i, (n, v) in enumerate(STATIC, start=1):
        sz = 32 + len(n) + len(v)
        for k in (1, 7):
            for lim in (k * sz, k * sz - 1):
                d += 1
                ops.append('dnew %d %d' % (d, lim))
                ops.append('ddec %d %d %s' % (d, i % 2, hx(int_octets(i, 7, 0x80) * k)))
        d += 1
        ops.append('dnew %d %d' % (d, 32 + len(n) - 1))
        ops.append('ddec %d 1 %s' % (d, hx(int_octets(i, 4, 0x00) + b'\x00')))
        ops.append('dlimit %d %d' % (d, 32 + len(n)))
        ops.append('ddec %d 1 %s' % (d, hx(int_octets(i, 4, 0x10) + b'\x00')))
    return ops


def updates_then_never_indexed_stream(start_id=33000):
    """blocks that OPEN with 1..3 table-size updates and then carry never-indexed, plain and indexed fields in every
    order, in text mode and in raw mode (the class of each returned tuple)"""
    import itertools
    ops = []
    d = start_id
    reps = {'N': b'\x10\x03key\x05value', 'P': b'\x00\x01p\x01q', 'I': b'\x40\x01i\x01j', 'X': b'\x82', 'M': b'\x1f\x08\x03tok'}
    for raw in (0, 1):
        for nupd in (0, 1, 2, 3):
            for order in itertools.permutations('NPIXM', 3):
                d += 1
                ops.append('dnew %d' % d)
                upd = [b'\x3f\xe1\x1f', b'\x20', b'\x3f\x45'][:nupd]
                ops.append('ddec %d %d %s' % (d, raw, hx(b''.join(upd) + b''.join(reps[c] for c in order))))
                ops.append('ddec %d %d %s' % (d, raw, hx(b''.join(reps[c] for c in order))))
    return ops


def name_index_boundary_stream(start_id=34000):
    """an Encoder with ~300 live entries (16 KiB table); fields whose NAME matches only an old entry, so that the name
    index falls on 62, 63, 64 (6-bit prefix), 15/16 via the static table, 126..129, 142..144, 190..192, 254..256, 300:
    sensitive (4-bit prefix, 0x10), and ordinary (6-bit prefix, 0x40), Huffman on and off; piped to a decoder"""
    ops = []
    e = start_id
    for huff in (0, 1):
        e += 1
        ops.append('enew %d' % e); ops.append('dnew %d 10000000' % e); ops.append('dallow %d 16384' % e)
        ops.append('esize %d 16384' % e)
        cnt = 300
        names = [b'k%03d' % i for i in range(cnt)]
        for i in range(0, cnt, 30):
            ops.append('eenc %d %d %s' % (e, huff, ' '.join('%s:%s:0' % (hx(n), hx(b'v')) for n in names[i:i + 30])))
            ops.append('pipe %d 1 %d' % (e, e))
        # entry names[j] now sits at index 62 + (cnt - 1 - j)
        targets = [62, 63, 64, 76, 77, 78, 126, 127, 128, 129, 142, 143, 144, 190, 191, 192, 254, 255, 256, 300, 361]
        for t in targets:                        # sensitive: nothing is inserted, the indices stay put
            j = cnt - 1 - (t - 62)
            ops.append('eenc %d %d %s:%s:1' % (e, huff, hx(names[j]), hx(b'secret-%d' % t)))
            ops.append('pipe %d 0 %d' % (e, e))
        for t in targets:                        # exact matches at the same indices
            j = cnt - 1 - (t - 62)
            ops.append('eenc %d %d %s:%s:1 %s:%s:0' % (e, huff, hx(names[j]), hx(b'v'), hx(names[j]), hx(b'v')))
            ops.append('pipe %d 1 %d' % (e, e))
        shift = 0
        for t in targets:                        # ordinary: each one inserts, so aim one lower every time
            j = cnt - 1 - (t - 62) + shift
            if 0 <= j < cnt:
                ops.append('eenc %d %d %s:%s:0' % (e, huff, hx(names[j]), hx(b'other-%d' % t)))
                ops.append('pipe %d 1 %d' % (e, e))
                shift += 1
    # static names at 15/16 (4-bit prefix boundary) and 61, sensitive and not
    e += 1
    ops.append('enew %d' % e); ops.append('dnew %d' % e)
    for nm in (b'accept-charset', b'accept-encoding', b'accept-language', b'www-authenticate', b'via', b':authority'):
        for sens in (1, 0):
            ops.append('eenc %d 0 %s:%s:%d' % (e, hx(nm), hx(b'zzz'), sens))
            ops.append('pipe %d 1 %d' % (e, e))
    return ops


# ====================================================================================================
# round-6 additions
# ====================================================================================================
def _hs(fields):
    return ' '.join('%s:%s:%d' % (hx(n), hx(v), int(s)) for n, v, s in fields)


def copy_stream(g, start_id=36000):
    """live Encoders / Decoders / HeaderTables copied with copy.deepcopy or a pickle round trip — with entries in the
    table, with a size change pending, after a change was signalled and the size set back to the default — and then
    BOTH objects go on (repeated blocks, evictions, references to old entries), each with its own copied peer"""
    ops = []
    rnd = g.rnd
    i = start_id
    warm = [(b'x-a', b'1', 0), (b'x-b', b'22', 0), (b'cookie', b'c' * 20, 0), (b'x-c', b'', 0)]
    more = [(b'x-a', b'1', 0), (b'x-d', b'4', 0), (b'x-secret', b's', 1), (b'x-b', b'22', 0)]
    for kind in ('deep', 'pickle'):
        for scenario in ('plain', 'pending-lower', 'pending-raise', 'back-to-default', 'small-table', 'after-many'):
            for huff in (0, 1):
                i += 10
                a, b = i, i + 1              # original pair, copied pair
                ops.append('enew %d' % a); ops.append('dnew %d 1000000' % a); ops.append('dallow %d 65536' % a)
                ops.append('eenc %d %d %s' % (a, huff, _hs(warm))); ops.append('pipe %d 1 %d' % (a, a))
                if scenario == 'pending-lower':
                    ops.append('esize %d 100' % a)
                elif scenario == 'pending-raise':
                    ops.append('esize %d 16384' % a)
                elif scenario == 'back-to-default':
                    ops.append('esize %d 40' % a); ops.append('eenc %d %d %s' % (a, huff, _hs(warm[:2]))); ops.append('pipe %d 1 %d' % (a, a))
                    ops.append('esize %d 4096' % a)
                elif scenario == 'small-table':
                    ops.append('esize %d 120' % a); ops.append('eenc %d %d %s' % (a, huff, _hs(warm))); ops.append('pipe %d 1 %d' % (a, a))
                elif scenario == 'after-many':
                    for j in range(0, 60, 10):
                        ops.append('eenc %d %d %s' % (a, huff, _hs([(b'k%02d' % q, b'v' * (q % 7), 0) for q in range(j, j + 10)])))
                        ops.append('pipe %d 1 %d' % (a, a))
                ops.append('ecopy %d %d %s' % (b, a, kind)); ops.append('dcopy %d %d %s' % (b, a, kind))
                for rnd_ in range(3):
                    for x in ((b, a) if rnd_ % 2 else (a, b)):
                        ops.append('eenc %d %d %s' % (x, huff, _hs(more if rnd_ != 1 else warm)))
                        ops.append('pipe %d %d %d' % (x, rnd_ % 2, x))
                    if rnd_ == 0:
                        ops.append('esize %d 64' % b)          # only on the copy
                    if rnd_ == 1:
                        ops.append('esize %d 200' % a)         # only on the original
                # evict heavily on the copy, then reference on both
                ops.append('eenc %d %d %s' % (b, huff, _hs([(b'big%d' % q, b'B' * 300, 0) for q in range(16)])))
                ops.append('pipe %d 1 %d' % (b, b))
                for x in (a, b):
                    ops.append('eenc %d %d %s' % (x, huff, _hs(warm + more)))
                    ops.append('pipe %d 1 %d' % (x, x))
    # decoders copied on their own, then both fed blocks that evict (small non-zero sizes) and reference
    for kind in ('deep', 'pickle'):
        i += 10
        a, b = i, i + 1
        ops.append('dnew %d 1000000' % a); ops.append('dallow %d 16384' % a)
        ops.append('ddec %d 1 %s' % (a, hx(b''.join(bytes([0x40, 2, 0x6b, 48 + q, 3]) + b'v%02d' % q for q in range(10)))))
        ops.append('dcopy %d %d %s' % (b, a, kind))
        for x in (a, b, a, b):
            ops.append('ddec %d 1 %s' % (x, hx(bytes([0x40, 1, 0x7a, 1, 0x31]) + b'\xbe\xbf\xc0')))
            ops.append('ddec %d 1 %s' % (x, hx(int_octets(80, 5, 0x20) + b'\xbe')))
            ops.append('ddec %d 1 %s' % (x, hx(int_octets(4096, 5, 0x20) + bytes([0x40, 1, 0x79, 1, 0x32]) + b'\xbe\xbf')))
    # HeaderTable objects
    for kind in ('deep', 'pickle'):
        i += 10
        a, b = i, i + 1
        ops.append('tnew %d' % a)
        for q in range(6):
            ops.append('tadd %d %s %s' % (a, hx(b'n%d' % q), hx(b'v' * q)))
        ops.append('tcopy %d %d %s' % (b, a, kind))
        for x in (a, b):
            for idx in (62, 63, 66, 67, 68):
                ops.append('tget %d %d' % (x, idx))
            ops.append('tsearch %d %s %s' % (x, hx(b'n0'), hx(b'')))
            ops.append('tsearch %d %s %s' % (x, hx(b'n5'), hx(b'vvvvv')))
        ops.append('tadd %d %s %s' % (b, hx(b'only-copy'), hx(b'1')))
        ops.append('tmax %d 70' % a)
        for x in (a, b):
            for idx in (62, 63, 64):
                ops.append('tget %d %d' % (x, idx))
            ops.append('tadd %d %s %s' % (x, hx(b'both'), hx(b'2')))
            ops.append('tget %d 62' % x); ops.append('tget %d 63' % x)
    return ops


def eadd_stream(start_id=37000):
    """Encoder.add((name, value), sensitive, huffman) called directly (it is public), every combination of the two
    flags, on names that are new / in the static table / in the dynamic table; each result decoded by a peer"""
    ops = []
    e = start_id
    ops.append('enew %d' % e); ops.append('dnew %d' % e)
    fields = [(b'x-new', b'v'), (b'authorization', b'basic x'), (b':path', b'/secret'), (b'x-new', b'v'), (b'x-new', b'other'),
              (b'cookie', b''), (b'', b''), (b':method', b'GET'), (b'x-k', b'\x00\xff')]
    for n, v in fields:
        for sens in (1, 0):
            for huff in (0, 1):
                ops.append('eadd %d %d %d %s %s' % (e, huff, sens, hx(n), hx(v)))
                ops.append('pipe %d %d %d' % (e, huff, e))
    ops.append('eenc %d 0 %s' % (e, _hs([(n, v, 0) for n, v in fields])))
    ops.append('pipe %d 1 %d' % (e, e))
    return ops


def eev_stream(g, start_id=38000):
    """a header generator that LOWERS header_table_size on the encoder it is being consumed by, between two of the
    fields it yields — with nothing pending, with an update already pending, twice in one block, to the size in force;
    the next blocks must open with what is owed"""
    ops = []
    e = start_id
    f = lambda n, v: '2bb:%s:%s' % (hx(n), hx(v))
    cases = [(None, ['!size=64']), (None, ['!size=100', '!size=50']), (200, ['!size=64']), (200, ['!size=200']), (None, ['!size=4096']),
             (100, ['!size=100', '!size=40']), (None, ['!size=0']), (300, ['!size=0', '!size=0'])]
    for pre, sizes in cases:
        for pos in (0, 1, 2):
            e += 1
            ops.append('enew %d' % e); ops.append('dnew %d' % e)
            ops.append('eenc %d 0 %s' % (e, _hs([(b'a', b'b', 0), (b'c', b'd' * 30, 0)]))); ops.append('pipe %d 1 %d' % (e, e))
            if pre is not None:
                ops.append('esize %d %d' % (e, pre))
            fl = [f(b'e', b'f'), f(b'a', b'b')]
            toks = fl[:pos] + [sizes[0]] + fl[pos:] + sizes[1:] + [f(b'g', b'h')]
            ops.append('eev %d %d %s' % (e, pos % 2, ' '.join(toks))); ops.append('pipe %d 1 %d' % (e, e))
            ops.append('eenc %d 0 %s' % (e, _hs([(b'g', b'h', 0), (b'i', b'j', 0)]))); ops.append('pipe %d 1 %d' % (e, e))
            ops.append('eenc %d 0 %s' % (e, _hs([(b'i', b'j', 0)]))); ops.append('pipe %d 1 %d' % (e, e))
    return ops


def utf8_limit_stream(start_id=39000):
    """text mode and the list limit: fields with multi-octet UTF-8 whose size in octets is above the limit while the
    count of characters is not (and at the limit exactly); literal and indexed"""
    ops = []
    d = start_id
    for ch in ('é', '€', '\U0001f600'):
        u = ch.encode('utf-8')
        for k in (1, 10, 100):
            val = u * k
            size = 32 + 1 + len(val)
            for lim in (size, size - 1, 32 + 1 + k, 32 + 1 + k + 1, size - len(u) + 1):
                for raw in (0, 1):
                    d += 1
                    ops.append('dnew %d %d' % (d, lim))
                    ops.append('ddec %d %d %s' % (d, raw, hx(b'\x40\x01x' + int_octets(len(val), 7) + val)))
                    ops.append('ddec %d %d be' % (d, raw))
                    ops.append('ddec %d %d %s' % (d, raw, hx(b'\x00' + int_octets(len(val), 7) + val + b'\x00')))
    return ops


def update_then_limit_stream(start_id=40000):
    """blocks that open with a table-size update, under list limits below / above / equal to the permitted table
    size; limit 0 with an empty block and with a block of updates only"""
    ops = []
    d = start_id
    three = b'\x82\x86\x84'           # 42 + 43 + 38 = 123
    big = b'\x00\x01a' + int_octets(5000, 7) + b'v' * 5000      # 5033
    for upd in (b'\x20', b'\x3f\xe1\x1f', b'\x3f\x45', b'\x20\x3f\xe1\x1f'):
        for lim, blk in ((100, three), (123, three), (122, three), (10000, big), (5033, big), (5032, big), (4096, big), (4097, three), (0, b'')):
            d += 1
            ops.append('dnew %d %d' % (d, lim))
            ops.append('ddec %d 1 %s' % (d, hx(upd + blk)))
            ops.append('ddec %d 0 %s' % (d, hx(blk) if blk else '-'))
    for lim in (0, 1, 31):
        d += 1
        ops.append('dnew %d %d' % (d, lim))
        ops.append('ddec %d 1 -' % d); ops.append('ddec %d 0 -' % d); ops.append('ddec %d 1 20' % d); ops.append('ddec %d 0 3fe11f' % d)
        ops.append('ddec %d 1 82' % d)
    return ops


def small_sizes_allowed_stream(start_id=41000):
    """table sizes 0..33 announced by the peer and then the permitted maximum lowered below / to / above them, with an
    empty block next; and, after the permitted maximum was lowered below the size in use, blocks WITHOUT an update whose
    first octet is each kind of representation (every value of the three high bits)"""
    ops = []
    d = start_id
    for u in (0, 1, 2, 17, 31, 32, 33):
        for allowed in (u - 1, u, u + 1):
            if allowed < 0:
                continue
            d += 1
            ops.append('dnew %d' % d)
            ops.append('ddec %d 1 %s' % (d, hx(int_octets(u, 5, 0x20))))
            ops.append('dallow %d %d' % (d, allowed))
            ops.append('ddec %d 1 -' % d)
            ops.append('ddec %d 1 82' % d)
    firsts = [b'\x82', b'\xa1', b'\xbe', b'\xe0', b'\xff\x00', b'\x60\x01v', b'\x7f\x00\x01v', b'\x40\x01a\x01b', b'\x00\x01a\x01b', b'\x10\x01a\x01b',
              b'\x0f\x11\x01v', b'\x1f\x11\x01v', b'\x2f', b'\x20', b'\x3f\x01']
    for low in (0, 100, 4095):
        for blk in firsts:
            d += 1
            ops.append('dnew %d' % d)
            ops.append('ddec %d 1 %s' % (d, hx(b'\x40\x03abc\x03xyz')))
            ops.append('dallow %d %d' % (d, low))
            ops.append('ddec %d 1 %s' % (d, hx(blk)))
            ops.append('ddec %d 1 %s' % (d, hx(int_octets(low, 5, 0x20) + blk)))
    return ops


def evict_binary_stream(start_id=42000):
    """entries whose name or value is not UTF-8 (0xff, 0xc3 alone, 0x80, NUL) evicted by insertions, by a shrink to a
    small non-zero size and by an oversized insertion; on a HeaderTable, through a Decoder and through an Encoder;
    with DEBUG logging on and off"""
    ops = []
    t = start_id
    bins = [(b'\xff\xfe', b'v'), (b'k', b'\xc3'), (b'\x80name', b'\x00\xff'), (b'k2', b'caf\xe9')]
    for log in ('', ' #log=debug'):
        t += 1
        ops.append('tnew %d%s' % (t, log)); ops.append('tmax %d 120%s' % (t, log))
        for n, v in bins + bins:
            ops.append('tadd %d %s %s%s' % (t, hx(n), hx(v), log))
        ops.append('tmax %d 40%s' % (t, log)); ops.append('tadd %d %s %s%s' % (t, hx(b'x'), hx(b'y' * 200), log))
        ops.append('dnew %d 100000%s' % (t, log))
        ops.append('ddec %d 1 %s%s' % (t, hx(int_octets(120, 5, 0x20)), log))
        for n, v in bins + bins:
            ops.append('ddec %d 1 %s%s' % (t, hx(b'\x40' + int_octets(len(n), 7) + n + int_octets(len(v), 7) + v), log))
        ops.append('ddec %d 1 %s%s' % (t, hx(int_octets(40, 5, 0x20)), log))
        ops.append('ddec %d 1 %s%s' % (t, hx(b'\x40\x01x' + int_octets(200, 7) + b'y' * 200), log))
        ops.append('enew %d%s' % (t, log)); ops.append('esize %d 120%s' % (t, log))
        for n, v in bins + bins:
            ops.append('eenc %d 0 %s:%s:0%s' % (t, hx(n), hx(v), log))
        ops.append('esize %d 40%s' % (t, log)); ops.append('eenc %d 1 %s:%s:0%s' % (t, hx(b'x'), hx(b'y' * 200), log))
    ops.append('dnew %d #log=off' % (t + 1))
    return ops


def allowed_down_up_stream(g, start_id=43000):
    """a connection on which the application lowers the decoder's permitted table size below what the table holds and
    raises it again BEFORE the next block arrives (the encoder never changes its size): nothing may be evicted"""
    ops = []
    rnd = g.rnd
    c = start_id
    for low in (0, 50, 100, 4095):
        for order in ('down-up', 'down-up-down-up', 'dsize-first'):
            c += 1
            ops.append('enew %d' % c); ops.append('dnew %d' % c)
            ops.append('eenc %d 0 %s' % (c, _hs([(b'a', b'1', 0), (b'b', b'2' * 40, 0), (b'c', b'3', 0)]))); ops.append('pipe %d 1 %d' % (c, c))
            if order == 'dsize-first':
                ops.append('dsize %d 8192' % c); ops.append('dallow %d 8192' % c)
            ops.append('dallow %d %d' % (c, low)); ops.append('dallow %d 4096' % c)
            if order == 'down-up-down-up':
                ops.append('dallow %d %d' % (c, low)); ops.append('dallow %d 65536' % c)
            if order == 'dsize-first':
                ops.append('dallow %d 8192' % c)
            ops.append('eenc %d 0 %s' % (c, _hs([(b'a', b'1', 0), (b'b', b'2' * 40, 0), (b'c', b'3', 0), (b'd', b'4', 0)]))); ops.append('pipe %d 1 %d' % (c, c))
            ops.append('eenc %d 1 %s' % (c, _hs([(b'd', b'4', 0), (b'a', b'1', 0)]))); ops.append('pipe %d 0 %d' % (c, c))
    # the application assigns the decoder's table size BEFORE it raises the permitted maximum (and the other way round)
    for first in ('dsize', 'dallow'):
        c += 1
        ops.append('dnew %d 10000000' % c)
        if first == 'dsize':
            ops.append('dsize %d 8192' % c); ops.append('dallow %d 8192' % c)
        else:
            ops.append('dallow %d 8192' % c); ops.append('dsize %d 8192' % c)
        blk = b''.join(b'\x40' + int_octets(4, 7) + b'n%03d' % q + int_octets(40, 7) + b'v' * 40 for q in range(100))     # 100 x 76 = 7600
        ops.append('ddec %d 1 %s' % (c, hx(blk)))
        ops.append('ddec %d 1 %s' % (c, hx(int_octets(62 + 99, 7, 0x80) + int_octets(62 + 60, 7, 0x80) + b'\xbe')))
    return ops


def whitespace_search_stream(start_id=44000):
    """values that differ from a table entry's only by surrounding SP / HTAB (or case, or a trailing NUL), searched and
    encoded: they are different fields"""
    from refmodel import STATIC
    ops = []
    t = start_id
    ops.append('tnew %d' % t)
    ops.append('tadd %d %s %s' % (t, hx(b'x-token'), hx(b'abc')))
    ops.append('tadd %d %s %s' % (t, hx(b'x-token'), hx(b'abc ')))
    ops.append('tadd %d %s %s' % (t, hx(b'x-e'), hx(b'')))
    variants = lambda v: [v + b' ', b' ' + v, v + b'\t', b'\t' + v + b' ', v + b'\x00', v.upper() if v.upper() != v else v + b'_', v + b'\r\n']
    for n, v in list(STATIC) + [(b'x-token', b'abc'), (b'x-token', b'abc '), (b'x-e', b'')]:
        for w in variants(v):
            ops.append('tsearch %d %s %s' % (t, hx(n), hx(w)))
        ops.append('tsearch %d %s %s' % (t, hx(n + b' '), hx(v)))
        ops.append('tsearch %d %s %s' % (t, hx(n.upper()), hx(v)))
    e = t + 1
    ops.append('enew %d' % e); ops.append('dnew %d 1000000' % e)
    allf = []
    for n, v in list(STATIC)[:20] + [(b'x-token', b'abc')]:
        allf += [(n, v, 0)] + [(n, w, 0) for w in variants(v)[:4]]
    for k in range(0, len(allf), 5):
        ops.append('eenc %d %d %s' % (e, (k // 5) % 2, _hs(allf[k:k + 5]))); ops.append('pipe %d 1 %d' % (e, e))
    return ops


def static_names_other_values_stream(start_id=45000):
    """every static NAME with an empty value and with a value the static table does not have, each sent twice (the
    second time it equals a dynamic entry and must be a single index), sensitive variants in between"""
    from refmodel import STATIC
    ops = []
    e = start_id
    names = []
    for n, _ in STATIC:
        if n not in names:
            names.append(n)
    for huff in (0, 1):
        e += 1
        ops.append('enew %d' % e); ops.append('dnew %d 1000000' % e); ops.append('dallow %d 65536' % e); ops.append('esize %d 65536' % e)
        for k in range(0, len(names), 6):
            chunk = names[k:k + 6]
            ops.append('eenc %d %d %s' % (e, huff, _hs([(n, b'', 0) for n in chunk] + [(n, b'zz', 0) for n in chunk]))); ops.append('pipe %d 1 %d' % (e, e))
            ops.append('eenc %d %d %s' % (e, huff, _hs([(n, b'', 1) for n in chunk[:2]] + [(n, b'', 0) for n in chunk] + [(n, b'zz', 0) for n in chunk]))); ops.append('pipe %d 1 %d' % (e, e))
    return ops


def cross_encoder_sensitive_stream(start_id=46000):
    """several Encoders in one process: a name enters ONE encoder's dynamic table as an ordinary field, then the same
    sensitive (name, value) is sent on that encoder and on others (fresh, or with a different table): each must use
    its OWN table"""
    ops = []
    e = start_id
    ids = [e + 1, e + 2, e + 3]
    for x in ids:
        ops.append('enew %d' % x); ops.append('dnew %d' % x)
    ops.append('eenc %d 0 %s' % (ids[0], _hs([(b'x-api-key', b'v1', 0)]))); ops.append('pipe %d 1 %d' % (ids[0], ids[0]))
    ops.append('eenc %d 0 %s' % (ids[1], _hs([(b'x-other', b'o', 0), (b'x-more', b'm', 0), (b'x-api-key', b'v2', 0)]))); ops.append('pipe %d 1 %d' % (ids[1], ids[1]))
    for huff in (0, 1):
        for x in ids:
            ops.append('eenc %d %d %s' % (x, huff, _hs([(b'x-api-key', b'secret', 1)]))); ops.append('pipe %d 1 %d' % (x, x))
        for x in reversed(ids):
            ops.append('eenc %d %d %s' % (x, huff, _hs([(b'x-api-key', b'secret', 1), (b'x-api-key', b'secret', 0)]))); ops.append('pipe %d 1 %d' % (x, x))
    x = e + 4
    ops.append('enew %d' % x); ops.append('dnew %d' % x)
    ops.append('eenc %d 1 %s' % (x, _hs([(b'x-api-key', b'secret', 1)]))); ops.append('pipe %d 1 %d' % (x, x))
    return ops


def huff_large_stream(full=False):
    """Huffman strings whose decoded or encoded length passes the powers of two around 64 KiB / 128 KiB (default limits,
    16-bit counters, pre-sized buffers): accepted ones, and the same with a broken last octet. hdec, henc and hrt."""
    ops = []
    sizes = [65535, 65536, 65537, 70001] + ([131071, 131072, 131073, 262145] if full else [131073])
    for n in sizes:
        for mk in (lambda n: b'a' * n,                                     # 5-bit codes: n octets out of 5n/8 in
                   lambda n: bytes((j * 37 + 11) % 256 for j in range(n)),  # every symbol
                   lambda n: (b'0123456789abcdef; path=/' * (n // 24 + 1))[:n]):
            s = mk(n)
            e = huff_encode(s)
            ops.append('hdec ' + hx(e) + ('' if n % 2 else ' #buf=memoryview'))
            ops.append('hdec ' + hx(e[:-1] + bytes([e[-1] ^ 0x01])))       # last bit flipped: other symbol or refused
            if n == 65537 and s[:2] == b'aa':        # the library's encoder is quadratic in the string length (one big integer): one string only
                ops.append('hrt ' + hx(s))
    for m in (65535, 65536, 65537):                                        # inputs of exactly that many octets
        e = huff_encode(b'a' * (m * 8 // 5 + 8))[:m - 1]
        for last in (0x1f, 0xff, 0x18):
            ops.append('hdec ' + hx(e + bytes([last])))
    return ops


def huff_copy_stream(g):
    """the application copies / deep-copies / pickles the HuffmanEncoder it holds and goes on with the copy"""
    ops = []
    probe = ['henc %02x' % b for b in (0, 0x30, 0x61, 0xff, 0x80)] + ['hrt ' + hx(bytes(range(256))), 'henc -',
             'hrt ' + hx(b'www.example.com'), 'henc ' + hx(b'\x00' * 9), 'hrt ' + hx(b'\xff' * 5)]
    ops += probe
    for kind in ('copy', 'deep', 'pickle', 'deep', 'copy'):
        ops.append('hcopy ' + kind)
        ops += probe
        ops += ['hrt ' + hx(bytes(g.rnd.randrange(256) for _ in range(g.rnd.randint(1, 30)))) for _ in range(10)]
    return ops


def henc_shared_stream(g, n=60):
    """strings handed to HuffmanEncoder.encode in one bytearray that the application overwrites in place between calls
    (same length / other lengths / the same content again), as bytearray and as a memoryview of it"""
    ops = []
    rnd = g.rnd
    pool = [b'session=alpha', b'session=gamma', b'session=alpha', b'', b'a', b'b', b'custom-key', b'custom-val', b'\xff\xfe', b'\x00\x01']
    for j in range(n):
        s = rnd.choice(pool) if rnd.random() < 0.7 else bytes(rnd.randrange(256) for _ in range(rnd.choice([1, 2, 13, 13, 30])))
        kind = rnd.choice(['shared', 'shared', 'mv-shared', 'bytearray', 'memoryview', 'mv-strided', ''])
        ops.append('henc ' + hx(s) + (' #buf=' + kind if kind else ''))
        if rnd.random() < 0.3:
            ops.append('henc ' + hx(s) + ' #buf=shared')          # the very same content again
    for a, b in ((b'session=alpha', b'session=gamma'), (b'aaaa', b'bbbb'), (b'x', b'y'), (b'0123456789' * 30, b'9876543210' * 30)):
        for kind in ('shared', 'mv-shared'):
            ops += ['henc ' + hx(a) + ' #buf=' + kind, 'henc ' + hx(b) + ' #buf=' + kind, 'henc ' + hx(a) + ' #buf=' + kind]
    return ops


def dispatch_boundary_stream(start_id=47000):
    """every boundary of the first-octet dispatch (1xxxxxxx indexed / 01 incremental / 001 size update / 0001 never /
    0000 without indexing) followed by tails that would be well-formed under ANOTHER reading of that octet -- on a fresh
    decoder and on one holding entries, first in the block and after a field, raw and text mode"""
    ops = []
    firsts = [0x80, 0x81, 0xbe, 0xbf, 0xff, 0x7f, 0x7e, 0x40, 0x41, 0x3f, 0x3e, 0x30, 0x2f, 0x21, 0x20, 0x1f, 0x1e, 0x11, 0x10, 0x0f, 0x0e, 0x01, 0x00]
    tails = [b'', b'\x01a\x01b', b'\x00', b'\x00\x00', b'\x82', b'\x01a', b'\xbe', b'\x20', b'\x3f\xe1\x1f', b'\x7f', b'\x00\x01v',
             b'\x01\x61\x01\x62\x82', b'\x82\x84', b'\x81\x1f\x81\x1f', b'\x10', b'\x40\x01k\x01v']
    i = start_id
    for warm in (None, b'\x40\x01k\x01v\x40\x01m\x01w', b'\x3f\x09\x40\x01k\x00'):
        for lead in (b'', b'\x82'):
            i += 1
            ops.append('dnew %d' % i)
            for f in firsts:
                for t in tails:
                    if warm is not None:
                        i += 1
                        ops.append('dnew %d' % i)
                        ops.append('ddec %d 1 %s' % (i, hx(warm)))
                    ops.append('ddec %d %d %s' % (i, (f + len(t)) % 2, hx(lead + bytes([f]) + t)))
                    if warm is not None:
                        ops.append('ddec %d 1 bebf' % i)
    return ops


def int_call_forms_stream():
    """encode_integer / decode_integer called with keyword arguments and with a keyword for the width only: refusals
    (widths outside 1..8, negatives), boundaries and truncations must not depend on how the arguments are passed"""
    ops = []
    for kw in ('1', 'mixed'):
        for N in (-8, -1, 0, 9, 10, 100):
            ops.append('ienc 5 %d #kw=%s' % (N, kw))
            ops.append('idec 05 %d #kw=%s' % (N, kw))
            ops.append('idec ff01 %d #kw=%s' % (N, kw))
        for N in range(1, 9):
            m = 2 ** N - 1
            for v in (0, m - 1, m, m + 1, m + 127, m + 128, m + 16384, 2 ** 32):
                ops.append('ienc %d %d #kw=%s' % (v, N, kw))
                e = int_octets(v, N)
                ops.append('idec %s %d #kw=%s' % (hx(e), N, kw))
                ops.append('idec %s %d #kw=%s' % (hx(e[:-1]), N, kw))
            ops.append('ienc -1 %d #kw=%s' % (N, kw))
    return ops


def ctor_options_stream(g, n=6, start_id=48000):
    """instances constructed through every optional constructor parameter the harness does not know (a new option of the
    library under test gets a non-default value; on a library without any this is the plain constructor): connections with
    evictions, repeated fields, sensitive fields and size changes must still satisfy the properties -- judged only, the
    model knows nothing of new options"""
    ops = []
    rnd = g.rnd
    i = start_id
    names = [b'x-a', b'cookie', b'n', b':path', b'k', b'custom-key', b'etag', b'x-b']
    for c in range(n):
        i += 1
        ops += ['enewx %d' % i, 'dnewx %d' % i, 'enew %d' % (i + 500), 'dnew %d' % (i + 500)]
        for blk in range(14):
            hs = []
            for _ in range(rnd.randint(1, 6)):
                nm = rnd.choice(names)
                val = rnd.choice([b'', b'v', b'/', b'w' * rnd.choice([3, 40, 300, 1200])]) + bytes([0x30 + rnd.randrange(4)])
                hs.append((nm, val, 1 if rnd.random() < 0.15 else 0))
            if blk == 9 and c % 2:
                ops.append('esize %d 200' % i); ops.append('esize %d 200' % (i + 500))
            for e in (i, i + 500):          # the default-configured twin sees the same fields (options of one must not leak)
                ops.append('eenc %d %d %s' % (e, blk % 2, _hs(hs)))
                ops.append('pipe %d %d %d' % (e, blk % 2, e))
        ops.append('tnewx %d' % i)
        for j in range(40):
            ops.append('tadd %d %s %s' % (i, hx(rnd.choice(names)), hx(b'v' * rnd.choice([0, 1, 50, 900]))))
            if j % 7 == 3:
                ops.append('tget %d %d' % (i, 62 + rnd.randrange(4)))
                ops.append('tsearch %d %s %s' % (i, hx(rnd.choice(names)), hx(b'v')))
    return ops


def content_catalogue_stream(start_id=48000):
    """names and values whose CONTENT invites "normalisation" by an encoder (folded lines CR LF SP / CR LF HTAB, bare CR / LF,
    surrounding and repeated white space, list separators, letter case, NUL, DEL, non-ASCII, percent and RFC 2047
    escapes, quotes): HPACK carries octets, every one of them must come out of the peer's decoder unchanged, with either
    Huffman setting, sensitive or not, as a new literal and as a name/exact match later"""
    vals = [b'a\r\n b', b'a\r\n\tb', b'line1\r\n line2\r\n\tline3', b'\r\n x', b'x\r\n', b'x\r\n ', b'a\rb', b'a\nb', b'a\r\nb', b' lead', b'trail ',
            b'\tx\t', b'a  b', b'a \t b', b'a, b', b'a,b', b'a , b', b'A', b'MiXeD', b'\x00', b'a\x00b', b'\x7f', b'\x80', b'\xc3\xa9', b'e\xcc\x81',
            b'%41', b'a;b', b'a; b', b'"q"', b'a\\b', b'=?utf-8?q?x?=', b'a\x0bb', b'a\x0cb', b'\xef\xbb\xbfx', b'a\xc2\xa0b', b'1.0', b'01', b'+1']
    names = [b'X-Upper', b'x-lower', b'x_under', b' x', b'x ', b'x:y', b'x\r\n y', b'x\x00', b'X-UPPER', b'Content-Type', b'COOKIE', b'x\ty', b'x-\xc3\xa9']
    ops = []
    e = start_id
    for huff in (0, 1):
        e += 1
        ops.append('enew %d' % e); ops.append('dnew %d 1000000' % e)
        fields = [(b'x-c%d' % (j % 5), v, int(j % 3 == 2)) for j, v in enumerate(vals)] + [(n, b'v', int(j % 4 == 3)) for j, n in enumerate(names)] + \
                 [(n, vals[j % len(vals)], 0) for j, n in enumerate(names)]
        for k in range(0, len(fields), 4):
            ops.append('eenc %d %d %s' % (e, huff, _hs(fields[k:k + 4]))); ops.append('pipe %d 1 %d' % (e, e))
        for k in range(0, len(fields), 7):          # again: now name matches / exact matches
            ops.append('eenc %d %d %s' % (e, 1 - huff, _hs(fields[k:k + 7]))); ops.append('pipe %d 1 %d' % (e, e))
    # one field per block on fresh encoders (nothing else in the block to hide behind)
    for j, v in enumerate(vals):
        e += 1
        ops.append('enew %d' % e); ops.append('dnew %d 1000000' % e)
        ops.append('eenc %d %d %s' % (e, j % 2, _hs([(b'x-folded', v, 0)]))); ops.append('pipe %d 1 %d' % (e, e))
        ops.append('eenc %d %d %s' % (e, 1 - j % 2, _hs([(b'cookie', v, 1)]))); ops.append('pipe %d 1 %d' % (e, e))
    return ops


def length_collision_stream(start_id=49000):
    """on ONE encoder: a literal sent Huffman-coded whose coded length is L, and later (and earlier) a literal sent plain
    whose length is exactly L -- for L around the 7-bit prefix boundary (127), the second continuation octet (255, 256,
    16510) and ordinary lengths. The two length prefixes differ only in the H bit; anything an encoder shares between them
    (a memo of prefixes, a reused buffer) shows here. Names and values are all different, so every field is a new literal."""
    ops = []
    e = start_id
    seeds = [b'a' * 203, b'a' * 204, b'x' * 145, b'~' * 78, b'0' * 300, b'Z' * 1000, b'e' * 408, b'e' * 410, b'q' * 26416, b'a' * 40, b'&' * 127]
    for order in (0, 1):
        e += 1
        ops.append('enew %d' % e); ops.append('dnew %d 10000000' % e)
        for j, s in enumerate(seeds):
            L = len(huff_encode(s))
            plain = bytes([65 + (j % 26)]) * L
            hfield = [(b'h-%d-%d' % (order, j), s, j % 2)]
            pfield = [(b'p-%d-%d' % (order, j), plain, (j + 1) % 2)]
            seq = [(1, hfield), (0, pfield), (1, [(s, b'v', 1)]), (0, [(plain, b'w', 1)])]
            if order:
                seq = [(0, pfield), (1, hfield), (0, [(plain, b'w', 1)]), (1, [(s, b'v', 1)])]
            for huff, f in seq:
                ops.append('eenc %d %d %s' % (e, huff, _hs(f))); ops.append('pipe %d 1 %d' % (e, e))
    return ops


def format_chars_stream(start_id=50000):
    """every documented refusal raised AT (or right after) a field whose name or value holds characters that are special
    to string formatting and logging -- `%`, `%s`, `%d`, `%z`, `%(x)s`, `{}`, `{0}`, `{name}`, `$x`, backslashes, quotes,
    NUL, newlines: the list limit crossed by that field (alone, and as the second field), a bad index / a late size
    update / a truncation right behind it, and the entry fetched back afterwards. Whatever text an error message or a
    log line is built from, the class that leaves `decode` must be the documented one."""
    specials = [b'x-discount-100%', b'%s', b'%d', b'a%zb', b'%(x)s', b'%', b'%%', b'{}', b'{0}', b'{name}', b'{', b'}', b'\\', b'\\N{x}',
                b'"', b"'", b'\x00', b'a\nb', b'%c', b'%r', b'$x', b'${x}', b'%5', b'{!r}', b'{:d}']
    lit = lambda pat, n, v: bytes([pat]) + int_octets(len(n), 7) + n + int_octets(len(v), 7) + v
    ops = []
    d = start_id
    for j, sp in enumerate(specials):
        for n, v in ((sp, b'v'), (b'x', sp), (sp, sp)):
            size = len(n) + len(v) + 32
            raw = j % 2
            d += 1; ops.append('dnew %d %d' % (d, size - 1))                       # this field alone crosses the limit
            ops.append('ddec %d %d %s' % (d, raw, hx(lit(0x00, n, v))))
            ops.append('ddec %d %d %s' % (d, 1 - raw, hx(lit(0x40, n, v))))
            d += 1; ops.append('dnew %d %d' % (d, size + 20))                       # ... as the second field
            ops.append('ddec %d %d %s' % (d, raw, hx(lit(0x00, b'a', b'') + lit(0x10, n, v))))
            ops.append('ddec %d %d %s' % (d, raw, hx(lit(0x00, n, v) + b'\x82')))   # the NEXT field crosses (this one is in the list so far)
            d += 1; ops.append('dnew %d 1000000' % d)
            ops.append('ddec %d %d %s' % (d, raw, hx(lit(0x40, n, v) + b'\xff\xff\x7f')))       # bad index right behind it
            ops.append('ddec %d %d %s' % (d, raw, hx(lit(0x40, n, v) + b'\x3f\xe1\x1f')))       # size update after a field
            ops.append('ddec %d %d %s' % (d, raw, hx(lit(0x40, n, v)[:-1])))                    # truncated inside it
            ops.append('ddec %d %d %s' % (d, raw, hx(lit(0x40, n, v) + b'\xbe\xbf')))            # inserted twice by now: fetch both
            ops.append('ddec %d %d %s' % (d, 1 - raw, hx(b'\x7e' + int_octets(len(v), 7) + v + b'\x3f\xff\xff\xff\x7f')))   # its name by index, then an update above the permitted size
    return ops


def huff_pairs_stream():
    """ONE long-lived coder is given, in 256 short strings, every one of the 65 536 ordered pairs of octets (and every
    octet next to itself), then a few ordinary strings again: whatever a coder remembers about what it has seen -- pairs,
    prefixes, whole strings -- has met everything by then"""
    ops = []
    for hi in range(256):
        s = b''.join(bytes([hi, lo]) for lo in range(256))
        ops.append('henc ' + hx(s))
    for s in (b'www.example.com', b'\x00\xff\x00\xff', b'custom-key', bytes(range(256)), b'a' * 300):
        ops.append('henc ' + hx(s)); ops.append('hrt ' + hx(s))
    return ops


def explicit_config_stream(start_id=52000):
    """every limit given EXPLICITLY by the application (constructor argument, attribute assignment, setter) -- including
    values that happen to equal the library's defaults -- and blocks just under and just over each: whatever else configures
    the library (an environment variable, a module-level default), an explicit value is what must be enforced. Used for the
    environment-variable variants (check.py: env_variants)."""
    ops = []
    d = start_id
    big = bytes([0x40]) + int_octets(1, 7) + b'k' + int_octets(900, 7) + b'v' * 900          # one entry of 933 octets
    for limit in (65536, 65535, 4096, 1000, 100, 1 << 20):
        d += 1
        ops.append('dnew %d %d' % (d, limit))
        ops.append('ddec %d 1 %s' % (d, hx(big)))
        n_over = limit // 933 + 1
        ops.append('ddec %d 1 %s' % (d, hx(b'\xbe' * max(n_over - 1, 0))))       # just under / at the limit
        ops.append('ddec %d 0 %s' % (d, hx(b'\xbe' * n_over)))                    # just over
        ops.append('dlimit %d %d' % (d, 2000)); ops.append('ddec %d 1 %s' % (d, hx(b'\xbe\xbe\xbe')))
        ops.append('dlimit %d %d' % (d, 65536)); ops.append('ddec %d 1 %s' % (d, hx(b'\xbe' * 71)))
    for allowed in (4096, 100, 0, 8192, 65536):
        d += 1
        ops.append('dnew %d 100000' % d); ops.append('dallow %d %d' % (d, allowed))
        for sz in (allowed, allowed + 1, 0, 4096, 4097):
            ops.append('ddec %d 1 %s' % (d, hx(int_octets(sz, 5, 0x20) + b'\x82')))
    e = d
    for size in (4096, 100, 0, 8192):
        e += 1
        ops.append('enew %d' % e); ops.append('dnew %d 100000' % e); ops.append('dallow %d 8192' % e)
        ops.append('esize %d %d' % (e, size))
        for j in range(4):
            ops.append('eenc %d %d %s' % (e, j % 2, _hs([(b'n%d' % j, b'v' * 40, 0), (b'cookie', b'c%d' % j, 1), (b'n0', b'v' * 40, 0)])))
            ops.append('pipe %d 1 %d' % (e, e))
    return ops


def _via_table(ops):
    """the same operations with every decoder table-size assignment made on the table object itself"""
    return [(o + (' ' if '#' in o else ' #') + 'via=table') if o.startswith('dsize ') else o for o in ops]


def table_size_above_permitted_stream(start_id=53000):
    """the table is raised (by the application, through the setter or on the table object) and the permitted maximum is
    lowered below it afterwards: every block until the peer signals a size within the limit must be refused, whatever it
    holds -- empty, update-less, indexed fields only"""
    ops = []
    d = start_id
    for ann in ('', ' #via=table'):
        for low in (4096, 100, 0):
            d += 1
            ops.append('dnew %d 100000' % d)
            ops.append('dallow %d 8192' % d); ops.append('dsize %d 8192%s' % (d, ann))
            ops.append('ddec %d 1 %s' % (d, hx(b'\x40\x01a\x01b')))
            ops.append('dallow %d %d' % (d, low))
            for blk in (b'', b'\x82', b'\xbe', b'\x40\x01c\x01d', int_octets(low + 1, 5, 0x20) + b'\x82'):
                ops.append('ddec %d 1 %s' % (d, hx(blk)))
            ops.append('ddec %d 1 %s' % (d, hx(int_octets(low, 5, 0x20) + b'\x82')))
            ops.append('ddec %d 1 %s' % (d, hx(b'\x82')))
    return ops


def _huff_kinds(ops):
    """the same encoder operations with the `huffman` switch handed over as a non-bool object of the same truth value
    ('on' / '', 1 / 0, [0] / [], True / None)"""
    out = []
    j = 0
    for o in ops:
        if o.split(' ', 1)[0] in ('eenc', 'eapi', 'eev'):
            out.append(o + (' ' if '#' in o else ' #') + 'huffkind=' + ('str', 'int', 'list', 'none')[j % 4]); j += 1
        else:
            out.append(o)
    return out


def decoder_copies_keep_config_stream(start_id=54000):
    """a Decoder configured away from the defaults (list limit, permitted table size, table size), with entries in its table,
    is copied -- copy.copy, copy.deepcopy, pickle -- in the middle of the connection and the COPY goes on: limits and table must
    be the configured ones (a copy that falls back to defaults shows at the first block between the two limits)"""
    ops = []
    d = start_id
    big = bytes([0x40]) + int_octets(1, 7) + b'k' + int_octets(200, 7) + b'v' * 200          # 233 octets
    for kind in ('shallow', 'deep', 'pickle'):
        for limit in (1000, 100000, 300):
            d += 2
            a, b = d, d + 1
            ops.append('dnew %d %d' % (a, limit)); ops.append('dallow %d 8192' % a)
            ops.append('ddec %d 1 %s' % (a, hx(b'\x3f\xe1\x3f' + (big if limit >= 300 else b''))))
            ops.append('dcopy %d %d %s' % (b, a, kind))
            n_over = limit // 233 + 1
            ops.append('ddec %d 1 %s' % (b, hx(b'\xbe' * max(n_over - 1, 1))))
            ops.append('ddec %d 0 %s' % (b, hx(b'\xbe' * n_over)))
            ops.append('ddec %d 1 %s' % (b, hx(b'\x3f\xe2\x3f\x82')))           # 8193 > permitted 8192
            ops.append('ddec %d 1 %s' % (b, hx(b'\xbe' * 300)))                    # 300 x 233 = 69900: over 65536 too
    return ops
