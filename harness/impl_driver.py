#!/usr/bin/env python3
"""
Implementation side of the line protocol: executes the operations on the REAL hpack classes of
$HPACK_REPO/src, in-process, and prints one canonical reply line per operation (same format as
lean/Driver.lean).  Run as a fresh subprocess:  python impl_driver.py < ops > replies

Observation policy (DESIGN 3.2): public API first; the private attributes `_current_size`, `resized`,
`table_size_changes`, `dynamic_entries` are read opportunistically and printed as `?` when absent.
Impl-only annotations follow a `#` on the op line (e.g. `#buf=bytearray`, `#log=debug`).
"""
import sys, os, signal, logging, copy

repo = os.environ.get('HPACK_REPO', '/repo')
sys.path.insert(0, os.path.join(repo, 'src'))
if os.environ.get('HPACK_VERIF_TRACE_LINES'):
    pass  # (line tracing is installed by cost_probe.py, not here)

import hpack
from hpack import Decoder, Encoder, HeaderTuple, NeverIndexedHeaderTuple
from hpack import hpack as H
from hpack.table import HeaderTable
from hpack.huffman_table import decode_huffman
from hpack.exceptions import (HPACKDecodingError, InvalidTableIndexError, InvalidTableSizeError,
                              OversizedHeaderListError)

OP_TIMEOUT = int(os.environ.get('HPACK_VERIF_OP_TIMEOUT', '90'))      # wall-clock per operation: generous, the machine may be loaded


class OpTimeout(BaseException):
    pass


def _alarm(signum, frame):
    raise OpTimeout()


signal.signal(signal.SIGALRM, _alarm)


def hx(b):
    b = bytes(b)
    return b.hex() if b else '-'


def unhex(s):
    return b'' if s == '-' else bytes.fromhex(s)


def canon(e):
    # the documented family, as an application sees it: the names exported by the package, each a subclass of
    # hpack.HPACKDecodingError and hpack.HPACKError (an exception outside that hierarchy "escapes")
    if isinstance(e, hpack.HPACKDecodingError) and isinstance(e, hpack.HPACKError) and isinstance(e, HPACKDecodingError):
        for nm in ('InvalidTableIndexError', 'InvalidTableSizeError', 'OversizedHeaderListError'):
            if isinstance(e, getattr(hpack, nm)):
                return 'err ' + nm
        return 'err HPACKDecodingError'
    return 'esc ' + type(e).__name__


def tag(x):
    return hx(x) + ('o' if type(x) is bytes else 'v')


def entries_of(t):
    try:
        return list(t.dynamic_entries)
    except AttributeError:
        out = []
        k = len(HeaderTable.STATIC_TABLE) + 1
        while True:
            try:
                out.append(t.get_by_index(k))
            except InvalidTableIndexError:
                return out
            k += 1


def show_table(t):
    cur = getattr(t, '_current_size', '?')
    res = getattr(t, 'resized', '?')
    if res != '?':
        res = '1' if res else '0'
    return 'max=%s cur=%s res=%s [%s]' % (t.maxsize, cur, res, ','.join(tag(n) + ':' + tag(v) for n, v in entries_of(t)))


def show_enc(e):
    ch = getattr(e, 'table_size_changes', None)
    return show_table(e.header_table) + ' changes=' + ('?' if ch is None else '[' + ','.join(str(int(x)) for x in ch) + ']')


def show_dec(d):
    return show_table(d.header_table) + ' allowed=%s limit=%s' % (d.max_allowed_table_size, d.max_header_list_size)


def as_utf8(x):
    return x.encode('utf-8') if isinstance(x, str) else bytes(x)


def show_headers(hs):
    if not hs:
        return '-'
    out = []
    for h in hs:
        cls = 'N' if isinstance(h, NeverIndexedHeaderTuple) else ('P' if isinstance(h, HeaderTuple) else 'T')
        # the class contract an application relies on: `indexable`, a 2-tuple that equals the plain pair and can be
        # taken apart and hashed like one
        try:
            n_, v_ = h
            sane = (len(h) == 2 and tuple(h) == (h[0], h[1]) and (n_, v_) == (h[0], h[1]) and hash(h) == hash((h[0], h[1]))
                    and h == (h[0], h[1]))
            try:
                c_ = copy.copy(h)
                if len(c_) == 2 and tuple(c_) == tuple(h):      # where copying yields the pair at all, it must keep the class
                    sane = sane and type(c_) is type(h) and c_.indexable == h.indexable
            except Exception:
                pass
            if cls == 'N':
                sane = sane and h.indexable is False
            elif cls == 'P':
                sane = sane and h.indexable is True
        except Exception:
            sane = False
        if not sane:
            cls += '?'
        out.append(hx(as_utf8(h[0])) + ':' + hx(as_utf8(h[1])) + ':' + cls)
    return ','.join(out)


def mkstr(f, h):
    b = unhex(h)
    return b.decode('utf-8') if f == 's' else b


def huffval(tok, ann):
    """the `huffman` argument: a bool, or (annotation huffkind=…) another object with the same truth value, as it arrives
    from a configuration file or a keyword default"""
    on = tok == '1'
    k = ann.get('huffkind')
    if k == 'str':
        return 'on' if on else ''
    if k == 'int':
        return 1 if on else 0
    if k == 'list':
        return [0] if on else []
    if k == 'none':
        return True if on else None
    return on


def parse_form(s):
    k, n, v = s.split(':')
    if k[0] == '2':
        return (mkstr(k[1], n), mkstr(k[2], v))
    if k[0] == '3':
        # third element: f/t = False/True, n = None, 0 / 1 = the ints (falsy / truthy non-bool marks)
        flag = {'f': False, 't': True, 'n': None, '0': 0, '1': 1, 'y': 'yes', '2': 2, 'e': ''}[k[1]]
        return (mkstr(k[2], n), mkstr(k[3], v), flag)
    if k[0] == 'H':
        return HeaderTuple(mkstr(k[1], n), mkstr(k[2], v))
    if k[0] == 'N':
        return NeverIndexedHeaderTuple(mkstr(k[1], n), mkstr(k[2], v))
    if k[0] == 'X':      # malformed header: a 1-tuple (header[1] raises IndexError inside encode)
        return (mkstr(k[1], n),)
    if k[0] == 'T':      # application subclass of HeaderTuple
        return AppHeader(mkstr(k[1], n), mkstr(k[2], v))
    if k[0] == 'S':      # application subclass of NeverIndexedHeaderTuple
        return AppSecretHeader(mkstr(k[1], n), mkstr(k[2], v))
    raise ValueError(s)


class AppHeader(HeaderTuple):
    __slots__ = ()


class AppSecretHeader(NeverIndexedHeaderTuple):
    __slots__ = ()


if os.environ.get('HPACK_VERIF_HDRKIND') == 'instance':
    # ONE application class whose instances decide `indexable` themselves (a policy object, a per-request flag)
    class _PolicyHeader(HeaderTuple):
        def __new__(cls, name, value, ix=True):
            o = super().__new__(cls, name, value)
            o._ix = ix
            return o
        @property
        def indexable(self):
            return self._ix
    def AppHeader(n, v):            # noqa
        return _PolicyHeader(n, v, True)
    def AppSecretHeader(n, v):      # noqa
        return _PolicyHeader(n, v, False)


class _DictSub(dict):
    """an application's own dict subclass"""


def with_options(cls, *args):
    """construct `cls` passing a non-default value for every optional constructor parameter this harness does not know
    (a new option of the library under test): sizes for size-like integers, a few header names for collections, the opposite
    for booleans. On a library without such parameters this is the plain constructor."""
    import inspect
    known = {'Encoder': [], 'Decoder': ['max_header_list_size'], 'HeaderTable': []}[cls.__name__]
    kw = {}
    try:
        params = inspect.signature(cls.__init__).parameters
    except (TypeError, ValueError):
        params = {}
    for name, prm in params.items():
        if name == 'self' or name in known or prm.kind in (prm.VAR_POSITIONAL, prm.VAR_KEYWORD):
            continue
        if prm.default is inspect.Parameter.empty:
            continue
        d = prm.default
        annot = str(prm.annotation)
        if isinstance(d, bool):
            kw[name] = not d
        elif isinstance(d, int) or ('int' in annot and 'size' in name):
            kw[name] = 8192
        elif isinstance(d, (set, frozenset, list, tuple)) or any(t in annot for t in ('Iterable', 'set', 'list', 'Sequence', 'Collection')) \
                or any(t in name for t in ('name', 'never', 'sensitive', 'index')):
            kw[name] = [b'x-a', b'cookie', b'n', b':path', b'k', b'custom-key']
        elif d is None and 'size' in name:
            kw[name] = 8192
    try:
        return cls(*args, **kw)
    except Exception:
        return cls(*args)


if os.environ.get('HPACK_VERIF_SUBCLASS') == '1':
    # the application holds SUBCLASSES of the three classes (nothing overridden: a counter attribute and a helper method,
    # as instrumentation or framework glue would add); everything must behave as with the base classes
    class _AppEncoder(Encoder):
        blocks_sent = 0
        def describe(self): return 'app encoder'
    class _AppDecoder(Decoder):
        blocks_received = 0
        def describe(self): return 'app decoder'
    class _AppTable(HeaderTable):
        lookups = 0
        def describe(self): return 'app table'
    Encoder, Decoder, HeaderTable = _AppEncoder, _AppDecoder, _AppTable


SHARED = bytearray()      # a receive buffer the "application" reuses: overwritten in place for every #buf=shared op


def shared_buf(data):
    SHARED[:] = data
    return SHARED


_other = None


def other_coder():
    """a HuffmanEncoder over a DIFFERENT (reversed) code table, as an application might build for its own use"""
    global _other
    if _other is None:
        from hpack.huffman import HuffmanEncoder
        hc = huff_coder()
        _other = HuffmanEncoder(list(reversed(hc.huffman_code_list[:256])) + [hc.huffman_code_list[256]],
                                list(reversed(hc.huffman_code_list_lengths[:256])) + [hc.huffman_code_list_lengths[256]])
    return _other


tables, encs, decs, lastout = {}, {}, {}, {}
_huff = None


def huff_coder():
    global _huff
    if _huff is None:
        _huff = Encoder().huffman_coder
    return _huff


def step(toks, ann):
    op = toks[0]
    if op == 'cfg':
        return 'ok'
    if op == 'ienc':
        try:
            if ann.get('kw') == '1':
                return 'ok ' + hx(H.encode_integer(integer=int(toks[1]), prefix_bits=int(toks[2])))
            if ann.get('kw') == 'mixed':
                return 'ok ' + hx(H.encode_integer(int(toks[1]), prefix_bits=int(toks[2])))
            return 'ok ' + hx(H.encode_integer(int(toks[1]), int(toks[2])))
        except Exception as e:
            return canon(e)
    if op == 'ienchex':       # the integer as big-endian hex octets (no decimal conversion anywhere in the harness)
        try:
            return 'ok ' + hx(H.encode_integer(int.from_bytes(unhex(toks[1]), 'big'), int(toks[2])))
        except Exception as e:
            return canon(e)
    if op == 'idec':
        try:
            data = unhex(toks[1])
            if ann.get('buf') == 'memoryview':
                data = memoryview(data)
            if ann.get('kw') == '1':
                v, k = H.decode_integer(data=data, prefix_bits=int(toks[2]))
            elif ann.get('kw') == 'mixed':
                v, k = H.decode_integer(data, prefix_bits=int(toks[2]))
            else:
                v, k = H.decode_integer(data, int(toks[2]))
            return 'ok %s %d' % (hex(v), k)
        except Exception as e:
            return canon(e)
    if op == 'henc':
        try:
            data = unhex(toks[1])
            if ann.get('buf') == 'shared':          # the application fills one bytearray again and again
                data = shared_buf(data)
            elif ann.get('buf') == 'bytearray':
                data = bytearray(data)
            elif ann.get('buf') == 'memoryview':
                data = memoryview(data)
            elif ann.get('buf') == 'mv-shared':
                data = memoryview(shared_buf(data))
            elif ann.get('buf') == 'mv-strided':
                data = memoryview(b''.join(bytes([x, 0xa5]) for x in data))[::2]
            return 'ok ' + hx(huff_coder().encode(data))
        except Exception as e:
            return canon(e)
    if op == 'hdec':
        try:
            data = unhex(toks[1])
            if ann.get('buf') == 'memoryview':
                data = memoryview(data)
            elif ann.get('buf') == 'bytearray':
                data = bytearray(data)
            elif ann.get('buf') == 'shared':
                data = shared_buf(data)
            elif ann.get('buf') == 'mv-bytearray':
                data = memoryview(bytearray(data))
            elif ann.get('buf') == 'array-B':
                import array
                data = array.array('B', data)
            elif ann.get('buf') == 'mv-slice':
                data = memoryview(b'\x00' + data + b'\xff')[1:-1]
            elif ann.get('buf') == 'mv-strided':          # every other octet of a larger buffer (format 'B', not contiguous)
                data = memoryview(b''.join(bytes([x, 0xa5]) for x in data))[::2]
            elif ann.get('buf') == 'mv-reversed':
                data = memoryview(bytes(reversed(data)))[::-1]
            return 'ok ' + hx(decode_huffman(data))
        except Exception as e:
            return canon(e)
    if op == 'hcopy':         # the application copies / pickles the coder it holds (a snapshot of connection state) and goes on with the copy
        global _huff
        import pickle
        try:
            src = huff_coder()
            _huff = {'copy': copy.copy, 'deep': copy.deepcopy, 'pickle': lambda o: pickle.loads(pickle.dumps(o))}[toks[1]](src)
        except Exception as e:
            return canon(e)
        return 'ok'
    if op == 'hother':
        try:
            other_coder().encode(unhex(toks[1]))
        except Exception:
            pass
        return 'ok'
    if op == 'hrt':
        try:
            return 'ok ' + hx(decode_huffman(huff_coder().encode(unhex(toks[1]))))
        except Exception as e:
            return canon(e)
    if op == 'utf8':
        try:
            unhex(toks[1]).decode('utf-8'); return '1'
        except UnicodeDecodeError:
            return '0'
    # ---------------- HeaderTable
    if op == 'tnew':
        tables[toks[1]] = HeaderTable()
        return 'ok | ' + show_table(tables[toks[1]])
    if op in ('tadd', 'tmax', 'tget', 'tsearch', 'tdump'):
        t = tables.get(toks[1])
        if t is None:
            return 'bad-id'
        try:
            if op == 'tadd':
                t.add(unhex(toks[2]), unhex(toks[3])); return 'ok | ' + show_table(t)
            if op == 'tmax':
                t.maxsize = int(toks[2]); return 'ok | ' + show_table(t)
            if op == 'tget':
                n, v = t.get_by_index(int(toks[2])); return 'ok ' + hx(n) + ':' + hx(v)
            if op == 'tsearch':
                r = t.search(unhex(toks[2]), unhex(toks[3]))
                if r is None:
                    return 'none'
                return '%d %s' % (r[0], 'P' if r[2] is not None else 'N')
            return 'ok | ' + show_table(t)
        except Exception as e:
            return canon(e) + (' | ' + show_table(t) if op in ('tadd', 'tmax') else '')
    # ---------------- Encoder
    if op == 'enewx':
        encs[toks[1]] = with_options(Encoder)
        return 'ok | ' + show_enc(encs[toks[1]])
    if op == 'tnewx':
        tables[toks[1]] = with_options(HeaderTable)
        return 'ok | ' + show_table(tables[toks[1]])
    if op == 'dnewx':
        decs[toks[1]] = with_options(Decoder, int(toks[2])) if len(toks) > 2 else with_options(Decoder)
        return 'ok | ' + show_dec(decs[toks[1]])
    if op == 'enew':
        encs[toks[1]] = Encoder()
        return 'ok | ' + show_enc(encs[toks[1]])
    if op in ('ecopy', 'dcopy', 'tcopy'):
        import pickle
        pool = {'ecopy': encs, 'dcopy': decs, 'tcopy': tables}[op]
        src = pool.get(toks[2])
        if src is None:
            return 'bad-id'
        try:
            obj = copy.deepcopy(src) if toks[3] == 'deep' else (copy.copy(src) if toks[3] == 'shallow' else pickle.loads(pickle.dumps(src)))
        except Exception as ex:
            return canon(ex)
        pool[toks[1]] = obj
        if op == 'ecopy':
            lastout[toks[1]] = lastout.get(toks[2], b'')
        return 'ok | ' + {'ecopy': show_enc, 'dcopy': show_dec, 'tcopy': show_table}[op](obj)
    if op in ('esize', 'eenc', 'eapi', 'edump', 'eev', 'eadd'):
        e = encs.get(toks[1])
        if e is None:
            return 'bad-id'
        try:
            if op == 'esize':
                e.header_table_size = int(toks[2]); return 'ok | ' + show_enc(e)
            if op == 'eenc':
                hs = [] if toks[3:] == ['-'] else [tuple(x.split(':')) for x in toks[3:]]
                hs = [(unhex(n), unhex(v), s == '1') for n, v, s in hs]
                out = e.encode(hs, huffman=huffval(toks[2], ann))
                lastout[toks[1]] = bytes(out)
                return 'ok ' + hx(out) + ' | ' + show_enc(e)
            if op == 'eadd':
                out = e.add((unhex(toks[4]), unhex(toks[5])), toks[3] == '1', toks[2] == '1')
                lastout[toks[1]] = bytes(out)
                return 'ok ' + hx(out) + ' | ' + show_enc(e)
            if op == 'eev':
                def events(enc=e, items=toks[3:]):
                    for t in items:
                        if t.startswith('!size='):
                            enc.header_table_size = int(t[6:])
                        else:
                            yield parse_form(t)
                out = e.encode(events(), huffman=huffval(toks[2], ann))
                lastout[toks[1]] = bytes(out)
                return 'ok ' + hx(out) + ' | ' + show_enc(e)
            if op == 'eapi':
                fs = [] if toks[4:] == ['-'] else toks[4:]
                if toks[3] == 'dict':
                    c = {}
                    for s in fs:
                        k, n, v = s.split(':')
                        c[mkstr(k[1], n)] = mkstr(k[2], v)
                    dk = ann.get('dictkind')
                    if dk == 'ordered':
                        import collections
                        c = collections.OrderedDict(c)
                    elif dk == 'default':
                        import collections
                        c = collections.defaultdict(bytes, c)
                    elif dk == 'sub':
                        c = _DictSub(c)
                else:
                    c = [parse_form(s) for s in fs]
                    if toks[3] == 'iter':
                        c = iter(c)
                    elif toks[3] == 'tuple':
                        c = tuple(c)
                    elif toks[3] == 'gen':
                        c = (x for x in c)
                out = e.encode(c, huffman=huffval(toks[2], ann))
                lastout[toks[1]] = bytes(out)
                return 'ok ' + hx(out) + ' | ' + show_enc(e)
            return 'ok | ' + show_enc(e)
        except Exception as ex:
            return canon(ex) + ' | ' + show_enc(e)
    # ---------------- Decoder
    if op == 'dnew':
        decs[toks[1]] = Decoder(int(toks[2])) if len(toks) > 2 else Decoder()
        return 'ok | ' + show_dec(decs[toks[1]])
    if op in ('dallow', 'dlimit', 'dsize', 'ddec', 'dtrace', 'dget', 'ddump', 'pipe'):
        d = decs.get(toks[1])
        if d is None:
            return 'bad-id'
        try:
            if op == 'dallow':
                d.max_allowed_table_size = int(toks[2]); return 'ok | ' + show_dec(d)
            if op == 'dlimit':
                d.max_header_list_size = int(toks[2]); return 'ok | ' + show_dec(d)
            if op == 'dsize':
                if ann.get('via') == 'table':      # the application reaches the table itself (what the public setter does)
                    d.header_table.maxsize = int(toks[2])
                else:
                    d.header_table_size = int(toks[2])
                return 'ok | ' + show_dec(d)
            if op == 'dget':
                n, v = d.header_table.get_by_index(int(toks[2])); return 'ok ' + hx(n) + ':' + hx(v)
            if op in ('ddec', 'pipe'):
                if op == 'pipe':      # pipe <dec> <raw> <enc>: decode the last output of encoder <enc>
                    data = lastout.get(toks[3], b'')
                else:
                    data = unhex(toks[3])
                buf = ann.get('buf', 'bytes')
                if buf == 'bytearray':
                    data = bytearray(data)
                elif buf == 'memoryview':
                    data = memoryview(data)
                elif buf == 'memoryview-bytearray':
                    data = memoryview(bytearray(data))
                elif buf == 'shared':
                    data = shared_buf(data)
                out = d.decode(data, raw=(toks[2] == '1'))
                shown = show_headers(out)
                # the returned list belongs to the caller: an application may extend or empty it in place
                if isinstance(out, list):
                    out.append(('x-verif-poison', 'appended by the caller')); out.reverse(); del out[1:]
                return 'ok ' + shown + ' | ' + show_dec(d)
            if op == 'dtrace':
                return 'trace-unsupported'
            return 'ok | ' + show_dec(d)
        except Exception as ex:
            return canon(ex) + (' | ' + show_dec(d) if op not in ('dget',) else '')
    return 'bad-op'


def main():
    out = sys.stdout
    if os.environ.get('HPACK_VERIF_WARNINGS') == 'error':
        # an application (or a test runner) that turns warnings into errors: whatever the library warns about now raises
        import warnings
        warnings.simplefilter('error')
    for line in sys.stdin:
        line = line.rstrip('\n')
        ann = {}
        if '#' in line:
            line, a = line.split('#', 1)
            for kv in a.split():
                if '=' in kv:
                    k, v = kv.split('=', 1); ann[k] = v
        toks = line.split()
        if not toks:
            continue
        lvl = ann.get('log')
        if lvl == 'debug':
            logging.getLogger('hpack').setLevel(logging.DEBUG)
            if not logging.getLogger('hpack').handlers:
                logging.getLogger('hpack').addHandler(logging.StreamHandler(open(os.devnull, 'w')))
        elif lvl == 'off':
            logging.getLogger('hpack').setLevel(logging.WARNING)
        signal.alarm(OP_TIMEOUT)
        try:
            r = step(toks, ann)
        except OpTimeout:
            r = 'esc Timeout'
        except BaseException as e:      # SystemExit, RecursionError-in-handler, ...
            r = 'esc ' + type(e).__name__
        finally:
            signal.alarm(0)
        out.write(r + '\n')
    out.flush()


if __name__ == '__main__':
    main()
