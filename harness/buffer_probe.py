#!/usr/bin/env python3
"""
C17 probe (subprocess, real classes):  buffer_probe.py <seed> <n_histories>  [replay-json]

Histories of blocks handed to one Decoder in every buffer kind (bytes, bytearray, memoryview of either,
read-only memoryview of a bytearray). After each decode (returned or raised):
  * the caller's mutable buffer is overwritten with 0x51 ('Q') and then cleared/resized,
  * sys.getrefcount(buffer object) must be what it was before the call (the Decoder holds no reference),
  * every later block is compared with the independent reference decoder (results must not depend on
    what happened to earlier buffers),
  * every string in the table must be a `bytes` object, and the retained bytes are bounded by the table size.
Prints one JSON object {evaluations, failures: [{history, step, sig, text}], kinds: {...}}.
"""
import sys, os, json, random, gc

repo = os.environ.get('HPACK_REPO', '/repo')
sys.path.insert(0, os.path.join(repo, 'src'))
sys.path.insert(0, os.path.dirname(os.path.abspath(__file__)))
from refmodel import RefDecoder, RefError, int_octets, huff_encode, esize
import hpack
from hpack.exceptions import HPACKDecodingError

KINDS = ['bytes', 'bytearray', 'mv-bytearray', 'mv-bytes', 'mv-readonly']
# further buffer kinds, used only on blocks without multi-octet integers (a signed-char view makes the unmodified
# library misread continuation octets - outside every stated property - so those blocks are kept away from it)
EXOTIC = ['mv-cast-b', 'array-B', 'mv-array-B', 'mv-slice', 'mv-2step']


def lit(rnd, pat, n, v, h=None):
    def s(x):
        hh = rnd.random() < 0.3 if h is None else h
        if hh:
            e = huff_encode(x)
            return int_octets(len(e), 7, 0x80) + e
        return int_octets(len(x), 7) + x
    return bytes([pat]) + s(n) + s(v)


def gen_history(rnd):
    """list of (kind, block bytes, pre-op) ; blocks are mostly valid, tables small so that evictions happen"""
    steps = []
    rd = RefDecoder(list_limit=1 << 30)
    size = rnd.choice([4096, 4096, 200, 300, 128, 1000])
    first = True
    for _ in range(rnd.randint(3, 10)):
        blk = b''
        if first and size != 4096:
            blk += int_octets(size, 5, 0x20)
        first = False
        if rnd.random() < 0.1:
            blk += int_octets(rnd.choice([64, 100, size]), 5, 0x20)
        for _ in range(rnd.randint(1, 6)):
            r = rnd.random()
            dyn = len(rd.table.entries)
            if r < 0.35 and dyn:
                blk += int_octets(62 + rnd.randrange(dyn + (1 if rnd.random() < 0.05 else 0)), 7, 0x80)
            elif r < 0.45:
                blk += int_octets(rnd.randint(1, 61), 7, 0x80)
            else:
                n = rnd.choice([b'k', b'name', b'x' * 20, b'cookie', b''])
                v = bytes(rnd.choice(b'abcdefgh') for _ in range(rnd.choice([0, 1, 5, 30, 90, 130])))
                pat = rnd.choice([0x40, 0x40, 0x40, 0x00, 0x10])
                if rnd.random() < 0.3 and dyn:
                    i = 62 + rnd.randrange(dyn)
                    N = 6 if pat == 0x40 else 4
                    vv = int_octets(len(v), 7) + v
                    blk += int_octets(i, N, pat) + vv
                else:
                    blk += lit(rnd, pat, n, v)
        if rnd.random() < 0.12:
            blk = blk[:rnd.randint(0, max(len(blk) - 1, 0))]          # truncated: raises
        if rnd.random() < 0.05:
            blk += b'Z' * rnd.choice([1000, 100000])                    # large trailing literal garbage (likely raises)
        kind = rnd.choice(KINDS)
        steps.append((kind, blk))
        try:
            rd.decode(blk)
        except RefError:
            pass
    return steps


def wrap(kind, blk):
    """-> (object passed to decode, owner object to watch, mutate function)"""
    if kind == 'bytes':
        b = bytes(blk) + b''          # fresh object
        b = bytes(bytearray(blk))
        return b, b, None
    ba = bytearray(blk)
    if kind == 'bytearray':
        return ba, ba, ba
    if kind == 'mv-bytearray':
        return memoryview(ba), ba, ba
    if kind == 'mv-readonly':
        return memoryview(ba).toreadonly(), ba, ba
    if kind == 'mv-cast-b':
        return memoryview(ba).cast('b'), ba, ba
    if kind in ('array-B', 'mv-array-B'):
        import array
        ar = array.array('B', blk)
        return (ar if kind == 'array-B' else memoryview(ar)), ar, None
    if kind == 'mv-slice':            # a window into a larger receive buffer
        big = bytearray(b'\xee' * 7 + blk + b'\xee' * 9)
        return memoryview(big)[7:7 + len(blk)], big, big
    if kind == 'mv-2step':            # a view of a view
        return memoryview(memoryview(ba)[0:len(blk)]), ba, ba
    b = bytes(bytearray(blk))
    return memoryview(b), b, None


def run_history(steps, hist_id):
    fails = []
    d = hpack.Decoder(1 << 30)
    rd = RefDecoder(list_limit=1 << 30)
    n = 0
    for si, (kind, blk) in enumerate(steps):
        n += 1
        obj, owner, mut = wrap(kind, blk)
        try:
            exp = [(a, b) for a, b, _ in rd.decode(blk)]
        except RefError as e:
            exp = e.cls
        gc.collect()
        rc0 = sys.getrefcount(owner)
        got = None
        try:
            got = [(bytes(a), bytes(b)) for a, b in d.decode(obj, raw=True)]
        except HPACKDecodingError as e:
            got = type(e).__name__
        except Exception as e:
            got = 'esc ' + type(e).__name__
        e = None
        gc.collect()
        rc1 = sys.getrefcount(owner)
        del obj
        if rc1 != rc0:
            fails.append({'history': hist_id, 'step': si, 'sig': 'buffer-referenced',
                          'text': 'after decode() of a %s block of %d octets the input buffer has %d more reference(s) (the Decoder retains it)' % (kind, len(blk), rc1 - rc0)})
        if mut is not None:
            try:
                for j in range(len(mut)):
                    mut[j] = 0x51
                mut.extend(b'x'); del mut[:]
            except BufferError:
                fails.append({'history': hist_id, 'step': si, 'sig': 'buffer-pinned',
                              'text': 'after decode() the caller cannot resize its bytearray (a view of it is still exported)'})
        if isinstance(exp, list) != isinstance(got, list) or (isinstance(exp, list) and exp != got):
            if isinstance(got, str) and isinstance(exp, str):
                pass
            else:
                fails.append({'history': hist_id, 'step': si, 'sig': 'result-depends-on-buffer',
                              'text': 'block %d (%s) returned %r, expected %r — earlier input buffers were overwritten by the caller' % (si, kind, str(got)[:120], str(exp)[:120])})
                break
        ents = list(getattr(d.header_table, 'dynamic_entries', []))
        bad = [1 for a, b in ents if type(a) is not bytes or type(b) is not bytes]
        if bad:
            fails.append({'history': hist_id, 'step': si, 'sig': 'view-stored',
                          'text': 'the table stores %d entr(ies) whose strings are not bytes objects after a %s block' % (len(bad), kind)})
        tot = sum(esize(a, b) for a, b in ents)
        if tot > d.header_table_size:
            fails.append({'history': hist_id, 'step': si, 'sig': 'retained-over-table', 'text': 'retains %d octets, table size %d' % (tot, d.header_table_size)})
        if fails:
            break
    return n, fails


def deep_size(root):
    """bytes reachable from the decoder object (instance data only: no classes, modules, functions, code)"""
    import types
    seen = set()
    todo = [root]
    total = 0
    skip = (type, types.ModuleType, types.FunctionType, types.BuiltinFunctionType, types.CodeType, types.MethodType)
    while todo:
        o = todo.pop()
        if id(o) in seen or isinstance(o, skip):
            continue
        seen.add(id(o))
        try:
            total += sys.getsizeof(o)
        except TypeError:
            pass
        todo.extend(gc.get_referents(o))
    return total


def retention_history(kind_seq):
    """many blocks with large, pairwise different literal names and values (indexed or not, Huffman or not): what the
    decoder holds afterwards must stay within the table bound, whatever passed through"""
    fails = []
    d = hpack.Decoder(1 << 30)
    base = deep_size(d)
    n = 0
    for j in range(120):
        name = (b'%06d' % j) * 3000          # 18 kB, different every time
        val = (b'v%05d' % j) * 2000
        pat = (0x00, 0x10, 0x40)[j % 3]
        blk = bytes([pat]) + int_octets(len(name), 7) + name + int_octets(len(val), 7) + val
        if j % 5 == 4:
            e = huff_encode(name[:3000])
            blk = bytes([0x00]) + int_octets(len(e), 7, 0x80) + e + int_octets(3, 7) + b'abc'
        kind = kind_seq[j % len(kind_seq)]
        obj, owner, mut = wrap(kind, blk)
        try:
            d.decode(obj, raw=(j % 2 == 0))
        except HPACKDecodingError:
            pass
        n += 1
        del obj, owner, mut
    def measure(what):
        gc.collect()
        held = deep_size(d) - base
        ents = list(getattr(d.header_table, 'dynamic_entries', []))
        bound = d.header_table_size + 200 * (len(ents) + 1) + 4096
        if held > bound:
            fails.append({'history': -1, 'step': n, 'sig': 'retained-over-table',
                          'text': '%s the decoder retains %d octets beyond a fresh one; table size %d with %d entries allows about %d' % (
                              what, held, d.header_table_size, len(ents), bound)})
    measure('after %d blocks of ~30 kB' % n)
    # ... and right after a decode that RAISED (bad index / truncation at the very end of a 60 kB block)
    for tail, what in ((b'\xc5', 'a bad index'), (b'\x00\x05ab', 'a truncated string'), (b'\x3f\xff\xff\xff\x7f', 'a table-size update after a field')):
        blk = b'\x40' + int_octets(3, 7) + b'big' + int_octets(60000, 7) + b'w' * 60000 + tail
        for kind in kind_seq:
            obj, owner, mut = wrap(kind, blk)
            try:
                d.decode(obj, raw=True)
            except HPACKDecodingError:
                pass
            except Exception:
                pass
            n += 1
            del obj, owner, mut
            measure('after a 60 kB %s block refused for %s' % (kind, what))
            if fails:
                return n, fails
    return n, fails


def retention_history_indexed():
    """entries that DO fit the table (about 2 kB each in a 4 kB table) are inserted, referenced through the indexed
    representation and through an indexed name -- in the same block and in later ones, text and raw mode alternating --
    and then evicted by the next ones; every value is different. Whatever the decoder remembers about a field it
    looked up must go when the entry goes."""
    fails = []
    d = hpack.Decoder(1 << 30)
    base = deep_size(d)
    n = 0
    def measure(what):
        gc.collect()
        held = deep_size(d) - base
        ents = list(getattr(d.header_table, 'dynamic_entries', []))
        bound = d.header_table_size + 200 * (len(ents) + 1) + 4096
        if held > bound:
            fails.append({'history': -2, 'step': n, 'sig': 'retained-over-table',
                          'text': '%s the decoder retains %d octets beyond a fresh one; table size %d with %d entries allows about %d' % (
                              what, held, d.header_table_size, len(ents), bound)})
    for j in range(400):
        name = b'x-name-%06d' % j
        val = (b'%07d,' % j) * 230            # ~1.8 kB, different every time
        if j % 7 == 3:
            e = huff_encode(val)
            blk = b'\x40' + int_octets(len(name), 7) + name + int_octets(len(e), 7, 0x80) + e
        else:
            blk = b'\x40' + int_octets(len(name), 7) + name + int_octets(len(val), 7) + val
        if j % 2:
            blk += b'\xbe'                                   # the new entry, by index, in the same block
        kind = ('bytes', 'bytearray', 'mv-bytes')[j % 3]
        obj, owner, mut = wrap(kind, blk)
        try:
            d.decode(obj, raw=(j % 4 == 0))
            d.decode(b'\xbe\xbe', raw=(j % 4 == 1))         # ... and in a later block (twice)
            d.decode(b'\x7e\x03abc\x0f\x2f\x01z', raw=(j % 3 == 0))    # its name through an indexed name (inserted / not indexed)
        except HPACKDecodingError:
            pass
        n += 3
        del obj, owner, mut
    measure('after %d blocks inserting, referencing and evicting 2 kB entries' % n)
    if not fails:
        # the table switched off and on again in every block (size update to 0, then to 4096), then a literal with a fresh
        # large name and value; and entries pushed out by ONE oversized field
        # each way of emptying the table in a phase of its own (one way must not clean up after another)
        for phase, what in ((0, 'the table is switched off and on again (size update 0, then 4096) at the start of every block'),
                            (2, 'the table is shrunk to 40 and raised again at the start of every block'),
                            (1, 'every block ends with one oversized field'),
                            (3, 'the application assigns header_table_size = 0 and 4096 between blocks')):
            for j in range(200):
                name = (b'n%d%05d-' % (phase, j)) * 200           # 1.6 kB, different every time
                lit = b'\x40' + int_octets(len(name), 7) + name + b'\x01v'
                if phase == 0:
                    blk = b'\x20\x3f\xe1\x1f' + lit
                elif phase == 1:
                    blk = lit + b'\x40\x01x' + int_octets(5000, 7) + b'y' * 5000
                elif phase == 2:
                    blk = b'\x3f\x09\x3f\xe1\x1f' + lit + b'\xbe'
                else:
                    d.header_table_size = 0
                    d.header_table_size = 4096
                    blk = lit
                try:
                    d.decode(blk, raw=bool(j % 2))
                except HPACKDecodingError:
                    pass
                n += 1
            measure('after 200 blocks that insert a fresh 1.6 kB name while ' + what + ',')
            if fails:
                break
    if not fails:
        try:
            d.max_allowed_table_size = 1 << 16
            d.decode(b'\x3f\xe1\xff\x03')                    # table raised to 64 KiB ...
            for j in range(60):
                val = (b'%07d;' % j) * 230
                d.decode(b'\x40\x03big' + int_octets(len(val), 7) + val + b'\xbe', raw=bool(j % 2))
            d.decode(b'\x3f\xe1\x1f')                        # ... and back to 4096: everything above it goes
            d.decode(b'\xbe', raw=False)
            n += 63
        except HPACKDecodingError:
            pass
        measure('after the table was raised to 64 KiB, filled, referenced and lowered to 4096')
    return n, fails


def retention_one_big_block():
    """ONE block that pushes hundreds of kilobytes through a 4 kB table: 300 plain literals with incremental indexing of
    ~1.5 kB each (every insertion evicts the entries before it), measured straight after `decode` returned -- and after
    the same kind of block was refused at its very end. What the block evicted must be gone when `decode` is over, not
    when the next block arrives."""
    fails = []
    n = 0
    for kind in ('bytes', 'bytearray', 'mv-bytes'):
        for tail, what in ((b'', 'returned'), (b'\xff\xff\xff\xff\x7f', 'was refused for a bad index at its end')):
            d = hpack.Decoder(1 << 30)
            base = deep_size(d)
            parts = []
            for j in range(300):
                name = b'k-%s-%04d' % (kind.encode(), j)
                val = (b'%05d:' % j) * 250
                parts.append(b'\x40' + int_octets(len(name), 7) + name + int_octets(len(val), 7) + val)
            obj, owner, mut = wrap(kind, b''.join(parts) + tail)
            try:
                d.decode(obj, raw=True)
            except HPACKDecodingError:
                pass
            n += 1
            del obj, owner, mut, parts
            gc.collect()
            held = deep_size(d) - base
            ents = list(getattr(d.header_table, 'dynamic_entries', []))
            bound = d.header_table_size + 200 * (len(ents) + 1) + 4096
            if held > bound:
                fails.append({'history': -3, 'step': n, 'sig': 'retained-over-table',
                              'text': 'straight after one %s block of 300 indexed 1.5 kB literals %s the decoder retains %d octets beyond a fresh one; table size %d with %d entries allows about %d' % (
                                  kind, what, held, d.header_table_size, len(ents), bound)})
                return n, fails
    return n, fails


def main():
    seed, nh = int(sys.argv[1]), int(sys.argv[2])
    out = {'evaluations': 0, 'failures': [], 'kinds': {}}
    if len(sys.argv) > 3:
        steps = [(k, bytes.fromhex(h)) for k, h in json.loads(sys.argv[3])]
        n, f = run_history(steps, 0)
        out['evaluations'] = n; out['failures'] = f
        print(json.dumps(out)); return
    # fixed catalogue first
    cat = [
        [('bytearray', b'\x40\x03abc\x03xyz'), ('bytes', b'\xbe')],
        [('mv-readonly', b'\x40\x03abc\x03xyz'), ('bytes', b'\xbe')],
        [('mv-bytearray', b'\x40\x03abc\x03xyz'), ('bytes', b'\xbe'), ('bytearray', b'\x7e\x02qq'), ('bytes', b'\xbe\xbf')],
        [('bytes', b'\x40\x03abc\x03xyz' + b'\x00\x01a' + int_octets(200000, 7) + b'v' * 200000), ('bytes', b'\xbe')],
        [('bytearray', b'\x00\x03abc\x03xyz\x10\x03abc\x03xyz'), ('bytes', b'\x82')],
        [('bytearray', b'\x40\x03abc'), ('bytes', b'\x82')],
        [('mv-cast-b', b'\x40\x03abc\x03xyz'), ('bytes', b'\xbe'), ('mv-cast-b', b'\x40\x01k\x05vvvvv\xbe'), ('bytes', b'\xbe\xbf')],
        [('array-B', b'\x40\x03abc\x03xyz'), ('bytes', b'\xbe'), ('mv-array-B', b'\x40\x01k\x05vvvvv\xbe'), ('bytes', b'\xbe\xbf')],
        [('mv-slice', b'\x40\x03abc\x03xyz'), ('bytes', b'\xbe'), ('mv-2step', b'\x40\x01k\x05vvvvv\xbe'), ('bytes', b'\xbe\xbf'), ('mv-slice', b'\x40\x03abc'), ('bytes', b'\xbe')],
        [('mv-cast-b', b'\x40\x03abc\x03xyz\x00\x05ab'), ('bytes', b'\xbe')],
        # many entries, then a block that inserts three and evicts
        [('bytearray', b''.join(b'\x40\x04' + bytes([97 + i % 26, 97 + i // 26, 99, 100]) + b'\x5c' + b'p' * 92 for i in range(30))),
         ('bytearray', b'\x40\x02n1\x5e' + b'q' * 94 + b'\x40\x02n2\x5e' + b'r' * 94 + b'\x40\x02n3\x5e' + b's' * 94), ('bytes', b'\xbe\xbf\xc0\xc1')],
    ]
    hid = 0
    for steps in cat:
        n, f = run_history(steps, hid)
        out['evaluations'] += n
        for x in f:
            x['steps'] = [(k, b.hex()) for k, b in steps]
        out['failures'] += f
        hid += 1
    n, f = retention_history(['bytes', 'bytearray', 'mv-bytes'])
    out['evaluations'] += n
    out['failures'] += f
    n, f = retention_history_indexed()
    out['evaluations'] += n
    out['failures'] += f
    n, f = retention_one_big_block()
    out['evaluations'] += n
    out['failures'] += f
    rnd = random.Random(seed)
    for _ in range(nh):
        steps = gen_history(rnd)
        for k, _b in steps:
            out['kinds'][k] = out['kinds'].get(k, 0) + 1
        n, f = run_history(steps, hid)
        out['evaluations'] += n
        for x in f:
            x['steps'] = [(k, b.hex()) for k, b in steps]
        out['failures'] += f
        hid += 1
        if len(out['failures']) > 5:
            break
    print(json.dumps(out))


if __name__ == '__main__':
    main()
