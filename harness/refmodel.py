"""
Independent, deliberately plain reading of RFC 7541 on the FROZEN Appendix A/B tables
(harness/rfc_tables.json).  Used (a) by the generators to build meaningful blocks (valid indices for
the table state a history has reached), (b) by the judges as the reference ("an independent RFC 7541
decoder"), (c) as a third opinion next to implementation and Lean model.  It shares no code with
hpack and none with the Lean model.  It is NOT a proof artefact: it only ever supports validation of
the model and the search for failing inputs.
"""
import json, os
from collections import deque

_T = json.load(open(os.path.join(os.path.dirname(os.path.abspath(__file__)), 'rfc_tables.json')))
STATIC = [(bytes.fromhex(n), bytes.fromhex(v)) for n, v in _T['static']]
CODES = _T['codes']
LENGTHS = _T['lengths']
_CODE2SYM = {format(c, '0%db' % l): s for s, (c, l) in enumerate(zip(CODES, LENGTHS))}

DEC, IDX, SIZE, OVER = 'HPACKDecodingError', 'InvalidTableIndexError', 'InvalidTableSizeError', 'OversizedHeaderListError'


class RefError(Exception):
    def __init__(self, cls, why=''):
        Exception.__init__(self, cls, why)
        self.cls = cls
        self.why = why


# ---------------------------------------------------------------- 5.1 integers
def int_octets(n, N, hi=0, zeros=0):
    """section 5.1 octets of n with an N-bit prefix; hi = bits above the prefix; zeros = redundant zero digits"""
    m = (1 << N) - 1
    if n < m:
        return bytes([hi | n])
    out = [hi | m]
    r = n - m
    digits = []
    while r >= 128:
        digits.append(r % 128); r //= 128
    digits.append(r)
    digits += [0] * zeros
    for d in digits[:-1]:
        out.append(d | 0x80)
    out.append(digits[-1])
    return bytes(out)


def int_decode(data, N, pos=0):
    """(value, next position, number of continuation octets); raises RefError(DEC) on truncation"""
    if pos >= len(data):
        raise RefError(DEC, 'truncated integer')
    m = (1 << N) - 1
    v = data[pos] & m
    pos += 1
    cont = 0
    if v == m:
        shift = 0
        while True:
            if pos >= len(data):
                raise RefError(DEC, 'truncated integer')
            b = data[pos]; pos += 1; cont += 1
            v += (b & 0x7f) << shift
            shift += 7
            if not b & 0x80:
                break
    return v, pos, cont


# ---------------------------------------------------------------- Appendix B
def huff_bits(s):
    return ''.join(format(CODES[b], '0%db' % LENGTHS[b]) for b in s)


def huff_encode(s):
    bits = huff_bits(s)
    pad = (8 - len(bits) % 8) % 8
    bits += '1' * pad
    return bytes(int(bits[i:i + 8], 2) for i in range(0, len(bits), 8))


def huff_decode(w):
    """exact inverse with strict padding; raises RefError(DEC)"""
    bits = ''.join(format(b, '08b') for b in w)
    out = bytearray()
    cur = ''
    for ch in bits:
        cur += ch
        s = _CODE2SYM.get(cur)
        if s is not None:
            if s == 256:
                raise RefError(DEC, 'EOS in Huffman data')
            out.append(s); cur = ''
        elif len(cur) > 30:
            raise RefError(DEC, 'no such code')
    if len(cur) > 7 or '0' in cur:
        raise RefError(DEC, 'bad Huffman padding')
    return bytes(out)


# ---------------------------------------------------------------- 2.3 / 4 tables
def esize(n, v):
    return 32 + len(n) + len(v)


class RefTable:
    def __init__(self, maxsize=4096):
        self.entries = deque()      # newest first
        self.maxsize = maxsize

    def size(self):
        return sum(esize(n, v) for n, v in self.entries)

    def evict(self):
        while self.size() > self.maxsize:
            self.entries.pop()

    def add(self, n, v):
        self.entries.appendleft((n, v))
        self.evict()          # an entry larger than the table empties it, itself included

    def set_max(self, m):
        self.maxsize = m
        self.evict()

    def get(self, i):
        if 1 <= i <= len(STATIC):
            return STATIC[i - 1]
        k = i - len(STATIC) - 1
        if 0 <= k < len(self.entries):
            return self.entries[k]
        raise RefError(IDX, 'index of %d bits' % i.bit_length())

    def copy(self):
        t = RefTable(self.maxsize); t.entries = deque(self.entries); return t

    def addressable(self):
        return list(STATIC) + list(self.entries)


class RefDecoder:
    """RFC 7541 decoder semantics with the two application limits hpack documents."""
    def __init__(self, list_limit=65536, table=None):
        self.table = table or RefTable()
        self.allowed = self.table.maxsize
        self.list_limit = list_limit

    def _string(self, data, pos, st):
        h = data[pos] & 0x80 if pos < len(data) else 0
        ln, pos, cont = int_decode(data, 7, pos)
        st['maxcont'] = max(st['maxcont'], cont)
        if pos + ln > len(data):
            raise RefError(DEC, 'truncated string')
        raw = bytes(data[pos:pos + ln])
        return (huff_decode(raw) if h else raw), pos + ln, bool(h)

    def decode(self, data, trace=None):
        """returns list of (name, value, never). State changes made before an error persist (as in any
        sequential decoder).  trace (a list) receives one dict per representation.  self.last_maxcont = the
        largest number of continuation octets of any integer examined (for the C05/C11 latitude)."""
        data = bytes(data)
        st = {'maxcont': 0}
        out = []
        size = 0
        pos = 0
        try:
            while pos < len(data):
                b = data[pos]
                start = pos
                if b & 0x80:
                    i, pos, cont = int_decode(data, 7, pos); st['maxcont'] = max(st['maxcont'], cont)
                    n, v = self.table.get(i)
                    f = (n, v, False); kind = 'I'; info = {'index': i}
                elif b & 0x40 or not b & 0x20:
                    if b & 0x40:
                        N, kind, never = 6, 'L', False
                    else:
                        N, never = 4, bool(b & 0x10)
                        kind = 'N' if never else 'W'
                    i, pos, cont = int_decode(data, N, pos); st['maxcont'] = max(st['maxcont'], cont)
                    info = {'index': i}
                    if i:
                        n = self.table.get(i)[0]
                    else:
                        n, pos, hn = self._string(data, pos, st); info['hname'] = hn
                    v, pos, hv = self._string(data, pos, st); info['hvalue'] = hv
                    if kind == 'L':
                        self.table.add(n, v)
                    f = (n, v, never)
                else:
                    if out:
                        raise RefError(DEC, 'size update after a field')
                    m, pos, cont = int_decode(data, 5, pos); st['maxcont'] = max(st['maxcont'], cont)
                    if m > self.allowed:
                        raise RefError(SIZE, 'update above permitted maximum')
                    self.table.set_max(m)
                    f = None; kind = 'U'; info = {'size': m}
                if trace is not None:
                    info.update(kind=kind, consumed=pos - start, field=f)
                    trace.append(info)
                if f is not None:
                    out.append(f)
                    size += esize(f[0], f[1])
                    if size > self.list_limit:
                        raise RefError(OVER, 'list too large')
            if self.table.maxsize > self.allowed:
                raise RefError(SIZE, 'table larger than permitted at end of block')
        finally:
            self.last_maxcont = st['maxcont']
        return out


def valid_utf8(b):
    try:
        bytes(b).decode('utf-8'); return True
    except UnicodeDecodeError:
        return False


def fit(maxsize, entries):
    """longest newest-first prefix whose size fits"""
    out = []; tot = 0
    for n, v in entries:
        tot += esize(n, v)
        if tot > maxsize:
            break
        out.append((n, v))
    return out
