#!/usr/bin/env python3
"""
Schedule probe (subprocess, real code):  thread_probe.py <seed> <kind> [rounds]

Several threads, each with its OWN instances (its own HuffmanEncoder / Encoder / Decoder, as one connection per thread
has) and its own inputs, run the same calls first one after the other and then all at once under a very short switch
interval. What a call returns must not depend on what other threads are doing with other instances:
   huffdec   decode_huffman on valid and invalid strings (short, and long enough to be pre-empted mid-call)
   huffenc   HuffmanEncoder.encode, one coder per thread
   codec     Encoder.encode -> Decoder.decode round trips, one pair per thread, with size changes and table churn
Prints JSON {"evaluations": n, "failures": [{thread, index, call, expected, got}]}. A sequential pass with the same
instances-per-thread layout is the reference; the judges elsewhere establish that the sequential results are right.
"""
import sys, os, json, random, threading

repo = os.environ.get('HPACK_REPO', '/repo')
sys.path.insert(0, os.path.join(repo, 'src'))
import hpack
from hpack import Encoder, Decoder
from hpack.huffman_table import decode_huffman

NT = 4


def canon(f):
    try:
        r = f()
        return ('ok', r)
    except Exception as e:          # noqa
        return ('err', type(e).__name__)


def coder():
    """a coder of this thread's own: the one a fresh Encoder holds (however the library constructs it)"""
    return Encoder().huffman_coder


def plain_inputs(rnd, t):
    out = []
    for j in range(60):
        n = rnd.choice([0, 1, 5, 13, 40, 200, 200, 1500, 1500, 6000])
        mode = rnd.random()
        if mode < 0.5:
            s = bytes(rnd.choice(b'abcdefghijklmnopqrstuvwxyz0123456789-=/;, ') for _ in range(n))
        elif mode < 0.8:
            s = bytes(rnd.randrange(256) for _ in range(n))
        else:
            s = bytes([65 + t]) * n          # a thread-specific filler: cross-talk shows as foreign octets
        out.append(s)
    return out


def workload(kind, seed, t):
    rnd = random.Random(seed * 1000 + t)
    if kind == 'huffenc':
        return plain_inputs(rnd, t)
    if kind == 'huffdec':
        c = coder()
        ins = []
        for s in plain_inputs(rnd, t):
            e = c.encode(s)
            r = rnd.random()
            if r < 0.15 and e:
                e = e[:-1] + bytes([e[-1] & 0xfe])                 # a zero bit in the padding / a different last symbol
            elif r < 0.25:
                e = e + b'\xff'                                    # eight more padding bits
            ins.append(bytes(e))
        return ins
    # codec: header lists with repeats (table hits), fresh names (insertions, evictions), sensitive fields, size changes
    names = [b'x-t%d-%02d' % (t, i) for i in range(30)] + [b':path', b'cookie', b'accept', b'etag']
    blocks = []
    for j in range(80):
        hs = []
        for _ in range(rnd.choice([1, 3, 6, 12])):
            n = rnd.choice(names)
            v = rnd.choice([b'', b'v', b'/index.html', bytes([97 + t]) * rnd.choice([3, 30, 300, 3000]), b'%d' % rnd.randrange(50)])
            hs.append((n, v, rnd.random() < 0.15))
        size = rnd.choice([None, None, None, 0, 64, 256, 4096])
        blocks.append((hs, rnd.random() < 0.5, size))
    return blocks


def run_thread(kind, work, out, barrier=None):
    if barrier is not None:
        barrier.wait()
    if kind == 'huffenc':
        c = coder()
        for s in work:
            out.append(canon(lambda: bytes(c.encode(s))))
    elif kind == 'huffdec':
        for e in work:
            out.append(canon(lambda: bytes(decode_huffman(e))))
    else:
        enc, dec = Encoder(), Decoder(max_header_list_size=1 << 20)
        for hs, huff, size in work:
            def step():
                if size is not None:
                    enc.header_table_size = size
                data = enc.encode(hs, huffman=huff)
                got = dec.decode(data, raw=True)
                return (bytes(data), [(bytes(a), bytes(b), type(h).__name__) for h in got for a, b in [tuple(h)]],
                        [tuple(map(bytes, x)) for x in dec.header_table.dynamic_entries])
            out.append(canon(step))


def main():
    seed, kind = int(sys.argv[1]), sys.argv[2]
    rounds = int(sys.argv[3]) if len(sys.argv) > 3 else 3
    works = [workload(kind, seed, t) for t in range(NT)]
    ref = []
    for t in range(NT):
        o = []
        run_thread(kind, works[t], o)
        ref.append(o)
    res = {'evaluations': sum(len(w) for w in works), 'failures': []}
    old = sys.getswitchinterval()
    sys.setswitchinterval(1e-6)
    try:
        for rd in range(rounds):
            outs = [[] for _ in range(NT)]
            bar = threading.Barrier(NT)
            ths = [threading.Thread(target=run_thread, args=(kind, works[t], outs[t], bar)) for t in range(NT)]
            for th in ths:
                th.start()
            for th in ths:
                th.join()
            res['evaluations'] += sum(len(w) for w in works)
            for t in range(NT):
                for i, (a, b) in enumerate(zip(ref[t], outs[t])):
                    if a != b:
                        res['failures'].append({'thread': t, 'index': i, 'round': rd, 'kind': kind,
                                                'call': repr(works[t][i])[:160], 'expected': repr(a)[:200], 'got': repr(b)[:200]})
                        break
                if len(outs[t]) != len(ref[t]) and not res['failures']:
                    res['failures'].append({'thread': t, 'index': len(outs[t]), 'round': rd, 'kind': kind, 'call': 'thread died', 'expected': '', 'got': ''})
            if res['failures']:
                break
    finally:
        sys.setswitchinterval(old)
    print(json.dumps(res))


if __name__ == '__main__':
    main()
