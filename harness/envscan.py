#!/usr/bin/env python3
"""
Which environment variables does the LIBRARY read (at import, at construction, while working)?  envscan.py -> JSON list.
`os.environ` look-ups are recorded while `hpack` is imported and a small workload runs; only look-ups issued from a frame of
the library's own files count. A library that reads none (the unchanged one) yields []: nothing further is run. For a
key that is read, the checks repeat a stream of the property with that variable set to a few plausible values
(`check.py: env_variants`), judged against the property as always: a configuration variable may tune the library, it may
not make it break what the property states.
"""
import sys, os, json

repo = os.environ.get('HPACK_REPO', '/repo')
libdir = os.path.realpath(os.path.join(repo, 'src', 'hpack'))
seen = []
_orig = os._Environ.__getitem__


def _rec(self, key):
    f = sys._getframe(1)
    depth = 0
    while f is not None and depth < 12:
        fn = os.path.realpath(f.f_code.co_filename)
        if fn.startswith(libdir):
            if key not in seen:
                seen.append(key)
            break
        f = f.f_back; depth += 1
    return _orig(self, key)


os._Environ.__getitem__ = _rec
sys.path.insert(0, os.path.join(repo, 'src'))
try:
    import hpack
    from hpack import Encoder, Decoder
    from hpack.table import HeaderTable
    import hpack.huffman, hpack.huffman_table, hpack.struct, hpack.exceptions      # noqa
    e, d = Encoder(), Decoder()
    HeaderTable()
    for huff in (True, False):
        b = e.encode([(b'a', b'b'), (':path', '/'), (b'cookie', b'c', True)], huffman=huff)
        d.decode(b); d.decode(b, raw=True)
    e.header_table_size = 100
    d.decode(e.encode({'k': 'v'}))
    try:
        d.decode(b'\xff\xff\xff\x7f')
    except Exception:
        pass
    Decoder(max_header_list_size=65536); Decoder(max_header_list_size=100)
except Exception as ex:          # noqa
    pass
os._Environ.__getitem__ = _orig
print(json.dumps([k for k in seen if isinstance(k, str)]))
