#!/usr/bin/env python3
"""
C07 probe (subprocess): peak memory and loop work of Decoder.decode on "HPACK bomb" blocks — one large table entry
referenced thousands of times — for several limits. The block must be refused at the field that crosses the limit:
peak allocation and the number of fields materialised stay within (limit + input length), however far the
references would expand.   mem_probe.py   -> JSON {cases: [...], failures: [...]}
"""
import sys, os, json, tracemalloc
repo = os.environ.get('HPACK_REPO', '/repo')
sys.path.insert(0, os.path.join(repo, 'src'))
sys.path.insert(0, os.path.dirname(os.path.abspath(__file__)))
from refmodel import int_octets
import hpack
from hpack.exceptions import OversizedHeaderListError, HPACKDecodingError


def run(limit, entry_len, refs, kind):
    d = hpack.Decoder(limit if limit >= 0 else 65536)
    name = b'n' * 30
    val = b'v' * (entry_len - 62)
    setup = bytes([0x40]) + int_octets(len(name), 7) + name + int_octets(len(val), 7) + val
    d0 = hpack.Decoder(1 << 30)
    d.max_header_list_size = 1 << 30
    d.decode(setup)
    d.max_header_list_size = limit
    if kind == 'indexed':
        blk = b'\xbe' * refs
    elif kind == 'name-ref-literal':
        blk = (b'\x7e' + int_octets(len(val), 7) + val) * (refs // 50 + 1)      # literal with indexed name, inserted
    else:
        blk = (b'\x0f\x2f' + b'\x00') * refs                                    # literal w/o indexing, name index 62, empty value
    tracemalloc.start()
    tracemalloc.reset_peak()
    base = tracemalloc.get_traced_memory()[0]
    res = None
    try:
        out = d.decode(blk, raw=True)
        res = 'ok %d' % len(out)
        del out
    except OversizedHeaderListError:
        res = 'oversized'
    except HPACKDecodingError as e:
        res = 'err ' + type(e).__name__
    except Exception as e:
        res = 'esc ' + type(e).__name__
    peak = tracemalloc.get_traced_memory()[1] - base
    tracemalloc.stop()
    return {'limit': limit, 'entry': entry_len, 'refs': refs, 'kind': kind, 'len': len(blk), 'result': res, 'peak': peak}


def main():
    cases, fails = [], []
    for kind in ('indexed', 'name-ref-literal', 'noindex-literal'):
        for limit in (0, 4096, 65536):
            for refs in (2000, 20000):
                c = run(limit, 4000, refs, kind)
                cases.append(c)
                bound = 6 * (limit + c['len']) + 300000
                if c['peak'] > bound:
                    fails.append(dict(c, sig='memory-beyond-limit',
                                      text='%s bomb: %d references to a 4000-octet entry with limit %d: peak allocation %d octets (input %d octets, bound %d), result %s' % (
                                          kind, refs, limit, c['peak'], c['len'], bound, c['result'])))
    print(json.dumps({'cases': cases, 'failures': fails}))


if __name__ == '__main__':
    main()
