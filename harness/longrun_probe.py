#!/usr/bin/env python3
"""
Long-run probe (subprocess, real classes):  longrun_probe.py

Quantities that only grow over the life of a connection -- octets ever inserted, octets ever evicted, number of insertions --
are pushed past 2^31 and 2^32 in a fraction of a second by inserting one shared 16 MiB value into a table that holds three of
them (the table stores references: no octets are copied). After every insertion the table must hold exactly the longest
newest-first prefix that fits, its own size accounting must equal the sum of its entries, and index 62+k must be the k-th
newest; then the maximum is lowered and raised. Also: 70 000 insertions of small entries into a small table (insertion
counters past 2^16). Prints JSON {"evaluations": n, "failures": [...]}.
"""
import sys, os, json

repo = os.environ.get('HPACK_REPO', '/repo')
sys.path.insert(0, os.path.join(repo, 'src'))
from hpack.table import HeaderTable


def esize(n, v):
    return 32 + len(n) + len(v)


def check(t, expect, what, fails):
    ents = [(bytes(a), b) for a, b in t.dynamic_entries]
    if [a for a, _ in ents] != [a for a, _ in expect]:
        fails.append({'sig': 'wrong-entries', 'text': '%s: the table holds names %r, RFC 7541 4.4 leaves %r' % (what, [a for a, _ in ents][:5], [a for a, _ in expect][:5])})
        return False
    tot = sum(esize(a, b) for a, b in ents)
    if tot > t.maxsize:
        fails.append({'sig': 'over-maximum', 'text': '%s: entries add up to %d octets, maximum %d' % (what, tot, t.maxsize)}); return False
    cur = getattr(t, '_current_size', None)
    if cur is not None and cur != tot:
        fails.append({'sig': 'size-accounting', 'text': '%s: the table accounts %r octets, its entries add up to %d' % (what, cur, tot)}); return False
    for k, (a, b) in enumerate(ents[:3]):
        got = t.get_by_index(62 + k)
        if bytes(got[0]) != a:
            fails.append({'sig': 'wrong-index', 'text': '%s: index %d is %r, the %d-th newest entry is %r' % (what, 62 + k, bytes(got[0]), k, a)}); return False
    return True


def encoder_run():
    """one Encoder through 70 000 blocks that each insert a new small field (sequence numbers, ages and insertion counters
    past 2^15 and 2^16): at checkpoints -- every insertion around the powers of two, sparsely elsewhere -- the newest, the
    20th-newest and the 45th-newest field are sent again and must each go out as ONE indexed field (62, 81, 106), and a
    field evicted thousands of insertions ago must go out as a literal"""
    from hpack import Encoder
    from collections import deque
    fails, n = [], 0
    e = Encoder()
    recent = deque(maxlen=60)          # newest first: what the table holds at its front
    inserted = 0
    j = 0
    while inserted < 70000:
        f = (b'x-seq', b'%d' % j); j += 1
        e.encode([f], huffman=False)
        recent.appendleft(f); inserted += 1; n += 1
        dense = any(abs(inserted - p) <= 150 for p in (1 << 15, 1 << 16)) or inserted in (255, 256, 257, 1023, 1024, 1025, 4096, 69999)
        if len(recent) >= 45 and (dense or inserted % 4999 == 0):
            again = [recent[0], recent[19], recent[44]]
            out = bytes(e.encode(again, huffman=False))
            n += 1
            if out != bytes([0x80 | 62, 0x80 | 81, 0x80 | 106]):
                fails.append({'sig': 'not-indexed', 'text': 'after %d insertions on one Encoder the newest, 20th-newest and 45th-newest fields %r, sent again, were encoded as %s (each is in the table: expected the three indexed fields be d1 ea)' % (inserted, again, out.hex())})
                break
            if inserted > 6000 and inserted % 7 == 0:
                gone = (b'x-seq', b'%d' % (j - 5000))          # evicted thousands of insertions ago, never sent since
                old = bytes(e.encode([gone], huffman=False))
                n += 1
                if len(old) == 1:
                    fails.append({'sig': 'stale-index', 'text': 'after %d insertions the field %r, evicted long ago, was sent as the index %s' % (inserted, gone, old.hex())}); break
                recent.appendleft(gone); inserted += 1
    print(json.dumps({'evaluations': n, 'failures': fails[:2]}))


def main():
    if len(sys.argv) > 1 and sys.argv[1] == 'encoder':
        return encoder_run()
    fails, n = [], 0
    V = bytes(1 << 24)
    t = HeaderTable()
    t.maxsize = 3 * ((1 << 24) + 40) + 5
    model = []
    for j in range(300):                     # 300 x 16 MiB = 4.7 GiB inserted, 4.6 GiB evicted
        name = b'n%05d' % j
        t.add(name, V)
        model = [(name, V)] + model
        while sum(esize(a, b) for a, b in model) > t.maxsize:
            model.pop()
        n += 1
        if not check(t, model, 'after %d insertions of a 16 MiB value (%.1f GiB inserted in all)' % (j + 1, (j + 1) / 64.0), fails):
            break
    if not fails:
        t.maxsize = (1 << 24) + 100
        model = model[:1]
        n += 1
        check(t, model, 'after lowering the maximum to one entry (4.7 GiB inserted before)', fails)
    if not fails:
        t.maxsize = 4096
        n += 1
        check(t, [], 'after lowering the maximum to 4096', fails)
        t.add(b'a', b'b'); model = [(b'a', b'b')]
        check(t, model, 'one small insertion afterwards', fails)
    if not fails:
        t2 = HeaderTable()
        t2.maxsize = 200
        model = []
        for j in range(70000):
            name = b'k%d' % j
            t2.add(name, b'v')
            model = [(name, b'v')] + model
            while sum(esize(a, b) for a, b in model) > 200:
                model.pop()
            n += 1
            if j % 997 == 0 or j > 69990 or 65530 <= j <= 65540:
                if not check(t2, model, 'after %d small insertions' % (j + 1), fails):
                    break
    print(json.dumps({'evaluations': n, 'failures': fails[:2]}))


if __name__ == '__main__':
    main()
