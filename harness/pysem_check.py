#!/usr/bin/env python3
"""
Validation of the trusted base of the source ties: the semantics `lean/HpackVerif/Src/Py.lean` gives to the Python
primitives the translator emits, compared with CPython on generated arguments (the same lines go to
`lake env lean --run PySem.lean` and to the evaluator below). Inputs stay inside the domain each definition documents
(e.g. non-negative slice bounds; a negative exponent or a negative `hex()` argument is "outside the translated subset").
A test, not a proof: it supports the claim that a tie theorem talks about what CPython does. Usage:
  pysem_check.py <seed> <n-per-op>      -> JSON {cases, disagreements: [...], per_op: {...}}
"""
import sys, os, json, random, subprocess

ROOT = os.path.dirname(os.path.dirname(os.path.abspath(__file__)))
LEAN = os.path.join(ROOT, 'lean')


def hx(b):
    return bytes(b).hex() if len(b) else '-'


def unhex(s):
    return b'' if s == '-' else bytes.fromhex(s)


def ints(s):
    return [] if s == '-' else [int(x) for x in s.split(',')]


def show_ints(l):
    return ','.join(str(x) for x in l) if l else '-'


class Other:
    """an object that is neither bytes nor str: known by its str() and its truth value (as Py.Obj.other)"""
    def __init__(self, r, t): self.r, self.t = r, t
    def __str__(self): return self.r
    def __bool__(self): return self.t
    def __eq__(self, o): return isinstance(o, Other) and (self.r, self.t) == (o.r, o.t)
    def __hash__(self): return hash((self.r, self.t))


def parse_obj(t):
    p = t.split(':')
    if p[0] == 'b':
        return unhex(p[1])
    if p[0] == 's':
        return unhex(p[1]).decode('utf-8')
    return Other(unhex(p[1]).decode('utf-8'), p[2] == '1')


def show_obj(o):
    if type(o) is bytes:
        return 'b:' + hx(o)
    if type(o) is str:
        return 's:' + hx(o.encode('utf-8'))
    return 'o:' + hx(str(o).encode('utf-8')) + ':' + ('1' if o else '0')


def objs(s):
    return [] if s == '-' else [parse_obj(x) for x in s.split(';')]


def guard(f, show=str):
    try:
        return 'ok ' + show(f())
    except Exception as e:
        return 'err ' + type(e).__name__


def lean_bool(b):
    return 'true' if b else 'false'


def py_eval(line):
    t = line.split(' ')
    op = t[0]
    if op == 'band': return str(int(t[1]) & int(t[2]))
    if op == 'bor': return str(int(t[1]) | int(t[2]))
    if op == 'shl': return guard(lambda: int(t[1]) << int(t[2]))
    if op == 'shr': return guard(lambda: int(t[1]) >> int(t[2]))
    if op == 'ipow': return guard(lambda: int(t[1]) ** int(t[2]))
    if op == 'imod': return guard(lambda: int(t[1]) % int(t[2]))
    if op == 'ifloordiv': return guard(lambda: int(t[1]) // int(t[2]))
    if op == 'hex': return guard(lambda: [int(c, 16) for c in hex(int(t[1]))[2:].rstrip('L')], show_ints)
    if op == 'fromhex': return guard(lambda: bytes.fromhex(''.join('%x' % d for d in ints(t[1]))), hx)
    if op == 'getbyte': return guard(lambda: unhex(t[1])[int(t[2])])
    if op == 'listget': return guard(lambda: ints(t[1])[int(t[2])])
    if op == 'popright':
        from collections import deque
        def f():
            d = deque(ints(t[1])); x = d.pop(); return '%d %s' % (x, show_ints(list(d)))
        return guard(f)
    if op == 'bytesofints': return guard(lambda: bytearray(ints(t[1])), hx)
    if op == 'append':
        def f():
            b = bytearray(unhex(t[1])); b.append(int(t[2])); return b
        return guard(f, hx)
    if op == 'slicefrom': return guard(lambda: unhex(t[1])[int(t[2]):], hx)
    if op == 'slice': return guard(lambda: unhex(t[1])[int(t[2]):int(t[3])], hx)
    if op == 'setfirstor':
        def f():
            b = bytearray(unhex(t[1])); b[0] |= int(t[2]); return b
        return guard(f, hx)
    if op == 'ord': return guard(lambda: ord(unhex(t[1])))
    if op == 'fmtint':
        n = 10 ** int(t[2])
        a = -n if t[1] == '-' else n
        b = a + 1 if t[1] == '-' else a - 1
        return guard(lambda: '%d' % a and '', str) + '|' + guard(lambda: '%d' % b and '', str)
    if op == 'utf8':
        def f():
            unhex(t[1]).decode('utf-8'); return unhex(t[1])
        return guard(f, hx)
    if op == 'startswith': return lean_bool(unhex(t[1]).startswith(unhex(t[2])))
    if op == 'typeof':
        o = parse_obj(t[1]); return 'bytes' if type(o) is bytes else ('str' if type(o) is str else 'other')
    if op == 'strof': return guard(lambda: str(parse_obj(t[1])), show_obj)
    if op == 'encode': return guard(lambda: parse_obj(t[1]).encode('utf-8'), hx)
    if op == 'truthy': return lean_bool(bool(parse_obj(t[1])))
    if op == 'hdrlen': return str(len(tuple(objs(t[1]))))
    if op == 'hdrget': return guard(lambda: tuple(objs(t[1]))[int(t[2])], show_obj)
    if op == 'sortedbool':
        l, ks = ints(t[1]), ints(t[2])
        key = dict(zip(range(len(l)), ks))
        return show_ints([l[i] for i in sorted(range(len(l)), key=lambda i: bool(key[i]))])
    if op == 'join': return hx(b''.join([] if t[1] == '-' else [unhex(x) for x in t[1].split(',')]))
    if op == 'dictget':
        ks, vs = objs(t[1]), objs(t[2])
        d = {}
        for k, v in zip(ks, vs):
            d.setdefault(k, v)              # the association list keeps the first value of a key
        return guard(lambda: d[parse_obj(t[3])], show_obj)
    return 'bad-op'


def gen(seed, n):
    rnd = random.Random(seed)
    big = lambda: rnd.choice([0, 1, -1, 2, 255, 256, -256, 2 ** 31, -(2 ** 31), 2 ** 64 - 1, -(2 ** 64), 2 ** 70 + 12345, rnd.getrandbits(rnd.choice([3, 8, 17, 64, 130])) * rnd.choice([1, -1])])
    small = lambda: rnd.choice([0, 1, 2, 3, 7, 8, 9, 63, 64, 65, rnd.randrange(0, 200)])
    byts = lambda: bytes(rnd.randrange(256) for _ in range(rnd.choice([0, 0, 1, 2, 3, 8, 17])))
    il = lambda lo=-3, hi=300: [rnd.randrange(lo, hi) for _ in range(rnd.choice([0, 1, 2, 5]))]
    texts = ['', 'a', ':path', 'café', '中文', 'x y', '\U0001f600', 'True', 'None', '0']
    def obj():
        r = rnd.random()
        if r < 0.4: return 'b:' + hx(byts())
        if r < 0.8: return 's:' + hx(rnd.choice(texts).encode('utf-8'))
        return 'o:' + hx(rnd.choice(texts).encode('utf-8')) + ':' + rnd.choice('01')
    lines = []
    for _ in range(n):
        lines += ['band %d %d' % (big(), big()), 'bor %d %d' % (big(), big()),
                  'shl %d %d' % (big(), rnd.choice([small(), -1, -small() - 1])), 'shr %d %d' % (big(), rnd.choice([small(), small(), -1])),
                  'ipow %d %d' % (rnd.choice([0, 1, 2, -2, 3, 10, -1]), small() % 70),
                  'imod %d %d' % (big(), rnd.choice([big(), 0, 8, 2, -8])), 'ifloordiv %d %d' % (big(), rnd.choice([big(), 0, 8, 2, -8])),
                  'hex %d' % abs(big()),
                  'fromhex %s' % show_ints([rnd.randrange(16) for _ in range(rnd.choice([0, 1, 2, 3, 4, 6, 7]))]),
                  'getbyte %s %d' % (hx(byts()), rnd.randrange(-20, 20)), 'listget %s %d' % (show_ints(il()), rnd.randrange(-7, 7)),
                  'popright %s' % show_ints(il()), 'bytesofints %s' % show_ints(il()), 'append %s %d' % (hx(byts()), rnd.choice([0, 255, 256, -1, 97, 1000])),
                  'slicefrom %s %d' % (hx(byts()), rnd.randrange(0, 20)), 'slice %s %d %d' % (hx(byts()), rnd.randrange(0, 20), rnd.randrange(0, 20)),
                  'setfirstor %s %d' % (hx(byts()), rnd.choice([0, 1, 0x80, 0x40, 0x10, 0x20, 255, 256, -1, 1000])), 'ord %s' % hx(byts()),
                  'utf8 %s' % hx(rnd.choice([byts(), 'café'.encode(), b'\xc3', b'\xed\xa0\x80', b'\xf4\x90\x80\x80', b'\xc0\xaf', '\U0001f600'.encode(), b'\xef\xbf\xbe'])),
                  'startswith %s %s' % (hx(rnd.choice([b':path', b'', b':', b'x:', byts()])), hx(rnd.choice([b':', b'', b':p', byts()[:1]]))),
                  'typeof ' + obj(), 'truthy ' + obj()]
        o = obj()
        if not o.startswith('b:'):
            lines.append('strof ' + o)
        lines.append('encode ' + o)
        os_ = ';'.join(obj() for _ in range(rnd.choice([1, 2, 3, 4]))) if rnd.random() < 0.9 else '-'
        lines += ['hdrlen ' + os_, 'hdrget %s %d' % (os_, rnd.randrange(-5, 5))]
        l = il(0, 50)
        lines.append('sortedbool %s %s' % (show_ints(l), show_ints([rnd.randrange(2) for _ in l])))
        lines.append('join ' + (','.join(hx(byts()) for _ in range(rnd.choice([1, 2, 4]))) if rnd.random() < 0.85 else '-'))
        ks = [obj() for _ in range(rnd.choice([0, 1, 3, 5]))]
        vs = [obj() for _ in ks]
        lines.append('dictget %s %s %s' % (';'.join(ks) or '-', ';'.join(vs) or '-', rnd.choice(ks + [obj()]) if ks else obj()))
    for d in (1, 10, 4299, 4300, 4301):
        lines += ['fmtint + %d' % d, 'fmtint - %d' % d]
    return lines


def main():
    seed, n = int(sys.argv[1]), int(sys.argv[2])
    lines = gen(seed, n)
    p = subprocess.run(['lake', 'env', 'lean', '--run', 'PySem.lean'], cwd=LEAN, input='\n'.join(lines) + '\n', capture_output=True, text=True, timeout=1800)
    got = [l for l in p.stdout.splitlines()]
    out = {'cases': len(lines), 'disagreements': [], 'per_op': {}}
    if p.returncode != 0 or len(got) != len(lines):
        out['error'] = 'driver: rc=%d, %d lines for %d cases: %s' % (p.returncode, len(got), len(lines), (p.stderr or p.stdout)[-300:])
        print(json.dumps(out)); return
    for line, g in zip(lines, got):
        op = line.split(' ')[0]
        out['per_op'][op] = out['per_op'].get(op, 0) + 1
        want = py_eval(line)
        if g == 'ok ' and want == 'ok ':
            continue
        if g.strip() != want.strip():
            if len(out['disagreements']) < 20:
                out['disagreements'].append({'case': line[:200], 'lean': g[:120], 'cpython': want[:120]})
    out['n_disagreements'] = len(out['disagreements'])
    print(json.dumps(out))


if __name__ == '__main__':
    main()
