#!/usr/bin/env python3
"""markdown table of the seeded changes and what the checks said (from seeded/results.json)"""
import json, os, glob, re
ROOT = os.path.dirname(os.path.dirname(os.path.abspath(__file__)))
res = json.load(open(os.path.join(ROOT, 'seeded', 'results.json')))
print('| change | property | what was changed / what it needs (from the author\'s notes) | verdict of `./check <property> --tier quick` | first line of the report |')
print('|---|---|---|---|---|')
for d in sorted(glob.glob(os.path.join(ROOT, 'seeded', 'C*'))):
    if not os.path.isdir(d):
        continue
    name = os.path.basename(d)
    meta = json.load(open(os.path.join(d, 'meta.json')))
    notes = meta.get('needs_to_manifest', '')
    first = ' '.join(l.strip('# *-') for l in notes.splitlines() if l.strip())[:230].replace('|', '/')
    for prop, r in sorted(res.get(name, {}).items()):
        line = (r['lines'][0] if r['lines'] else '').replace('|', '/')
        line = re.sub(r'^(FAILING INPUT: |BROKEN: )', '', line)[:160]
        print('| %s | %s | %s | %s (%ss) | %s |' % (name, prop, first, r['verdict'], r['wall_s'], line))
