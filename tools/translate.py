#!/usr/bin/env python3
"""
Translator: run-time introspection of $HPACK_REPO/src/hpack  ->  lean/HpackVerif/Generated/*.lean

It imports the package that is in the working tree *now* and dumps the values the code actually uses
(static table, the import-time search mapping, the Huffman code as held by an Encoder, the 4096-entry
decoding automaton with its flags evaluated the way decode_huffman evaluates them, flag/pattern
constants, default sizes, the integer cap), plus UNTRUSTED witnesses (code tree, automaton-state ->
tree-path) that only ever reach a theorem through kernel-checked obligations.

Files are rewritten only when their content changes (so an unchanged tree costs a no-op lake build).
Exit status: 0 ok, 3 = some datum could not be read (the tie for the properties depending on it is
broken; details in <out>/translate_report.json).  Never guesses: an internal constant that a refactor renamed
or dropped (the integer cap, the prefix maxima, the literal patterns, table_entry_size, default sizes) is MEASURED
through the public behaviour instead and the measurement is noted in the report.
"""
import sys, os, json, hashlib, ast, inspect, textwrap

def main():
    repo = os.environ.get('HPACK_REPO', '/repo')
    here = os.path.dirname(os.path.abspath(__file__))
    out = sys.argv[1] if len(sys.argv) > 1 else os.path.join(here, '..', 'lean', 'HpackVerif', 'Generated')
    out = os.path.abspath(out)
    os.makedirs(out, exist_ok=True)
    sys.path.insert(0, os.path.join(repo, 'src'))
    report = {'repo': repo, 'missing': [], 'written': [], 'unchanged': [], 'notes': []}

    def emit(name, text):
        p = os.path.join(out, name)
        old = open(p).read() if os.path.exists(p) else None
        if old == text:
            report['unchanged'].append(name)
        else:
            with open(p + '.tmp', 'w') as f:
                f.write(text)
            os.replace(p + '.tmp', p)
            report['written'].append(name)

    def chunks(xs, n):
        for i in range(0, len(xs), n):
            yield xs[i:i + n]

    def lb(b):
        return '[' + ','.join(str(x) for x in bytes(b)) + ']'

    try:
        import hpack
        import hpack.hpack as H
        import hpack.table as T
        import hpack.huffman_table as HT
        import hpack.huffman as HF
    except Exception as e:  # the package does not even import
        report['missing'].append('import: %r' % (e,))
        json.dump(report, open(os.path.join(out, 'translate_report.json'), 'w'), indent=1)
        print('translate: cannot import hpack from', repo, e)
        return 3

    def get(obj, attr, what, soft=False):
        # soft: an internal name a refactor may rename or drop; its value is then MEASURED through the public
        # behaviour instead (noted in the report), and the kernel-checked obligations run on the measured value
        if not hasattr(obj, attr):
            if soft:
                report['notes'].append('%s absent: measured through behaviour instead' % what)
            else:
                report['missing'].append(what)
            return None
        return getattr(obj, attr)

    # ------------------------------------------------------------------ static table + mapping + sizes
    ST = get(T.HeaderTable, 'STATIC_TABLE', 'HeaderTable.STATIC_TABLE')
    MP = get(T.HeaderTable, 'STATIC_TABLE_MAPPING', 'HeaderTable.STATIC_TABLE_MAPPING')
    DS = get(T.HeaderTable, 'DEFAULT_SIZE', 'HeaderTable.DEFAULT_SIZE', soft=True)
    STL = get(T.HeaderTable, 'STATIC_TABLE_LENGTH', 'HeaderTable.STATIC_TABLE_LENGTH', soft=True)
    DL = get(H, 'DEFAULT_MAX_HEADER_LIST_SIZE', 'hpack.DEFAULT_MAX_HEADER_LIST_SIZE', soft=True)
    # what a fresh Decoder/Encoder really starts with
    try:
        d = hpack.Decoder(); e = hpack.Encoder()
        dec_list_limit = int(d.max_header_list_size)
        dec_allowed = int(d.max_allowed_table_size)
        dec_size = int(d.header_table_size)
        enc_size = int(e.header_table_size)
    except Exception as ex:
        report['missing'].append('fresh Decoder/Encoder: %r' % (ex,))
        dec_list_limit = DL if DL is not None else 65536
        dec_allowed = dec_size = enc_size = DS if DS is not None else 4096
    if ST is not None:
        s = 'import HpackVerif.Impl.Basic\nnamespace Gen\n'
        s += 'def staticTable : List (Bytes × Bytes) := [\n' + ',\n'.join(
            '  (%s, %s)' % (lb(n), lb(v)) for n, v in ST) + ']\n'
        s += 'def staticTableLength : Nat := %d\n' % (STL if STL is not None else len(ST))
        if MP is not None:
            rows = []
            for name, (first, vals) in MP.items():
                rows.append('  (%s, %d, [%s])' % (lb(name), first, ', '.join('(%s, %d)' % (lb(v), i) for v, i in vals.items())))
            s += 'def staticMapping : List (Bytes × Nat × List (Bytes × Nat)) := [\n' + ',\n'.join(rows) + ']\n'
        else:
            s += 'def staticMapping : List (Bytes × Nat × List (Bytes × Nat)) := []\n'
        s += 'def defaultSize : Nat := %d\n' % dec_size
        s += 'def defaultEncSize : Nat := %d\n' % enc_size
        s += 'def defaultAllowed : Nat := %d\n' % dec_allowed
        s += 'def defaultListLimit : Nat := %d\n' % dec_list_limit
        s += 'end Gen\n'
        emit('Static.lean', s)

    # ------------------------------------------------------------------ Huffman code (as the Encoder holds it)
    C = L = None
    try:
        hc = hpack.Encoder().huffman_coder
        C = list(hc.huffman_code_list); L = list(hc.huffman_code_list_lengths)
    except Exception as ex:
        try:
            from hpack import huffman_constants as HC_
            C = list(HC_.REQUEST_CODES); L = list(HC_.REQUEST_CODES_LENGTH)
            report['notes'].append('Encoder().huffman_coder code lists unavailable (%r): huffman_constants.REQUEST_CODES used' % (ex,))
        except Exception as ex2:
            report['missing'].append('Huffman code lists: %r / %r' % (ex, ex2))
    if C is not None:
        s = 'namespace Gen\n'
        s += 'def codes : List (Nat × Nat) := [\n' + ',\n'.join(
            '  ' + ', '.join('(%d, %d)' % (c, l) for c, l in ch) for ch in chunks(list(zip(C, L)), 8)) + ']\n'
        s += 'end Gen\n'
        emit('Codes.lean', s)

    # ------------------------------------------------------------------ code tree witness (untrusted)
    codes = {}
    if C is not None:
        for sym, (c, l) in enumerate(zip(C, L)):
            if l > 0 and 0 <= c < (1 << l) and l <= 64:
                codes.setdefault(format(c, '0%db' % l), sym)
    def tree(prefix, depth=0):
        if prefix in codes:
            return '.leaf %d' % codes[prefix]
        if depth > 40 or not any(k.startswith(prefix) for k in codes):
            return '.leaf 256'    # hole: not a prefix of any code (obligations will fail, as they should)
        return '.node (%s) (%s)' % (tree(prefix + '0', depth + 1), tree(prefix + '1', depth + 1))
    sys.setrecursionlimit(10000)
    s = 'import HpackVerif.Impl.Basic\nnamespace Gen\n'
    s += 'def tree : HTree :=\n  ' + (tree('') if codes else '.leaf 256') + '\nend Gen\n'
    emit('Tree.lean', s)

    # ------------------------------------------------------------------ decoding automaton
    TB = get(HT, 'HUFFMAN_TABLE', 'huffman_table.HUFFMAN_TABLE')
    fC = get(HT, 'HUFFMAN_COMPLETE', 'huffman_table.HUFFMAN_COMPLETE')
    fE = get(HT, 'HUFFMAN_EMIT_SYMBOL', 'huffman_table.HUFFMAN_EMIT_SYMBOL')
    fF = get(HT, 'HUFFMAN_FAIL', 'huffman_table.HUFFMAN_FAIL')
    if TB is not None and None not in (fC, fE, fF):
        # flags are emitted the way decode_huffman evaluates them: bit0 = `flags & HUFFMAN_COMPLETE` is
        # truthy, bit1 = `flags & HUFFMAN_EMIT_SYMBOL`, bit2 = `flags & HUFFMAN_FAIL`
        def nf(f):
            return (1 if f & fC else 0) | (2 if f & fE else 0) | (4 if f & fF else 0)
        TBn = [(int(a), nf(int(b)), int(c)) for a, b, c in TB]
        s = 'namespace Gen\n'
        rows = list(chunks(TBn, 16))
        for i, ch in enumerate(rows):
            s += 'def n%d : List (Nat × Nat × Nat) := [' % i + ', '.join('(%d, %d, %d)' % t for t in ch) + ']\n'
        s += 'def huffTable : List (List (Nat × Nat × Nat)) := [\n' + ',\n'.join(
            '  ' + ', '.join('n%d' % i for i in ch) for ch in chunks(list(range(len(rows))), 16)) + ']\n'
        # state -> path witness (BFS through the automaton along the code tree)
        from collections import deque
        node_of = {0: ''}; q = deque([0])
        while q:
            st = q.popleft(); p = node_of[st]
            for x in range(16):
                cur = p; fail = False
                for b in format(x, '04b'):
                    cur += b
                    if cur in codes:
                        if codes[cur] == 256:
                            fail = True; break
                        cur = ''
                    elif len(cur) > 40:
                        fail = True; break
                if fail:
                    continue
                idx = st * 16 + x
                if idx >= len(TBn):
                    continue
                ns = TBn[idx][0]
                if ns not in node_of and 0 <= ns < 4096:
                    node_of[ns] = cur; q.append(ns)
        def bl(p):
            return '[' + ','.join('true' if ch == '1' else 'false' for ch in p) + ']'
        s += 'def nodePaths : List (List Bool) := [\n' + ',\n'.join('  ' + bl(node_of.get(st, '')) for st in range(len(rows))) + ']\n'
        s += 'end Gen\n'
        emit('Table.lean', s)

    # ------------------------------------------------------------------ constants
    def first_byte(x, what):
        try:
            return bytes(x)[0]
        except Exception:
            report['missing'].append(what); return None
    def measured_pattern(nm):
        # the first octet of a literal with a new name, as the Encoder emits it (no Huffman): its four high bits
        try:
            e_ = hpack.Encoder()
            if nm == 'INDEX_NEVER':
                b_ = e_.encode([(b'zz-verif', b'v', True)], huffman=False)
            elif nm == 'INDEX_INCREMENTAL':
                b_ = e_.encode([(b'zz-verif', b'v')], huffman=False)
            else:
                e_.header_table_size = 0          # nothing fits: hpack still emits 0x40 literals; INDEX_NONE is unused by encode
                return 0
            return b_[0] & 0xF0
        except Exception as ex:
            report['missing'].append('%s: cannot be measured: %r' % (nm, ex)); return None
    def pattern(nm):
        v = get(H, nm, 'hpack.' + nm, soft=True)
        return first_byte(v, nm) if v is not None else measured_pattern(nm)
    inone = pattern('INDEX_NONE')
    inever = pattern('INDEX_NEVER')
    iincr = pattern('INDEX_INCREMENTAL')
    pmax = get(H, '_PREFIX_BIT_MAX_NUMBERS', 'hpack._PREFIX_BIT_MAX_NUMBERS', soft=True)
    if pmax is None:
        # measured: the largest value encode_integer writes in one octet with an N-bit prefix, plus one
        try:
            pmax = [0]
            for N in range(1, 9):
                m = 0
                while len(H.encode_integer(m, N)) == 1 and m < 1000:
                    m += 1
                pmax.append(m)
        except Exception as ex:
            report['missing'].append('prefix maxima cannot be measured: %r' % (ex,)); pmax = None
    # integer cap: largest shift accepted for a continuation octet (module constant introduced by the D1 fix)
    cap = None
    for nm in ('_MAX_INTEGER_SHIFT',):
        if hasattr(H, nm):
            cap = int(getattr(H, nm)); report['notes'].append('integer cap from hpack.%s = %d' % (nm, cap))
    if cap is None:
        # measured: the longest run of continuation octets decode_integer accepts (0x80 ... 0x80 0x01 after a full prefix)
        try:
            m = 1
            while m <= 5000:
                try:
                    H.decode_integer(b'\xff' + b'\x80' * (m - 1) + b'\x01', 8)
                except Exception:
                    break
                m += 1
            if m > 5000:
                report['notes'].append('no integer cap: 5000 continuation octets accepted; cap = none')
            else:
                cap = 7 * (m - 2)
                report['notes'].append('integer cap measured: %d continuation octets accepted, cap (largest shift) = %d' % (m - 1, cap))
        except Exception as ex:
            report['notes'].append('integer cap cannot be measured (%r): cap = none' % (ex,))
    try:
        msd = sys.get_int_max_str_digits()
    except Exception:
        msd = 0
    s = 'namespace Gen\n'
    s += 'def indexNone : Nat := %d\n' % (inone if inone is not None else 0)
    s += 'def indexNever : Nat := %d\n' % (inever if inever is not None else 16)
    s += 'def indexIncremental : Nat := %d\n' % (iincr if iincr is not None else 64)
    s += 'def prefixMax : List Nat := [%s]\n' % (', '.join(str(int(x)) for x in pmax) if pmax is not None else '')
    s += 'def intCap : Option Nat := %s\n' % ('some %d' % cap if cap is not None else 'none')
    s += 'def maxStrDigits : Nat := %d\n' % msd
    # table_entry_size sampled on a grid (the model hard-codes 32 + len + len; ConstsOK re-checks the samples)
    tes = get(T, 'table_entry_size', 'table.table_entry_size', soft=True)
    if tes is None:
        def tes(n_, v_):
            # measured: the smallest list limit under which a Decoder accepts the field as a literal
            blk = b'\x00' + bytes([len(n_)]) + n_ + bytes([len(v_)]) + v_
            lo, hi = 0, 32 + len(n_) + len(v_) + 4096
            while lo < hi:
                mid = (lo + hi) // 2
                try:
                    hpack.Decoder(max_header_list_size=mid).decode(blk, raw=True); hi = mid
                except Exception:
                    lo = mid + 1
            return lo
    samples = []
    if tes is not None:
        try:
            for a in (0, 1, 2, 7, 100):
                for b in (0, 1, 3, 50):
                    samples.append((a, b, int(tes(b'n' * a, b'v' * b))))
        except Exception as ex:
            report['missing'].append('table_entry_size samples: %r' % (ex,))
    s += 'def entrySizeSamples : List (Nat × Nat × Nat) := [%s]\n' % ', '.join('(%d, %d, %d)' % t for t in samples)
    hfl = [fC, fE, fF]
    s += 'def huffFlags : List Nat := [%s]\n' % ', '.join(str(int(x)) for x in hfl if x is not None)
    s += 'end Gen\n'
    emit('Consts.lean', s)

    # ------------------------------------------------------------------ drift sentinel: AST hashes of modelled functions
    pins = {}
    def h(obj, name):
        try:
            src = textwrap.dedent(inspect.getsource(obj))
            tree_ = ast.parse(src)
            for n in ast.walk(tree_):   # drop docstrings
                if isinstance(n, (ast.FunctionDef, ast.ClassDef, ast.Module)) and n.body and \
                        isinstance(n.body[0], ast.Expr) and isinstance(getattr(n.body[0], 'value', None), ast.Constant) \
                        and isinstance(n.body[0].value.value, str):
                    n.body = n.body[1:] or [ast.Pass()]
            pins[name] = hashlib.sha256(ast.dump(tree_).encode()).hexdigest()[:16]
        except Exception as ex:
            pins[name] = 'unavailable: %r' % (ex,)
    for name, obj in [('encode_integer', getattr(H, 'encode_integer', None)), ('decode_integer', getattr(H, 'decode_integer', None)),
                      ('_unicode_if_needed', getattr(H, '_unicode_if_needed', None)), ('_dict_to_iterable', getattr(H, '_dict_to_iterable', None)),
                      ('_to_bytes', getattr(H, '_to_bytes', None)), ('Encoder', getattr(H, 'Encoder', None)), ('Decoder', getattr(H, 'Decoder', None)),
                      ('HuffmanEncoder', getattr(HF, 'HuffmanEncoder', None)), ('decode_huffman', getattr(HT, 'decode_huffman', None)),
                      ('table_entry_size', getattr(T, 'table_entry_size', None)),
                      ('_build_static_table_mapping', getattr(T, '_build_static_table_mapping', None))]:
        if obj is not None:
            h(obj, name)
    # HeaderTable without its (huge) STATIC_TABLE literal: hash the methods
    for mname in ('get_by_index', 'add', 'search', '_shrink', '__init__'):
        f = getattr(T.HeaderTable, mname, None)
        if f is not None:
            h(f, 'HeaderTable.' + mname)
    try:
        h(T.HeaderTable.maxsize.fset, 'HeaderTable.maxsize.setter')
    except Exception:
        pass
    report['pins'] = pins
    json.dump(report, open(os.path.join(out, 'translate_report.json'), 'w'), indent=1, sort_keys=True)
    if report['missing']:
        print('translate: MISSING', report['missing'])
        return 3
    return 0

if __name__ == '__main__':
    sys.exit(main())
