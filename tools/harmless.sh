#!/bin/bash
# development tool: apply each harmless refactor to /repo, run every quick check (expect exit 0), undo.
cd /verif
pat=${1:-H}
out=selftest/harmless/results${1:+-$1}.txt
: > $out
for d in selftest/harmless/${pat}*.diff; do
  [ -n "$(git -C /repo status --short)" ] && { echo "repo not clean"; exit 1; }
  git -C /repo apply /verif/$d || { echo "$d does not apply" >> $out; continue; }
  s=$(cd /repo && /venv/bin/python -m pytest -q -p no:cacheprovider --timeout=900 2>&1 | tail -1)
  echo "== $d suite: $s" >> $out
  ./check C01 --tier quick > /tmp/h_C01.log 2>&1; echo "C01 rc=$? $(grep -c VIOLATION /tmp/h_C01.log)" >> $out   # first one serially (rebuilds)
  printf "%s\n" C02 C03 C04 C05 C06 C07 C08 C09 C10 C11 C12 C13 C14 C15 C16 C17 C18 C19 C20 | xargs -P 5 -I{} sh -c './check {} --tier quick > /tmp/h_{}.log 2>&1; echo "{} rc=$? $(grep VIOLATION /tmp/h_{}.log | cut -c1-200) $(grep BROKEN /tmp/h_{}.log | cut -c1-400)"' >> $out
  git -C /repo checkout -- .
done
./check C01 --tier quick > /dev/null 2>&1
echo done >> $out
