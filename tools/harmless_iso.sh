#!/bin/bash
# development tool: the harmless-refactor sweep in isolation (for `vp run --with-repo -- tools/harmless_iso.sh [pattern] [checks...]`):
# builds this copy of /verif, applies each refactor to a private copy of the repository ($VP_RUN_REPO, or a scratch clone),
# runs the quick checks with HPACK_REPO pointing there (expect exit 0 everywhere) and undoes it.
cd "$(dirname "$0")/.."
pat=${1:-H}; shift
checks=${*:-C01 C02 C03 C04 C05 C06 C07 C08 C09 C10 C11 C12 C13 C14 C15 C16 C17 C18 C19 C20}
R=${VP_RUN_REPO:-}
if [ -z "$R" ]; then R=$(mktemp -d /tmp/hpack-harmless-XXXX); git clone -q /repo "$R"; own=1; fi
export HPACK_REPO=$R
[ -d lean/.lake ] || ./setup.sh > setup.log 2>&1
out=harmless-results.txt
: > $out
for d in selftest/harmless/${pat}*.diff; do
  git -C "$R" checkout -q -- . ; git -C "$R" clean -fdq src
  git -C "$R" apply "$PWD/$d" || { echo "$d does not apply" >> $out; continue; }
  echo "== $d" >> $out
  first=1
  for c in $checks; do
    ./check $c --tier quick > h_$c.log 2>&1; rc=$?
    echo "$c rc=$rc $(grep VIOLATION h_$c.log | cut -c1-200) $(grep BROKEN h_$c.log | cut -c1-300)" >> $out
  done
  git -C "$R" checkout -q -- .
done
echo done >> $out
[ -n "$own" ] && rm -rf "$R"
grep -c "rc=0" $out; grep -v "rc=0" $out
