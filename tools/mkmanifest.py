#!/usr/bin/env python3
"""writes /verif/MANIFEST.json (kept in the repository; re-run after editing the texts below)"""
import json, os
ROOT = os.path.dirname(os.path.dirname(os.path.abspath(__file__)))
COMMON_NOTE = ("Trusted base: Lean 4.33 kernel; axioms propext / Classical.choice / Quot.sound only (audited per theorem on every run; no sorry, "
               "native_decide, bv_decide or custom axioms); tools/translate.py (dumps the run-time tables and constants of the working tree into the Lean model; "
               "its witnesses are untrusted and kernel-checked); the hand-written L2 model lean/HpackVerif/Impl, tied to the Python code by the correspondence "
               "streams of every run (model and implementation executed on the same operations, replies compared one by one); the L0 reading of RFC 7541 and the frozen "
               "Appendix A/B tables; CPython's int/bytes/deque/dict semantics as modelled (DESIGN.md 5); where source ties are reported (evidence coverage.source_tie): "
               "tools/py2lean.py and lean/HpackVerif/Src/Py.lean (the latter compared with the interpreter on generated arguments on every run). ")
P = {
 'C01': ("Theorem Props.C01.roundtrip (induction over arbitrary connection histories of size assignments and blocks, from a fresh Encoder/Decoder pair, invariant ConnInv): every block decodes to exactly the list encoded; text mode by Props.C01.text_mode_same.",
         "Hypothesis OpsOK = the property's own proviso (decoder permits the signalled sizes, list within the decoder's limit) plus integers within the implementation cap.", "6/C01"),
 'C02': ("Theorem Props.C02.meaning / sequence: for every reachable decoder state and every list of RFC 7541 representations under every choice of Huffman/plain coding and redundant zero digits (within the cap), decode agrees with the L0 semantics interp: fields, order, never-indexed class, error class and resulting dynamic table; Generated tables proved equal to Appendix A/B.",
         "RepOK bounds integer padding by the implementation's cap (value < 2^64 with up to 3 redundant zero octets is proved sufficient).", "6/C02"),
 'C03': ("Theorem Props.C03.emits_wellformed: for every consistent encoder state, header list and Huffman flag the output is blockOctets(updates ++ fields) in the L0 grammar, updates only as a prefix, and its L0 meaning on any peer in step is exactly the input list (hence every index in range, every string well-formed; Huffman padding by Props.C03.huffman_padding).",
         "Stated against the RFC-level grammar/semantics, so it holds for any decoder satisfying C02, not only this library's.", "6/C03"),
 'C04': ("Theorem Props.C04.only_documented_errors: for every reachable decoder state (any history of blocks, valid or not, and setter calls), every byte string and both modes, decode terminates (fuel never exhausted) and yields a list or one of the four documented classes; escapes (IndexError, ValueError from %d formatting, non-termination) are modelled explicitly and proved unreachable.",
         "MemoryError/RecursionError are outside the model (no recursion in the code; allocation bounded by C07).", "6/C04"),
 'C05': ("Theorem Props.C05.accept_iff: decode returns fs iff the octets are blockOctets of representations (within the integer cap) whose RFC meaning in the current context is fs; Props.C05.error_class: on blocks well-formed up to the defect the raised class is the one interp assigns; defect_decides: the first defective representation decides the class whatever octets follow; truncated_block: any representation cut short after any acceptable prefix is the decoding error; UTF-8 clause proved separately.",
         "The only latitude is the integer cap (encodings longer than the cap admits are refused), exactly as the property allows.", "6/C05"),
 'C06': ("Theorems Props.C06.always_decoder / always_encoder (invariant Inv: accounting = sum <= max, for every reachable state, including after blocks that fail midway: decode_any_outcome), add_evicts_oldest / fit_is_longest_prefix / add_exact_fit_kept / add_oversized_empties / resize (oldest-first, only as needed, exact fit kept, oversized empties, lowering evicts at once, raising evicts nothing).",
         "", "6/C06"),
 'C07': ("Theorem Props.C07.bound: whenever decode returns (any byte string, any state, either mode) the list size is <= the limit; refused_at_crossing(_block) / exact_limit_continues: the oversized error is raised at the field that crosses the limit whatever follows it, a list exactly at the limit continues; fields_bounded: number of fields <= limit/32.",
         "Memory/work bound is stated as a bound on returned sizes and field counts; allocator behaviour is outside the model.", "6/C07"),
 'C08': ("Theorems Props.C08.reject_above(_block), apply_at_or_below, any_number_leading, none_after_field, end_of_block_check and the invariant after_ok_block (after every successful decode of any byte string the table maximum is <= the permitted maximum).", "", "6/C08"),
 'C09': ("Theorems Props.C09.pending_after_assignments (for every reachable encoder and every run of assignments: the pending list contains only assigned values, every assigned value except possibly the size already in force - hence the smallest -, ends with the size in force) and next_block_signals (the next block is updates ++ fields with no update among the fields, and a peer in step ends at the encoder's size and entries). The clause 'none exceeds the size in force' is proved FALSE (Props.C09.full_statement_false, witness 40,100,40): known finding D5, reported as KNOWN-FINDING.",
         "Partial by one clause (D5), which the pinned test-suite forbids repairing; every other clause is proved and judged.", "6/C09"),
 'C10': ("Theorem Props.C10.lockstep: after every block of any admissible connection history both tables have the same entries at the same indices and the same maximum, hence every index resolves identically (same_index_same_field); between blocks the decoder's table is the encoder's modulo the pending updates (ConnInv.pending).", "Same hypotheses as C01.", "6/C10"),
 'C11': ("Theorems Props.C11.encode_wire (exact section 5.1 octets for all n, N), roundtrip_64 / roundtrip_general (all n < 2^64, any high bits, any trailing octets), decode_sound, decode_total, decode_truncated, refusal of negatives and widths outside 1..8.", "The integer cap read from the source is proved to admit 64-bit values (Props.cap_admits_64).", "6/C11"),
 'C12': ("Theorems Props.C12.encode_spec (output bits = concatenated Appendix B codes + fewer than 8 one-bits, for every byte string), encode_empty, roundtrip, codes_are_appendixB (all 257 entries, kernel-evaluated), appendixB_canonical (the frozen table is the canonical complete prefix code of its lengths).", "", "6/C12"),
 'C13': ("Theorems Props.C13.decode_iff (accepts w with result s iff bits(w) = codes(s) ++ 0..7 one-bits), reject_iff / reject_class (everything else is the decoding error, never IndexError), reencode, injective; the whole 4096-entry automaton is checked against the code tree in the kernel (automaton_checked) whenever the table changes.", "", "6/C13"),
 'C14': ("Theorems Props.C14.static_is_appendixA (61 entries, kernel-evaluated), static_index, dynamic_index, insertion_is_newest, index_zero_invalid, index_past_end_invalid, search_sound (all table states, all names), mapping_is_derived (the import-time mapping equals what _build_static_table_mapping computes from the table).",
         "get_by_index with an integer of more than 4300 decimal digits raises Python's ValueError from message formatting; the decoder cannot produce such an index (cap).", "6/C14"),
 'C15': ("Theorems Props.C15.encoder_field (sensitive => table untouched and emitted as exact index or never-indexed literal 0001xxxx), table_entries_were_submitted (over whole histories every table entry was submitted non-sensitive), decoder_literal (never-indexed => never class, no insertion; only the 01 pattern inserts), decoder_indexed_plain.", "", "6/C15"),
 'C16': ("PARTIAL, proof over a work model: Props.C16.decode_work_linear (for every reachable state and byte string the modelled work of decode is <= (3*intConst cap + 10)*|data| + entries + list limit + 1), integer_work_constant (work on any integer bounded by a constant whatever the continuation run), long_run_refused, iterations_bounded, uncapped_was_quadratic (the pre-fix behaviour). The tie to the real cost is a run-time probe: work units of the model (executed lines, bigint limb work, bytes copied by slicing) measured on the real decoder for 17 input families must grow linearly, and CPU time must not grow super-linearly.",
         "Cannot exhibit: real CPU time, allocator behaviour and costs inside C builtins beyond the stated model; the per-iteration charges of the work model are assumptions about CPython, checked by the probe, not proved.", "6/C16"),
 'C17': ("PARTIAL, proof over ownership tags: Props.C17.holds_no_view (for every decoder history and every further block, returning or raising, no string in the table or the result is a view of the input), retained_bounded. The tie: the correspondence compares the model's tag with type(x) is bytes for every stored string; a run-time probe overwrites/resizes caller buffers of five kinds, checks reference counts and later results.",
         "Cannot exhibit: CPython reference counting and tracebacks held by the caller (probed at run time, not proved).", "6/C17"),
 'C18': ("Theorems Props.C18.encoder_depends_on_norm, plain_forms, sensitive_forms, text_is_utf8, dict_order_stable, dict_is_its_items, modes_same_state, text_ok_implies_raw, raw_vs_text. The model's encodeApi is encode after norm by definition; that the real Encoder.encode factors this way is established by the api correspondence stream (all form assignments) and the forms judge.",
         "str objects are modelled as sequences of Unicode scalar values (lone surrogates, for which .encode raises, are outside the model); non-str/bytes values go through str() and are only probed (C20).", "6/C18"),
 'C19': ("Theorems Props.C19.indexed (for every reachable encoder: a field equal to an addressable entry, empty value included, is emitted as one indexed field resolving to it, table unchanged) and all_indexed (a block of addressable fields is emitted entirely as indexed fields).", "", "6/C19"),
 'C20': ("Theorem Props.C20.isolated (frame theorem: in every interleaving of operations on any number of instances, outputs and final state of an instance equal those of running its operations alone), earlier_instances_irrelevant, static_constant. The model has no shared mutable state by construction; that the implementation has none, and does not depend on logging level or hash randomisation, is established by the isolation probe (isolated / interleaved / reversed / warm / debug-logging / crowded-process runs under several PYTHONHASHSEED values, first use in a process against later use per well-known header name, four threads with their own instances against sequential runs, digests of all shared tables).",
         "Determinism and isolation of the implementation are validated, not proved: the theorem says what follows once there is no shared state.", "6/C20"),
}
checks = []
for pid in sorted(P):
    text, note, ref = P[pid]
    checks.append({
        'property_id': pid,
        'quick_cmd': './check %s --tier quick' % pid,
        'thorough_cmd': './check %s --tier thorough' % pid,
        'evidence_file': 'evidence/%s.json' % pid,
        'replay_cmd_template': './check %s --replay {path}' % pid,
        'engine': 'lean4-proof+correspondence',
        'level_claimed': {'category': 'proof', 'text': text, 'design_ref': 'DESIGN.md section ' + ref},
        'level_note': COMMON_NOTE + note,
        'technique': 'Lean 4 theorems over a hand-written model (lean/HpackVerif/Props/%s.lean), data regenerated from the source by a translator, logic tied by differential correspondence%s; judges on the real code find the failing input' % (
            pid, {'C11': ' and, for encode_integer/decode_integer, by a source-to-Lean translation proved equal to the model (Props.Src)',
                  'C02': ' and, for Decoder.decode with decode_integer, decode_huffman and the table methods it calls, by a source-to-Lean translation proved equal to the model (Props.SrcDec, Props.Src, Props.SrcHuff, Props.SrcTable)',
                  'C04': ' and, for Decoder.decode with decode_integer, decode_huffman and the table methods it calls, by a source-to-Lean translation proved equal to the model (Props.SrcDec, Props.Src, Props.SrcHuff, Props.SrcTable)',
                  'C05': ' and, for Decoder.decode with decode_integer, decode_huffman and the table methods it calls, by a source-to-Lean translation proved equal to the model (Props.SrcDec, Props.Src, Props.SrcHuff, Props.SrcTable)',
                  'C07': ' and, for Decoder.decode, by a source-to-Lean translation proved equal to the model (Props.SrcDec)',
                  'C15': ' and, for Encoder.encode (sensitivity read from each header form), Encoder.add and the decoder side, by a source-to-Lean translation proved equal to the model (Props.SrcEncApi, Props.SrcEnc, Props.SrcDec)',
                  'C17': ' and, for Decoder.decode, by a source-to-Lean translation proved equal to the model (Props.SrcDec)',
                  'C12': ' and, for HuffmanEncoder.encode (accumulator, padding and the hex-string conversion to octets), by a source-to-Lean translation proved equal to the model (Props.SrcHuffEnc)',
                  'C13': ' and, for decode_huffman, by a source-to-Lean translation proved equal to the model (Props.SrcHuff)',
                  'C16': ' and, for decode_integer and its cap, by a source-to-Lean translation proved equal to the model (Props.Src)',
                  'C03': ' and, for Encoder.add and the representations it emits (HeaderTable.search included), by a source-to-Lean translation proved equal to the model (Props.SrcEncApi, Props.SrcEnc, Props.SrcTable, Props.SrcHuffEnc)',
                  'C09': ' and, for the header_table_size setter, _encode_table_size_change and the prologue of Encoder.encode, by a source-to-Lean translation proved equal to the model (Props.SrcEnc, Props.SrcEncApi)',
                  'C01': ' and, for Encoder.encode and Encoder.add with HuffmanEncoder.encode and Decoder.decode, by a source-to-Lean translation proved equal to the model (Props.SrcEncApi, Props.SrcEnc, Props.SrcHuffEnc, Props.SrcDec)',
                  'C06': ' and, for HeaderTable.add/_shrink/maxsize, by a source-to-Lean translation proved equal to the model (Props.SrcTable)',
                  'C14': ' and, for HeaderTable.get_by_index, by a source-to-Lean translation proved equal to the model (Props.SrcTable)',
                  'C08': ' and, for Decoder.decode and the table setter, by a source-to-Lean translation proved equal to the model (Props.SrcDec, Props.SrcTable)',
                  'C10': ' and, for the table operations, by a source-to-Lean translation proved equal to the model (Props.SrcTable)',
                  'C18': ' and, for Encoder.encode with _to_bytes and _dict_to_iterable over dynamically typed header forms, by a source-to-Lean translation proved equal to the model (Props.SrcEncApi)',
                  'C20': ' and, structurally, by the source-to-Lean translation of the three classes (no rendering exists for writes to module- or class-level state: Props.SrcEnc, Props.SrcDec, Props.SrcTable)',
                  'C19': ' and, for Encoder.add and HeaderTable.search, by a source-to-Lean translation proved equal to the model (Props.SrcEnc, Props.SrcTable)'}.get(pid, '')),
    })
m = {
    'version': 1,
    'setup_cmd': './setup.sh',
    'hooks': {
        'guard': 'HPACK_VERIF',
        'enable': 'no source hooks are needed: everything is observed through the public API, instance attributes and sys.settrace; the guard variable is unused',
        'baseline_off_cmd': 'cd /repo && /venv/bin/python -m pytest -ra -q -p no:cacheprovider --timeout=900',
        'source_commits': [],
        'add_only': True,
    },
    'engines': [{'name': 'lean4-proof+correspondence', 'path': 'check', 'serves_properties': sorted(P),
                 'kind_free_text': 'Lean 4 kernel-checked theorems about a model of the code; translator (data; and source text -> Lean for the integer codec, decode_huffman, HeaderTable, the Decoder class and Encoder.add, proved equal to the model) + line-protocol correspondence (logic) tie the model to /repo on every run'}],
    'checks': checks,
    'not_applicable': [],
    'notes': 'Genuine defects D1-D4 were repaired by fix: commits in /repo (known_findings.json, fixed entries); D5 (C09) is a known finding. See DESIGN.md.',
}
json.dump(m, open(os.path.join(ROOT, 'MANIFEST.json'), 'w'), indent=1)
print('wrote MANIFEST.json with', len(checks), 'checks')
