#!/usr/bin/env python3
"""
Source translator (logic): Python AST of selected functions of $HPACK_REPO/src/hpack  ->  Lean definitions over the
semantics in lean/HpackVerif/Src/Py.lean.  Output: lean/HpackVerif/Generated/SrcInt.lean (namespace `Src`).

The translated subset (anything else raises Unsupported and the source tie is reported as unavailable; that is never
an alarm by itself, the correspondence check remains the deciding tie):

  statements   assignment / augmented assignment to a local name, `x.append(e)` on a list, if / elif / else,
               `while` (with `break`; the loop becomes a recursive function over a fuel argument that returns the
               variables the body assigns), `try … except <Exc>: …`, `raise Exc(...)`, `return e` (not inside a loop or
               a try), expression statements that are `log.debug(...)` or a docstring (dropped: logging is assumed to
               have no effect on results, strings are opaque and formatting them is assumed not to raise),
  expressions  integer constants and locals, module-level integer / list-of-integer constants (their RUN-TIME values are
               emitted), + - * & | << >>, comparisons and `and`/`or`/`not` of comparisons, `b[i]` on a bytes-like
               parameter, `xs[i]` on a list constant, `len(x)`, `[e, …]`, `bytearray(list)`, tuples in `return`.
  types        parameters by annotation (`int`, `bytes`, `bytearray`); locals by the type of what is assigned to them.

Control flow is translated by continuation: `if c: A else: B; rest` becomes `if c then ⟦A; rest⟧ else ⟦B; rest⟧`, so no
join points are needed. Operations that can raise (`<<`/`>>` with a negative count, indexing, `bytearray(list)`) are
bound in the `Py.R` monad, in Python's evaluation order.
"""
import ast, os, sys, importlib, textwrap, subprocess, json

RESERVED = {'partial', 'private', 'protected', 'unsafe', 'noncomputable', 'mutual', 'deriving', 'universe', 'example', 'abbrev', 'axiom', 'opaque', 'inductive', 'export', 'extends', 'this', 'Type', 'Prop', 'Sort', 'end', 'from', 'at', 'in', 'fun', 'let', 'open', 'then', 'else', 'do', 'have', 'show', 'match', 'with', 'where', 'by',
            'prefix', 'infix', 'local', 'if', 'def', 'theorem', 'instance', 'structure', 'class', 'namespace', 'section',
            'variable', 'import', 'return', 'for', 'mut', 'unless', 'try', 'catch', 'finally', 'macro', 'syntax', 'notation'}

EXC = {'UnicodeDecodeError': 'unicodeDecodeError', 'ValueError': 'valueError', 'IndexError': 'indexError', 'TypeError': 'typeError', 'HPACKDecodingError': 'hpackDecodingError',
       'InvalidTableIndex': 'invalidTableIndex', 'InvalidTableIndexError': 'invalidTableIndex',
       'InvalidTableSizeError': 'invalidTableSizeError', 'OversizedHeaderListError': 'oversizedHeaderListError'}

LEAN_T = {'int': 'Int', 'bytes': 'List UInt8', 'listint': 'List Int', 'bool': 'Bool', 'unit': 'Unit',
          'entry': '(List UInt8 × List UInt8)', 'listentry': 'List (List UInt8 × List UInt8)',
          'triple': '(Int × Int × Int)', 'listtriple': 'List (Int × Int × Int)',
          'header': 'Py.Header', 'listheader': 'List Py.Header', 'none': 'Unit',
          'hexstr': 'List Nat',
          'obj': 'Py.Obj', 'pytype': 'Py.Ty', 'hdr': 'Py.Hdr', 'listhdr': 'List Py.Hdr', 'listobj': 'List Py.Obj',
          'headers': 'Py.Headers', 'listbytes': 'List (List UInt8)', 'listbool': 'List Bool',
          'valmap': 'List (List UInt8 × Int)', 'mapentry': '(Int × List (List UInt8 × Int))',
          'staticmap': 'List (List UInt8 × (Int × List (List UInt8 × Int)))'}


def lean_t(ty):
    if ty.startswith('self:'):
        return ty[5:]
    if ty.startswith('obj:'):
        return ty[4:]
    if ty.startswith('opt:'):
        inner = lean_t(ty[4:])
        return 'Option ' + (inner if (' ' not in inner or inner.startswith('(')) else '(%s)' % inner)
    if ty.startswith('tuple:'):
        return '(' + ' × '.join(lean_t(x) for x in ty[6:].split(',')) + ')'
    return LEAN_T[ty]


SEARCHRES = 'tuple:int,bytes,opt:bytes'


def coerce(text, ty, target):
    """a value of static type `ty` where `target` is expected (None / a value into an Optional)"""
    if ty == target:
        return text
    if {ty, target} == {'tuple:bytes,bytes', 'entry'}:
        return text
    if ty == 'obj' and target == 'bool':
        return '(Py.Obj.truthy %s)' % text          # the callee only ever tests the argument's truth value
    if target.startswith('opt:'):
        if ty == 'none':
            return '(none : %s)' % lean_t(target)
        if ty == target[4:]:
            return '(some %s)' % text
    raise Unsupported('a value of type %s where %s is expected' % (ty, target))



def own_call(cx, meth, args_text):
    """lines that call a method of the object itself: the object comes back updated"""
    tt = cx.fresh()
    lean = '%s.%s' % (cx.cls['name'], lname_m(meth).replace('.setter', '_set').replace('.getter', '_get'))
    return ['let %s_r ← %s fuel self %s' % (tt, lean, ' '.join(args_text)), 'let self := %s_r.1' % tt, 'let %s := %s_r.2' % (tt, tt)], tt


def sub_call(cx, field, ocls, meth, args_text):
    """lines that call a method of a sub-object held in a field: the field is updated on return and on exception"""
    tt = cx.fresh()
    lean = '%s.%s' % (ocls, lname_m(meth).replace('.setter', '_set').replace('.getter', '_get'))
    return ['let %s_r ← Py.liftSub self (fun s x => { s with %s := x }) (%s fuel self.%s %s)' % (
        tt, fname_(field), lean, fname_(field), ' '.join(args_text)), 'let self := %s_r.1' % tt, 'let %s := %s_r.2' % (tt, tt)], tt



def fname_(attr):
    """Lean field name of a Python attribute"""
    return 'f_' + attr.lstrip('_')



class Unsupported(Exception):
    pass


def lname(n):
    return n + '_' if n in RESERVED else n


class Ctx:
    def __init__(self, fname, consts, cls=None, funcs=None):
        self.fname = fname
        self.cls = cls                # None or dict(name, fields {attr: type}, consts {NAME: (type, value)}, methods {name: (param types, ret type)})
        self.funcs = funcs or {}      # translated module-level functions: name -> (param types, return type)
        self.consts = consts          # module-level name -> python value (int or list of int)
        self.used_consts = []
        self.loops = []               # emitted loop function texts
        self.tmp = 0
        self.nloop = 0

    def fresh(self):
        self.tmp += 1
        return 't%d' % self.tmp


def B(cx, var, rhs):
    """a monadic bind of a pure partial operation; inside a method the exception takes the current object with it"""
    if getattr(cx, 'method', False):
        return 'let %s ← Py.liftR self (%s)' % (var, rhs)
    return 'let %s ← %s' % (var, rhs)


def ERR(cx, exc):
    return '.error (.%s, self)' % exc if getattr(cx, 'method', False) else '.error .%s' % exc


def MON(cx):
    return 'RS %s' % cx.cls['name'] if getattr(cx, 'method', False) else 'R'


# ------------------------------------------------------------------------------------------------ expressions
def expr(e, env, cx, expect=None):
    """-> (binds: [lean line], text, type); `expect` steers tuple literals whose components are Optional"""
    if isinstance(e, ast.Constant):
        if e.value is None:
            return [], '()', 'none'
        if isinstance(e.value, bool):
            return [], 'true' if e.value else 'false', 'bool'
        if isinstance(e.value, int):
            return [], '(%d : Int)' % e.value, 'int'
        if isinstance(e.value, str):
            return [], '()', 'str'
        if isinstance(e.value, bytes):
            return [], '([%s] : List UInt8)' % ', '.join(str(x) for x in e.value), 'bytes'
        raise Unsupported('constant %r' % (e.value,))
    if isinstance(e, ast.JoinedStr):
        # formatting an int into a string raises ValueError beyond sys.get_int_max_str_digits() digits; other pieces
        # (repr of bytes, text) cannot raise
        bs = []
        for v in e.values:
            if isinstance(v, ast.FormattedValue):
                try:
                    b, t, ty = expr(v.value, env, cx)
                except Unsupported:
                    continue
                if ty == 'int' and v.conversion == -1:
                    bs += b + [B(cx, '_', 'Py.fmtInt %s' % t)]
        return bs, '()', 'str'
    if isinstance(e, ast.Name):
        if e.id in env:
            return [], lname(e.id), env[e.id]
        if e.id in cx.consts:
            v = cx.consts[e.id]
            if e.id not in cx.used_consts:
                cx.used_consts.append(e.id)
            if isinstance(v, dict) and 'bytes' in v:
                return [], 'c_' + e.id, 'bytes'
            return [], 'c_' + e.id, 'int' if isinstance(v, int) else ('listtriple' if v == 'TRIPLES' else 'listint')
        raise Unsupported('name %s' % e.id)
    if isinstance(e, ast.Constant) and e.value is None:
        return [], '()', 'none'
    # self.<sub-object>.<property>
    if isinstance(e, ast.Attribute) and _is_self_attr(e.value) and cx.cls and cx.cls['fields'].get(e.value.attr, '').startswith('obj:'):
        ocls = cx.cls['fields'][e.value.attr][4:]
        ext = cx.cls.get('extern', {}).get(ocls, {})
        if e.attr in ext.get('properties', {}):
            lines, tt = sub_call(cx, e.value.attr, ocls, e.attr + '.getter', [])
            return lines, tt, ext['properties'][e.attr]
        if e.attr in ext.get('fields', {}):
            return [], 'self.%s.%s' % (fname_(e.value.attr), fname_(e.attr)), ext['fields'][e.attr]
        raise Unsupported('attribute %s of %s' % (e.attr, ocls))
    # self.<own property>
    if _is_self_attr(e) and cx.cls and e.attr in cx.cls.get('properties', {}):
        lines, tt = own_call(cx, e.attr + '.getter', [])
        return lines, tt, cx.cls['properties'][e.attr]
    if isinstance(e, ast.Attribute) and isinstance(e.value, ast.Name):
        if e.attr == 'indexable' and env.get(e.value.id) == 'hdr':
            tt = cx.fresh()
            return [B(cx, tt, 'Py.Hdr.indexable %s' % lname(e.value.id))], tt, 'bool'
        if e.value.id == 'self' and env.get('self', '').startswith('self:') and cx.cls and e.attr in cx.cls['fields']:
            return [], 'self.' + fname_(e.attr), cx.cls['fields'][e.attr]
        if cx.cls and e.value.id == cx.cls['name'] and e.attr in cx.cls['consts']:
            ty, _ = cx.cls['consts'][e.attr]
            if ty == 'staticmap':
                return [], 'c_%s_%s' % (cx.cls['name'], e.attr), 'staticmap'
            if e.attr not in cx.cls['used']:
                cx.cls['used'].append(e.attr)
            return [], 'c_%s_%s' % (cx.cls['name'], e.attr), ty
        raise Unsupported('attribute %s.%s' % (e.value.id, e.attr))
    if isinstance(e, (ast.Compare, ast.BoolOp)) or (isinstance(e, ast.UnaryOp) and isinstance(e.op, ast.Not)):
        b, c = cond(e, env, cx)
        return b, '(decide %s)' % c, 'bool'
    # hex(n)[2:].rstrip("L"): the hexadecimal digits of a non-negative integer, most significant first
    if isinstance(e, ast.Call) and isinstance(e.func, ast.Attribute) and e.func.attr == 'rstrip' and len(e.args) == 1 \
            and isinstance(e.args[0], ast.Constant) and e.args[0].value == 'L' and isinstance(e.func.value, ast.Subscript) \
            and isinstance(e.func.value.slice, ast.Slice) and isinstance(e.func.value.slice.lower, ast.Constant) \
            and e.func.value.slice.lower.value == 2 and e.func.value.slice.upper is None \
            and isinstance(e.func.value.value, ast.Call) and isinstance(e.func.value.value.func, ast.Name) and e.func.value.value.func.id == 'hex':
        b, t, ty = expr(e.func.value.value.args[0], env, cx)
        if ty != 'int':
            raise Unsupported('hex of ' + ty)
        tt = cx.fresh()
        return b + [B(cx, tt, 'Py.hexDigits %s' % t)], tt, 'hexstr'
    if isinstance(e, ast.Call) and isinstance(e.func, ast.Attribute) and e.func.attr == 'fromhex' and isinstance(e.func.value, ast.Name) \
            and e.func.value.id == 'bytes' and len(e.args) == 1:
        b, t, ty = expr(e.args[0], env, cx)
        if ty != 'hexstr':
            raise Unsupported('fromhex of ' + ty)
        tt = cx.fresh()
        return b + [B(cx, tt, 'Py.fromHex %s' % t)], tt, 'bytes'
    if isinstance(e, ast.BinOp) and isinstance(e.op, ast.Add) and isinstance(e.left, ast.Constant) and e.left.value == '0':
        b, t, ty = expr(e.right, env, cx)
        if ty == 'hexstr':
            return b, '(0 :: %s)' % t, 'hexstr'
    if isinstance(e, ast.BinOp) and isinstance(e.op, ast.Add) and isinstance(e.left, ast.BinOp) and isinstance(e.left.op, ast.Mult) \
            and isinstance(e.left.left, ast.Constant) and e.left.left.value == '0':
        bn, tn, tyn = expr(e.left.right, env, cx)
        b, t, ty = expr(e.right, env, cx)
        if ty == 'hexstr' and tyn == 'int':
            return bn + b, '(List.replicate (%s).toNat 0 ++ %s)' % (tn, t), 'hexstr'
    if isinstance(e, ast.BinOp) and isinstance(e.op, (ast.Pow, ast.Mod, ast.FloorDiv)):
        b1, t1, ty1 = expr(e.left, env, cx)
        b2, t2, ty2 = expr(e.right, env, cx)
        if ty1 == 'int' and ty2 == 'int':
            tt = cx.fresh()
            fn = {'Pow': 'ipow', 'Mod': 'imod', 'FloorDiv': 'ifloordiv'}[type(e.op).__name__]
            return b1 + b2 + [B(cx, tt, 'Py.%s %s %s' % (fn, t1, t2))], tt, 'int'
    # self.<list field>[i]
    if isinstance(e, ast.Subscript) and _is_self_attr(e.value) and cx.cls and cx.cls['fields'].get(e.value.attr) == 'listint' \
            and not isinstance(e.slice, ast.Slice):
        bi, ti, tyi = expr(e.slice, env, cx)
        if tyi != 'int':
            raise Unsupported('subscript with ' + tyi)
        tt = cx.fresh()
        return bi + [B(cx, tt, 'Py.listGet self.%s %s' % (fname_(e.value.attr), ti))], tt, 'int'
    if isinstance(e, ast.IfExp):
        bc, c = cond(e.test, env, cx)
        b1, t1, ty1 = expr(e.body, env, cx)
        b2, t2, ty2 = expr(e.orelse, env, cx)
        if b1 or b2 or ty1 != ty2:
            raise Unsupported('conditional expression')
        return bc, '(if %s then %s else %s)' % (c, t1, t2), ty1
    # self.<sub-object>.<plain field>
    if isinstance(e, ast.Attribute) and _is_self_attr(e.value) and cx.cls and cx.cls['fields'].get(e.value.attr, '').startswith('obj:'):
        ocls_ = cx.cls['fields'][e.value.attr][4:]
        ext_ = cx.cls.get('extern', {}).get(ocls_, {})
        if e.attr in ext_.get('fields', {}):
            return [], 'self.%s.%s' % (fname_(e.value.attr), fname_(e.attr)), ext_['fields'][e.attr]
    if isinstance(e, ast.BinOp) and isinstance(e.op, ast.Add):
        b1_, t1_, ty1_ = expr(e.left, env, cx)
        if ty1_ == 'bytes':
            b2_, t2_, ty2_ = expr(e.right, env, cx)
            if ty2_ != 'bytes':
                raise Unsupported('bytes + ' + ty2_)
            return b1_ + b2_, '(%s ++ %s)' % (t1_, t2_), 'bytes'
    if isinstance(e, ast.BinOp):
        b1, t1, ty1 = expr(e.left, env, cx)
        b2, t2, ty2 = expr(e.right, env, cx)
        if isinstance(e.op, ast.Mod) and ty1 == 'str':
            if ty2 == 'int':
                return b1 + b2 + [B(cx, '_', 'Py.fmtInt %s' % t2)], '()', 'str'
            raise Unsupported('string formatting of ' + ty2)
        if ty1 != 'int' or ty2 != 'int':
            raise Unsupported('binary operator on %s, %s' % (ty1, ty2))
        op = type(e.op).__name__
        if op in ('Add', 'Sub', 'Mult'):
            return b1 + b2, '(%s %s %s)' % (t1, {'Add': '+', 'Sub': '-', 'Mult': '*'}[op], t2), 'int'
        if op in ('BitAnd', 'BitOr'):
            return b1 + b2, '(Py.%s %s %s)' % ({'BitAnd': 'band', 'BitOr': 'bor'}[op], t1, t2), 'int'
        if op in ('LShift', 'RShift'):
            t = cx.fresh()
            return b1 + b2 + [B(cx, t, 'Py.%s %s %s' % ('shl' if op == 'LShift' else 'shr', t1, t2))], t, 'int'
        raise Unsupported('operator ' + op)
    if isinstance(e, ast.UnaryOp) and isinstance(e.op, ast.USub):
        b, t, ty = expr(e.operand, env, cx)
        if ty != 'int':
            raise Unsupported('unary minus on ' + ty)
        return b, '(- %s)' % t, 'int'
    if isinstance(e, ast.Subscript) and isinstance(e.slice, ast.Slice):
        bv, tv, tyv = expr(e.value, env, cx)
        if tyv != 'bytes' or e.slice.step is not None:
            raise Unsupported('slice of ' + tyv)
        t = cx.fresh()
        if e.slice.lower is not None and e.slice.upper is None:
            bl, tl, tyl = expr(e.slice.lower, env, cx)
            return bv + bl + [B(cx, t, 'Py.sliceFrom %s %s' % (tv, tl))], t, 'bytes'
        if e.slice.lower is not None and e.slice.upper is not None:
            bl, tl, tyl = expr(e.slice.lower, env, cx)
            bu, tu, tyu = expr(e.slice.upper, env, cx)
            return bv + bl + bu + [B(cx, t, 'Py.slice %s %s %s' % (tv, tl, tu))], t, 'bytes'
        raise Unsupported('slice form')
    if isinstance(e, ast.Subscript) and isinstance(e.slice, ast.Constant) and isinstance(e.slice.value, int):
        bv, tv, tyv = expr(e.value, env, cx)
        i = e.slice.value
        if tyv == 'entry' and i in (0, 1):
            return bv, '%s.%d' % (tv, i + 1), 'bytes'
        if tyv == 'header' and i in (0, 1):
            return bv, ('%s.1' % tv) if i == 0 else ('%s.2.1' % tv), 'bytes'
        if tyv == 'mapentry' and i in (0, 1):
            return bv, '%s.%d' % (tv, i + 1), ('int', 'valmap')[i]
        if tyv.startswith('tuple:'):
            parts = tyv[6:].split(',')
            if 0 <= i < len(parts):
                proj = '.' + '.'.join(['2'] * i + (['1'] if i < len(parts) - 1 else []))
                return bv, tv + proj, parts[i]
    if isinstance(e, ast.Subscript):
        bv, tv, tyv = expr(e.value, env, cx)
        bi, ti, tyi = expr(e.slice, env, cx)
        if tyv == 'headers' and tyi == 'obj':
            t = cx.fresh()
            return bv + bi + [B(cx, t, 'Py.Headers.getItem %s %s' % (tv, ti))], t, 'obj'
        if tyi != 'int':
            raise Unsupported('subscript with ' + tyi)
        t = cx.fresh()
        if tyv == 'hdr':
            return bv + bi + [B(cx, t, 'Py.Hdr.get %s %s' % (tv, ti))], t, 'obj'
        if tyv == 'bytes':
            return bv + bi + [B(cx, t, 'Py.getByte %s %s' % (tv, ti))], t, 'int'
        if tyv == 'listint':
            return bv + bi + [B(cx, t, 'Py.listGet %s %s' % (tv, ti))], t, 'int'
        if tyv == 'listentry':
            return bv + bi + [B(cx, t, 'Py.seqGet %s %s' % (tv, ti))], t, 'entry'
        if tyv == 'listtriple':
            return bv + bi + [B(cx, t, 'Py.seqGet %s %s' % (tv, ti))], t, 'triple'
        raise Unsupported('subscript of ' + tyv)
    if isinstance(e, ast.List) and not e.elts and expect and expect.startswith('list'):
        return [], '([] : %s)' % lean_t(expect), expect
    if isinstance(e, ast.List) and not e.elts and getattr(cx, 'empty_list_type', None):
        return [], '([] : %s)' % lean_t(cx.empty_list_type), cx.empty_list_type
    if isinstance(e, ast.List):
        bs, ts = [], []
        for x in e.elts:
            b, t, ty = expr(x, env, cx)
            if ty != 'int':
                raise Unsupported('list of ' + ty)
            bs += b; ts.append(t)
        return bs, '[' + ', '.join(ts) + ']', 'listint'
    if isinstance(e, ast.Tuple):
        bs, ts, tys = [], [], []
        want = expect[6:].split(',') if expect and expect.startswith('tuple:') and len(expect[6:].split(',')) == len(e.elts) else None
        for j, x in enumerate(e.elts):
            b, t, ty = expr(x, env, cx)
            if want:
                t = coerce(t, ty, want[j]); ty = want[j]
            bs += b; ts.append(t); tys.append(ty)
        return bs, '(' + ', '.join(ts) + ')', 'tuple:' + ','.join(tys)
    if isinstance(e, ast.ListComp) and len(e.generators) == 1 and not e.generators[0].ifs and isinstance(e.generators[0].target, ast.Name):
        g = e.generators[0]
        bq, tq, tyq = expr(g.iter, env, cx)
        if tyq != 'listheader':
            raise Unsupported('comprehension over ' + tyq)
        env2 = dict(env); env2[g.target.id] = 'header'
        cx2_method = getattr(cx, 'method', False)
        cx.method = False                      # the element function is a plain function: its binds are R-valued
        try:
            be, te, tye = expr(e.elt, env2, cx)
        finally:
            cx.method = cx2_method
        if tye != 'header':
            raise Unsupported('comprehension producing ' + tye)
        t = cx.fresh()
        body = ' '.join(x + ';' for x in be) + ' .ok ' + te if be else '.ok ' + te
        return bq + [B(cx, t, 'Py.listMapM (fun %s => do %s) %s' % (lname(g.target.id), body, tq))], t, 'listheader'
    # d.get(key) on a dict of bytes keys (an insertion-ordered association list): None when absent
    if isinstance(e, ast.Call) and isinstance(e.func, ast.Attribute) and e.func.attr == 'get' and len(e.args) == 1 and not e.keywords:
        bd, td, tyd = expr(e.func.value, env, cx)
        if tyd in ('staticmap', 'valmap'):
            bk, tk, tyk = expr(e.args[0], env, cx)
            if tyk != 'bytes':
                raise Unsupported('dict key of type ' + tyk)
            return bd + bk, '(Py.assocGet %s %s)' % (td, tk), 'opt:' + ('mapentry' if tyd == 'staticmap' else 'int')
    # header.__class__(a, b): same class as `header`
    if isinstance(e, ast.Call) and isinstance(e.func, ast.Attribute) and e.func.attr == '__class__' and len(e.args) == 2:
        bh, th, tyh = expr(e.func.value, env, cx)
        if tyh != 'header':
            raise Unsupported('__class__ of ' + tyh)
        b1, t1, ty1 = expr(e.args[0], env, cx)
        b2, t2, ty2 = expr(e.args[1], env, cx)
        if ty1 != 'bytes' or ty2 != 'bytes':
            raise Unsupported('header of %s, %s' % (ty1, ty2))
        return bh + b1 + b2, '(%s, %s, %s.2.2)' % (t1, t2, th), 'header'
    # b.decode("utf-8")
    if isinstance(e, ast.Call) and isinstance(e.func, ast.Attribute) and e.func.attr == 'decode' and len(e.args) == 1 \
            and isinstance(e.args[0], ast.Constant) and e.args[0].value == 'utf-8':
        b, t, ty = expr(e.func.value, env, cx)
        if ty != 'bytes':
            raise Unsupported('decode of ' + ty)
        tt = cx.fresh()
        return b + [B(cx, tt, 'Py.utf8Decode Impl.validUtf8 %s' % t)], tt, 'bytes'
    # self.<sub-object>.<method>(...)
    if isinstance(e, ast.Call) and isinstance(e.func, ast.Attribute) and _is_self_attr(e.func.value) and cx.cls \
            and cx.cls['fields'].get(e.func.value.attr, '').startswith('obj:'):
        ocls = cx.cls['fields'][e.func.value.attr][4:]
        ext = cx.cls.get('extern', {}).get(ocls, {})
        if e.func.attr not in ext.get('methods', {}):
            raise Unsupported('method %s of %s' % (e.func.attr, ocls))
        ptys, rty = ext['methods'][e.func.attr]
        bs, ts = [], []
        for a, pt in zip(e.args, ptys):
            b, t, ty = expr(a, env, cx)
            if ty != pt:
                raise Unsupported('argument of %s.%s: %s where %s is expected' % (ocls, e.func.attr, ty, pt))
            bs += b; ts.append(t)
        if len(e.args) != len(ptys) or e.keywords:
            raise Unsupported('arity of %s.%s' % (ocls, e.func.attr))
        lines, tt = sub_call(cx, e.func.value.attr, ocls, e.func.attr, ts)
        return bs + lines, tt, rty
    # self.<own method>(...)
    if isinstance(e, ast.Call) and _is_self_attr(e.func) and cx.cls and e.func.attr in cx.cls['methods']:
        ptys, rty = cx.cls['methods'][e.func.attr]
        pnames = cx.cls.get('method_params', {}).get(e.func.attr, [])
        vals = list(e.args) + [None] * (len(ptys) - len(e.args))
        for kw in e.keywords:
            if kw.arg not in pnames:
                raise Unsupported('keyword ' + str(kw.arg))
            vals[pnames.index(kw.arg)] = kw.value
        if any(v is None for v in vals) or len(vals) != len(ptys):
            raise Unsupported('arity of self.' + e.func.attr)
        bs, ts = [], []
        for a, pt in zip(vals, ptys):
            b, t, ty = expr(a, env, cx)
            t = coerce(t, ty, pt)
            bs += b; ts.append(t)
        lines, tt = own_call(cx, e.func.attr, ts)
        return bs + lines, tt, rty
    if isinstance(e, ast.Call) and isinstance(e.func, ast.Attribute) and e.func.attr == 'join' and isinstance(e.func.value, ast.Constant) \
            and e.func.value.value == b'' and len(e.args) == 1 and isinstance(e.args[0], ast.List):
        bs, ts = [], []
        for x in e.args[0].elts:
            b, t, ty = expr(x, env, cx)
            if ty != 'bytes':
                raise Unsupported('join of ' + ty)
            bs += b; ts.append(t)
        return bs, '(' + ' ++ '.join(ts) + ')' if ts else '([] : List UInt8)', 'bytes'
    # ---- dynamically typed values at the Encoder.encode boundary (Py.Obj / Py.Hdr / Py.Headers)
    if isinstance(e, ast.Call) and isinstance(e.func, ast.Name) and e.func.id == 'type' and len(e.args) == 1 and not e.keywords:
        b, t, ty = expr(e.args[0], env, cx)
        if ty == 'obj':
            return b, '(Py.Obj.typeOf %s)' % t, 'pytype'
        raise Unsupported('type() of ' + ty)
    if isinstance(e, ast.Call) and isinstance(e.func, ast.Name) and e.func.id == 'str' and len(e.args) == 1 and not e.keywords:
        b, t, ty = expr(e.args[0], env, cx)
        if ty == 'obj':
            tt = cx.fresh()
            return b + [B(cx, tt, 'Py.Obj.strOf %s' % t)], tt, 'obj'
        raise Unsupported('str() of ' + ty)
    if isinstance(e, ast.Call) and isinstance(e.func, ast.Name) and e.func.id == 'iter' and len(e.args) == 1 and not e.keywords:
        b, t, ty = expr(e.args[0], env, cx)
        if ty == 'headers':
            tt = cx.fresh()
            return b + [B(cx, tt, 'Py.Headers.iter %s' % t)], tt, 'listhdr'
        raise Unsupported('iter() of ' + ty)
    if isinstance(e, ast.Call) and isinstance(e.func, ast.Attribute) and e.func.attr == 'encode' and len(e.args) == 1 \
            and isinstance(e.args[0], ast.Constant) and e.args[0].value == 'utf-8' and not e.keywords:
        b, t, ty = expr(e.func.value, env, cx)
        if ty == 'obj':
            tt = cx.fresh()
            return b + [B(cx, tt, 'Py.Obj.encodeUtf8 %s' % t)], tt, 'bytes'
    if isinstance(e, ast.Call) and isinstance(e.func, ast.Attribute) and e.func.attr == 'startswith' and len(e.args) == 1 and not e.keywords:
        b1, t1, ty1 = expr(e.func.value, env, cx)
        b2, t2, ty2 = expr(e.args[0], env, cx)
        if ty1 == 'bytes' and ty2 == 'bytes':
            return b1 + b2, '(Py.startsWith %s %s)' % (t1, t2), 'bool'
        raise Unsupported('startswith on %s, %s' % (ty1, ty2))
    if isinstance(e, ast.Call) and isinstance(e.func, ast.Attribute) and e.func.attr == 'keys' and not e.args and not e.keywords:
        b, t, ty = expr(e.func.value, env, cx)
        if ty == 'headers':
            tt = cx.fresh()
            return b + [B(cx, tt, 'Py.Headers.keys %s' % t)], tt, 'listobj'
    if isinstance(e, ast.Attribute) and e.attr == 'indexable' and isinstance(e.value, ast.Name) and env.get(e.value.id) == 'hdr':
        tt = cx.fresh()
        return [B(cx, tt, 'Py.Hdr.indexable %s' % lname(e.value.id))], tt, 'bool'
    if isinstance(e, ast.Subscript) and isinstance(e.value, ast.Name) and env.get(e.value.id) == 'hdr' and not isinstance(e.slice, ast.Slice):
        bi, ti, tyi = expr(e.slice, env, cx)
        if tyi != 'int':
            raise Unsupported('subscript with ' + tyi)
        tt = cx.fresh()
        return bi + [B(cx, tt, 'Py.Hdr.get %s %s' % (lname(e.value.id), ti))], tt, 'obj'
    if isinstance(e, ast.Subscript) and isinstance(e.value, ast.Name) and env.get(e.value.id) == 'headers' and not isinstance(e.slice, ast.Slice):
        bi, ti, tyi = expr(e.slice, env, cx)
        if tyi != 'obj':
            raise Unsupported('dict key of type ' + tyi)
        tt = cx.fresh()
        return bi + [B(cx, tt, 'Py.Headers.getItem %s %s' % (lname(e.value.id), ti))], tt, 'obj'
    # sorted(xs, key=lambda k: <bool>): the keys are computed first, in order (an exception stops there), then a stable sort
    if isinstance(e, ast.Call) and isinstance(e.func, ast.Name) and e.func.id == 'sorted' and len(e.args) == 1 and len(e.keywords) == 1 \
            and e.keywords[0].arg == 'key' and isinstance(e.keywords[0].value, ast.Lambda) and len(e.keywords[0].value.args.args) == 1:
        lam = e.keywords[0].value
        bq, tq, tyq = expr(e.args[0], env, cx)
        if tyq != 'listobj':
            raise Unsupported('sorted over ' + tyq)
        kv = lam.args.args[0].arg
        env2 = dict(env); env2[kv] = 'obj'
        was = getattr(cx, 'method', False)
        cx.method = False
        try:
            bk, tk, tyk = expr(lam.body, env2, cx)
        finally:
            cx.method = was
        if tyk != 'bool':
            raise Unsupported('sort key of type ' + tyk)
        tt = cx.fresh()
        body = ' '.join(x + ';' for x in bk) + ' .ok ' + tk if bk else '.ok ' + tk
        return bq + [B(cx, tt + '_k', 'Py.listMapM (fun %s => do %s) %s' % (lname(kv), body, tq))], '(Py.sortedByBool %s %s_k)' % (tq, tt), 'listobj'
    if isinstance(e, ast.Call) and isinstance(e.func, ast.Attribute) and e.func.attr == 'join' and isinstance(e.func.value, ast.Constant) \
            and e.func.value.value == b'' and len(e.args) == 1 and isinstance(e.args[0], ast.Name) and env.get(e.args[0].id) == 'listbytes':
        return [], '(Py.joinBytes %s)' % lname(e.args[0].id), 'bytes'
    if isinstance(e, ast.Call) and isinstance(e.func, ast.Name) and e.func.id == 'ord' and len(e.args) == 1:
        b, t, ty = expr(e.args[0], env, cx)
        if ty != 'bytes':
            raise Unsupported('ord of ' + ty)
        tt = cx.fresh()
        return b + [B(cx, tt, 'Py.ord1 %s' % t)], tt, 'int'
    if isinstance(e, ast.Call) and isinstance(e.func, ast.Name):
        f = e.func.id
        if f in ('HeaderTuple', 'NeverIndexedHeaderTuple') and not e.keywords:
            never = 'true' if f == 'NeverIndexedHeaderTuple' else 'false'
            if len(e.args) == 1 and isinstance(e.args[0], ast.Starred):
                b, t, ty = expr(e.args[0].value, env, cx)
                if ty != 'entry':
                    raise Unsupported('%s(*%s)' % (f, ty))
                return b, '(%s.1, %s.2, %s)' % (t, t, never), 'header'
            if len(e.args) == 2:
                b1, t1, ty1 = expr(e.args[0], env, cx)
                b2, t2, ty2 = expr(e.args[1], env, cx)
                if ty1 == 'bytes' and ty2 == 'bytes':
                    return b1 + b2, '(%s, %s, %s)' % (t1, t2, never), 'header'
            raise Unsupported('call of ' + f)
        if f == 'bool' and len(e.args) == 1 and not e.keywords:
            b, c = cond(e.args[0], env, cx)
            return b, '(decide %s)' % c, 'bool'
        if f == 'memoryview' and len(e.args) == 1:
            b, t, ty = expr(e.args[0], env, cx)
            if ty == 'bytes':
                return b, t, 'bytes'
        if f in ('bytearray', 'bytes') and not e.args and not e.keywords:
            return [], '([] : List UInt8)', 'bytes'
        if f in ('bytearray', 'bytes') and len(e.args) == 1 and not e.keywords:
            b, t, ty = expr(e.args[0], env, cx)
            if ty == 'listint':
                tt = cx.fresh()
                return b + [B(cx, tt, 'Py.bytesOfInts %s' % t)], tt, 'bytes'
            if ty == 'bytes':
                return b, t, 'bytes'
            raise Unsupported('%s(%s)' % (f, ty))
        if f == 'len' and len(e.args) == 1:
            b, t, ty = expr(e.args[0], env, cx)
            if ty in ('bytes', 'listint', 'listentry', 'hexstr'):
                return b, '((%s).length : Int)' % t, 'int'
            if ty == 'hdr':
                return b, '(Py.Hdr.len %s)' % t, 'int'
        if f == 'int' and len(e.args) == 1:
            b, t, ty = expr(e.args[0], env, cx)
            if ty == 'int':
                return b, t, 'int'
        if f in cx.funcs and not e.keywords:
            ptys, rty = cx.funcs[f]
            if len(e.args) != len(ptys):
                raise Unsupported('arity of ' + f)
            bs, ts = [], []
            for a, pt in zip(e.args, ptys):
                b, t, ty = expr(a, env, cx)
                if ty != pt:
                    raise Unsupported('argument of %s: %s where %s is expected' % (f, ty, pt))
                bs += b; ts.append(t)
            tt = cx.fresh()
            return bs + [B(cx, tt, '%s fuel %s' % (lname(f), ' '.join(ts)))], tt, rty
        raise Unsupported('call of ' + f)
    raise Unsupported('expression ' + type(e).__name__)


def cond(e, env, cx):
    """-> (binds, Lean Prop text)"""
    if isinstance(e, ast.Constant) and isinstance(e.value, bool):
        return [], 'True' if e.value else 'False'
    if isinstance(e, ast.BoolOp):
        parts = [cond(v, env, cx) for v in e.values]
        if any(b for b, _ in parts[1:]):
            raise Unsupported('partial operation behind a short-circuit operator')
        return parts[0][0], '(' + (' ∨ ' if isinstance(e.op, ast.Or) else ' ∧ ').join(t for _, t in parts) + ')'
    if isinstance(e, ast.UnaryOp) and isinstance(e.op, ast.Not):
        b, t = cond(e.operand, env, cx)
        return b, '(¬ %s)' % t
    if isinstance(e, ast.Call) and isinstance(e.func, ast.Name) and e.func.id == 'isinstance' and len(e.args) == 2 and isinstance(e.args[1], ast.Name):
        b, t, ty = expr(e.args[0], env, cx)
        if ty == 'headers' and e.args[1].id == 'dict':
            return b, '(Py.Headers.isDict %s = true)' % t
        if ty == 'hdr' and e.args[1].id == 'HeaderTuple':
            return b, '(Py.Hdr.isHeaderTuple %s = true)' % t
        raise Unsupported('isinstance(%s, %s)' % (ty, e.args[1].id))
    if isinstance(e, ast.Compare) and len(e.ops) == 1 and isinstance(e.ops[0], (ast.Is, ast.IsNot)) and isinstance(e.comparators[0], ast.Name) \
            and e.comparators[0].id in ('bytes', 'str') and e.comparators[0].id not in env:
        b, t, ty = expr(e.left, env, cx)
        if ty != 'pytype':
            raise Unsupported('identity test of ' + ty)
        return b, '(%s %s Py.Ty.%s)' % (t, '=' if isinstance(e.ops[0], ast.Is) else '≠', e.comparators[0].id)
    if not isinstance(e, ast.Compare):
        # truthiness of a value: a non-zero integer, a non-empty bytes object, a true bool
        b, t, ty = expr(e, env, cx)
        if ty == 'int':
            return b, '(%s ≠ (0 : Int))' % t
        if ty in ('bytes', 'listint', 'listentry'):
            return b, '(%s ≠ [])' % t
        if ty == 'bool':
            return b, '(%s = true)' % t
        if ty == 'header':
            return b, 'True'               # a 2-tuple is never empty
        if ty == 'none':
            return b, 'False'
        if ty == 'listheader':
            return b, '(%s ≠ [])' % t
        raise Unsupported('truth value of ' + ty)
    if isinstance(e, ast.Compare):
        items = [e.left] + list(e.comparators)
        if len(e.ops) == 1 and isinstance(e.ops[0], (ast.Is, ast.IsNot)) and isinstance(e.comparators[0], ast.Constant) and e.comparators[0].value is None:
            b, t, ty = expr(e.left, env, cx)
            if ty == 'none':
                return b, 'True' if isinstance(e.ops[0], ast.Is) else 'False'
            if not ty.startswith('opt:'):
                return b, 'False' if isinstance(e.ops[0], ast.Is) else 'True'
            return b, '(%s %s none)' % (t, '=' if isinstance(e.ops[0], ast.Is) else '≠')
        bs, ts = [], []
        tys_ = []
        for x in items:
            b, t, ty = expr(x, env, cx)
            tys_.append(ty)
            bs += b; ts.append(t)
        if all(ty == 'bytes' for ty in tys_) and all(isinstance(o, (ast.Eq, ast.NotEq)) for o in e.ops):
            pass
        elif any(ty != 'int' for ty in tys_):
            raise Unsupported('comparison of ' + ', '.join(tys_))
        sym = {'Lt': '<', 'Gt': '>', 'LtE': '≤', 'GtE': '≥', 'Eq': '=', 'NotEq': '≠'}
        cs = []
        for i, op in enumerate(e.ops):
            if type(op).__name__ not in sym:
                raise Unsupported('comparison ' + type(op).__name__)
            cs.append('%s %s %s' % (ts[i], sym[type(op).__name__], ts[i + 1]))
        return bs, '(' + ' ∧ '.join(cs) + ')'
    raise Unsupported('condition ' + type(e).__name__)      # not reached


# ------------------------------------------------------------------------------------------------ statements
def names_in(node):
    return [n.id for n in ast.walk(node) if isinstance(n, ast.Name)]


def _is_self_attr(n):
    return isinstance(n, ast.Attribute) and isinstance(n.value, ast.Name) and n.value.id == 'self'


def assigned_in(stmts):
    out = []
    for s in stmts:
        for n in ast.walk(s):
            tg = []
            if isinstance(n, ast.Call) and isinstance(n.func, ast.Attribute) and \
                    (_is_self_attr(n.func) or _is_self_attr(n.func.value)) and 'self' not in out:
                out.append('self')        # self.method(...) or self.attr.method(...): may mutate the object
            if isinstance(n, ast.Assign):
                tg = n.targets
            elif isinstance(n, ast.AugAssign):
                tg = [n.target]
            elif isinstance(n, ast.Expr) and isinstance(n.value, ast.Call) and isinstance(n.value.func, ast.Attribute) \
                    and n.value.func.attr == 'append' and isinstance(n.value.func.value, ast.Name):
                tg = [n.value.func.value]
            for t in tg:
                for x in ast.walk(t):
                    if isinstance(x, ast.Name) and x.id not in out:
                        out.append(x.id)
    return out


def ret_ok(env, text, cx):
    """the value a `return` produces: methods also hand back the object"""
    return '.ok (self, %s)' % text if env.get('self', '').startswith('self:') else '.ok %s' % text


def _is_str_expr(v):
    return isinstance(v, ast.JoinedStr) or (isinstance(v, ast.Constant) and isinstance(v.value, str)) or \
        (isinstance(v, ast.BinOp) and isinstance(v.op, ast.Mod) and _is_str_expr(v.left))


def message_vars(stmts):
    """names that only ever receive message strings (opaque, never tracked)"""
    val = {}
    for s in stmts:
        for n in ast.walk(s):
            if isinstance(n, ast.Assign) and len(n.targets) == 1 and isinstance(n.targets[0], ast.Name):
                val.setdefault(n.targets[0].id, []).append(_is_str_expr(n.value))
    return {k for k, v in val.items() if all(v)}


def toplevel_assigned(stmts):
    """names assigned outside any loop of this statement list"""
    out = []
    for s in stmts:
        if isinstance(s, (ast.While, ast.For)):
            continue
        if isinstance(s, ast.If):
            for x in toplevel_assigned(s.body) + toplevel_assigned(s.orelse):
                if x not in out:
                    out.append(x)
        elif isinstance(s, ast.Try):
            for x in toplevel_assigned(s.body):
                if x not in out:
                    out.append(x)
        else:
            for x in assigned_in([s]):
                if x not in out:
                    out.append(x)
    return out


class K:
    """continuation of a statement list: what `fall off the end`, `break` and `return` mean here"""
    def __init__(self, fall, brk=None, ret_ok=False, ret=None):
        self.fall, self.brk, self.ret_ok, self.ret = fall, brk, ret_ok, ret


def ind(lines, n=2):
    return [' ' * n + l for l in lines]


def is_dropped(s):
    if isinstance(s, ast.Expr):
        v = s.value
        if isinstance(v, ast.Constant) and isinstance(v.value, str):
            return True
        if isinstance(v, ast.Call) and isinstance(v.func, ast.Attribute) and isinstance(v.func.value, ast.Name) \
                and v.func.value.id == 'log' and v.func.attr in ('debug', 'info', 'warning'):
            return True
    if isinstance(s, ast.Pass):
        return True
    return False


def tuple_text(vs):
    return '(' + ', '.join(lname(v) for v in vs) + ')' if len(vs) != 1 else lname(vs[0])


def tr(stmts, env, cx, k):
    """-> list of Lean lines (a term of type R _ written as the tail of a `do` block)"""
    if not stmts:
        return k.fall(env)
    s, rest = stmts[0], stmts[1:]
    if is_dropped(s):
        return tr(rest, env, cx, k)
    if isinstance(s, ast.AnnAssign) and isinstance(s.target, ast.Name):
        if s.value is None:
            return tr(rest, env, cx, k)          # a bare annotation
        ann = ast.unparse(s.annotation)
        cx.empty_list_type = {'list[HeaderTuple]': 'listheader', 'list[int]': 'listint'}.get(ann)
        try:
            return tr([ast.Assign(targets=[s.target], value=s.value)] + rest, env, cx, k)
        finally:
            cx.empty_list_type = None
    # self.<sub-object>.<property> = value
    if isinstance(s, ast.Assign) and len(s.targets) == 1 and isinstance(s.targets[0], ast.Attribute) and _is_self_attr(s.targets[0].value) \
            and cx.cls and cx.cls['fields'].get(s.targets[0].value.attr, '').startswith('obj:'):
        ocls = cx.cls['fields'][s.targets[0].value.attr][4:]
        ext = cx.cls.get('extern', {}).get(ocls, {})
        prop = s.targets[0].attr
        if prop not in ext.get('properties', {}) and prop in ext.get('fields', {}):
            sub = s.targets[0].value.attr
            b, t, ty = expr(s.value, env, cx)
            if ty != ext['fields'][prop]:
                raise Unsupported('type of %s.%s' % (sub, prop))
            return b + ['let self := { self with %s := { self.%s with %s := %s } }' % (fname_(sub), fname_(sub), fname_(prop), t)] + tr(rest, env, cx, k)
        if prop not in ext.get('properties', {}):
            raise Unsupported('assignment to %s.%s' % (ocls, prop))
        b, t, ty = expr(s.value, env, cx)
        if ty != ext['properties'][prop]:
            raise Unsupported('type of %s.%s' % (ocls, prop))
        lines, tt = sub_call(cx, s.targets[0].value.attr, ocls, prop + '.setter', [t])
        return b + lines + tr(rest, env, cx, k)
    # self.<sub-object>.<plain field> = value
    if isinstance(s, ast.Assign) and len(s.targets) == 1 and isinstance(s.targets[0], ast.Attribute) and _is_self_attr(s.targets[0].value) \
            and cx.cls and cx.cls['fields'].get(s.targets[0].value.attr, '').startswith('obj:') \
            and s.targets[0].attr in cx.cls.get('extern', {}).get(cx.cls['fields'][s.targets[0].value.attr][4:], {}).get('fields', {}):
        sub = s.targets[0].value.attr
        fty = cx.cls['extern'][cx.cls['fields'][sub][4:]]['fields'][s.targets[0].attr]
        b, t, ty = expr(s.value, env, cx)
        if ty != fty:
            raise Unsupported('type of %s.%s' % (sub, s.targets[0].attr))
        return b + ['let self := { self with %s := { self.%s with %s := %s } }' % (fname_(sub), fname_(sub), fname_(s.targets[0].attr), t)] + tr(rest, env, cx, k)
    # self.<list field>.append(x)
    if isinstance(s, ast.Expr) and isinstance(s.value, ast.Call) and isinstance(s.value.func, ast.Attribute) and s.value.func.attr == 'append' \
            and _is_self_attr(s.value.func.value) and cx.cls and cx.cls['fields'].get(s.value.func.value.attr) == 'listint' and len(s.value.args) == 1:
        b, t, ty = expr(s.value.args[0], env, cx)
        if ty != 'int':
            raise Unsupported('append of ' + ty)
        fld = fname_(s.value.func.value.attr)
        return b + ['let self := { self with %s := self.%s ++ [%s] }' % (fld, fld, t)] + tr(rest, env, cx, k)
    # self.<own property> = value
    if isinstance(s, ast.Assign) and len(s.targets) == 1 and _is_self_attr(s.targets[0]) and cx.cls \
            and s.targets[0].attr in cx.cls.get('properties', {}):
        b, t, ty = expr(s.value, env, cx)
        if ty != cx.cls['properties'][s.targets[0].attr]:
            raise Unsupported('type of property ' + s.targets[0].attr)
        lines, tt = own_call(cx, s.targets[0].attr + '.setter', [t])
        return b + lines + tr(rest, env, cx, k)
    # a, b = <tuple-typed expression>
    if isinstance(s, ast.Assign) and len(s.targets) == 1 and isinstance(s.targets[0], ast.Tuple) \
            and all(isinstance(x, ast.Name) for x in s.targets[0].elts) and len(s.targets[0].elts) == 2 \
            and not (isinstance(s.value, ast.Call) and isinstance(s.value.func, ast.Attribute) and s.value.func.attr == 'pop'):
        bb, t, ty = expr(s.value, env, cx)
        if ty.startswith('tuple:') and len(ty[6:].split(',')) == 2:
            t1, t2 = ty[6:].split(',')
            a, b_ = [x.id for x in s.targets[0].elts]
            env2 = dict(env); env2[a] = t1; env2[b_] = t2
            return bb + ['let %s := %s.1' % (lname(a), t), 'let %s := %s.2' % (lname(b_), t)] + tr(rest, env2, cx, k)
        if ty != 'entry':
            raise Unsupported('unpacking of ' + ty)
        a, b_ = [x.id for x in s.targets[0].elts]
        env2 = dict(env); env2[a] = 'bytes'; env2[b_] = 'bytes'
        return bb + ['let %s := %s.1' % (lname(a), t), 'let %s := %s.2' % (lname(b_), t)] + tr(rest, env2, cx, k)
    # statement calls: self.<sub-object>.<method>(...) / self.<own method>(...)
    if isinstance(s, ast.Expr) and isinstance(s.value, ast.Call) and isinstance(s.value.func, ast.Attribute) and \
            ((_is_self_attr(s.value.func.value) and cx.cls and cx.cls['fields'].get(s.value.func.value.attr, '').startswith('obj:')) or
             (_is_self_attr(s.value.func) and cx.cls and s.value.func.attr in cx.cls['methods'] and cx.cls.get('extern') is not None)):
        b, t, ty = expr(s.value, env, cx)
        return b + tr(rest, env, cx, k)
    if isinstance(s, ast.Assign) and len(s.targets) == 1 and _is_self_attr(s.targets[0]):
        attr = s.targets[0].attr
        if not cx.cls or attr not in cx.cls['fields']:
            raise Unsupported('assignment to self.%s' % attr)
        if isinstance(s.value, ast.List) and not s.value.elts and cx.cls['fields'][attr] in ('listint', 'listheader'):
            return ['let self := { self with %s := [] }' % fname_(attr)] + tr(rest, env, cx, k)
        b, t, ty = expr(s.value, env, cx)
        if ty != cx.cls['fields'][attr]:
            raise Unsupported('self.%s: %s assigned where %s is expected' % (attr, ty, cx.cls['fields'][attr]))
        return b + ['let self := { self with %s := %s }' % (fname_(attr), t)] + tr(rest, env, cx, k)
    if isinstance(s, ast.Assign) and len(s.targets) == 1 and isinstance(s.targets[0], ast.Tuple) \
            and all(isinstance(x, ast.Name) for x in s.targets[0].elts) and len(s.targets[0].elts) == 2:
        a, b_ = [x.id for x in s.targets[0].elts]
        v = s.value
        if isinstance(v, ast.Call) and isinstance(v.func, ast.Attribute) and v.func.attr == 'pop' and not v.args \
                and _is_self_attr(v.func.value) and cx.cls and cx.cls['fields'].get(v.func.value.attr) == 'listentry':
            fld = fname_(v.func.value.attr)         # deque.pop(): the right end; IndexError when empty
            tt = cx.fresh()
            env2 = dict(env); env2[a] = 'bytes'; env2[b_] = 'bytes'
            return [B(cx, '(%s, %s_rest)' % (tt, tt), 'Py.popRight self.%s' % fld), 'let self := { self with %s := %s_rest }' % (fld, tt),
                    'let %s := %s.1' % (lname(a), tt), 'let %s := %s.2' % (lname(b_), tt)] + tr(rest, env2, cx, k)
        bb, t, ty = expr(v, env, cx)
        if ty != 'entry':
            raise Unsupported('unpacking of ' + ty)
        env2 = dict(env); env2[a] = 'bytes'; env2[b_] = 'bytes'
        return bb + ['let %s := %s.1' % (lname(a), t), 'let %s := %s.2' % (lname(b_), t)] + tr(rest, env2, cx, k)
    if isinstance(s, ast.Assign) and len(s.targets) == 1 and isinstance(s.targets[0], ast.Tuple) \
            and all(isinstance(x, ast.Name) for x in s.targets[0].elts) and len(s.targets[0].elts) == 3:
        a, b_, c_ = [x.id for x in s.targets[0].elts]
        bb, t, ty = expr(s.value, env, cx)
        if ty.startswith('tuple:') and len(ty[6:].split(',')) == 3:
            p1, p2, p3 = ty[6:].split(',')
            env2 = dict(env); env2[a] = p1; env2[b_] = p2; env2[c_] = p3
            return bb + ['let %s := %s.1' % (lname(a), t), 'let %s := %s.2.1' % (lname(b_), t), 'let %s := %s.2.2' % (lname(c_), t)] + tr(rest, env2, cx, k)
        if ty != 'triple':
            raise Unsupported('unpacking of ' + ty)
        env2 = dict(env); env2[a] = 'int'; env2[b_] = 'int'; env2[c_] = 'int'
        return bb + ['let %s := %s.1' % (lname(a), t), 'let %s := %s.2.1' % (lname(b_), t), 'let %s := %s.2.2' % (lname(c_), t)] + tr(rest, env2, cx, k)
    if isinstance(s, ast.Assign):
        if len(s.targets) != 1 or not isinstance(s.targets[0], ast.Name):
            raise Unsupported('assignment target')
        name = s.targets[0].id
        decl = getattr(cx, 'var_types', {}).get(name)
        if decl:
            b, t, ty = expr(s.value, env, cx, expect=decl[4:] if decl.startswith('opt:') else decl)
            t = coerce(t, ty, decl); ty = decl
        else:
            b, t, ty = expr(s.value, env, cx)
        if ty == 'str':
            return b + tr(rest, env, cx, k)          # opaque strings (messages) are not tracked
        if ty == 'tuple:bytes,bytes':
            ty = 'entry'
        if ty.startswith('tuple'):
            raise Unsupported('tuple assignment')
        env2 = dict(env); env2[name] = ty
        return b + ['let %s := %s' % (lname(name), t)] + tr(rest, env2, cx, k)
    if isinstance(s, ast.AugAssign) and isinstance(s.op, ast.BitOr) and isinstance(s.target, ast.Subscript) \
            and isinstance(s.target.value, ast.Name) and env.get(s.target.value.id) == 'bytes' \
            and isinstance(s.target.slice, ast.Constant) and s.target.slice.value == 0:
        b, t, ty = expr(s.value, env, cx)
        if ty != 'int':
            raise Unsupported('|= of ' + ty)
        v = s.target.value.id
        tt = cx.fresh()
        return b + [B(cx, tt, 'Py.setFirstOr %s %s' % (lname(v), t)), 'let %s := %s' % (lname(v), tt)] + tr(rest, env, cx, k)
    if isinstance(s, ast.AugAssign) and isinstance(s.op, ast.Add) and isinstance(s.target, ast.Name) and env.get(s.target.id) == 'bytes':
        b, t, ty = expr(s.value, env, cx)
        if ty != 'bytes':
            raise Unsupported('bytes += ' + ty)
        return b + ['let %s := %s ++ %s' % (lname(s.target.id), lname(s.target.id), t)] + tr(rest, env, cx, k)
    if isinstance(s, ast.AugAssign) and _is_self_attr(s.target):
        attr = s.target.attr
        if not cx.cls or cx.cls['fields'].get(attr) != 'int':
            raise Unsupported('augmented assignment to self.%s' % attr)
        fake = ast.BinOp(left=s.target, op=s.op, right=s.value)
        b, t, ty = expr(fake, env, cx)
        return b + ['let self := { self with %s := %s }' % (fname_(attr), t)] + tr(rest, env, cx, k)
    if isinstance(s, ast.Expr) and isinstance(s.value, ast.Call) and isinstance(s.value.func, ast.Attribute) \
            and _is_self_attr(s.value.func.value) and cx.cls and cx.cls['fields'].get(s.value.func.value.attr) == 'listentry':
        fld, meth, args = fname_(s.value.func.value.attr), s.value.func.attr, s.value.args
        if meth == 'clear' and not args:
            return ['let self := { self with %s := [] }' % fld] + tr(rest, env, cx, k)
        if meth == 'appendleft' and len(args) == 1 and isinstance(args[0], ast.Tuple) and len(args[0].elts) == 2:
            bs, ts = [], []
            for x in args[0].elts:
                b, t, ty = expr(x, env, cx)
                if ty != 'bytes':
                    raise Unsupported('appendleft of ' + ty)
                bs += b; ts.append(t)
            return bs + ['let self := { self with %s := (%s, %s) :: self.%s }' % (fld, ts[0], ts[1], fld)] + tr(rest, env, cx, k)
        raise Unsupported('deque method ' + meth)
    if isinstance(s, ast.Expr) and isinstance(s.value, ast.Call) and _is_self_attr(s.value.func) and cx.cls \
            and s.value.func.attr in cx.cls['methods']:
        ptys, rty = cx.cls['methods'][s.value.func.attr]
        if len(s.value.args) != len(ptys) or s.value.keywords:
            raise Unsupported('arity of self.' + s.value.func.attr)
        bs, ts = [], []
        for a, pt in zip(s.value.args, ptys):
            b, t, ty = expr(a, env, cx)
            if ty != pt:
                raise Unsupported('argument type')
            bs += b; ts.append(t)
        tt = cx.fresh()
        return bs + ['let (%s, _) ← %s.%s fuel self %s' % (tt, cx.cls['name'], lname_m(s.value.func.attr), ' '.join(ts)), 'let self := %s' % tt] + tr(rest, env, cx, k)
    if isinstance(s, ast.AugAssign):
        if not isinstance(s.target, ast.Name) or s.target.id not in env:
            raise Unsupported('augmented assignment target')
        fake = ast.BinOp(left=ast.Name(id=s.target.id, ctx=ast.Load()), op=s.op, right=s.value)
        b, t, ty = expr(fake, env, cx)
        return b + ['let %s := %s' % (lname(s.target.id), t)] + tr(rest, env, cx, k)
    if isinstance(s, ast.Expr) and isinstance(s.value, ast.Call) and isinstance(s.value.func, ast.Attribute) \
            and s.value.func.attr == 'append' and isinstance(s.value.func.value, ast.Name):
        lst = s.value.func.value.id
        if env.get(lst) == 'listheader' and len(s.value.args) == 1:
            b, t, ty = expr(s.value.args[0], env, cx)
            if ty != 'header':
                raise Unsupported('append of ' + ty)
            return b + ['let %s := %s ++ [%s]' % (lname(lst), lname(lst), t)] + tr(rest, env, cx, k)
        if env.get(lst) == 'listbytes' and len(s.value.args) == 1:
            b, t, ty = expr(s.value.args[0], env, cx)
            if ty != 'bytes':
                raise Unsupported('append of ' + ty)
            return b + ['let %s := %s ++ [%s]' % (lname(lst), lname(lst), t)] + tr(rest, env, cx, k)
        if env.get(lst) == 'listhdr' and len(s.value.args) == 1 and isinstance(s.value.args[0], ast.Tuple):
            bs, ts = [], []
            for x in s.value.args[0].elts:
                b, t, ty = expr(x, env, cx)
                if ty != 'obj':
                    raise Unsupported('tuple element of type ' + ty)
                bs += b; ts.append(t)
            return bs + ['let %s := %s ++ [Py.Hdr.tuple [%s]]' % (lname(lst), lname(lst), ', '.join(ts))] + tr(rest, env, cx, k)
        if env.get(lst) == 'bytes' and len(s.value.args) == 1:          # bytearray.append(int): ValueError outside range(256)
            b, t, ty = expr(s.value.args[0], env, cx)
            if ty != 'int':
                raise Unsupported('append of ' + ty)
            tt = cx.fresh()
            return b + [B(cx, tt, 'Py.bytesAppend %s %s' % (lname(lst), t)), 'let %s := %s' % (lname(lst), tt)] + tr(rest, env, cx, k)
        if env.get(lst) != 'listint' or len(s.value.args) != 1:
            raise Unsupported('append on ' + str(env.get(lst)))
        b, t, ty = expr(s.value.args[0], env, cx)
        if ty != 'int':
            raise Unsupported('append of ' + ty)
        return b + ['let %s := %s ++ [%s]' % (lname(lst), lname(lst), t)] + tr(rest, env, cx, k)
    if isinstance(s, ast.If):
        # `if x:` / `if x is not None:` on an Optional value that the branches do not reassign: a match that names the payload
        nv = None
        if isinstance(s.test, ast.Name) and env.get(s.test.id, '').startswith('opt:'):
            nv = s.test.id
        elif isinstance(s.test, ast.Compare) and len(s.test.ops) == 1 and isinstance(s.test.ops[0], ast.IsNot) \
                and isinstance(s.test.left, ast.Name) and env.get(s.test.left.id, '').startswith('opt:') \
                and isinstance(s.test.comparators[0], ast.Constant) and s.test.comparators[0].value is None:
            nv = s.test.left.id
        swap = False
        if nv is None and isinstance(s.test, ast.Compare) and len(s.test.ops) == 1 and isinstance(s.test.ops[0], ast.Is) \
                and isinstance(s.test.left, ast.Name) and env.get(s.test.left.id, '').startswith('opt:') \
                and isinstance(s.test.comparators[0], ast.Constant) and s.test.comparators[0].value is None \
                and s.body and isinstance(s.body[-1], (ast.Return, ast.Raise)) and not s.orelse:
            nv = s.test.left.id
            swap = True
        if nv is not None and swap and nv not in assigned_in(list(s.body) + rest):
            env_s = dict(env); env_s[nv] = env[nv][4:]
            env_n = dict(env); env_n[nv] = 'none'
            a = tr(list(s.body), env_n, cx, k)
            o = tr(rest, env_s, cx, k)
            return ['match %s with' % lname(nv), '| none => do'] + ind(a) + ['| some %s => do' % lname(nv)] + ind(o)
        if nv is not None and not swap and nv not in assigned_in(list(s.body) + list(s.orelse) + rest):
            inner = env[nv][4:]
            if isinstance(s.test, ast.Name) and not (inner.startswith('tuple:') or inner in ('mapentry', 'entry', 'header')):
                raise Unsupported('truth value of an Optional %s' % inner)     # e.g. Optional[int]: 0 is falsy too
            env_s = dict(env); env_s[nv] = inner
            env_n = dict(env); env_n[nv] = 'none'
            a = tr(list(s.body) + rest, env_s, cx, k)
            o = tr(list(s.orelse) + rest, env_n, cx, k)
            return ['match %s with' % lname(nv), '| some %s => do' % lname(nv)] + ind(a) + ['| none => do'] + ind(o)
        b, c = cond(s.test, env, cx)
        if c == 'False' and not isinstance(s.test, ast.Constant):      # decided by the static type of the tested value (None)
            return b + tr(list(s.orelse) + rest, env, cx, k)
        if c == 'True' and not isinstance(s.test, ast.Constant):       # … (a tuple: always true)
            return b + tr(list(s.body) + rest, env, cx, k)
        a = tr(list(s.body) + rest, env, cx, k)
        o = tr(list(s.orelse) + rest, env, cx, k)
        return b + ['if %s then do' % c] + ind(a) + ['else do'] + ind(o)
    if isinstance(s, ast.Raise):
        exc = s.exc
        nm = exc.func.id if isinstance(exc, ast.Call) and isinstance(exc.func, ast.Name) else (exc.id if isinstance(exc, ast.Name) else None)
        if nm not in EXC:
            raise Unsupported('raise of %s' % nm)
        bs = []
        if isinstance(exc, ast.Call):
            for a in exc.args:
                if isinstance(a, ast.Name) and a.id not in env and a.id not in cx.consts:
                    continue          # a message string built earlier (opaque; its formatting was bound where it was built)
                b, t, ty = expr(a, env, cx)
                bs += b
        return bs + [ERR(cx, EXC[nm])]
    if isinstance(s, ast.Return):
        if not k.ret_ok and k.ret is None:
            raise Unsupported('return inside a loop or a try block')
        if s.value is None:
            b, t = [], '()'
        else:
            want = getattr(cx, 'rkind', None)
            inner = want[4:] if want and want.startswith('opt:') else want
            b, t, ty = expr(s.value, env, cx, expect=inner)
            if want and want.startswith('opt:'):
                t = coerce(t, ty, want)
            if ty == 'obj' and want == 'bytes':         # `return value  # type: ignore`: the declared type, checked
                tt = cx.fresh()
                b = b + [B(cx, tt, 'Py.Obj.asBytes %s' % t)]; t = tt
        if k.ret is not None:
            return b + k.ret(env, t)
        return b + [ret_ok(env, t, cx)]
    if isinstance(s, ast.Break):
        if k.brk is None:
            raise Unsupported('break outside a loop')
        return k.brk(env)
    if isinstance(s, ast.Continue):
        raise Unsupported('continue')
    if isinstance(s, ast.While):
        if s.orelse:
            raise Unsupported('while … else')
        cx.nloop += 1
        lf = '%s.while%d' % (cx.fname, cx.nloop)
        occurring = set(names_in(s))
        params = [v for v in env if v in occurring or (v == 'self' and getattr(cx, 'method', False))]
        assigned = assigned_in(s.body)
        rets = [v for v in params if v in assigned]
        msgs = message_vars(list(s.body))
        for v in assigned:
            if v in msgs:
                continue
            if v not in env and any(v in names_in(x) for x in rest):
                raise Unsupported('variable %s first assigned inside a loop is used after it' % v)
        if any(isinstance(n, ast.Return) for n in ast.walk(s)):
            raise Unsupported('return inside a loop')
        call = lambda env_: ['%s fuel %s' % (lf, ' '.join(lname(p) for p in params))]
        done = lambda env_: ['.ok %s' % tuple_text(rets)]
        kl = K(fall=call, brk=done, ret_ok=False)
        envl = {p: env[p] for p in env}
        body = tr(list(s.body), envl, cx, kl)
        const_true = isinstance(s.test, ast.Constant) and s.test.value is True
        if const_true:
            inner = body
        else:
            b, c = cond(s.test, env, cx)
            if b:
                raise Unsupported('partial operation in a loop condition')
            inner = ['if %s then do' % c] + ind(body) + ['else', '  .ok %s' % tuple_text(rets)]
        rty = ' × '.join(lean_t(env[v]) for v in rets) if rets else 'Unit'
        sig = 'def %s : Nat → %s → %s (%s)' % (lf, ' → '.join(lean_t(env[p]) for p in params), MON(cx), rty)
        txt = [sig, '  | 0, %s => %s' % (', '.join(('self' if (p == 'self' and getattr(cx, 'method', False)) else '_') for p in params), ERR(cx, 'nonTermination')),
               '  | fuel + 1, %s => do' % ', '.join(lname(p) for p in params)] + ind(inner, 4)
        cx.loops.append('\n'.join(txt))
        pat = tuple_text(rets) if rets else '_'
        return ['let %s ← %s fuel %s' % (pat, lf, ' '.join(lname(p) for p in params))] + tr(rest, env, cx, k)
    if isinstance(s, ast.For) and isinstance(s.iter, ast.Call) and isinstance(s.iter.func, ast.Name) and s.iter.func.id == 'enumerate' \
            and len(s.iter.args) == 1 and not s.orelse and isinstance(s.target, ast.Tuple) and len(s.target.elts) == 2 \
            and isinstance(s.target.elts[0], ast.Name) and isinstance(s.target.elts[1], ast.Tuple) \
            and all(isinstance(x, ast.Name) for x in s.target.elts[1].elts) and len(s.target.elts[1].elts) == 2:
        bq, tq, tyq = expr(s.iter.args[0], env, cx)
        if tyq != 'listentry':
            raise Unsupported('enumerate over ' + tyq)
        cx.nloop += 1
        lf = '%s.for%d' % (cx.fname, cx.nloop)
        vi = s.target.elts[0].id
        vn, vv = [x.id for x in s.target.elts[1].elts]
        occurring = set(names_in(ast.Module(body=list(s.body), type_ignores=[])))
        params = [v for v in env if (v in occurring or (v == 'self' and getattr(cx, 'method', False))) and v not in (vi, vn, vv)]
        assigned = assigned_in(s.body)
        rets = [v for v in params if v in assigned]
        if any(isinstance(n, (ast.Break, ast.Continue)) for st in s.body for n in ast.walk(st)):
            raise Unsupported('break / continue inside a for loop')
        has_ret = any(isinstance(n, ast.Return) for st in s.body for n in ast.walk(st))
        rkind = getattr(cx, 'rkind', 'unit')
        ret_lean = ('(%s × %s)' % (cx.cls['name'], lean_t(rkind))) if getattr(cx, 'method', False) else lean_t(rkind)
        state_lean = ' × '.join(lean_t(env[v]) for v in rets) if rets else 'Unit'
        call = lambda env_: ['%s fuel it_rest (it_idx + (1 : Int)) %s' % (lf, ' '.join(lname(p) for p in params))]
        retf = lambda env_, t: ['.ok (.ret %s)' % (('(self, %s)' % t) if getattr(cx, 'method', False) else t)]
        kl = K(fall=call, brk=None, ret_ok=False, ret=retf if has_ret else None)
        envl = dict(env); envl[vi] = 'int'; envl[vn] = 'bytes'; envl[vv] = 'bytes'
        body = tr(list(s.body), envl, cx, kl)
        sig = 'def %s : Nat → List (List UInt8 × List UInt8) → Int → %s → %s (Py.Flow %s (%s))' % (
            lf, ' → '.join(lean_t(env[p]) for p in params), MON(cx), ret_lean, state_lean)
        txt = [sig, '  | _, [], _, %s => .ok (.next %s)' % (', '.join(lname(p) for p in params), tuple_text(rets) if rets else '()'),
               '  | fuel, it_head :: it_rest, it_idx, %s => do' % ', '.join(lname(p) for p in params),
               '    let %s := it_idx' % lname(vi), '    let %s := it_head.1' % lname(vn), '    let %s := it_head.2' % lname(vv)] + ind(body, 4)
        cx.loops.append('\n'.join(txt))
        after = tr(rest, env, cx, k)
        pat = tuple_text(rets) if rets else '_'
        return bq + ['let fl ← %s fuel %s (0 : Int) %s' % (lf, tq, ' '.join(lname(p) for p in params)),
                     'match fl with', '| .ret r => .ok r', '| .next %s => do' % pat] + ind(after)
    if isinstance(s, ast.For):
        if s.orelse or not isinstance(s.target, ast.Name):
            raise Unsupported('for … else / tuple target')
        bq, tq, tyq = expr(s.iter, env, cx)
        if tyq not in ('bytes', 'listint', 'listobj', 'listhdr'):
            raise Unsupported('iteration over ' + tyq)
        elem_lean = {'bytes': 'List UInt8', 'listint': 'List Int', 'listobj': 'List Py.Obj', 'listhdr': 'List Py.Hdr'}[tyq]
        cx.nloop += 1
        lf = '%s.for%d' % (cx.fname, cx.nloop)
        var = s.target.id
        occurring = set(names_in(ast.Module(body=list(s.body), type_ignores=[])))
        params = [v for v in env if (v in occurring or (v == 'self' and getattr(cx, 'method', False))) and v != var]
        assigned = assigned_in(s.body)
        rets = [v for v in params if v in assigned]
        msgs = message_vars(list(s.body))
        for v in assigned + [var]:
            if v in msgs:
                continue
            if v not in env and any(v in names_in(x) for x in rest):
                raise Unsupported('variable %s first assigned inside a loop is used after it' % v)
        if any(isinstance(n, (ast.Return, ast.Break, ast.Continue)) for st in s.body for n in ast.walk(st)):
            raise Unsupported('return / break / continue inside a for loop')
        call = lambda env_: ['%s fuel it_rest %s' % (lf, ' '.join(lname(p) for p in params))]
        kl = K(fall=call, brk=None, ret_ok=False)
        envl = dict(env); envl[var] = {'bytes': 'int', 'listint': 'int', 'listobj': 'obj', 'listhdr': 'hdr'}[tyq]
        body = tr(list(s.body), envl, cx, kl)
        rty = ' × '.join(lean_t(env[v]) for v in rets) if rets else 'Unit'
        sig = 'def %s : Nat → %s → %s → %s (%s)' % (lf, elem_lean, ' → '.join(lean_t(env[p]) for p in params), MON(cx), rty)
        txt = [sig, '  | _, [], %s => .ok %s' % (', '.join(lname(p) for p in params), tuple_text(rets) if rets else '()'),
               '  | fuel, it_head :: it_rest, %s => do' % ', '.join(lname(p) for p in params),
               '    let %s := %s' % (lname(var), '(it_head.toNat : Int)' if tyq == 'bytes' else 'it_head')] + ind(body, 4)
        # the continuation style re-translates a loop once per path that reaches it: texts that agree up to the loop's own
        # name and the numbering of temporaries are one function
        import re as _re
        def canon(text, own):
            text = text.replace(own, '@LOOP')
            seen_ = {}
            return _re.sub(r'\bt(\d+)(_r|_k)?\b', lambda m: 'T%d%s' % (seen_.setdefault(m.group(1), len(seen_)), m.group(2) or ''), text)
        mine = canon('\n'.join(txt), lf)
        if not hasattr(cx, 'loop_canon'):
            cx.loop_canon = {}
        if mine in cx.loop_canon:
            lf = cx.loop_canon[mine]
        else:
            cx.loop_canon[mine] = lf
            cx.loops.append('\n'.join(txt))
        pat = tuple_text(rets) if rets else '_'
        return bq + ['let %s ← %s fuel %s %s' % (pat, lf, tq, ' '.join(lname(p) for p in params))] + tr(rest, env, cx, k)
    if isinstance(s, ast.Try):
        if s.orelse or s.finalbody or len(s.handlers) != 1:
            raise Unsupported('try with else/finally/several handlers')
        h = s.handlers[0]
        if not isinstance(h.type, ast.Name) or h.type.id not in EXC:
            raise Unsupported('except clause')
        if not rest and k.ret_ok and s.body and isinstance(s.body[-1], ast.Return) and getattr(cx, 'method', False):
            # `try: …; return e  except X: …` as the last statement of a method
            body = tr(list(s.body), env, cx, K(fall=lambda env_: [ret_ok(env_, '()', cx)], ret_ok=True))
            handler = tr(list(h.body), env, cx, K(fall=lambda env_: [ret_ok(env_, '()', cx)], ret_ok=True))
            return ['Py.tryExceptS (do'] + ind(body, 4) + ['  ) .%s (fun self => do' % EXC[h.type.id]] + ind(handler, 4) + ['  )']
        top = toplevel_assigned(s.body)
        allv = assigned_in(s.body)
        vs = [v for v in env if v in allv] + [v for v in top if v not in env]
        kb = K(fall=lambda env_: ['.ok %s' % tuple_text(vs)], brk=None, ret_ok=False)
        body = tr(list(s.body), env, cx, kb)
        # the types of variables first assigned in the body: translate once more to learn them
        env2 = dict(env)
        learn = {}
        def kprobe(env_):
            learn.update(env_)
            return ['.ok ()']
        tmp_loops, tmp_n, tmp_t = list(cx.loops), cx.nloop, cx.tmp
        tr(list(s.body), env, cx, K(fall=kprobe))
        cx.loops, cx.nloop, cx.tmp = tmp_loops, tmp_n, tmp_t
        for v in vs:
            if v not in env2:
                if v not in learn:
                    raise Unsupported('variable %s is not assigned on every path of the try body' % v)
                env2[v] = learn[v]
        kh = K(fall=lambda env_: ['.ok %s' % tuple_text(vs)], brk=None, ret_ok=False)
        handler = tr(list(h.body), env, cx, kh)
        if getattr(cx, 'method', False):
            out = ['let %s ← Py.tryExceptS (do' % tuple_text(vs)] + ind(body, 4) + ['  ) .%s (fun self => do' % EXC[h.type.id]] + ind(handler, 4) + ['  )']
        else:
            out = ['let %s ← Py.tryExcept (do' % tuple_text(vs)] + ind(body, 4) + ['  ) .%s (do' % EXC[h.type.id]] + ind(handler, 4) + ['  )']
        return out + tr(rest, env2, cx, k)
    raise Unsupported('statement ' + type(s).__name__)


def lname_m(n):
    return n.lstrip('_') if n.startswith('_') else n


def translate_function(fn, consts, cls=None, funcs=None, lean_name=None):
    cx = Ctx(lean_name or fn.name, consts, cls, funcs)
    cx.method = bool(cls is not None and fn.args.args and fn.args.args[0].arg == 'self')
    env = {}
    for a in fn.args.args:
        if a.arg == 'self' and cls is not None:
            env['self'] = 'self:' + cls['name']
            continue
        ann = ast.unparse(a.annotation) if a.annotation is not None else ''
        if ann == 'bytes | str | Any':
            ann = 'OBJ'
        elif ann.startswith('dict[') or (ann.startswith('Iterable[') and ann.endswith(']') and '| dict[' in ann):
            ann = 'HEADERS'
        ty = {'OBJ': 'obj', 'HEADERS': 'headers', 'bytes | None': 'bytes', 'list[int]': 'listint', 'tuple[bytes, bytes]': 'entry', 'HeaderWeaklyTyped': 'header', 'bool': 'bool', 'HeaderTuple': 'header', 'int': 'int', 'bytes': 'bytes', 'bytearray': 'bytes', 'bytes | bytearray': 'bytes', 'memoryview': 'bytes', 'bytes | bytearray | None': 'bytes', 'bytes | None': 'bytes'}.get(ann)
        if ty is None:
            raise Unsupported('parameter %s: %s' % (a.arg, ann))
        env[a.arg] = ty
    ret = ast.unparse(fn.returns) if fn.returns is not None else ''
    is_gen = any(isinstance(n, (ast.Yield, ast.YieldFrom)) for n in ast.walk(fn))
    if is_gen and ret.startswith('Iterable[tuple['):
        ret = 'GEN'
    rkind = {'GEN': 'listhdr', 'Optional[tuple[int, bytes, Optional[bytes]]]': 'opt:' + SEARCHRES, 'tuple[HeaderTuple, int]': 'tuple:header,int', 'Iterable[HeaderTuple]': 'listheader', 'HeaderTuple': 'header', 'bytearray': 'bytes', 'bytes': 'bytes', 'int': 'int', 'tuple[int, int]': 'tuple:int,int', 'None': 'unit', 'tuple[bytes, bytes]': 'entry'}.get(ret)
    if rkind is None:
        raise Unsupported('return annotation %s' % ret)
    cx.rkind = rkind
    cx.var_types = (cls or {}).get('var_types', {}).get(fn.name, {}) if cls else {}
    rty = lean_t(rkind)
    if 'self' in env:
        rty = '%s × %s' % (cls['name'], rty)
    stmts = list(fn.body)
    if is_gen:
        # a generator consumed to exhaustion by one `for` loop: the list of what it yields (its side effects and the
        # caller's loop body are not interleaved in this rendering; nothing in the translated callers depends on that)
        class Y(ast.NodeTransformer):
            def visit_Expr(self, node):
                if isinstance(node.value, ast.Yield) and node.value.value is not None:
                    return ast.Expr(value=ast.Call(func=ast.Attribute(value=ast.Name(id='gen_out', ctx=ast.Load()), attr='append', ctx=ast.Load()),
                                                   args=[node.value.value], keywords=[]))
                return self.generic_visit(node)
        stmts = [Y().visit(x) for x in stmts]
        if any(isinstance(n, (ast.Yield, ast.YieldFrom)) for x in stmts for n in ast.walk(x)):
            raise Unsupported('yield in expression position')
        cx.var_types = dict(cx.var_types); cx.var_types['gen_out'] = 'listhdr'
        stmts = [ast.Assign(targets=[ast.Name(id='gen_out', ctx=ast.Store())], value=ast.List(elts=[], ctx=ast.Load()))] + stmts + \
                [ast.Return(value=ast.Name(id='gen_out', ctx=ast.Load()))]
        # docstring stays first-class: dropped by is_dropped wherever it stands
    body = tr(stmts, env, cx, K(fall=lambda env_: [ret_ok(env_, '()', cx)], ret_ok=True))
    sig = 'def %s (fuel : Nat) %s : %s (%s) := do' % (cx.fname, ' '.join('(%s : %s)' % (lname(a), lean_t(t)) for a, t in env.items()), MON(cx), rty)
    cx.ptys = [t for a, t in env.items() if a != 'self']
    cx.rkind = rkind
    return cx, '\n\n'.join(cx.loops + ['\n'.join([sig] + ind(body))])


def module_consts(repo, module, cls=None):
    """run-time values of the module-level (and class-level) integer / list-of-integer / table constants"""
    code = ("import sys, json; sys.path.insert(0, %r); import importlib; m = importlib.import_module(%r);"
            "ok = lambda v: (isinstance(v, int) and not isinstance(v, bool)) or (isinstance(v, (list, tuple)) and v and len(v) < 64 and all(isinstance(x, int) and not isinstance(x, bool) for x in v));"
            "pairs = lambda v: isinstance(v, (list, tuple)) and v and len(v) < 200 and all(isinstance(x, tuple) and len(x) == 2 and all(isinstance(y, bytes) for y in x) for x in v);"
            "out = {'module': {k: (list(v) if not isinstance(v, int) else v) for k, v in vars(m).items() if ok(v)}, 'cls': {}};"
            "out['module'].update({k: {'bytes': list(v)} for k, v in vars(m).items() if isinstance(v, bytes) and len(v) < 16 and k.isupper()});"
            "c = getattr(m, %r, None) if %r else None;"
            "out['cls'] = {k: ({'int': v} if isinstance(v, int) else {'listint': list(v)}) for k, v in (vars(c).items() if c else []) if ok(v)};"
            "out['cls'].update({k: {'listentry': [[x[0].hex(), x[1].hex()] for x in v]} for k, v in (vars(c).items() if c else []) if pairs(v)});"
            "ht = getattr(m, 'HeaderTuple', None); nt = getattr(m, 'NeverIndexedHeaderTuple', None);"
            "out['tuples'] = None if ht is None or nt is None else {'HeaderTuple_indexable': ht(b'a', b'b').indexable is True, 'NeverIndexedHeaderTuple_indexable': nt(b'a', b'b').indexable is True,"
            " 'NeverIndexedHeaderTuple_isHeaderTuple': isinstance(nt(b'a', b'b'), ht), 'HeaderTuple_isTuple2': isinstance(ht(b'a', b'b'), tuple) and len(ht(b'a', b'b')) == 2 and len(nt(b'a', b'b')) == 2,"
            " 'plainTuple_isHeaderTuple': isinstance((b'a', b'b'), ht)};"
            "print(json.dumps(out))") % (os.path.join(repo, 'src'), module, cls or '', cls or '')
    p = subprocess.run([sys.executable, '-I', '-c', code], capture_output=True, text=True)
    if p.returncode != 0:
        raise Unsupported('cannot import %s: %s' % (module, p.stderr.strip().splitlines()[-1] if p.stderr.strip() else ''))
    return json.loads(p.stdout)


def bytes_lit(hexs):
    b = bytes.fromhex(hexs)
    return '[' + ', '.join(str(x) for x in b) + ']'


def class_fields(cdef):
    """field types from the assignments of __init__"""
    init = [n for n in cdef.body if isinstance(n, ast.FunctionDef) and n.name == '__init__']
    if not init:
        raise Unsupported('class %s has no __init__' % cdef.name)
    fields, inits = {}, {}
    for st in init[0].body:
        if is_dropped(st):
            continue
        tgt, val = None, None
        if isinstance(st, ast.Assign) and len(st.targets) == 1:
            tgt, val = st.targets[0], st.value
        elif isinstance(st, ast.AnnAssign):
            tgt, val = st.target, st.value
        if tgt is None or not _is_self_attr(tgt):
            raise Unsupported('statement in __init__')
        fields[tgt.attr] = val
    return fields


def translate_unit(repo, unit):
    path = os.path.join(repo, 'src', unit['rel'])
    tree = ast.parse(open(path).read())
    rt = module_consts(repo, unit['module'], unit.get('cls'))
    consts = rt['module']
    for k_ in unit.get('triple_tables', []):
        consts[k_] = 'TRIPLES'          # a large table of integer triples: referred to (Gen.*), not re-emitted
    defs = {n.name: n for n in tree.body if isinstance(n, ast.FunctionDef)}
    parts, report = [], {'functions': {}, 'constants': {}}
    const_lines, seen = [], set()
    funcs = dict(unit.get('extern_funcs', {}))

    def note_consts(cx):
        for c in cx.used_consts:
            if c not in seen:
                seen.add(c)
                v = consts[c]
                if v == 'TRIPLES':
                    report['constants'][c] = 'the run-time table dumped by tools/translate.py (%s), flattened' % unit['triple_tables'][c]
                    const_lines.append('def c_%s : List (Int × Int × Int) := (%s).flatten.map fun e => ((e.1 : Int), (e.2.1 : Int), (e.2.2 : Int))' % (c, unit['triple_tables'][c]))
                    continue
                report['constants'][c] = v
                if isinstance(v, dict) and 'bytes' in v:
                    const_lines.append('def c_%s : List UInt8 := [%s]' % (c, ', '.join(str(x) for x in v['bytes'])))
                    continue
                const_lines.append('def c_%s : Int := %d' % (c, v) if isinstance(v, int) else 'def c_%s : List Int := [%s]' % (c, ', '.join(str(x) for x in v)))

    for f in unit.get('functions', []):
        if f not in defs:
            raise Unsupported('function %s not found in %s' % (f, unit['rel']))
        cx, text = translate_function(defs[f], consts, None, funcs)
        funcs[f] = (cx.ptys, cx.rkind)
        parts.append(text)
        report['functions'][f] = {'loops': cx.nloop, 'lines': text.count('\n') + 1}
        note_consts(cx)
    # optional parts: their own tie module; when one is outside the subset the rest of the unit is still emitted
    for f in unit.get('optional_functions', []):
        try:
            if f not in defs:
                raise Unsupported('function %s not found in %s' % (f, unit['rel']))
            cx, text = translate_function(defs[f], consts, None, funcs)
        except Unsupported as ex:
            report['functions'][f] = {'unavailable': str(ex)}
            continue
        funcs[f] = (cx.ptys, cx.rkind)
        parts.append(text)
        report['functions'][f] = {'loops': cx.nloop, 'lines': text.count('\n') + 1}
        note_consts(cx)
    if unit.get('tuple_consts'):
        if not rt.get('tuples'):
            raise Unsupported('HeaderTuple / NeverIndexedHeaderTuple not importable from %s' % unit['module'])
        for k_, v_ in rt['tuples'].items():
            const_lines.append('/-- run-time fact about the header tuple classes (constructed instances inspected by the translator) -/')
            const_lines.append('def c_%s : Bool := %s' % (k_, 'true' if v_ else 'false'))
            report['constants'][k_] = v_
    struct_lines = []
    if unit.get('cls'):
        cname = unit['cls']
        cdefs = [n for n in tree.body if isinstance(n, ast.ClassDef) and n.name == cname]
        if not cdefs:
            raise Unsupported('class %s not found' % cname)
        cdef = cdefs[0]
        cconst = {}
        for k, v in rt['cls'].items():
            (ty, val), = v.items()
            cconst[k] = (ty, val)
        for k_, ref in unit.get('map_tables', {}).items():
            cconst[k_] = ('staticmap', ref)
            const_lines.append('def c_%s_%s : List (List UInt8 × (Int × List (List UInt8 × Int))) := (%s).map fun e => (e.1, ((e.2.1 : Int), e.2.2.map fun p => (p.1, (p.2 : Int))))' % (cname, k_, ref))
            report['constants']['%s.%s' % (cname, k_)] = 'the run-time mapping dumped by tools/translate.py (%s)' % ref
        cls = {'name': cname, 'fields': {}, 'consts': cconst, 'methods': {}, 'used': [], 'method_params': {}, 'var_types': unit.get('var_types', {})}
        if 'extern' in unit:
            cls['extern'] = unit['extern']
        # fields and their initial values
        finit = class_fields(cdef)
        cx0 = Ctx(cname + '.new', consts, cls, funcs)
        init_vals = []
        new_params = ''
        if 'init' in unit:
            # a constructor with parameters / sub-objects: the expected statements are configured and compared with the source
            got = {a: ast.unparse(v) for a, v in finit.items()}
            want = {a: src for a, (ty, src, lean) in unit['init'].items()}
            if got != want:
                raise Unsupported('__init__ of %s assigns %s' % (cname, got))
            for a, (ty, src, lean) in unit['init'].items():
                cls['fields'][a] = ty
                init_vals.append((a, ty, lean))
            new_params = unit.get('init_params', '')
            finit = {}
        for attr, val in finit.items():
            if isinstance(val, ast.Call) and isinstance(val.func, ast.Name) and val.func.id == 'deque' and not val.args:
                ty, t = 'listentry', '[]'
            else:
                b, t, ty = expr(val, {}, cx0)
                if b or ty not in ('int', 'bool'):
                    raise Unsupported('initial value of self.%s' % attr)
            cls['fields'][attr] = ty
            init_vals.append((attr, ty, t))
        cls['properties'] = {}
        mdefs = {}
        for n in cdef.body:
            if isinstance(n, ast.FunctionDef):
                key = n.name
                for d in n.decorator_list:
                    if isinstance(d, ast.Attribute) and d.attr == 'setter':
                        key = n.name + '.setter'
                    elif isinstance(d, ast.Name) and d.id == 'property':
                        key = n.name + '.getter'
                mdefs[key] = n
        mparts = []
        for m in list(unit.get('methods', [])) + list(unit.get('optional_methods', [])):
            optional = m in unit.get('optional_methods', [])
            lean = '%s.%s' % (cname, lname_m(m).replace('.setter', '_set').replace('.getter', '_get'))
            try:
                if m not in mdefs:
                    raise Unsupported('method %s.%s not found' % (cname, m))
                cx, text = translate_function(mdefs[m], consts, cls, funcs, lean_name=lean)
            except Unsupported as ex:
                if not optional:
                    raise
                report['functions'][cname + '.' + m] = {'unavailable': str(ex)}
                continue
            cls['methods'][m] = (cx.ptys, cx.rkind)
            cls['method_params'][m] = [a.arg for a in mdefs[m].args.args if a.arg != 'self']
            if m.endswith('.getter'):
                cls['properties'][m[:-7]] = cx.rkind
            mparts.append(text)
            report['functions'][cname + '.' + m] = {'loops': cx.nloop, 'lines': text.count('\n') + 1}
            note_consts(cx)
        struct_lines = ['structure %s where' % cname] + ['  %s : %s' % (fname_(a), lean_t(ty)) for a, ty, _ in init_vals] + \
                       ['deriving Repr, DecidableEq', ''] + \
                       ['/-- `%s(…)` -/' % cname, 'def %s.new %s: %s := { %s }' % (cname, new_params, cname, ', '.join('%s := %s' % (fname_(a), t) for a, _, t in init_vals)), '']
        for k in cls['used']:
            ty, val = cconst[k]
            report['constants']['%s.%s' % (cname, k)] = val if ty != 'listentry' else '%d entries' % len(val)
            if ty == 'int':
                const_lines.append('def c_%s_%s : Int := %d' % (cname, k, val))
            elif ty == 'listint':
                const_lines.append('def c_%s_%s : List Int := [%s]' % (cname, k, ', '.join(str(x) for x in val)))
            else:
                const_lines.append('def c_%s_%s : List (List UInt8 × List UInt8) := [\n  %s]' % (cname, k, ',\n  '.join('(%s, %s)' % (bytes_lit(a), bytes_lit(b)) for a, b in val)))
        parts = parts[:]          # functions first (methods may call them), then the structure, then the methods
        body = '\n\n'.join(parts) + ('\n\n' if parts else '') + '\n'.join(struct_lines) + '\n' + '\n\n'.join(mparts)
    else:
        body = '\n\n'.join(parts)
    head_ = ['import HpackVerif.Src.Py'] + ['import ' + m for m in unit.get('imports', [])] + [
             '/-! GENERATED by tools/py2lean.py from the source text of $HPACK_REPO/src/%s on every run. Do not edit. -/' % unit['rel'],
             'namespace Src', 'open Py', '']
    head_ = [h for h in head_ if h is not None] + list(unit.get('prelude_lines', []))
    return '\n'.join(head_ + const_lines + ['', body, '', 'end Src', '']), report


HT_EXTERN = {'HeaderTable': {'methods': {'get_by_index': (['int'], 'entry'), 'add': (['bytes', 'bytes'], 'unit')},
                           'properties': {'maxsize': 'int'}}}

ENC_PRELUDE = [
    '/-- NOT translated: `HuffmanEncoder.encode` (a hex-string round trip) is represented by the model\'s function; that function is',
    '    tied to the code by the correspondence check only. The coder object carries no state that `encode` changes. -/',
    'structure HuffmanEncoder where',
    '  f_unit : Unit := ()',
    'deriving Repr, DecidableEq',
    'def HuffmanEncoder.std : HuffmanEncoder := {}',
    'def HuffmanEncoder.encode (_fuel : Nat) (self : HuffmanEncoder) (b : List UInt8) : RS HuffmanEncoder (HuffmanEncoder × List UInt8) :=',
    '  .ok (self, Impl.huffEncode Gen.codes b)', '']

UNITS = {
    'SrcHuffEnc': {'module': 'hpack.huffman', 'rel': 'hpack/huffman.py', 'functions': [], 'cls': 'HuffmanEncoder',
                   'methods': ['encode'],
                   'init': {'huffman_code_list': ('listint', 'huffman_code_list', 'huffman_code_list'),
                            'huffman_code_list_lengths': ('listint', 'huffman_code_list_lengths', 'huffman_code_list_lengths')},
                   'init_params': '(huffman_code_list : List Int) (huffman_code_list_lengths : List Int) '},
    'SrcEnc': {'module': 'hpack.hpack', 'rel': 'hpack/hpack.py', 'functions': [], 'cls': 'Encoder',
               'methods': ['header_table_size.getter', 'header_table_size.setter', '_encode_indexed', '_encode_literal',
                           '_encode_indexed_literal', '_encode_table_size_change', 'add'],
               'imports': ['HpackVerif.Generated.SrcInt', 'HpackVerif.Generated.SrcTable', 'HpackVerif.Impl.EncModel', 'HpackVerif.Generated.Codes'],
               'prelude_lines': ENC_PRELUDE,
               'optional_functions': ['_to_bytes', '_dict_to_iterable'], 'optional_methods': ['encode'], 'tuple_consts': True,
               'var_types': {'encode': {'header_block': 'listbytes'}},
               'extern_funcs': {'encode_integer': (['int', 'int'], 'bytes')},
               'extern': {'HeaderTable': {'methods': {'search': (['bytes', 'bytes'], 'opt:' + SEARCHRES), 'add': (['bytes', 'bytes'], 'unit')},
                                          'properties': {'maxsize': 'int'}, 'fields': {'resized': 'bool'}},
                          'HuffmanEncoder': {'methods': {'encode': (['bytes'], 'bytes')}}},
               'init': {'header_table': ('obj:HeaderTable', 'HeaderTable()', 'HeaderTable.new'),
                        'huffman_coder': ('obj:HuffmanEncoder', 'HuffmanEncoder(REQUEST_CODES, REQUEST_CODES_LENGTH)', 'HuffmanEncoder.std'),
                        'table_size_changes': ('listint', '[]', '[]')},
               'init_params': ''},
    'SrcDec': {'module': 'hpack.hpack', 'rel': 'hpack/hpack.py', 'functions': ['_unicode_if_needed'], 'cls': 'Decoder',
               'methods': ['header_table_size.getter', 'header_table_size.setter', '_assert_valid_table_size', '_update_encoding_context',
                           '_decode_indexed', '_decode_literal', '_decode_literal_no_index', '_decode_literal_index', 'decode'],
               'imports': ['HpackVerif.Generated.SrcInt', 'HpackVerif.Generated.SrcHuff', 'HpackVerif.Generated.SrcTable', 'HpackVerif.Impl.Utf8'],
               'extern_funcs': {'decode_integer': (['bytes', 'int'], 'tuple:int,int'), 'decode_huffman': (['bytes'], 'bytes'),
                                'table_entry_size': (['bytes', 'bytes'], 'int')},
               'extern': HT_EXTERN,
               'init': {'header_table': ('obj:HeaderTable', 'HeaderTable()', 'HeaderTable.new'),
                        'max_header_list_size': ('int', 'max_header_list_size', 'max_header_list_size'),
                        'max_allowed_table_size': ('int', 'self.header_table.maxsize', 'HeaderTable.new.f_maxsize')},
               'init_params': '(max_header_list_size : Int) '},
    'SrcHuff': {'module': 'hpack.huffman_table', 'rel': 'hpack/huffman_table.py', 'functions': ['decode_huffman'],
                'triple_tables': {'HUFFMAN_TABLE': 'Gen.huffTable'}, 'imports': ['HpackVerif.Generated.Table']},
    'SrcInt': {'module': 'hpack.hpack', 'rel': 'hpack/hpack.py', 'functions': ['encode_integer', 'decode_integer']},
    'SrcTable': {'module': 'hpack.table', 'rel': 'hpack/table.py', 'functions': ['table_entry_size'], 'cls': 'HeaderTable',
                 'methods': ['get_by_index', '_shrink', 'add', 'maxsize.getter', 'maxsize.setter', 'search'],
                 'map_tables': {'STATIC_TABLE_MAPPING': 'Gen.staticMapping'}, 'imports': ['HpackVerif.Generated.Static'],
                 'var_types': {'search': {'partial': 'opt:' + SEARCHRES}}},
}


def main():
    repo = os.environ.get('HPACK_REPO', '/repo')
    gen = sys.argv[1] if len(sys.argv) > 1 else os.path.join(os.path.dirname(os.path.dirname(os.path.abspath(__file__))), 'lean', 'HpackVerif', 'Generated')
    out_report = {}
    for name, unit in UNITS.items():
        out = os.path.join(gen, name + '.lean')
        try:
            text, report = translate_unit(repo, unit)
            report['available'] = True
        except (Unsupported, SyntaxError, OSError, KeyError, ValueError) as e:
            text = '\n'.join(['import HpackVerif.Src.Py', '/-! GENERATED by tools/py2lean.py: the source could not be translated (%s). -/' % str(e).replace('-/', '- /'),
                              'namespace Src', 'def unavailable_%s : Unit := ()' % name, 'end Src', ''])
            report = {'available': False, 'reason': '%s: %s' % (type(e).__name__, e)}
        old = open(out).read() if os.path.exists(out) else None
        if old != text:
            with open(out, 'w') as f:
                f.write(text)
            report['rewritten'] = True
        out_report[name] = report
    print(json.dumps(out_report))


if __name__ == '__main__':
    main()
