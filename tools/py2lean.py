#!/usr/bin/env python3
"""
Source translator (logic): Python AST of selected functions of $HPACK_REPO/src/hpack  ->  Lean definitions over the
semantics in lean/HpackVerif/Src/Py.lean.  Output: lean/HpackVerif/Generated/SrcInt.lean (namespace `Src`).

The translated subset (anything else raises Unsupported and the source tie is reported as unavailable; that is never
an alarm by itself, the correspondence check remains the deciding tie):

  statements   assignment / augmented assignment to a local name, `x.append(e)` on a list, if / elif / else,
               `while` (with `break`; the loop becomes a recursive function over a fuel argument that returns the
               variables the body assigns), `try … except <Exc>: …`, `raise Exc(...)`, `return e` (not inside a loop or
               a try), expression statements that are `log.debug(...)` or a docstring (dropped: logging is assumed to
               have no effect on results, strings are opaque and formatting them is assumed not to raise),
  expressions  integer constants and locals, module-level integer / list-of-integer constants (their RUN-TIME values are
               emitted), + - * & | << >>, comparisons and `and`/`or`/`not` of comparisons, `b[i]` on a bytes-like
               parameter, `xs[i]` on a list constant, `len(x)`, `[e, …]`, `bytearray(list)`, tuples in `return`.
  types        parameters by annotation (`int`, `bytes`, `bytearray`); locals by the type of what is assigned to them.

Control flow is translated by continuation: `if c: A else: B; rest` becomes `if c then ⟦A; rest⟧ else ⟦B; rest⟧`, so no
join points are needed. Operations that can raise (`<<`/`>>` with a negative count, indexing, `bytearray(list)`) are
bound in the `Py.R` monad, in Python's evaluation order.
"""
import ast, os, sys, importlib, textwrap, subprocess, json

RESERVED = {'end', 'from', 'at', 'in', 'fun', 'let', 'open', 'then', 'else', 'do', 'have', 'show', 'match', 'with', 'where', 'by',
            'prefix', 'infix', 'local', 'if', 'def', 'theorem', 'instance', 'structure', 'class', 'namespace', 'section',
            'variable', 'import', 'return', 'for', 'mut', 'unless', 'try', 'catch', 'finally', 'macro', 'syntax', 'notation'}

EXC = {'ValueError': 'valueError', 'IndexError': 'indexError', 'TypeError': 'typeError', 'HPACKDecodingError': 'hpackDecodingError',
       'InvalidTableIndex': 'invalidTableIndex', 'InvalidTableIndexError': 'invalidTableIndex',
       'InvalidTableSizeError': 'invalidTableSizeError', 'OversizedHeaderListError': 'oversizedHeaderListError'}

LEAN_T = {'int': 'Int', 'bytes': 'List UInt8', 'listint': 'List Int', 'bool': 'Bool'}


class Unsupported(Exception):
    pass


def lname(n):
    return n + '_' if n in RESERVED else n


class Ctx:
    def __init__(self, fname, consts):
        self.fname = fname
        self.consts = consts          # module-level name -> python value (int or list of int)
        self.used_consts = []
        self.loops = []               # emitted loop function texts
        self.tmp = 0
        self.nloop = 0

    def fresh(self):
        self.tmp += 1
        return 't%d' % self.tmp


# ------------------------------------------------------------------------------------------------ expressions
def expr(e, env, cx):
    """-> (binds: [lean line], text, type)"""
    if isinstance(e, ast.Constant):
        if isinstance(e.value, bool):
            return [], 'true' if e.value else 'false', 'bool'
        if isinstance(e.value, int):
            return [], '(%d : Int)' % e.value, 'int'
        if isinstance(e.value, str):
            return [], '()', 'str'
        raise Unsupported('constant %r' % (e.value,))
    if isinstance(e, ast.JoinedStr):
        # formatting an int into a string raises ValueError beyond sys.get_int_max_str_digits() digits; other pieces
        # (repr of bytes, text) cannot raise
        bs = []
        for v in e.values:
            if isinstance(v, ast.FormattedValue):
                try:
                    b, t, ty = expr(v.value, env, cx)
                except Unsupported:
                    continue
                if ty == 'int' and v.conversion == -1:
                    bs += b + ['let _ ← Py.fmtInt %s' % t]
        return bs, '()', 'str'
    if isinstance(e, ast.Name):
        if e.id in env:
            return [], lname(e.id), env[e.id]
        if e.id in cx.consts:
            v = cx.consts[e.id]
            if e.id not in cx.used_consts:
                cx.used_consts.append(e.id)
            return [], 'c_' + e.id, 'int' if isinstance(v, int) else 'listint'
        raise Unsupported('name %s' % e.id)
    if isinstance(e, ast.BinOp):
        b1, t1, ty1 = expr(e.left, env, cx)
        b2, t2, ty2 = expr(e.right, env, cx)
        if isinstance(e.op, ast.Mod) and ty1 == 'str':
            if ty2 == 'int':
                return b1 + b2 + ['let _ ← Py.fmtInt %s' % t2], '()', 'str'
            raise Unsupported('string formatting of ' + ty2)
        if ty1 != 'int' or ty2 != 'int':
            raise Unsupported('binary operator on %s, %s' % (ty1, ty2))
        op = type(e.op).__name__
        if op in ('Add', 'Sub', 'Mult'):
            return b1 + b2, '(%s %s %s)' % (t1, {'Add': '+', 'Sub': '-', 'Mult': '*'}[op], t2), 'int'
        if op in ('BitAnd', 'BitOr'):
            return b1 + b2, '(Py.%s %s %s)' % ({'BitAnd': 'band', 'BitOr': 'bor'}[op], t1, t2), 'int'
        if op in ('LShift', 'RShift'):
            t = cx.fresh()
            return b1 + b2 + ['let %s ← Py.%s %s %s' % (t, 'shl' if op == 'LShift' else 'shr', t1, t2)], t, 'int'
        raise Unsupported('operator ' + op)
    if isinstance(e, ast.UnaryOp) and isinstance(e.op, ast.USub):
        b, t, ty = expr(e.operand, env, cx)
        if ty != 'int':
            raise Unsupported('unary minus on ' + ty)
        return b, '(- %s)' % t, 'int'
    if isinstance(e, ast.Subscript):
        bv, tv, tyv = expr(e.value, env, cx)
        bi, ti, tyi = expr(e.slice, env, cx)
        if tyi != 'int':
            raise Unsupported('subscript with ' + tyi)
        t = cx.fresh()
        if tyv == 'bytes':
            return bv + bi + ['let %s ← Py.getByte %s %s' % (t, tv, ti)], t, 'int'
        if tyv == 'listint':
            return bv + bi + ['let %s ← Py.listGet %s %s' % (t, tv, ti)], t, 'int'
        raise Unsupported('subscript of ' + tyv)
    if isinstance(e, ast.List):
        bs, ts = [], []
        for x in e.elts:
            b, t, ty = expr(x, env, cx)
            if ty != 'int':
                raise Unsupported('list of ' + ty)
            bs += b; ts.append(t)
        return bs, '[' + ', '.join(ts) + ']', 'listint'
    if isinstance(e, ast.Tuple):
        bs, ts, tys = [], [], []
        for x in e.elts:
            b, t, ty = expr(x, env, cx)
            bs += b; ts.append(t); tys.append(ty)
        return bs, '(' + ', '.join(ts) + ')', 'tuple:' + ','.join(tys)
    if isinstance(e, ast.Call) and isinstance(e.func, ast.Name):
        f = e.func.id
        if f in ('bytearray', 'bytes') and len(e.args) == 1 and not e.keywords:
            b, t, ty = expr(e.args[0], env, cx)
            if ty == 'listint':
                tt = cx.fresh()
                return b + ['let %s ← Py.bytesOfInts %s' % (tt, t)], tt, 'bytes'
            if ty == 'bytes':
                return b, t, 'bytes'
            raise Unsupported('%s(%s)' % (f, ty))
        if f == 'len' and len(e.args) == 1:
            b, t, ty = expr(e.args[0], env, cx)
            if ty in ('bytes', 'listint'):
                return b, '((%s).length : Int)' % t, 'int'
        if f == 'int' and len(e.args) == 1:
            b, t, ty = expr(e.args[0], env, cx)
            if ty == 'int':
                return b, t, 'int'
        raise Unsupported('call of ' + f)
    raise Unsupported('expression ' + type(e).__name__)


def cond(e, env, cx):
    """-> (binds, Lean Prop text)"""
    if isinstance(e, ast.Constant) and isinstance(e.value, bool):
        return [], 'True' if e.value else 'False'
    if isinstance(e, ast.BoolOp):
        parts = [cond(v, env, cx) for v in e.values]
        if any(b for b, _ in parts[1:]):
            raise Unsupported('partial operation behind a short-circuit operator')
        return parts[0][0], '(' + (' ∨ ' if isinstance(e.op, ast.Or) else ' ∧ ').join(t for _, t in parts) + ')'
    if isinstance(e, ast.UnaryOp) and isinstance(e.op, ast.Not):
        b, t = cond(e.operand, env, cx)
        return b, '(¬ %s)' % t
    if isinstance(e, ast.Compare):
        items = [e.left] + list(e.comparators)
        bs, ts = [], []
        for x in items:
            b, t, ty = expr(x, env, cx)
            if ty != 'int':
                raise Unsupported('comparison of ' + ty)
            bs += b; ts.append(t)
        sym = {'Lt': '<', 'Gt': '>', 'LtE': '≤', 'GtE': '≥', 'Eq': '=', 'NotEq': '≠'}
        cs = []
        for i, op in enumerate(e.ops):
            if type(op).__name__ not in sym:
                raise Unsupported('comparison ' + type(op).__name__)
            cs.append('%s %s %s' % (ts[i], sym[type(op).__name__], ts[i + 1]))
        return bs, '(' + ' ∧ '.join(cs) + ')'
    raise Unsupported('condition ' + type(e).__name__)


# ------------------------------------------------------------------------------------------------ statements
def names_in(node):
    return [n.id for n in ast.walk(node) if isinstance(n, ast.Name)]


def assigned_in(stmts):
    out = []
    for s in stmts:
        for n in ast.walk(s):
            tg = []
            if isinstance(n, ast.Assign):
                tg = n.targets
            elif isinstance(n, ast.AugAssign):
                tg = [n.target]
            elif isinstance(n, ast.Expr) and isinstance(n.value, ast.Call) and isinstance(n.value.func, ast.Attribute) \
                    and n.value.func.attr == 'append' and isinstance(n.value.func.value, ast.Name):
                tg = [n.value.func.value]
            for t in tg:
                for x in ast.walk(t):
                    if isinstance(x, ast.Name) and x.id not in out:
                        out.append(x.id)
    return out


def toplevel_assigned(stmts):
    """names assigned outside any loop of this statement list"""
    out = []
    for s in stmts:
        if isinstance(s, (ast.While, ast.For)):
            continue
        if isinstance(s, ast.If):
            for x in toplevel_assigned(s.body) + toplevel_assigned(s.orelse):
                if x not in out:
                    out.append(x)
        elif isinstance(s, ast.Try):
            for x in toplevel_assigned(s.body):
                if x not in out:
                    out.append(x)
        else:
            for x in assigned_in([s]):
                if x not in out:
                    out.append(x)
    return out


class K:
    """continuation of a statement list: what `fall off the end`, `break` and `return` mean here"""
    def __init__(self, fall, brk=None, ret_ok=False):
        self.fall, self.brk, self.ret_ok = fall, brk, ret_ok


def ind(lines, n=2):
    return [' ' * n + l for l in lines]


def is_dropped(s):
    if isinstance(s, ast.Expr):
        v = s.value
        if isinstance(v, ast.Constant) and isinstance(v.value, str):
            return True
        if isinstance(v, ast.Call) and isinstance(v.func, ast.Attribute) and isinstance(v.func.value, ast.Name) \
                and v.func.value.id == 'log' and v.func.attr in ('debug', 'info', 'warning'):
            return True
    if isinstance(s, ast.Pass):
        return True
    return False


def tuple_text(vs):
    return '(' + ', '.join(lname(v) for v in vs) + ')' if len(vs) != 1 else lname(vs[0])


def tr(stmts, env, cx, k):
    """-> list of Lean lines (a term of type R _ written as the tail of a `do` block)"""
    if not stmts:
        return k.fall(env)
    s, rest = stmts[0], stmts[1:]
    if is_dropped(s):
        return tr(rest, env, cx, k)
    if isinstance(s, ast.Assign):
        if len(s.targets) != 1 or not isinstance(s.targets[0], ast.Name):
            raise Unsupported('assignment target')
        b, t, ty = expr(s.value, env, cx)
        name = s.targets[0].id
        if ty == 'str':
            return b + tr(rest, env, cx, k)          # opaque strings (messages) are not tracked
        if ty.startswith('tuple'):
            raise Unsupported('tuple assignment')
        env2 = dict(env); env2[name] = ty
        return b + ['let %s := %s' % (lname(name), t)] + tr(rest, env2, cx, k)
    if isinstance(s, ast.AugAssign):
        if not isinstance(s.target, ast.Name) or s.target.id not in env:
            raise Unsupported('augmented assignment target')
        fake = ast.BinOp(left=ast.Name(id=s.target.id, ctx=ast.Load()), op=s.op, right=s.value)
        b, t, ty = expr(fake, env, cx)
        return b + ['let %s := %s' % (lname(s.target.id), t)] + tr(rest, env, cx, k)
    if isinstance(s, ast.Expr) and isinstance(s.value, ast.Call) and isinstance(s.value.func, ast.Attribute) \
            and s.value.func.attr == 'append' and isinstance(s.value.func.value, ast.Name):
        lst = s.value.func.value.id
        if env.get(lst) != 'listint' or len(s.value.args) != 1:
            raise Unsupported('append on ' + str(env.get(lst)))
        b, t, ty = expr(s.value.args[0], env, cx)
        if ty != 'int':
            raise Unsupported('append of ' + ty)
        return b + ['let %s := %s ++ [%s]' % (lname(lst), lname(lst), t)] + tr(rest, env, cx, k)
    if isinstance(s, ast.If):
        b, c = cond(s.test, env, cx)
        a = tr(list(s.body) + rest, env, cx, k)
        o = tr(list(s.orelse) + rest, env, cx, k)
        return b + ['if %s then do' % c] + ind(a) + ['else do'] + ind(o)
    if isinstance(s, ast.Raise):
        exc = s.exc
        nm = exc.func.id if isinstance(exc, ast.Call) and isinstance(exc.func, ast.Name) else (exc.id if isinstance(exc, ast.Name) else None)
        if nm not in EXC:
            raise Unsupported('raise of %s' % nm)
        return ['.error .%s' % EXC[nm]]
    if isinstance(s, ast.Return):
        if not k.ret_ok:
            raise Unsupported('return inside a loop or a try block')
        if s.value is None:
            return ['.ok ()']
        b, t, ty = expr(s.value, env, cx)
        return b + ['.ok %s' % t]
    if isinstance(s, ast.Break):
        if k.brk is None:
            raise Unsupported('break outside a loop')
        return k.brk(env)
    if isinstance(s, ast.Continue):
        raise Unsupported('continue')
    if isinstance(s, ast.While):
        if s.orelse:
            raise Unsupported('while … else')
        cx.nloop += 1
        lf = '%s.while%d' % (cx.fname, cx.nloop)
        occurring = set(names_in(s))
        params = [v for v in env if v in occurring]
        assigned = assigned_in(s.body)
        rets = [v for v in params if v in assigned]
        for v in assigned:
            if v not in env and any(v in names_in(x) for x in rest):
                raise Unsupported('variable %s first assigned inside a loop is used after it' % v)
        if any(isinstance(n, ast.Return) for n in ast.walk(s)):
            raise Unsupported('return inside a loop')
        call = lambda env_: ['%s fuel %s' % (lf, ' '.join(lname(p) for p in params))]
        done = lambda env_: ['.ok %s' % tuple_text(rets)]
        kl = K(fall=call, brk=done, ret_ok=False)
        envl = {p: env[p] for p in env}
        body = tr(list(s.body), envl, cx, kl)
        const_true = isinstance(s.test, ast.Constant) and s.test.value is True
        if const_true:
            inner = body
        else:
            b, c = cond(s.test, env, cx)
            if b:
                raise Unsupported('partial operation in a loop condition')
            inner = ['if %s then do' % c] + ind(body) + ['else', '  .ok %s' % tuple_text(rets)]
        rty = ' × '.join(LEAN_T[env[v]] for v in rets) if rets else 'Unit'
        sig = 'def %s : Nat → %s → R (%s)' % (lf, ' → '.join(LEAN_T[env[p]] for p in params), rty)
        txt = [sig, '  | 0, %s => .error .nonTermination' % ', '.join('_' for _ in params),
               '  | fuel + 1, %s => do' % ', '.join(lname(p) for p in params)] + ind(inner, 4)
        cx.loops.append('\n'.join(txt))
        pat = tuple_text(rets) if rets else '_'
        return ['let %s ← %s fuel %s' % (pat, lf, ' '.join(lname(p) for p in params))] + tr(rest, env, cx, k)
    if isinstance(s, ast.Try):
        if s.orelse or s.finalbody or len(s.handlers) != 1:
            raise Unsupported('try with else/finally/several handlers')
        h = s.handlers[0]
        if not isinstance(h.type, ast.Name) or h.type.id not in EXC:
            raise Unsupported('except clause')
        top = toplevel_assigned(s.body)
        allv = assigned_in(s.body)
        vs = [v for v in env if v in allv] + [v for v in top if v not in env]
        kb = K(fall=lambda env_: ['.ok %s' % tuple_text(vs)], brk=None, ret_ok=False)
        body = tr(list(s.body), env, cx, kb)
        # the types of variables first assigned in the body: translate once more to learn them
        env2 = dict(env)
        learn = {}
        def kprobe(env_):
            learn.update(env_)
            return ['.ok ()']
        tmp_loops, tmp_n, tmp_t = list(cx.loops), cx.nloop, cx.tmp
        tr(list(s.body), env, cx, K(fall=kprobe))
        cx.loops, cx.nloop, cx.tmp = tmp_loops, tmp_n, tmp_t
        for v in vs:
            if v not in env2:
                if v not in learn:
                    raise Unsupported('variable %s is not assigned on every path of the try body' % v)
                env2[v] = learn[v]
        kh = K(fall=lambda env_: ['.ok %s' % tuple_text(vs)], brk=None, ret_ok=False)
        handler = tr(list(h.body), env, cx, kh)
        out = ['let %s ← Py.tryExcept (do' % tuple_text(vs)] + ind(body, 4) + ['  ) .%s (do' % EXC[h.type.id]] + ind(handler, 4) + ['  )']
        return out + tr(rest, env2, cx, k)
    raise Unsupported('statement ' + type(s).__name__)


def translate_function(fn, consts):
    cx = Ctx(fn.name, consts)
    env = {}
    for a in fn.args.args:
        ann = ast.unparse(a.annotation) if a.annotation is not None else ''
        ty = {'int': 'int', 'bytes': 'bytes', 'bytearray': 'bytes', 'bytes | bytearray': 'bytes', 'memoryview': 'bytes'}.get(ann)
        if ty is None:
            raise Unsupported('parameter %s: %s' % (a.arg, ann))
        env[a.arg] = ty
    ret = ast.unparse(fn.returns) if fn.returns is not None else ''
    rty = {'bytearray': 'List UInt8', 'bytes': 'List UInt8', 'int': 'Int', 'tuple[int, int]': 'Int × Int', 'None': 'Unit'}.get(ret)
    if rty is None:
        raise Unsupported('return annotation %s' % ret)
    body = tr(list(fn.body), env, cx, K(fall=lambda env_: ['.ok ()'], ret_ok=True))
    sig = 'def %s (fuel : Nat) %s : R (%s) := do' % (fn.name, ' '.join('(%s : %s)' % (lname(a), LEAN_T[t]) for a, t in env.items()), rty)
    return cx, '\n\n'.join(cx.loops + ['\n'.join([sig] + ind(body))])


def module_consts(repo, module):
    code = ("import sys, json; sys.path.insert(0, %r); import importlib; m = importlib.import_module(%r);"
            "out = {k: v for k, v in vars(m).items() if isinstance(v, int) and not isinstance(v, bool) or "
            "(isinstance(v, (list, tuple)) and v and len(v) < 64 and all(isinstance(x, int) and not isinstance(x, bool) for x in v))};"
            "print(json.dumps({k: (list(v) if not isinstance(v, int) else v) for k, v in out.items()}))") % (os.path.join(repo, 'src'), module)
    p = subprocess.run([sys.executable, '-I', '-c', code], capture_output=True, text=True)
    if p.returncode != 0:
        raise Unsupported('cannot import %s: %s' % (module, p.stderr.strip().splitlines()[-1] if p.stderr.strip() else ''))
    return json.loads(p.stdout)


def translate(repo, targets):
    """targets: [(module, relative file, [function names])] -> (lean text, report)"""
    parts, report = [], {'functions': {}, 'constants': {}}
    const_lines = []
    seen_consts = set()
    for module, rel, fns in targets:
        path = os.path.join(repo, 'src', rel)
        tree = ast.parse(open(path).read())
        consts = module_consts(repo, module)
        defs = {n.name: n for n in tree.body if isinstance(n, ast.FunctionDef)}
        for f in fns:
            if f not in defs:
                raise Unsupported('function %s not found in %s' % (f, rel))
            cx, text = translate_function(defs[f], consts)
            parts.append(text)
            report['functions'][f] = {'loops': cx.nloop, 'lines': text.count('\n') + 1}
            for c in cx.used_consts:
                if c not in seen_consts:
                    seen_consts.add(c)
                    v = consts[c]
                    report['constants'][c] = v
                    if isinstance(v, int):
                        const_lines.append('def c_%s : Int := %d' % (c, v))
                    else:
                        const_lines.append('def c_%s : List Int := [%s]' % (c, ', '.join(str(x) for x in v)))
    head = ['import HpackVerif.Src.Py',
            '/-! GENERATED by tools/py2lean.py from the source text of $HPACK_REPO/src/hpack on every run. Do not edit. -/',
            'namespace Src', 'open Py', '']
    return '\n'.join(head + const_lines + [''] + ['\n\n'.join(parts)] + ['', 'end Src', '']), report


TARGETS = [('hpack.hpack', 'hpack/hpack.py', ['encode_integer', 'decode_integer'])]


def main():
    repo = os.environ.get('HPACK_REPO', '/repo')
    out = sys.argv[1] if len(sys.argv) > 1 else os.path.join(os.path.dirname(os.path.dirname(os.path.abspath(__file__))), 'lean', 'HpackVerif', 'Generated', 'SrcInt.lean')
    try:
        text, report = translate(repo, TARGETS)
        report['available'] = True
    except (Unsupported, SyntaxError, OSError) as e:
        text = '\n'.join(['import HpackVerif.Src.Py', '/-! GENERATED by tools/py2lean.py: the source could not be translated (%s). -/' % str(e).replace('-/', '- /'),
                          'namespace Src', 'def unavailable : Unit := ()', 'end Src', ''])
        report = {'available': False, 'reason': str(e)}
    old = open(out).read() if os.path.exists(out) else None
    if old != text:
        with open(out, 'w') as f:
            f.write(text)
        report['rewritten'] = True
    print(json.dumps(report))


if __name__ == '__main__':
    main()
