#!/usr/bin/env python3
"""
Development tool (not in MANIFEST): confirm sub-agent seeded changes and run the checks against them.

  seedtest.py import            copy /tmp/seedwork/<ID>/out/<k>/ -> /verif/seeded/<ID><k>/ after confirming, in a
                                scratch worktree, that the patch applies, the test-suite passes with it and the
                                demonstration fails with it / passes without it
  seedtest.py run [names...]    for each seeded change: git apply in /repo, run ./check <prop> --tier quick (and the
                                checks listed in meta['also']), git checkout -- . ; results -> seeded/results.json
"""
import sys, os, json, subprocess, shutil, glob, time

ROOT = os.path.dirname(os.path.dirname(os.path.abspath(__file__)))
SEEDED = os.path.join(ROOT, 'seeded')
PY = '/venv/bin/python'


def sh(cmd, cwd=None, env=None, timeout=3600):
    p = subprocess.run(cmd, cwd=cwd, env=env, capture_output=True, text=True, timeout=timeout)
    return p.returncode, p.stdout + p.stderr


def confirm(patch, demo, wt):
    """-> dict(applies, suite_pass, demo_fails_with, demo_passes_without)"""
    r = {}
    sh(['git', '-C', wt, 'checkout', '--', '.'])
    env = dict(os.environ, PYTHONPATH=os.path.join(wt, 'src'), PYTHONDONTWRITEBYTECODE='1')
    rc, out = sh([PY, demo], cwd=wt, env=env, timeout=600)
    r['demo_passes_without'] = rc == 0
    rc, out = sh(['git', '-C', wt, 'apply', patch])
    r['applies'] = rc == 0
    if rc != 0:
        r['apply_error'] = out[-300:]
        return r
    rc, out = sh([PY, '-m', 'pytest', '-q', '-p', 'no:cacheprovider', '--timeout=900', '-x'], cwd=wt, env=env, timeout=1800)
    r['suite_pass'] = rc == 0
    r['suite_tail'] = out.strip().splitlines()[-1][:200] if out.strip() else ''
    rc, out = sh([PY, demo], cwd=wt, env=env, timeout=900)
    r['demo_fails_with'] = rc != 0
    r['demo_tail'] = out.strip().splitlines()[-1][:300] if out.strip() else ''
    sh(['git', '-C', wt, 'checkout', '--', '.'])
    sh(['git', '-C', wt, 'clean', '-fdq'])
    return r


def do_import(base='/tmp/seedwork', rename=None):
    wt = '/tmp/seedverify'
    if not os.path.exists(wt):
        sh(['git', '-C', '/repo', 'worktree', 'add', '--detach', wt, 'HEAD'])
    os.makedirs(SEEDED, exist_ok=True)
    for d in sorted(glob.glob(base + '/C*/out/*')):
        pid = d.split('/')[3]
        k = os.path.basename(d)
        if rename:
            k = rename.get(k, k)
        name = pid + k
        patch, demo, notes = [os.path.join(d, f) for f in ('patch.diff', 'demo.py', 'notes.md')]
        if not (os.path.exists(patch) and os.path.exists(demo)):
            print(name, 'incomplete'); continue
        dst = os.path.join(SEEDED, name)
        if os.path.exists(os.path.join(dst, 'meta.json')):
            continue
        r = confirm(patch, demo, wt)
        ok = r.get('applies') and r.get('suite_pass') and r.get('demo_fails_with') and r.get('demo_passes_without')
        print(name, 'CONFIRMED' if ok else 'REJECTED', r)
        if not ok:
            continue
        os.makedirs(dst, exist_ok=True)
        shutil.copy(patch, os.path.join(dst, 'patch.diff'))
        shutil.copy(demo, os.path.join(dst, 'demo.py'))
        if os.path.exists(notes):
            shutil.copy(notes, os.path.join(dst, 'notes.md'))
        meta = {'name': name, 'breaks_property': pid, 'origin': 'sub-agent given only the property text and a scratch worktree',
                'needs_to_manifest': open(notes).read()[:1500] if os.path.exists(notes) else '',
                'confirmed': {'command_suite': 'PYTHONPATH=<wt>/src /venv/bin/python -m pytest -q -p no:cacheprovider --timeout=900 (500 passed with the patch)',
                              'command_demo': 'PYTHONPATH=<wt>/src /venv/bin/python demo.py (exit 1 with the patch, exit 0 without)', **r}}
        json.dump(meta, open(os.path.join(dst, 'meta.json'), 'w'), indent=1)
    sh(['git', '-C', '/repo', 'worktree', 'remove', '--force', wt])


def run(names):
    res_path = os.path.join(SEEDED, 'results.json')
    results = json.load(open(res_path)) if os.path.exists(res_path) else {}
    dirs = sorted(d for d in glob.glob(os.path.join(SEEDED, 'C*')) if os.path.isdir(d))
    extra_props = [a[1:] for a in names if a.startswith('+')]
    names = [a for a in names if not a.startswith('+')]
    for d in dirs:
        name = os.path.basename(d)
        if names and name not in names:
            continue
        meta = json.load(open(os.path.join(d, 'meta.json')))
        props = [meta['breaks_property']] + meta.get('also', []) + extra_props
        rc, out = sh(['git', '-C', '/repo', 'status', '--short'])
        if out.strip():
            print('REPO NOT CLEAN, abort'); return
        rc, out = sh(['git', '-C', '/repo', 'apply', os.path.join(d, 'patch.diff')])
        if rc != 0:
            print(name, 'patch does not apply', out[-200:]); continue
        try:
            for p in props:
                t = time.time()
                rc, out = sh([os.path.join(ROOT, 'check'), p, '--tier', 'quick'], cwd=ROOT, timeout=3000)
                lines = [l for l in out.splitlines() if l.startswith('VIOLATION') or l.startswith('FAILING INPUT') or l.startswith('BROKEN')]
                verdict = 'MISSED' if rc == 0 else ('CAUGHT-no-input' if any('no-failing-input-found' in l for l in lines) else ('CAUGHT' if rc == 1 else 'INFRA rc=%d' % rc))
                results.setdefault(name, {})[p] = {'rc': rc, 'verdict': verdict, 'wall_s': round(time.time() - t, 1), 'lines': [l[:400] for l in lines[:4]]}
                print(name, p, verdict, '%.0fs' % (time.time() - t), (lines[0][:200] if lines else out.strip().splitlines()[-1][:200] if out.strip() else ''), flush=True)
        finally:
            sh(['git', '-C', '/repo', 'checkout', '--', '.'])
            sh(['git', '-C', '/repo', 'clean', '-fdq', 'src'])
        json.dump(results, open(res_path, 'w'), indent=1, sort_keys=True)


if __name__ == '__main__':
    if sys.argv[1] == 'import':
        if len(sys.argv) > 2:
            letters = sys.argv[3] if len(sys.argv) > 3 else 'cd'
            do_import(sys.argv[2], {'a': letters[0], 'b': letters[1]})
        else:
            do_import()
    else:
        run(sys.argv[2:])
        # the generated part of the model was last written from a patched tree: regenerate it from the restored /repo
        for tool in ('translate.py', 'py2lean.py'):
            sh([PY, os.path.join(ROOT, 'tools', tool)], env=dict(os.environ, HPACK_REPO='/repo'))
