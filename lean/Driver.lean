import HpackVerif.Impl.Model
import HpackVerif.Impl.EncModel
import HpackVerif.Impl.Utf8
open Impl

def hexVal (c : Char) : Nat :=
  if c.isDigit then c.toNat - 48 else if 'a' ≤ c ∧ c ≤ 'f' then c.toNat - 87 else 0
def parseHex (s : String) : Bytes :=
  let rec go : List Char → Bytes
    | a :: b :: r => UInt8.ofNat (hexVal a * 16 + hexVal b) :: go r
    | _ => []
  if s == "-" then [] else go s.toList
def hexDigit (n : Nat) : Char := if n < 10 then Char.ofNat (48 + n) else Char.ofNat (87 + n)
def toHex (b : Bytes) : String :=
  if b.isEmpty then "-" else String.ofList (b.flatMap fun x => [hexDigit (x.toNat / 16), hexDigit (x.toNat % 16)])

def showBuf (b : PyBuf) : String := toHex b.bytes ++ (if b.view then "v" else "o")
def showTable (t : Table) : String :=
  s!"max={t.maxsize} cur={t.curSize} [" ++ ",".intercalate (t.entries.map fun e => showBuf e.1 ++ ":" ++ showBuf e.2) ++ "]"
def showErr : DErr → String
  | .decoding => "HPACKDecodingError" | .invalidIndex => "InvalidTableIndexError"
  | .invalidTableSize => "InvalidTableSizeError" | .oversized => "OversizedHeaderListError"
def showExc : PyExc → String
  | .valueError => "ValueError" | .indexError => "IndexError" | .nonTermination => "NONTERMINATION"

structure W where
  dec : DecState := {}
  enc : EncState := {}

def parseHdr (s : String) : Bytes × Bytes × Bool :=
  match s.splitOn ":" with
  | [n, v, f] => (parseHex n, parseHex v, f == "1")
  | _ => ([], [], false)

def stepEnc (e : EncState) (toks : List String) : EncState × String :=
  match toks with
  | ["enew"] => ({}, "ok")
  | ["esize", n] =>
    match e.setSize false n.toNat! with
    | .ok e' => (e', "ok | " ++ showTable e'.table ++ s!" resized={e'.table.resized} changes={e'.changes}")
    | .err x => (e, "err " ++ showErr x) | .esc x => (e, "esc " ++ showExc x)
  | "eenc" :: huff :: hs =>
    let hs := if hs == ["-"] then [] else hs.map parseHdr
    match e.encode false hs (huff == "1") with
    | .ok (b, e') => (e', "ok " ++ toHex b ++ " | " ++ showTable e'.table ++ s!" resized={e'.table.resized} changes={e'.changes}")
    | .err x => (e, "err " ++ showErr x) | .esc x => (e, "esc " ++ showExc x)
  | ["utf8", h] => (e, if validUtf8 (parseHex h) then "1" else "0")
  | ["henc", h] => (e, "ok " ++ toHex (huffEncode Gen.codes (parseHex h)))
  | ["ienc", n, N] => (e, "ok " ++ toHex (encodeInt n.toNat! N.toNat!))
  | _ => (e, "bad-op")

def step (st : DecState) (line : String) : DecState × String :=
  match line.trimAscii.toString.splitOn " " with
  | ["dnew"] => ({}, "ok")
  | ["dallow", n] => ({ st with allowed := n.toNat! }, "ok")
  | ["dlimit", n] => ({ st with listLimit := n.toNat! }, "ok")
  | ["ddec", h] =>
    let (r, st') := decode none false st (parseHex h)
    let out := match r with
      | .ok hs => "ok " ++ ",".intercalate (hs.map fun h => toHex h.name.bytes ++ ":" ++ toHex h.value.bytes ++ ":" ++ (if h.never then "N" else "P"))
      | .err e => "err " ++ showErr e
      | .esc x => "esc " ++ showExc x
    (st', out ++ " | " ++ showTable st'.table)
  | _ => (st, "bad-op")

partial def loop (h : IO.FS.Stream) (w : W) : IO Unit := do
  let line ← h.getLine
  if line.isEmpty then return ()
  let toks := line.trimAscii.toString.splitOn " "
  if (toks.headD "").startsWith "d" then
    let (st', out) := step w.dec line
    IO.println out
    loop h { w with dec := st' }
  else
    let (e', out) := stepEnc w.enc toks
    IO.println out
    loop h { w with enc := e' }
def main : IO Unit := do loop (← IO.getStdin) {}
