import HpackVerif.Impl.Api
/-! Line-protocol driver: executes the operations of the correspondence harness on the L2 model
    (`Impl`) instantiated with the `Generated` tables.  One operation per input line, one canonical
    reply line per operation.  No Mathlib in the import closure (links offline). -/
open Impl

def hexVal (c : Char) : Nat :=
  if c.isDigit then c.toNat - 48 else if 'a' ≤ c ∧ c ≤ 'f' then c.toNat - 87 else 0
def parseHex (s : String) : Bytes :=
  let rec go : List Char → Bytes
    | a :: b :: r => UInt8.ofNat (hexVal a * 16 + hexVal b) :: go r
    | _ => []
  if s == "-" then [] else go s.toList
def hexDigit (n : Nat) : Char := if n < 10 then Char.ofNat (48 + n) else Char.ofNat (87 + n)
def toHex (b : Bytes) : String :=
  if b.isEmpty then "-" else String.ofList (b.flatMap fun x => [hexDigit (x.toNat / 16), hexDigit (x.toNat % 16)])

def showBuf (b : PyBuf) : String := toHex b.bytes ++ (if b.view then "v" else "o")
def b01 (b : Bool) : String := if b then "1" else "0"
def showTable (t : Table) : String :=
  s!"max={t.maxsize} cur={t.curSize} res={b01 t.resized} [" ++
    ",".intercalate (t.entries.map fun e => showBuf e.1 ++ ":" ++ showBuf e.2) ++ "]"
def showEnc (e : EncState) : String :=
  showTable e.table ++ " changes=[" ++ ",".intercalate (e.changes.map toString) ++ "]"
def showDec (d : DecState) : String :=
  showTable d.table ++ s!" allowed={d.allowed} limit={d.listLimit}"
def showErr : DErr → String
  | .decoding => "HPACKDecodingError" | .invalidIndex => "InvalidTableIndexError"
  | .invalidTableSize => "InvalidTableSizeError" | .oversized => "OversizedHeaderListError"
def showExc : PyExc → String
  | .valueError => "ValueError" | .indexError => "IndexError" | .nonTermination => "NONTERMINATION"
def showFail {α : Type} : Out α → String
  | .ok _ => "ok" | .err e => "err " ++ showErr e | .esc x => "esc " ++ showExc x
def showHeaders (hs : List Header) : String :=
  if hs.isEmpty then "-" else
  ",".intercalate (hs.map fun h => toHex h.name.bytes ++ ":" ++ toHex h.value.bytes ++ ":" ++ (if h.never then "N" else "P"))

structure W where
  cfg : Cfg := {}
  tables : List (Nat × Table) := []
  encs : List (Nat × EncState) := []
  decs : List (Nat × DecState) := []
  lastOut : List (Nat × Bytes) := []

def aget {α : Type} (l : List (Nat × α)) (i : Nat) : Option α := (l.find? (·.1 == i)).map (·.2)
def aset {α : Type} (l : List (Nat × α)) (i : Nat) (a : α) : List (Nat × α) := (i, a) :: l.filter (·.1 != i)

def newTable : Table := { maxsize := Gen.defaultSize }
def newEnc : EncState := { table := { maxsize := Gen.defaultEncSize } }
def newDec (limit : Nat) : DecState := { table := { maxsize := Gen.defaultSize }, allowed := Gen.defaultAllowed, listLimit := limit }

def parseHdr (s : String) : Bytes × Bytes × Bool :=
  match s.splitOn ":" with
  | [n, v, f] => (parseHex n, parseHex v, f == "1")
  | _ => ([], [], false)

/-- form-annotated field `<k><nf><vf>:<name hex>:<value hex>` with k ∈ 2,3f,3t,H,N (tuple2, tuple3 false/true,
    HeaderTuple, NeverIndexedHeaderTuple) and nf/vf ∈ b,s (bytes / str).  A `str` is given by the hex of its
    UTF-8 encoding (the harness only produces valid text). -/
def mkStr (f : Char) (h : String) : PyStr :=
  let b := parseHex h
  if f == 's' then
    match String.fromUTF8? (ByteArray.mk b.toArray) with
    | some s => .text s
    | none => .bytes b
  else .bytes b
def parseForm (s : String) : Option FieldForm :=
  match s.splitOn ":" with
  | [k, n, v] =>
    match k.toList with
    | ['2', nf, vf] => some (.tuple2 (mkStr nf n) (mkStr vf v))
    | ['3', 'f', nf, vf] => some (.tuple3 (mkStr nf n) (mkStr vf v) false)
    | ['3', 't', nf, vf] => some (.tuple3 (mkStr nf n) (mkStr vf v) true)
    | ['3', 'n', nf, vf] => some (.tuple3 (mkStr nf n) (mkStr vf v) false)   -- None: falsy
    | ['3', '0', nf, vf] => some (.tuple3 (mkStr nf n) (mkStr vf v) false)   -- 0: falsy
    | ['3', '1', nf, vf] => some (.tuple3 (mkStr nf n) (mkStr vf v) true)    -- 1: truthy
    | ['3', 'y', nf, vf] => some (.tuple3 (mkStr nf n) (mkStr vf v) true)    -- "yes": truthy
    | ['3', '2', nf, vf] => some (.tuple3 (mkStr nf n) (mkStr vf v) true)    -- 2: truthy
    | ['3', 'e', nf, vf] => some (.tuple3 (mkStr nf n) (mkStr vf v) false)   -- "": falsy
    | ['T', nf, vf] => some (.headerTuple (mkStr nf n) (mkStr vf v))         -- subclass of HeaderTuple
    | ['S', nf, vf] => some (.neverTuple (mkStr nf n) (mkStr vf v))          -- subclass of NeverIndexedHeaderTuple
    | ['H', nf, vf] => some (.headerTuple (mkStr nf n) (mkStr vf v))
    | ['N', nf, vf] => some (.neverTuple (mkStr nf n) (mkStr vf v))
    | _ => none
  | _ => none
def parseItem (s : String) : Option (PyStr × PyStr) :=
  match s.splitOn ":" with
  | [k, n, v] =>
    match k.toList with
    | ['D', nf, vf] => some (mkStr nf n, mkStr vf v)
    | _ => none
  | _ => none

/-- representation trace of one block against a decoder state (for the judges): per field
    kind (I indexed, L incremental literal, W literal without indexing, N never-indexed literal, U size update),
    octets consumed, the index used (0 = literal name) and the H bits of name/value strings -/
def traceLoop (cfg : Cfg) (fuel : Nat) (st : DecState) (data : Bytes) (seen : Bool) (acc : List String) : List String × String :=
  match fuel with
  | 0 => (acc.reverse, "esc NONTERMINATION")
  | fuel + 1 =>
    match data with
    | [] => (acc.reverse, "end")
    | b0 :: _ =>
      let cur := b0.toNat
      let kind := if cur &&& 0x80 ≠ 0 then "I" else if cur &&& 0x40 ≠ 0 then "L" else if cur &&& 0x20 ≠ 0 then "U"
                  else if cur &&& 0x10 ≠ 0 then "N" else "W"
      let pfx := if kind == "I" then 7 else if kind == "L" then 6 else if kind == "U" then 5 else 4
      let idx := match decodeInt cfg.cap data pfx with | .ok (v, _) => v | _ => 0
      match decodeField cfg.cap cfg.own st data seen with
      | .ok (h, consumed, st') =>
        let hs := match h with
          | some h => toHex h.name.bytes ++ ":" ++ toHex h.value.bytes
          | none => "-"
        let item := s!"{kind}/{consumed}/{idx}/{hs}"
        traceLoop cfg fuel st' (data.drop consumed) (seen || h.isSome) (item :: acc)
      | .err e => (acc.reverse, "err " ++ showErr e)
      | .esc x => (acc.reverse, "esc " ++ showExc x)

def step (w : W) (toks : List String) : W × String :=
  match toks with
  | "cfg" :: rest =>
    let cfg := rest.foldl (fun (c : Cfg) kv =>
      match kv.splitOn "=" with
      | ["cap", v] => { c with cap := if v == "none" then none else some v.toNat! }
      | ["own", v] => { c with own := v == "1" }
      | ["sticky", v] => { c with sticky := v == "1" }
      | ["strict", v] => { c with strict := v == "1" }
      | _ => c) w.cfg
    ({ w with cfg := cfg }, "ok")
  -- pure codecs
  | ["ienc", n, N] =>
    match n.toInt?, N.toInt? with
    | some n, some N =>
      (w, match encodeIntApi n N with
          | .ok b => "ok " ++ toHex b
          | r => showFail r)
    | _, _ => (w, "bad-op")
  | ["ienchex", h, N] =>
    match N.toInt? with
    | some N =>
      (w, match encodeIntApi (Int.ofNat ((parseHex h).foldl (fun a b => a * 256 + b.toNat) 0)) N with
          | .ok b => "ok " ++ toHex b
          | r => showFail r)
    | none => (w, "bad-op")
  | ["idec", h, N] =>
    match N.toInt? with
    | some N =>
      (w, match decodeIntApi w.cfg.cap (parseHex h) N with
          | .ok (v, k) => "ok 0x" ++ String.ofList (Nat.toDigits 16 v) ++ s!" {k}"
          | r => showFail r)
    | none => (w, "bad-op")
  | ["henc", h] => (w, "ok " ++ toHex (huffEncode Gen.codes (parseHex h)))
  | ["hdec", h] =>
    (w, match huffDecodeBuf (parseHex h) with
        | .ok b => "ok " ++ toHex b.bytes
        | r => showFail r)
  | ["hother", _] => (w, "ok")
  | ["hcopy", _] => (w, "ok")      -- the coder object is copied / pickled on the implementation side; the model has no coder state
  | ["hrt", h] =>
    (w, match huffDecodeBuf (huffEncode Gen.codes (parseHex h)) with
        | .ok b => "ok " ++ toHex b.bytes
        | r => showFail r)
  | ["utf8", h] => (w, if validUtf8 (parseHex h) then "1" else "0")
  -- HeaderTable
  | ["tnew", id] => ({ w with tables := aset w.tables id.toNat! newTable }, "ok | " ++ showTable newTable)
  | ["tadd", id, n, v] =>
    match aget w.tables id.toNat! with
    | none => (w, "bad-id")
    | some t =>
      match t.add ⟨parseHex n, false⟩ ⟨parseHex v, false⟩ with
      | .ok t' => ({ w with tables := aset w.tables id.toNat! t' }, "ok | " ++ showTable t')
      | r => (w, showFail r ++ " | " ++ showTable t)
  | ["tmax", id, n] =>
    match aget w.tables id.toNat! with
    | none => (w, "bad-id")
    | some t =>
      match t.setMaxsize n.toNat! with
      | .ok t' => ({ w with tables := aset w.tables id.toNat! t' }, "ok | " ++ showTable t')
      | r => (w, showFail r ++ " | " ++ showTable t)
  | ["tget", id, i] =>
    match aget w.tables id.toNat! with
    | none => (w, "bad-id")
    | some t =>
      (w, match t.getByIndex i.toNat! with
          | .ok e => "ok " ++ toHex e.1.bytes ++ ":" ++ toHex e.2.bytes
          | r => showFail r)
  | ["tsearch", id, n, v] =>
    match aget w.tables id.toNat! with
    | none => (w, "bad-id")
    | some t =>
      (w, match t.search (parseHex n) (parseHex v) with
          | none => "none"
          | some (i, p) => s!"{i} " ++ (if p then "P" else "N"))
  | ["tdump", id] =>
    match aget w.tables id.toNat! with
    | none => (w, "bad-id")
    | some t => (w, "ok | " ++ showTable t)
  -- Encoder
  | ["enew", id] => ({ w with encs := aset w.encs id.toNat! newEnc }, "ok | " ++ showEnc newEnc)
  | ["esize", id, n] =>
    match aget w.encs id.toNat! with
    | none => (w, "bad-id")
    | some e =>
      match e.setSize w.cfg.sticky n.toNat! with
      | .ok e' => ({ w with encs := aset w.encs id.toNat! e' }, "ok | " ++ showEnc e')
      | r => (w, showFail r ++ " | " ++ showEnc e)
  | "eenc" :: id :: huff :: hs =>
    match aget w.encs id.toNat! with
    | none => (w, "bad-id")
    | some e =>
      let hs := if hs == ["-"] then [] else hs.map parseHdr
      match e.encode w.cfg.strict hs (huff == "1") with
      | .ok (b, e') => ({ w with encs := aset w.encs id.toNat! e', lastOut := aset w.lastOut id.toNat! b }, "ok " ++ toHex b ++ " | " ++ showEnc e')
      | r => (w, showFail r ++ " | " ++ showEnc e)
  | "eapi" :: id :: huff :: cont :: fs =>
    match aget w.encs id.toNat! with
    | none => (w, "bad-id")
    | some e =>
      let fs := if fs == ["-"] then [] else fs
      -- a malformed header (form letter X: a 1-tuple) makes `encode` raise IndexError at that field; everything
      -- before it has been processed (pending size updates flushed, earlier fields inserted) and nothing is returned
      let isBad := fun (s : String) => s.startsWith "X"
      let hasBad := cont != "dict" && fs.any isBad
      let good := if hasBad then fs.takeWhile (fun s => !isBad s) else fs
      let c : Option Container :=
        if cont == "dict" then (good.mapM parseItem).map Container.dict
        else (good.mapM parseForm).map Container.iterable
      match c with
      | none => (w, "bad-op")
      | some c =>
        match e.encodeForms w.cfg.strict c (huff == "1") with
        | .ok (b, e') =>
          if hasBad then ({ w with encs := aset w.encs id.toNat! e' }, "esc IndexError | " ++ showEnc e')
          else ({ w with encs := aset w.encs id.toNat! e', lastOut := aset w.lastOut id.toNat! b }, "ok " ++ toHex b ++ " | " ++ showEnc e')
        | r => (w, showFail r ++ " | " ++ showEnc e)
  -- eev <id> <huff> tokens…: a generator that yields fields and, at `!size=N`, assigns header_table_size on the same encoder
  | "eev" :: id :: huff :: toks =>
    match aget w.encs id.toNat! with
    | none => (w, "bad-id")
    | some e =>
      let evs : Option (List Event) := toks.mapM fun t =>
        if t.startsWith "!size=" then (t.drop 6).toNat?.map Event.setSize
        else (parseForm t).map Event.field
      match evs with
      | none => (w, "bad-op")
      | some evs =>
        match e.encodeEvents w.cfg.strict w.cfg.sticky evs (huff == "1") with
        | .ok (b, e') => ({ w with encs := aset w.encs id.toNat! e', lastOut := aset w.lastOut id.toNat! b }, "ok " ++ toHex b ++ " | " ++ showEnc e')
        | r => (w, showFail r ++ " | " ++ showEnc e)
  -- eadd <id> <huff> <sensitive> <name> <value>: Encoder.add((name, value), sensitive, huffman) called directly
  | ["eadd", id, huff, sens, n, v] =>
    match aget w.encs id.toNat! with
    | none => (w, "bad-id")
    | some e =>
      match e.add w.cfg.strict (parseHex n) (parseHex v) (sens == "1") (huff == "1") with
      | .ok (b, e') => ({ w with encs := aset w.encs id.toNat! e', lastOut := aset w.lastOut id.toNat! b }, "ok " ++ toHex b ++ " | " ++ showEnc e')
      | r => (w, showFail r ++ " | " ++ showEnc e)
  -- copies of live objects (copy.deepcopy / pickle round trip): an independent object with the same state
  | ["ecopy", id, src, _] =>
    match aget w.encs src.toNat! with
    | none => (w, "bad-id")
    | some e => ({ w with encs := aset w.encs id.toNat! e, lastOut := aset w.lastOut id.toNat! ((aget w.lastOut src.toNat!).getD []) }, "ok | " ++ showEnc e)
  | ["dcopy", id, src, _] =>
    match aget w.decs src.toNat! with
    | none => (w, "bad-id")
    | some d => ({ w with decs := aset w.decs id.toNat! d }, "ok | " ++ showDec d)
  | ["tcopy", id, src, _] =>
    match aget w.tables src.toNat! with
    | none => (w, "bad-id")
    | some t => ({ w with tables := aset w.tables id.toNat! t }, "ok | " ++ showTable t)
  | ["edump", id] =>
    match aget w.encs id.toNat! with
    | none => (w, "bad-id")
    | some e => (w, "ok | " ++ showEnc e)
  -- Decoder
  | ["dnew", id] => let d := newDec Gen.defaultListLimit; ({ w with decs := aset w.decs id.toNat! d }, "ok | " ++ showDec d)
  | ["dnew", id, lim] => let d := newDec lim.toNat!; ({ w with decs := aset w.decs id.toNat! d }, "ok | " ++ showDec d)
  | ["dallow", id, n] =>
    match aget w.decs id.toNat! with
    | none => (w, "bad-id")
    | some d => let d' := { d with allowed := n.toNat! }; ({ w with decs := aset w.decs id.toNat! d' }, "ok | " ++ showDec d')
  | ["dlimit", id, n] =>
    match aget w.decs id.toNat! with
    | none => (w, "bad-id")
    | some d => let d' := { d with listLimit := n.toNat! }; ({ w with decs := aset w.decs id.toNat! d' }, "ok | " ++ showDec d')
  | ["dsize", id, n] =>
    match aget w.decs id.toNat! with
    | none => (w, "bad-id")
    | some d =>
      match d.table.setMaxsize n.toNat! with
      | .ok t' => let d' := { d with table := t' }; ({ w with decs := aset w.decs id.toNat! d' }, "ok | " ++ showDec d')
      | r => (w, showFail r ++ " | " ++ showDec d)
  | ["ddec", id, raw, h] =>
    match aget w.decs id.toNat! with
    | none => (w, "bad-id")
    | some d =>
      let (r, d') := decodeApi w.cfg.cap w.cfg.own d (parseHex h) (raw == "1")
      let out := match r with
        | .ok hs => "ok " ++ showHeaders hs
        | r => showFail r
      ({ w with decs := aset w.decs id.toNat! d' }, out ++ " | " ++ showDec d')
  | ["pipe", id, raw, eid] =>
    match aget w.decs id.toNat! with
    | none => (w, "bad-id")
    | some d =>
      let data := (aget w.lastOut eid.toNat!).getD []
      let (r, d') := decodeApi w.cfg.cap w.cfg.own d data (raw == "1")
      let out := match r with
        | .ok hs => "ok " ++ showHeaders hs
        | r => showFail r
      ({ w with decs := aset w.decs id.toNat! d' }, out ++ " | " ++ showDec d')
  | ["dtrace", id, h] =>
    match aget w.decs id.toNat! with
    | none => (w, "bad-id")
    | some d =>
      let data := parseHex h
      let (items, fin) := traceLoop w.cfg (data.length + 1) d data false []
      (w, "trace " ++ (if items.isEmpty then "-" else ",".intercalate items) ++ " " ++ fin)
  | ["dget", id, i] =>
    match aget w.decs id.toNat! with
    | none => (w, "bad-id")
    | some d =>
      (w, match d.table.getByIndex i.toNat! with
          | .ok e => "ok " ++ toHex e.1.bytes ++ ":" ++ toHex e.2.bytes
          | r => showFail r)
  | ["ddump", id] =>
    match aget w.decs id.toNat! with
    | none => (w, "bad-id")
    | some d => (w, "ok | " ++ showDec d)
  | _ => (w, "bad-op")

partial def mainLoop (h : IO.FS.Stream) (out : IO.FS.Stream) (w : W) : IO Unit := do
  let line ← h.getLine
  if line.isEmpty then return ()
  let toks := (line.trimAscii.toString.splitOn " ").filter (· ≠ "")
  let (w', reply) := step w toks
  out.putStrLn reply
  mainLoop h out w'

def main : IO Unit := do
  let out ← IO.getStdout
  mainLoop (← IO.getStdin) out {}
  out.flush
