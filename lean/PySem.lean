import HpackVerif.Src.Py
import HpackVerif.Impl.Utf8
/-! Line-protocol driver for the semantics in `Src/Py.lean` (run: `lake env lean --run PySem.lean < cases`): one primitive
per line, evaluated with the definitions the translated source uses; `harness/pysem_check.py` evaluates the same lines in
CPython and compares. Validation of the trusted base of the source ties — a test, not a proof. -/
open Py

def hexVal (c : Char) : Nat :=
  if c.isDigit then c.toNat - '0'.toNat else if 'a' ≤ c ∧ c ≤ 'f' then c.toNat - 'a'.toNat + 10 else 0

def unhex (s : String) : List UInt8 :=
  if s = "-" then [] else
  let rec go : List Char → List UInt8
    | a :: b :: rest => UInt8.ofNat (hexVal a * 16 + hexVal b) :: go rest
    | _ => []
  go s.toList

def hexDigit (n : Nat) : Char := if n < 10 then Char.ofNat (n + '0'.toNat) else Char.ofNat (n - 10 + 'a'.toNat)
def hx (b : List UInt8) : String :=
  if b.isEmpty then "-" else String.ofList (b.flatMap fun x => [hexDigit (x.toNat / 16), hexDigit (x.toNat % 16)])

def ints (s : String) : List Int := if s = "-" then [] else (s.splitOn ",").filterMap String.toInt?
def showInts (l : List Int) : String := if l.isEmpty then "-" else ",".intercalate (l.map toString)
def showNats (l : List Nat) : String := if l.isEmpty then "-" else ",".intercalate (l.map toString)

def excName : Exc → String
  | .valueError => "ValueError" | .indexError => "IndexError" | .typeError => "TypeError"
  | .zeroDivisionError => "ZeroDivisionError" | .keyError => "KeyError" | .attributeError => "AttributeError"
  | .unicodeDecodeError => "UnicodeDecodeError" | .outsideModel => "outside" | .nonTermination => "nonterm"
  | .hpackDecodingError => "HPACKDecodingError" | .invalidTableIndex => "InvalidTableIndex"
  | .invalidTableSizeError => "InvalidTableSizeError" | .oversizedHeaderListError => "OversizedHeaderListError"

def out {α} (f : α → String) : R α → String
  | .ok a => "ok " ++ f a
  | .error e => "err " ++ excName e

/-- an object: `b:<hex>` bytes, `s:<hex of utf-8>` str, `o:<hex of utf-8 of str()>:<0|1>` other -/
def parseObj (t : String) : Obj :=
  match t.splitOn ":" with
  | ["b", h] => .bytes (unhex h)
  | ["s", h] => .str (String.fromUTF8! ⟨(unhex h).toArray⟩)
  | ["o", h, tr] => .other (String.fromUTF8! ⟨(unhex h).toArray⟩) (tr = "1")
  | _ => .other "?" false
def showObj : Obj → String
  | .bytes b => "b:" ++ hx b
  | .str s => "s:" ++ hx s.toUTF8.data.toList
  | .other r t => "o:" ++ hx r.toUTF8.data.toList ++ ":" ++ (if t then "1" else "0")

def objs (s : String) : List Obj := if s = "-" then [] else (s.splitOn ";").map parseObj

def step (line : String) : String :=
  match line.trimAscii.toString.splitOn " " with
  | ["band", a, b] => toString (band a.toInt!  b.toInt!)
  | ["bor", a, b] => toString (bor a.toInt! b.toInt!)
  | ["shl", a, b] => out toString (shl a.toInt! b.toInt!)
  | ["shr", a, b] => out toString (shr a.toInt! b.toInt!)
  | ["ipow", a, b] => out toString (ipow a.toInt! b.toInt!)
  | ["imod", a, b] => out toString (imod a.toInt! b.toInt!)
  | ["ifloordiv", a, b] => out toString (ifloordiv a.toInt! b.toInt!)
  | ["hex", a] => out showNats (hexDigits a.toInt!)
  | ["fromhex", ds] => out hx (fromHex ((ints ds).map Int.toNat))
  | ["getbyte", b, i] => out toString (getByte (unhex b) i.toInt!)
  | ["listget", l, i] => out toString (listGet (ints l) i.toInt!)
  | ["popright", l] => out (fun p => toString p.1 ++ " " ++ showInts p.2) (popRight (ints l))
  | ["bytesofints", l] => out hx (bytesOfInts (ints l))
  | ["append", b, x] => out hx (bytesAppend (unhex b) x.toInt!)
  | ["slicefrom", b, i] => out hx (sliceFrom (unhex b) i.toInt!)
  | ["slice", b, i, j] => out hx (slice (unhex b) i.toInt! j.toInt!)
  | ["setfirstor", b, m] => out hx (setFirstOr (unhex b) m.toInt!)
  | ["ord", b] => out toString (ord1 (unhex b))
  | ["fmtint", sign, digits] =>      -- the integer ±10^digits (and one below): does "%d" % n raise?
      let n : Int := (10 : Int) ^ digits.toNat!
      let a := if sign = "-" then -n else n
      out (fun _ => "") (fmtInt a) ++ "|" ++ out (fun _ => "") (fmtInt (if sign = "-" then a + 1 else a - 1))
  | ["utf8", b] => out hx (utf8Decode Impl.validUtf8 (unhex b))
  | ["startswith", b, p] => toString (startsWith (unhex b) (unhex p))
  | ["typeof", o] => (match (parseObj o).typeOf with | .bytes => "bytes" | .str => "str" | .other => "other")
  | ["strof", o] => out showObj (parseObj o).strOf
  | ["encode", o] => out hx (parseObj o).encodeUtf8
  | ["truthy", o] => toString (parseObj o).truthy
  | ["hdrlen", os] => toString (Hdr.tuple (objs os)).len
  | ["hdrget", os, i] => out showObj ((Hdr.tuple (objs os)).get i.toInt!)
  | ["sortedbool", l, ks] => showInts (sortedByBool (ints l) ((ints ks).map (· ≠ 0)))
  | ["join", parts] => hx (joinBytes (if parts = "-" then [] else (parts.splitOn ",").map unhex))
  | ["dictget", ks, vs, k] =>
      out showObj (Headers.getItem (.dict ((objs ks).zip (objs vs))) (parseObj k))
  | _ => "bad-op"

partial def loop (h : IO.FS.Stream) : IO Unit := do
  let line ← h.getLine
  if line.isEmpty then return ()
  IO.println (step line)
  loop h

def main : IO Unit := do loop (← IO.getStdin)
