import HpackVerif
/-! `lake env lean Audit.lean` prints, for every theorem declared in a `Props.*` namespace (the property
    theorems and the shared reachability lemmas), the axioms its proof depends on — transitively, through
    every helper lemma it uses.  One line per theorem:  `AUDIT <name> | <axiom> <axiom> …`.
    The check script accepts only subsets of {propext, Classical.choice, Quot.sound}. -/
open Lean Elab Command

elab "#audit_props" : command => do
  let env ← getEnv
  let mut names : Array Name := #[]
  for (n, ci) in env.constants.toList do
    if (`Props).isPrefixOf n && !n.isInternal then
      match ci with
      | .thmInfo _ => names := names.push n
      | _ => pure ()
  let sorted := names.qsort (fun a b => a.toString < b.toString)
  for n in sorted do
    let axs ← Lean.collectAxioms n
    let axs := axs.qsort (fun a b => a.toString < b.toString)
    logInfo m!"AUDIT {n} | {" ".intercalate (axs.toList.map toString)}"

#audit_props
