import HpackVerif.Props.Common
import HpackVerif.Proofs.Cost
import HpackVerif.Proofs.CostLoop
import HpackVerif.Proofs.CostFine
import HpackVerif.Proofs.IntExtra
/-! # C16 — Decoder work grows at most linearly with the size of the block  (partial: work model)

Time and memory are not objects of the functional model, so this property is decided over an explicit
**work model** (`Impl.Cost`): one unit per loop iteration and per octet examined, and `shift/30 + 1`
units per accumulation step of `decode_integer` (CPython integers are arrays of 30-bit limbs, so
`number += x << shift` costs time proportional to `shift`). The tie between the work model and the
real decoder is checked at run time (executed-line counts per input family must stay under an affine
function of the model's cost, argument types at every slicing site, CPU-time growth ratios); what the
model cannot exhibit — allocator behaviour, costs inside C builtins — is named in DESIGN.md. -/
namespace Props.C16
open Impl Impl.Cost RFC

/-- **no run of integer continuation octets is accumulated**: with the cap read from the source, the work
    spent on one integer is bounded by a constant that does not depend on the input at all -/
theorem integer_work_constant (data : Bytes) (N : Nat) :
    decodeIntCost Gen.intCap data N ≤ intConst Props.capN := by
  rw [Props.cap_eq]; exact decodeIntCost_capped Props.capN data N

/-- the loop stops — with the decoding error — as soon as the continuation run is longer than the cap
    admits, whatever follows: over-long encodings are refused rather than accumulated -/
theorem long_run_refused (c : Nat) (pre post : Bytes) (hall : ∀ b ∈ pre, b.toNat ≥ 128) (number shift index : Nat)
    (hshift : shift ≤ c) (hlong : shift + 7 * pre.length > c) :
    decLoop (some c) (pre ++ post) number shift index = .err .decoding := by
  induction pre generalizing number shift index with
  | nil => simp at hlong; omega
  | cons b bs ih =>
    simp only [List.cons_append]
    unfold decLoop
    rw [if_pos (hall b (by simp))]
    by_cases hc : shift + 7 > c
    · simp [capExceeded, hc]
    · simp only [capExceeded, hc, decide_false, Bool.false_eq_true, if_false]
      apply ih (fun x hx => hall x (by simp [hx]))
      · omega
      · simp only [List.length_cons] at hlong; omega

/-- the number of octets of an integer the decoder ever looks at is at most `cap/7 + 2` -/
theorem integer_octets_examined (data : Bytes) (N : Nat) {v k : Nat}
    (h : decodeInt Gen.intCap data N = .ok (v, k)) : v < 2 ^ (Props.capN + 9) := by
  rw [Props.cap_eq] at h
  exact (decodeInt_spec Props.capN data N h).2.2

/-- **C16 over the work model**: for every reachable decoder state and every byte string, the work of
    one `decode` call (`Impl.Cost.decodeCost`: per iteration a constant + three capped integers + the octets
    the field consumes + the entries it evicts; a failing field may scan the rest once; the returned list
    is converted octet by octet) is at most
        `(3·intConst cap + 10) · |data|  +  (entries in the table)  +  (list limit)  +  1`
    — linear in the length of the block for fixed limits (the entries are at most `maxsize / 32`, C06).
    No shape of input makes the modelled cost grow quadratically. -/
theorem decode_work_linear (st : DecState) (h : Props.DecReach st) (data : Bytes) :
    decodeCost Props.capN true st data ≤
      (fieldOverhead Props.capN + 2) * data.length + st.table.entries.length + st.listLimit + 1 :=
  decodeCost_linear (own := true) Props.capN Props.capOK st (Props.decReach_inv h) data

/-- the per-iteration charge used above is not an assumption about integers: it bounds a finer model of one
    iteration (`fineFieldCost`) in which every prefix integer is charged by the per-octet model of
    `decode_integer` (`decodeIntCost`, with bigint limb work), every string by its length integer plus one unit
    per payload octet present, every table operation by one unit plus the entries popped -/
theorem iteration_charge_bounds_fine_model (st : DecState) (h : Props.DecReach st) (data : Bytes) (hne : data ≠ []) (seen : Bool) :
    fineFieldCost Props.capN true st data seen ≤ fieldCost Props.capN true st data seen :=
  fine_le_coarse (own := true) Props.capN Props.capOK st (Props.decReach_inv h) data hne seen

/-- the table term is itself bounded by the table size -/
theorem entries_bounded (st : DecState) (h : Props.DecReach st) : 32 * st.table.entries.length ≤ st.table.maxsize :=
  entries_length_le st.table (Props.decReach_inv h)

/-- without a cap (the tree before the repair D1) the work on a run of `n` continuation octets grows
    quadratically: at least `7 n² / 60` units -/
theorem uncapped_was_quadratic (n : Nat) :
    decLoopCost none (List.replicate n 0xff) 0 * 60 ≥ 7 * n * n := by
  have := decLoopCost_uncapped n 0
  omega

/-- per-iteration progress: every iteration of the decoder's loop that does not end the block consumes
    at least one octet, so the number of iterations is at most the length of the block (this is what the
    fuel `len + 1` of `decodeLoop` encodes; C04 proves the fuel is never exhausted) -/
theorem iterations_bounded (st : DecState) (h : Props.DecReach st) (data : Bytes) :
    (Impl.decode Gen.intCap true st data).1 ≠ .esc .nonTermination := by
  have := (decode_safe (own := true) Props.capN Props.capOK st (Props.decReach_inv h) data).1
  rw [← Props.cap_eq] at this
  intro hc; rw [hc] at this; simp [Out.isEsc] at this

/-! non-vacuity: the constant for the current cap, and a long run being refused -/
example : intConst 126 = 122 := by decide
example : fieldOverhead 126 + 2 = 376 := by decide
example : (Impl.decode Gen.intCap true (Props.freshDec 65536) (0xff :: List.replicate 40 0xff)).1 = .err .decoding := by
  decide +kernel

end Props.C16
