import HpackVerif.Props.Common
import HpackVerif.Proofs.C19
import HpackVerif.Proofs.Witness
/-! # C19 — a field already in the table is sent as a single index -/
namespace Props.C19
open Impl RFC

/-- **C19**: whenever the field to be encoded equals, in name and value, an entry addressable at that
    moment — static or dynamic, the value possibly empty, sensitive or not — the Encoder emits exactly one
    indexed field (`1xxxxxxx`, 7-bit-prefix integer) that resolves to that entry, and does not touch its table -/
theorem indexed (e : EncState) (h : Props.EncReach e) (i : Nat) (name value : Bytes) (sens huff : Bool)
    (hres : resolve e.table i = some (name, value)) :
    ∃ j bytes e', e.add true name value sens huff = .ok (bytes, e') ∧ e'.table = e.table ∧
      bytes = intOctets 7 0x80 j 0 ∧ resolve e.table j = some (name, value) := by
  obtain ⟨j, _, hj, bytes, e', ha, ht, hb⟩ := c19_indexed e (Props.encReach_ok h).inv i name value sens huff hres
  exact ⟨j, bytes, e', ha, ht, by rw [hb]; rfl, hj⟩

/-- the first octet of an indexed field has its top bit set -/
theorem indexed_first_octet (j : Nat) : ∃ b0 rest, intOctets 7 0x80 j 0 = b0 :: rest ∧ b0.toNat &&& 0x80 = 0x80 := by
  obtain ⟨tl, htl⟩ := intOctets_cons 7 0x80 j 0
  refine ⟨_, tl, htl, ?_⟩
  have hple := prefixVal_le 7 j
  have : ∀ x : Fin 128, (UInt8.ofNat (0x80 + x.val)).toNat &&& 0x80 = 0x80 := by decide
  have h127 : prefixVal 7 j < 128 := by
    have : (2:Nat) ^ 7 - 1 = 127 := by decide
    omega
  exact this ⟨prefixVal 7 j, h127⟩

/-- a block all of whose fields are addressable is encoded entirely as indexed fields, and the table is
    unchanged — so a block repeated while all its fields are still in the table costs one index per field -/
theorem all_indexed (huff : Bool) (hs : List (Bytes × Bytes × Bool)) (e : EncState) (hinv : Inv e.table) (acc : Bytes)
    (hall : ∀ h ∈ hs, ∃ i, resolve e.table i = some (h.1, h.2.1)) :
    ∃ js : List Nat, js.length = hs.length ∧
      encLoop true huff e acc hs = .ok (acc ++ js.flatMap (fun j => intOctets 7 0x80 j 0), e) := by
  induction hs generalizing acc with
  | nil => exact ⟨[], rfl, by simp [encLoop, pure]⟩
  | cons hd rest ih =>
    obtain ⟨n, v, s⟩ := hd
    obtain ⟨i, hi⟩ := hall (n, v, s) (by simp)
    obtain ⟨j, _, _, bytes, e', ha, ht, hb⟩ := c19_indexed e hinv i n v s huff hi
    have he : e' = e := by
      obtain ⟨b2, e2, ha2, _, _, hc2, _⟩ := add_emits true e hinv n v s huff
      rw [ha] at ha2; cases ha2
      cases e' with
      | mk t c => cases e with
        | mk t0 c0 => simp only at ht hc2; rw [ht, hc2]
    obtain ⟨js, hl, hrun⟩ := ih (acc ++ bytes) (fun h hm => hall h (by simp [hm]))
    refine ⟨j :: js, by simp [hl], ?_⟩
    simp only [encLoop, bind, ha, he]
    rw [hrun, hb]
    simp [reprOctets, ch0, List.append_assoc]

/-- before the repair D4 an exact match with an empty value was sent as a literal and inserted again -/
theorem empty_value_before_fix :
    Witness.encOut {} [(":authority".toUTF8.toList, [], false)] = some ([0x41, 0x00], 1, 4096) :=
  Witness.c19_empty_value_witness

/-! non-vacuity: `(":authority", "")` (static entry 1, empty value) is now the single octet `81` -/
example : (match (Props.freshEnc).add true ":authority".toUTF8.toList [] false false with
    | .ok (b, e') => (b, e'.table.entries.length) | _ => ([], 99)) = ([0x81], 0) := by decide +kernel

end Props.C19
