import HpackVerif.Props.Src
import HpackVerif.Props.C11
/-! # Property theorems restated on the translated source

Each statement here composes a *tie* theorem (translated source = model, `Props.Src*`) with a *property* theorem (the model
has the property, `Props.Cxx`), so that no model function is left in the conclusion: the statements are about
`Src.encode_integer`, `Src.decode_integer`, `Src.decode_huffman`, `Src.HuffmanEncoder.encode` and `Src.Decoder.decode` —
the Lean rendering of the functions' source text in `/repo` as of this run. They add no new mathematics; they make explicit
what the two layers say together. (`Props.SrcConn` does the same for the C01 round trip.) Informational like all source
ties: not imported by the property modules. -/
namespace Props.OnSourceInt
open SrcTie Impl

/-- **C11 on the source**: for every `n < 2^64`, every prefix width 1–8 and whatever follows, `decode_integer` applied to
what `encode_integer` returned gives back `n` and the number of octets `encode_integer` produced -/
theorem integer_roundtrip (n N : Nat) (hN1 : 1 ≤ N) (hN8 : N ≤ 8) (hn : n < 2 ^ 64) (rest : Bytes) :
    ∃ f0, ∀ fuel, fuel ≥ f0 → ∃ enc,
      Src.encode_integer fuel (n : Int) (N : Int) = .ok enc ∧
      Src.decode_integer fuel (enc ++ rest) (N : Int) = .ok ((n : Int), (enc.length : Int)) := by
  obtain ⟨enc, he, hd⟩ := Props.C11.roundtrip_64 n N hN1 hN8 hn rest
  obtain ⟨f1, h1⟩ := Props.Src.encode_integer_is_model (n : Int) (N : Int)
  obtain ⟨f2, h2⟩ := Props.Src.decode_integer_is_model (enc ++ rest) (N : Int)
  refine ⟨max f1 f2, fun fuel hf => ⟨enc, ?_, ?_⟩⟩
  · rw [h1 fuel (by omega), he]; rfl
  · rw [h2 fuel (by omega), hd]; rfl

end Props.OnSourceInt
