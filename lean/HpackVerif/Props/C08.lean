import HpackVerif.Props.Common
import HpackVerif.Proofs.Limits
/-! # C08 — the Decoder never accepts a table size above the limit its application permits

`st.allowed` models `Decoder.max_allowed_table_size`, `st.table.maxsize` the table's current maximum.
A size update is an octet `001xxxxx` (5-bit prefix integer). Everything here holds for **all** byte
strings, not only well-formed ones. -/
namespace Props.C08
open Impl RFC

/-- first octet of a dynamic-table-size update -/
def IsUpdate (b0 : UInt8) : Prop := b0.toNat &&& 0x80 = 0 ∧ b0.toNat &&& 0x40 = 0 ∧ b0.toNat &&& 0x20 ≠ 0

theorem field_of_update (st : DecState) (b0 : UInt8) (data : Bytes) (seen : Bool) (hu : IsUpdate b0) :
    decodeField Gen.intCap true st (b0 :: data) seen =
      (if seen then .err .decoding
       else do
        let (newSize, consumed) ← decodeInt Gen.intCap (b0 :: data) 5
        if newSize > st.allowed then .err .invalidTableSize
        else do
          let t' ← st.table.setMaxsize newSize
          pure (none, consumed, { st with table := t' })) := by
  obtain ⟨h1, h2, h3⟩ := hu
  unfold decodeField
  simp only [h1, ne_eq, not_true_eq_false, if_false, h2, h3, or_self]

/-- an update above the permitted maximum is rejected with the invalid-table-size error … -/
theorem reject_above (st : DecState) (b0 : UInt8) (data : Bytes) (hu : IsUpdate b0) (n k : Nat)
    (hint : decodeInt Gen.intCap (b0 :: data) 5 = .ok (n, k)) (hgt : n > st.allowed) :
    decodeField Gen.intCap true st (b0 :: data) false = .err .invalidTableSize := by
  rw [field_of_update st b0 data false hu]
  simp only [Bool.false_eq_true, if_false, hint, bind]
  rw [if_pos hgt]

/-- … and never enlarges (or changes) the table: the block ends there with the state as it was -/
theorem reject_above_block (fuel : Nat) (st : DecState) (b0 : UInt8) (data : Bytes) (hu : IsUpdate b0) (n k : Nat)
    (hint : decodeInt Gen.intCap (b0 :: data) 5 = .ok (n, k)) (hgt : n > st.allowed) (infl : Nat) :
    decodeLoop Gen.intCap true (fuel + 1) st (b0 :: data) [] infl = (.err .invalidTableSize, st) := by
  rw [decodeLoop]
  have := reject_above st b0 data hu n k hint hgt
  simp only [List.isEmpty_nil, Bool.not_true] at *
  rw [this]

/-- an update at or below the permitted maximum — including exactly at it — is applied at once, with the
    evictions it implies (`fit`: oldest first, only as needed) -/
theorem apply_at_or_below (st : DecState) (hinv : Inv st.table) (b0 : UInt8) (data : Bytes) (hu : IsUpdate b0) (n k : Nat)
    (hint : decodeInt Gen.intCap (b0 :: data) 5 = .ok (n, k)) (hle : n ≤ st.allowed) :
    ∃ t', decodeField Gen.intCap true st (b0 :: data) false = .ok (none, k, { st with table := t' }) ∧
      t'.maxsize = n ∧ t'.entries = fit n st.table.entries ∧ Inv t' := by
  obtain ⟨t', hs, he, hm, hi, _⟩ := setMaxsize_spec st.table n hinv
  refine ⟨t', ?_, hm, he, hi⟩
  rw [field_of_update st b0 data false hu]
  simp only [Bool.false_eq_true, if_false, hint, bind]
  rw [if_neg (by omega)]
  simp only [hs, pure]

/-- any number of updates may open a block: an update does not count as a field, so the next
    representation is still "at the start" (`seen` stays false) -/
theorem any_number_leading (fuel : Nat) (st st' : DecState) (b0 : UInt8) (data : Bytes) (k : Nat) (infl : Nat)
    (hf : decodeField Gen.intCap true st (b0 :: data) false = .ok (none, k, st')) :
    decodeLoop Gen.intCap true (fuel + 1) st (b0 :: data) [] infl =
      decodeLoop Gen.intCap true fuel st' ((b0 :: data).drop k) [] infl := by
  rw [decodeLoop]
  simp only [List.isEmpty_nil, Bool.not_true] at *
  rw [hf]

/-- none is honoured after the first field: the decoding error, whatever the value -/
theorem none_after_field (st : DecState) (b0 : UInt8) (data : Bytes) (hu : IsUpdate b0) :
    decodeField Gen.intCap true st (b0 :: data) true = .err .decoding := by
  rw [field_of_update st b0 data true hu]; rfl

/-- a block — even an empty one — that ends while the table size exceeds a lowered permitted maximum is
    rejected -/
theorem end_of_block_check (st : DecState) (raw : Bool) (h : st.table.maxsize > st.allowed) :
    Cur.decode st [] raw = (.err .invalidTableSize, st) := by
  unfold Cur.decode decodeApi Impl.decode
  simp only [List.length_nil, Nat.zero_add, decodeLoop, if_pos h]

/-- **invariant**: after every successful decode — any byte string, any state — the table maximum is
    at most the permitted maximum -/
theorem after_ok_block (st : DecState) (data : Bytes) (raw : Bool) (out : List Header)
    (h : (Cur.decode st data raw).1 = .ok out) : (Cur.decode st data raw).2.table.maxsize ≤ st.allowed := by
  rw [Props.curDecode_state]
  unfold Cur.decode decodeApi at h
  cases hd : (Impl.decode Gen.intCap true st data).1 with
  | ok hs => exact (decode_limits (own := true) Gen.intCap st data hd).2
  | err x =>
    have e : Impl.decode Gen.intCap true st data = (.err x, (Impl.decode Gen.intCap true st data).2) := by rw [← hd]
    rw [e] at h; cases h
  | esc x =>
    have e : Impl.decode Gen.intCap true st data = (.esc x, (Impl.decode Gen.intCap true st data).2) := by rw [← hd]
    rw [e] at h; cases h

/-! non-vacuity: permitted maximum 100; update to 100 accepted, to 101 refused, empty block refused
    while the table is still at 4096 -/
def d100 : DecState := { Props.freshDec 65536 with allowed := 100 }
example : (Cur.decode d100 [0x3f, 0x45] true).1 = .ok [] := by decide +kernel
example : (Cur.decode d100 [0x3f, 0x46] true).1 = .err .invalidTableSize := by decide +kernel
example : (Cur.decode d100 [] true).1 = .err .invalidTableSize := by decide +kernel
example : (Cur.decode d100 [0x3f, 0x45, 0x82, 0x20] true).1 = .err .decoding := by decide +kernel

end Props.C08
