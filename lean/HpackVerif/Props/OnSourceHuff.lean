import HpackVerif.Props.SrcHuff
import HpackVerif.Props.SrcHuffEnc
import HpackVerif.Props.C12
import HpackVerif.Props.C13
/-! # Property theorems restated on the translated source

Each statement here composes a *tie* theorem (translated source = model, `Props.Src*`) with a *property* theorem (the model
has the property, `Props.Cxx`), so that no model function is left in the conclusion: the statements are about
`Src.encode_integer`, `Src.decode_integer`, `Src.decode_huffman`, `Src.HuffmanEncoder.encode` and `Src.Decoder.decode` —
the Lean rendering of the functions' source text in `/repo` as of this run. They add no new mathematics; they make explicit
what the two layers say together. (`Props.SrcConn` does the same for the C01 round trip.) Informational like all source
ties: not imported by the property modules. -/
namespace Props.OnSourceHuff
open SrcTie Impl

/-- **C12 + C13 on the source**: `decode_huffman(HuffmanEncoder.encode(s)) == s` for every octet string -/
theorem huffman_roundtrip (s : Bytes) (fuel : Nat) :
    ∃ w, Src.HuffmanEncoder.encode fuel (coderOf Gen.codes) s = .ok (coderOf Gen.codes, w) ∧
      Src.decode_huffman fuel w = .ok s := by
  refine ⟨Impl.huffEncode Gen.codes s, Props.SrcHuffEnc.encode_is_model fuel s, ?_⟩
  rw [Props.SrcHuff.decode_huffman_is_model, Props.C12.roundtrip]
  rfl

/-- **C13 on the source**: `decode_huffman` never lets anything but the decoding error out (no `IndexError` from the table,
no `ValueError` from `bytearray.append`), for every octet string -/
theorem huffman_decoder_total (w : Bytes) (fuel : Nat) :
    (∃ s, Src.decode_huffman fuel w = .ok s) ∨ Src.decode_huffman fuel w = .error .hpackDecodingError := by
  rw [Props.SrcHuff.decode_huffman_is_model]
  unfold Impl.huffDecodeBuf
  rcases Props.C13.reject_class w with ⟨syms, h⟩ | h
  · rw [h]; exact Or.inl ⟨_, rfl⟩
  · rw [h]; exact Or.inr rfl

end Props.OnSourceHuff
