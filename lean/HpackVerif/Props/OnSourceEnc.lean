import HpackVerif.Props.SrcEnc
import HpackVerif.Props.C19
import HpackVerif.Props.C15
/-! # C19 and C15 restated on the translated `Encoder.add`

Tie theorem `Props.SrcEnc.add_is_model` (translated `Encoder.add` = `Impl.EncState.add`) composed with `Props.C19.indexed`
and `Props.C15.encoder_field`: the statements are about `Src.Encoder.add` — the Lean rendering of the method's source text
— with `absE e` the Python object a model encoder state stands for. Informational like all source ties. -/
namespace Props.OnSourceEnc
open SrcTie Impl RFC

theorem insert_changes (e e' : EncState) (n v : Bytes) (s : Bool) (h : e.insert n v s = .ok e') : e'.changes = e.changes := by
  unfold EncState.insert at h
  cases s with
  | true => simp only [Bool.not_true, Bool.false_eq_true, if_false] at h; cases h; rfl
  | false =>
    simp only [Bool.not_false, if_true] at h
    cases ht : e.table.add ⟨n, false⟩ ⟨v, false⟩ with
    | ok t => rw [ht] at h; cases h; rfl
    | err x => rw [ht] at h; cases h
    | esc x => rw [ht] at h; cases h

/-- `add` never touches the list of pending size changes -/
theorem add_changes (e e' : EncState) (n v b : Bytes) (s huff : Bool) (h : e.add true n v s huff = .ok (b, e')) :
    e'.changes = e.changes := by
  unfold EncState.add at h
  cases hs : e.table.search n v with
  | none =>
    rw [hs] at h
    simp only at h
    cases hi : e.insert n v s with
    | ok e1 => rw [hi] at h; cases h; exact insert_changes e _ n v s hi
    | err x => rw [hi] at h; cases h
    | esc x => rw [hi] at h; cases h
  | some r =>
    obtain ⟨idx, perfect⟩ := r
    rw [hs] at h
    simp only at h
    split at h
    · cases h; rfl
    · cases hi : e.insert n v s with
      | ok e1 => rw [hi] at h; cases h; exact insert_changes e _ n v s hi
      | err x => rw [hi] at h; cases h
      | esc x => rw [hi] at h; cases h

/-- **C19**: whenever the field equals, in name and value, an entry addressable at that moment (static or dynamic, empty
value or not, sensitive or not), the translated `add` returns exactly one indexed field (`1xxxxxxx`) that resolves to that
entry, and the encoder object is unchanged -/
theorem indexed (e : EncState) (h : Props.EncReach e) (i : Nat) (name value : Bytes) (sens huff : Bool)
    (hres : resolve e.table i = some (name, value)) :
    ∃ f0, ∀ fuel, fuel ≥ f0 → ∃ j,
      Src.Encoder.add fuel (absE e) (name, value) sens huff = .ok (absE e, intOctets 7 0x80 j 0) ∧
      resolve e.table j = some (name, value) := by
  obtain ⟨j, bytes, e', ha, ht, hb, hj⟩ := Props.C19.indexed e h i name value sens huff hres
  obtain ⟨f0, hf⟩ := Props.SrcEnc.add_is_model e name value sens huff
  refine ⟨f0, fun fuel hfu => ⟨j, ?_, hj⟩⟩
  have := hf fuel hfu
  rw [ha] at this
  simp only [Agree] at this
  rw [this, hb]
  have hc := add_changes e e' name value bytes sens huff ha
  have hee : e' = e := by
    cases e; cases e'
    simp only at ht hc
    rw [ht, hc]
  rw [hee]

/-- **C15**: a field marked sensitive leaves the encoder object untouched and is returned either as a plain index of an
identical entry or as a literal with the never-indexed pattern `0001xxxx` — never as a literal that permits indexing -/
theorem sensitive_never_indexed (e : EncState) (hinv : Inv e.table) (name value : Bytes) (huff : Bool) :
    ∃ f0, ∀ fuel, fuel ≥ f0 → ∃ bytes,
      Src.Encoder.add fuel (absE e) (name, value) true huff = .ok (absE e, bytes) ∧
      ((∃ i, bytes = reprOctets (.indexed i) (ch0 huff) ∧ resolve e.table i = some (name, value)) ∨
       (∃ nm b0 rest, bytes = reprOctets (.literal .never nm value) (ch0 huff) ∧ bytes = b0 :: rest ∧ b0.toNat &&& 0xF0 = 0x10)) := by
  obtain ⟨bytes, e', ha, ht, hb, hcase⟩ := Props.C15.encoder_field e hinv name value huff
  obtain ⟨f0, hf⟩ := Props.SrcEnc.add_is_model e name value true huff
  refine ⟨f0, fun fuel hfu => ⟨bytes, ?_, ?_⟩⟩
  · have := hf fuel hfu
    rw [ha] at this
    simp only [Agree] at this
    have hc := add_changes e e' name value bytes true huff ha
    have hee : e' = e := by
      cases e; cases e'
      simp only at ht hc
      rw [ht, hc]
    rw [this, hee]
  · rcases hcase with ⟨i, hi, hr⟩ | ⟨nm, hn⟩
    · left; exact ⟨i, by rw [hb, hi], hr⟩
    · right
      obtain ⟨b0, rest, h1, h2⟩ := Props.C15.never_pattern nm value (ch0 huff)
      exact ⟨nm, b0, rest, by rw [hb, hn], by rw [hb, hn, h1], h2⟩

end Props.OnSourceEnc
