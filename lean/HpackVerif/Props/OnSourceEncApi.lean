import HpackVerif.Props.SrcEncApi
import HpackVerif.Props.C03
/-! # C03 and C09 restated on the translated `Encoder.encode`

`Props.SrcEncApi.encode_is_normal_form` (translated `Encoder.encode` on dynamically typed input = the model's `encode` of
the normalised list) composed with `Props.C03.emits_wellformed`: a statement about `Src.Encoder.encode` — the Lean
rendering of the method's source text with `_to_bytes` and `_dict_to_iterable`. Informational like all source ties. -/
namespace Props.OnSourceEncApi
open SrcTie Impl RFC

/-- **C03 + C09**: for every consistent encoder, every represented container (any mix of 2-tuples, longer tuples,
`HeaderTuple`s, `NeverIndexedHeaderTuple`s over `bytes` and `str`; any dict) and every peer context that is in step with
the encoder up to its pending size changes and permits them: the translated `Encoder.encode` succeeds; its output is a
sequence of RFC 7541 representations — the pending table-size updates **only as a prefix**, in the order they were made, then
exactly one representation per header, none of them an update; the RFC meaning of that block on the peer's context is
exactly the (name bytes, value bytes) list that was passed in; the peer ends with the encoder's new table; and no size change
stays pending -/
theorem emits_wellformed (e : EncState) (hok : EncOK e) (cont : Container) (hs : Py.Headers) (hrep : ContRep cont hs) (huff : Bool)
    (peer : Ctx) (hpeer : applyUpd peer.dyn peer.max e.changes = (RFC.absT e.table, e.table.maxsize))
    (hallow : ∀ v ∈ e.changes, v ≤ peer.allowed) (hcur : e.table.maxsize ≤ peer.allowed)
    (hlim : listSize cont.norm ≤ peer.listLimit) :
    ∃ f0, ∀ fuel, fuel ≥ f0 → ∃ bytes e' fields,
      Src.Encoder.encode fuel (SrcTie.absE e) hs huff = .ok (SrcTie.absE e', bytes) ∧
      bytes = blockOctets (updReps e.changes ++ fields) ∧
      (∀ rc ∈ fields, ∀ k, rc.1 ≠ .sizeUpdate k) ∧ fields.length = cont.norm.length ∧
      e'.changes = [] ∧
      ∃ fs, interp peer ((updReps e.changes ++ fields).map (·.1)) = (.ok fs, peerCtx e' peer.allowed peer.listLimit) ∧
        fs.map (fun f => (f.name, f.value)) = cont.norm.map (fun h => (h.1, h.2.1)) := by
  obtain ⟨bytes, e', fields, henc, hb, hnu, hlen, fs, hI, hfs⟩ :=
    Props.C03.emits_wellformed e hok cont.norm huff peer hpeer hallow hcur hlim
  obtain ⟨b2, e2, h2, _, hch, _⟩ := Props.encode_encOK e hok cont.norm huff
  rw [henc] at h2
  simp only [Out.ok.injEq, Prod.mk.injEq] at h2
  obtain ⟨f0, hf⟩ := Props.SrcEncApi.encode_is_normal_form e cont hs hrep huff
  refine ⟨f0, fun fuel hfu => ⟨bytes, e', fields, ?_, hb, hnu, hlen, by rw [h2.2]; exact hch, fs, hI, hfs⟩⟩
  have := hf fuel hfu
  unfold Cur.encode at henc
  rw [henc] at this
  exact this

/-- **C18 on the source**: two `headers` arguments that stand for the same (name bytes, value bytes, sensitivity) list —
whatever the container (list, iterator, dict), the tuple forms (2-tuple, longer tuple, `HeaderTuple`,
`NeverIndexedHeaderTuple`) and the string types (`bytes` or `str`) — make the translated `Encoder.encode` return the same
octets and leave the same encoder (and fail with the same class when it fails) -/
theorem forms_interchangeable (e : EncState) (c1 c2 : Container) (hs1 hs2 : Py.Headers)
    (h1 : ContRep c1 hs1) (h2 : ContRep c2 hs2) (hn : c1.norm = c2.norm) (huff : Bool) :
    ∃ f0, ∀ fuel, fuel ≥ f0 →
      dropS (Src.Encoder.encode fuel (SrcTie.absE e) hs1 huff) = dropS (Src.Encoder.encode fuel (SrcTie.absE e) hs2 huff) := by
  obtain ⟨f1, hf1⟩ := Props.SrcEncApi.encode_is_normal_form e c1 hs1 h1 huff
  obtain ⟨f2, hf2⟩ := Props.SrcEncApi.encode_is_normal_form e c2 hs2 h2 huff
  refine ⟨max f1 f2, fun fuel hfu => ?_⟩
  have a1 := hf1 fuel (by omega)
  have a2 := hf2 fuel (by omega)
  rw [hn] at a1
  generalize e.encode true c2.norm huff = m at a1 a2
  cases m with
  | ok a => simp only [AgreeOut] at a1 a2; rw [a1, a2]
  | err x => simp only [AgreeOut] at a1 a2; rw [a1, a2]
  | esc x => simp only [AgreeOut] at a1 a2; rw [a1, a2]

end Props.OnSourceEncApi
