import HpackVerif.Props.Common
import HpackVerif.Proofs.Complete4
import HpackVerif.Proofs.IntExtra
import HpackVerif.Proofs.Prefix
import HpackVerif.Proofs.Trunc
/-! # C05 — the Decoder rejects every malformed block, with the documented error classes

Well-formedness "for the current context and limits" is the L0 notion: the octets are
`blockOctets rcs` for some list of representations (with some choice of string coding and integer
padding within the implementation's integer cap — the one latitude C05 grants) whose RFC meaning
`interp` in the decoder's context is a header list rather than an error. -/
namespace Props.C05
open Impl RFC

/-- **accept ⇔ well-formed**: for every reachable state and every byte string, `decode` returns a list
    `fs` iff the octets are a block of representations within the cap whose RFC meaning in the current
    context is `fs`. Left to right is completeness of rejection: nothing malformed is ever accepted —
    index 0 or past the table end, truncated integers or strings, Huffman data with EOS / ≥ 8 padding
    bits / a zero padding bit (C13: such payloads are not `huffEncode` of anything), an update after a
    field or above the permitted maximum, a list over the limit, a table left above the permitted
    maximum are all errors of `interp` or not of the form `blockOctets`. -/
theorem accept_iff (st : DecState) (h : Props.DecReach st) (data : Bytes) (fs : List Field) :
    (∃ out, (Impl.decode Gen.intCap true st data).1 = .ok out ∧ out.map absH = fs) ↔
    (∃ rcs, data = blockOctets rcs ∧ (∀ rc ∈ rcs, RepOK Gen.intCap rc.1 rc.2) ∧
      (interp (abs st) (rcs.map (·.1))).1 = .ok fs) := by
  have := RFC.accept_iff (own := true) Props.capN Props.capOK st (Props.decReach_inv h) data fs
  rw [← Props.cap_eq] at this
  exact this

/-- **error classes** on a block that is well-formed up to its first defective representation: the class
    raised is the one RFC 7541 / the documentation assigns to that defect — a bad index the
    invalid-table-index error, a size violation the invalid-table-size error, an over-long list the
    oversized-header-list error, an update after a field the general decoding error (`interp` is the
    specification of those classes: see `RFC.interpField`, `RFC.interpLoop`) -/
theorem error_class (st : DecState) (h : Props.DecReach st) (rcs : List (Rep × Choice))
    (hok : ∀ rc ∈ rcs, RepOK Gen.intCap rc.1 rc.2) (e : DErr)
    (hi : (interp (abs st) (rcs.map (·.1))).1 = .error e) :
    (Impl.decode Gen.intCap true st (blockOctets rcs)).1 = .err e := by
  have hm := decode_blockOctets (own := true) Gen.intCap st (Props.decReach_inv h) rcs hok
  unfold BlockAgrees at hm
  rw [hi] at hm
  exact hm.1

/-- **the first defect decides, whatever follows it**: if a list of representations fails at some
    representation (`interpPrefix`: the RFC meaning without the end-of-block check), then the octets of that
    list followed by ANY octets at all — well-formed or garbage — are refused with exactly that class, and the
    decoder is left in the context reached just before the defect -/
theorem defect_decides (st : DecState) (h : Props.DecReach st) (rcs : List (Rep × Choice))
    (hok : ∀ rc ∈ rcs, RepOK Gen.intCap rc.1 rc.2) (rest : Bytes) (e : DErr) (ctx : Ctx)
    (hp : interpPrefix (abs st) (rcs.map (·.1)) [] 0 = .error (e, ctx)) :
    (Impl.decode Gen.intCap true st (blockOctets rcs ++ rest)).1 = .err e ∧
    abs (Impl.decode Gen.intCap true st (blockOctets rcs ++ rest)).2 = ctx :=
  decode_prefix_error (own := true) Gen.intCap st (Props.decReach_inv h) rcs hok rest e ctx hp

/-- instances: after any acceptable prefix `good`, a representation with a bad index raises the
    invalid-table-index error, an update above the permitted maximum the invalid-table-size error, an update
    after a field the general decoding error — whatever octets follow -/
theorem bad_representation_class (st : DecState) (h : Props.DecReach st) (good : List (Rep × Choice)) (bad : Rep × Choice)
    (hok : ∀ rc ∈ good ++ [bad], RepOK Gen.intCap rc.1 rc.2) (rest : Bytes)
    (fs : List Field) (size : Nat) (ctx' : Ctx)
    (hg : interpPrefix (abs st) (good.map (·.1)) [] 0 = .ok (fs, size, ctx'))
    (e : DErr) (hb : interpField ctx' (!fs.isEmpty) bad.1 = .error e) :
    (Impl.decode Gen.intCap true st (blockOctets (good ++ [bad]) ++ rest)).1 = .err e := by
  have hp := interpPrefix_append_error (abs st) (good.map (·.1)) bad.1 [] 0 fs size ctx' hg e hb
  have := defect_decides st h (good ++ [bad]) hok rest e ctx' (by simpa using hp)
  exact this.1

/-- **truncation**: after any acceptable list of representations, a further representation that would have
    been fine, cut short at any octet boundary strictly inside it — inside an integer, inside a string's
    length, inside its payload (Huffman-coded or not), between name and value — makes the block fail with the
    general decoding error -/
theorem truncated_block (st : DecState) (h : Props.DecReach st)
    (good : List (Rep × Choice)) (hokg : ∀ rc ∈ good, RepOK Gen.intCap rc.1 rc.2)
    (r : Rep) (ch : Choice) (hokr : RepOK Gen.intCap r ch)
    (fs : List Field) (size : Nat) (ctx' : Ctx)
    (hg : interpPrefix (abs st) (good.map (·.1)) [] 0 = .ok (fs, size, ctx'))
    (hr : ∃ res, interpField ctx' (!fs.isEmpty) r = .ok res)
    (k : Nat) (hk1 : 1 ≤ k) (hk : k < (reprOctets r ch).length) :
    (Impl.decode Gen.intCap true st (blockOctets good ++ (reprOctets r ch).take k)).1 = .err .decoding :=
  decode_truncated (own := true) Gen.intCap st (Props.decReach_inv h) good hokg r ch hokr fs size ctx' hg hr k hk1 hk

/-- the specification of the classes, clause by clause -/
theorem spec_bad_index (ctx : Ctx) (seen : Bool) (i : Nat) (h : lookup ctx i = none) :
    interpField ctx seen (.indexed i) = .error .invalidIndex := by simp [interpField, h]
theorem spec_index_zero (ctx : Ctx) : lookup ctx 0 = none := by simp [lookup]
theorem spec_index_past_end (ctx : Ctx) (i : Nat) (h : Gen.staticTable.length + ctx.dyn.length < i) :
    lookup ctx i = none := by
  unfold lookup
  rw [if_neg (by omega), if_neg (by omega)]
  apply List.getElem?_eq_none; omega
theorem spec_update_above (ctx : Ctx) (n : Nat) (h : n > ctx.allowed) :
    interpField ctx false (.sizeUpdate n) = .error .invalidTableSize := by simp [interpField, h]
theorem spec_update_after_field (ctx : Ctx) (n : Nat) :
    interpField ctx true (.sizeUpdate n) = .error .decoding := by simp [interpField]

/-- text mode: a name or value that is not UTF-8 is refused with the general decoding error (after the
    block has been processed) -/
theorem text_mode_utf8 (st : DecState) (data : Bytes) (hs : List Header)
    (hd : (Impl.decode Gen.intCap true st data).1 = .ok hs)
    (hbad : ∃ h ∈ hs, validUtf8 h.name.bytes = false ∨ validUtf8 h.value.bytes = false) :
    (Cur.decode st data false).1 = .err .decoding := by
  have e : Impl.decode Gen.intCap true st data = (.ok hs, (Impl.decode Gen.intCap true st data).2) := by rw [← hd]
  unfold Cur.decode decodeApi
  rw [e]
  simp only [finishHeaders, Bool.false_eq_true, if_false]
  have : hs.all (fun h => validUtf8 h.name.bytes && validUtf8 h.value.bytes) = false := by
    obtain ⟨h, hm, hb⟩ := hbad
    rw [List.all_eq_false]
    exact ⟨h, hm, by rcases hb with hb | hb <;> simp [hb]⟩
  rw [this]; rfl

/-- a truncated integer anywhere is the general decoding error (C11) -/
theorem truncated_integer (N : Nat) (hN1 : 1 ≤ N) (hN8 : N ≤ 8) (hi v z : Nat)
    (hhi : hi % 2 ^ N = 0) (hhi2 : hi < 256) (k : Nat) (hk : k < (intOctets N hi v z).length) :
    decodeInt Gen.intCap ((intOctets N hi v z).take k) N = .err .decoding :=
  decodeInt_truncated _ N hN1 hN8 hi v z hhi hhi2 k hk

/-- a string whose announced length exceeds what is left is the general decoding error -/
theorem truncated_string (data : Bytes) (len consumed : Nat)
    (hint : decodeInt Gen.intCap data 7 = .ok (len, consumed)) (hshort : data.length < consumed + len) :
    readString Gen.intCap true data = .err .decoding := by
  unfold readString
  simp only [hint, bind]
  have : ((data.drop consumed).take len).length ≠ len := by
    simp only [List.length_take, List.length_drop]
    have := Nat.min_le_right len (data.length - consumed)
    have hk : consumed ≤ data.length := by
      have h' := hint
      rw [Props.cap_eq] at h'
      exact (decodeInt_spec Props.capN data 7 h').2.1
    omega
  rw [if_pos this]

/-! non-vacuity: each class is really produced (fresh decoder) -/
example : (Impl.decode Gen.intCap true (Props.freshDec 65536) [0x80]).1 = .err .invalidIndex := by decide +kernel
example : (Impl.decode Gen.intCap true (Props.freshDec 65536) [0xbe]).1 = .err .invalidIndex := by decide +kernel
example : (Impl.decode Gen.intCap true (Props.freshDec 65536) [0x3f, 0xe2, 0x1f]).1 = .err .invalidTableSize := by decide +kernel
example : (Impl.decode Gen.intCap true (Props.freshDec 40) [0x82]).1 = .err .oversized := by decide +kernel
example : (Impl.decode Gen.intCap true (Props.freshDec 65536) [0x82, 0x20]).1 = .err .decoding := by decide +kernel
example : (Impl.decode Gen.intCap true (Props.freshDec 65536) [0x00, 0x81, 0xff, 0x00]).1 = .err .decoding := by decide +kernel
example : (Cur.decode (Props.freshDec 65536) [0x00, 0x01, 0xff, 0x00] false).1 = .err .decoding := by decide +kernel

end Props.C05
