import HpackVerif.Proofs.Connection
import HpackVerif.Proofs.C09
import HpackVerif.Proofs.EncBounds
import HpackVerif.Proofs.DecProof2
import HpackVerif.Impl.Api
/-! Shared by the property files: facts about the integer cap read from the source, and the states an
    application can reach through the public API (so that invariants used as hypotheses by the helper
    theorems are discharged once, for every reachable state). -/
namespace Props
open Impl RFC

/-! ### the integer cap (`hpack._MAX_INTEGER_SHIFT`, read by the translator) -/
def capN : Nat := Gen.intCap.getD 0
/-- the current tree has a cap at all (fails to check if the constant disappears) -/
theorem cap_eq : Gen.intCap = some capN := by decide
set_option maxRecDepth 100000 in
/-- every integer the decoder can produce is printable by `"%d" %` (no `ValueError` escape) -/
theorem capOK : CapOK capN := by unfold CapOK; decide +kernel
/-- the cap admits the ten continuation octets a 64-bit value can need (C05 / C11 latitude) -/
theorem cap_admits_64 : 63 ≤ capN := by decide

/-- … in the form the encoder-side bounds use -/
theorem cap64 : Cap64 Gen.intCap := by
  intro c hc
  rw [cap_eq] at hc; cases hc
  exact cap_admits_64

/-- **constants of the source the model hard-codes**, re-read by the translator on every run and compared
    here in the kernel: the three literal patterns, the prefix maxima `2^i - 1`, the static table length, the
    default sizes of fresh instances, and `table_entry_size` (= 32 + |name| + |value|) on a grid of samples -/
theorem consts_ok :
    Gen.indexNone = 0 ∧ Gen.indexNever = 0x10 ∧ Gen.indexIncremental = 0x40 ∧
    Gen.prefixMax = (List.range 9).map (fun i => 2 ^ i - 1) ∧
    Gen.staticTableLength = Gen.staticTable.length ∧
    Gen.defaultAllowed = Gen.defaultSize ∧ Gen.defaultEncSize = Gen.defaultSize ∧
    Gen.entrySizeSamples.all (fun t => t.2.2 == 32 + t.1 + t.2.1) = true ∧ Gen.entrySizeSamples.length = 20 := by
  decide

/-! ### reachable Decoder states -/
/-- what an application can do to a `Decoder` -/
inductive DecOp
  | decode (data : Bytes) (raw : Bool)
  | setSize (n : Nat)          -- `d.header_table_size = n`
  | setAllowed (n : Nat)       -- `d.max_allowed_table_size = n`
  | setLimit (n : Nat)         -- `d.max_header_list_size = n`

def decStep (st : DecState) : DecOp → DecState
  | .decode data raw => (Cur.decode st data raw).2
  | .setSize n => match st.table.setMaxsize n with | .ok t => { st with table := t } | _ => st
  | .setAllowed n => { st with allowed := n }
  | .setLimit n => { st with listLimit := n }

/-- a freshly constructed `Decoder(max_header_list_size = limit)` -/
def freshDec (limit : Nat) : DecState :=
  { table := { maxsize := Gen.defaultSize }, allowed := Gen.defaultAllowed, listLimit := limit }

def decRun (st : DecState) (ops : List DecOp) : DecState := ops.foldl decStep st

/-- states reachable from a fresh decoder by any history (blocks may fail, be malformed, …) -/
def DecReach (st : DecState) : Prop := ∃ limit ops, st = decRun (freshDec limit) ops

theorem curDecode_state (st : DecState) (data : Bytes) (raw : Bool) :
    (Cur.decode st data raw).2 = (Impl.decode Gen.intCap true st data).2 := by
  unfold Cur.decode decodeApi
  cases h : (Impl.decode Gen.intCap true st data).1 <;>
    · have : Impl.decode Gen.intCap true st data = ((Impl.decode Gen.intCap true st data).1, (Impl.decode Gen.intCap true st data).2) := rfl
      rw [this, h]

theorem decStep_inv (st : DecState) (h : Inv st.table) (op : DecOp) : Inv (decStep st op).table := by
  cases op with
  | decode data raw =>
    simp only [decStep, curDecode_state]
    exact decode_inv (own := true) Gen.intCap st h data
  | setSize n =>
    obtain ⟨t', hs, _, _, hi, _⟩ := setMaxsize_spec st.table n h
    simp only [decStep, hs]; exact hi
  | setAllowed n => exact h
  | setLimit n => exact h

theorem decRun_inv (st : DecState) (h : Inv st.table) (ops : List DecOp) : Inv (decRun st ops).table := by
  induction ops generalizing st with
  | nil => exact h
  | cons op ops ih => exact ih _ (decStep_inv st h op)

theorem freshDec_inv (limit : Nat) : Inv (freshDec limit).table := ⟨rfl, by simp [freshDec, tsize]⟩

/-- **every reachable decoder state satisfies the table invariant** -/
theorem decReach_inv {st : DecState} (h : DecReach st) : Inv st.table := by
  obtain ⟨limit, ops, rfl⟩ := h
  exact decRun_inv _ (freshDec_inv limit) ops

theorem decReach_step {st : DecState} (h : DecReach st) (op : DecOp) : DecReach (decStep st op) := by
  obtain ⟨limit, ops, rfl⟩ := h
  exact ⟨limit, ops ++ [op], by simp [decRun, List.foldl_append]⟩

/-! ### reachable Encoder states -/
inductive EncOp
  | setSize (n : Nat)                                        -- `e.header_table_size = n`
  | encode (hs : List (Bytes × Bytes × Bool)) (huff : Bool)   -- `e.encode(hs, huffman=huff)`
  /-- `e.encode(...)` on an input whose header number `|good|` is malformed (e.g. a 1-tuple): the call raises,
      nothing is returned, but the pending size updates have been flushed and the `good` prefix processed -/
  | encodeRaises (good : List (Bytes × Bytes × Bool)) (huff : Bool)

def encStep (e : EncState) : EncOp → EncState
  | .setSize n => match Cur.setSize e n with | .ok e' => e' | _ => e
  | .encode hs huff => match Cur.encode e hs huff with | .ok (_, e') => e' | _ => e
  | .encodeRaises good huff => match Cur.encode e good huff with | .ok (_, e') => e' | _ => e

def freshEnc : EncState := { table := { maxsize := Gen.defaultEncSize } }
def encRun (e : EncState) (ops : List EncOp) : EncState := ops.foldl encStep e
def EncReach (e : EncState) : Prop := ∃ ops, e = encRun freshEnc ops

theorem freshEnc_ok : EncOK freshEnc := ⟨⟨rfl, by simp [freshEnc, tsize]⟩, by simp [freshEnc]⟩

/-- one assignment of the table size: always succeeds on a consistent encoder and keeps it consistent -/
theorem setSize_encOK (e : EncState) (hok : EncOK e) (v : Nat) :
    ∃ e', Cur.setSize e v = .ok e' ∧ EncOK e' ∧ e'.table.maxsize = v := by
  obtain ⟨e', hs, hok', _⟩ := setSizes_signalled e hok [v]
  unfold setSizes at hs
  cases h : e.setSize true v with
  | ok e1 =>
    rw [h] at hs
    simp only [setSizes, Out.ok.injEq] at hs
    subst hs
    exact ⟨e1, h, hok', (setSize_changes e hok v h).1⟩
  | err x => rw [h] at hs; cases hs
  | esc x => rw [h] at hs; cases hs

/-- one `encode` call: always succeeds on a consistent encoder, flushes the pending updates and keeps
    the encoder consistent -/
theorem encode_encOK (e : EncState) (hok : EncOK e) (hs : List (Bytes × Bytes × Bool)) (huff : Bool) :
    ∃ b e', Cur.encode e hs huff = .ok (b, e') ∧ EncOK e' ∧ e'.changes = [] ∧ e'.table.maxsize = e.table.maxsize := by
  let e0 : EncState := ⟨{ e.table with resized := false }, []⟩
  have hinv0 : Inv e0.table := ⟨hok.inv.cached, hok.inv.bounded⟩
  have key : ∀ acc, ∃ e', encLoop true huff e0 acc hs = .ok (acc ++ blockOctets (encReps true huff e0 hs), e') ∧
      Inv e'.table ∧ e'.changes = [] ∧ e'.table.maxsize = e.table.maxsize ∧ e'.table.resized = false := by
    intro acc
    obtain ⟨e', hl, hi, hc, hm, hr, _⟩ :=
      encLoop_emits true huff e0 hinv0 acc hs e0.table.maxsize (listSize hs) [] 0 (by omega) (Nat.le_refl _)
    exact ⟨e', hl, hi, hc, hm, hr⟩
  unfold Cur.encode EncState.encode
  by_cases hr : e.table.resized = true
  · simp only [hr, if_true, bind]
    rw [encode_go_eq]
    obtain ⟨e', hl, hi, hc, hm, hr'⟩ := key (e.changes.flatMap fun n => orFirst (encodeInt n 5) 0x20)
    exact ⟨_, e', hl, ⟨hi, by simp [hr', hc]⟩, hc, hm⟩
  · have hr' : e.table.resized = false := by simpa using hr
    have hc0 : e.changes = [] := by
      by_contra hne
      have := hok.flag.mpr hne
      rw [hr'] at this; exact absurd this (by simp)
    have he0 : e0 = e := by
      show (⟨{ e.table with resized := false }, []⟩ : EncState) = e
      cases e with
      | mk t c =>
        simp only at hr' hc0
        subst hc0
        cases t with
        | mk en mx cu rs => simp only at hr'; subst hr'; rfl
    simp only [hr', Bool.false_eq_true, if_false, bind]
    rw [encode_go_eq]
    obtain ⟨e', hl, hi, hc, hm, hr''⟩ := key []
    rw [he0] at hl
    exact ⟨_, e', hl, ⟨hi, by simp [hr'', hc]⟩, hc, hm⟩

theorem encStep_ok (e : EncState) (hok : EncOK e) (op : EncOp) : EncOK (encStep e op) := by
  cases op with
  | setSize n =>
    obtain ⟨e', h, hok', _⟩ := setSize_encOK e hok n
    simp only [encStep, h]; exact hok'
  | encode hs huff =>
    obtain ⟨b, e', h, hok', _⟩ := encode_encOK e hok hs huff
    simp only [encStep, h]; exact hok'
  | encodeRaises good huff =>
    obtain ⟨b, e', h, hok', _⟩ := encode_encOK e hok good huff
    simp only [encStep, h]; exact hok'

/-- **every reachable encoder state is consistent** (table invariant + `resized ↔ changes ≠ []`) -/
theorem encReach_ok {e : EncState} (h : EncReach e) : EncOK e := by
  obtain ⟨ops, rfl⟩ := h
  suffices ∀ e0, EncOK e0 → EncOK (encRun e0 ops) from this _ freshEnc_ok
  induction ops with
  | nil => intro e0 h; exact h
  | cons op ops ih => intro e0 h; exact ih _ (encStep_ok e0 h op)

theorem encReach_step {e : EncState} (h : EncReach e) (op : EncOp) : EncReach (encStep e op) := by
  obtain ⟨ops, rfl⟩ := h
  exact ⟨ops ++ [op], by simp [encRun, List.foldl_append]⟩

/-- a decoder state that mirrors an encoder state with nothing pending (used to instantiate the
    peer-relative helper theorems when only the encoder is of interest) -/
def mirror (e : EncState) : DecState := { table := e.table, allowed := e.table.maxsize, listLimit := 0 }

end Props
