import HpackVerif.Proofs.SrcTieDec
/-! # Source tie — the model of `Decoder` **is** the translation of the `Decoder` class of `src/hpack/hpack.py`

`Generated/SrcDec.lean` is written on every run by `tools/py2lean.py` from the Python AST of `_unicode_if_needed` and of
the class `Decoder`: its three attributes (the `HeaderTable` object is a field of the record), the `header_table_size`
property, `_assert_valid_table_size`, `_update_encoding_context`, `_decode_indexed`, `_decode_literal` (+ its two wrappers)
and `decode`. A method returns the updated object with its value, or — `Py.RS` — the exception *with the object as it was
when raised*, so that what a refused block leaves behind is part of the statement. Calls into the table
(`self.header_table.get_by_index/add`, the `maxsize` property) go to the translated `HeaderTable` methods; `decode_integer`
and `decode_huffman` are the translated functions of the other units; slices are `drop`/`take`; `HeaderTuple` /
`NeverIndexedHeaderTuple` are a flag on the pair.

`SrcTie.absD` reads a model state as the Python object; `SrcTie.Agree r o okv sErr` says: the model outcome `o` is a value ⇒
the translated method returns `okv` of it; a documented error ⇒ it raises that class and leaves the object `sErr`; an escape
⇒ it raises that class. Not imported by the property modules (DESIGN.md §3.2a). -/
namespace Props.SrcDec
open SrcTie

/-- `_decode_literal(data, should_index)` = `Impl.decodeLiteral`: name by index or as a string, value string, Huffman or
plain, the never-indexed class, insertion when indexing; every truncation / bad index / Huffman error with its class and
the decoder untouched when it is raised — for every state, every octet string, both values of `should_index` -/
theorem decode_literal_is_model (st : Impl.DecState) (data : Bytes) (should_index : Bool) :
    ∃ f0, ∀ fuel, fuel ≥ f0 →
      Agree (Src.Decoder.decode_literal fuel (absD st) data should_index)
        (Impl.decodeLiteral Gen.intCap true st.table data should_index) (litOk st) (absD st) :=
  ⟨data.length + st.table.entries.length + 2, fun fuel hf => decode_literal_agree fuel st data should_index (by omega) (by omega)⟩

/-- `_decode_indexed(data)` = the indexed-field branch of `Impl.decodeField` -/
theorem decode_indexed_is_model (st : Impl.DecState) (data : Bytes) :
    ∃ f0, ∀ fuel, fuel ≥ f0 →
      Agree (Src.Decoder.decode_indexed fuel (absD st) data) (mIndexed st data)
        (fun r => (absD st, (hproj r.1, (r.2 : Int)))) (absD st) :=
  ⟨data.length + 1, fun fuel hf => decode_indexed_agree fuel st data (by omega)⟩

/-- `_update_encoding_context(data)` = the size-update branch of `Impl.decodeField`: refused above the permitted maximum
(decoder untouched), otherwise the table setter -/
theorem update_encoding_context_is_model (st : Impl.DecState) (data : Bytes) :
    ∃ f0, ∀ fuel, fuel ≥ f0 →
      Agree (Src.Decoder.update_encoding_context fuel (absD st) data) (mSizeUpdate st data)
        (fun r => (absD r.2, (r.1 : Int))) (absD st) :=
  ⟨data.length + st.table.entries.length + 1, fun fuel hf => update_encoding_context_agree fuel st data (by omega) (by omega)⟩

/-- `_assert_valid_table_size()`: the end-of-block check -/
theorem assert_valid_table_size_is_model (fuel : Nat) (st : Impl.DecState) :
    Src.Decoder.assert_valid_table_size fuel (absD st) =
      if st.table.maxsize > st.allowed then .error (.invalidTableSizeError, absD st) else .ok (absD st, ()) :=
  assert_valid_table_size_eq fuel st

/-- the three branches are what `Impl.decodeField` dispatches to -/
theorem decodeField_is_dispatch (st : Impl.DecState) (b0 : UInt8) (rest : Bytes) (seen : Bool) :
    Impl.decodeField Gen.intCap true st (b0 :: rest) seen =
      if b0.toNat &&& 0x80 ≠ 0 then
        (match mIndexed st (b0 :: rest) with
         | .ok (h, c) => .ok (some h, c, st) | .err e => .err e | .esc x => .esc x)
      else if b0.toNat &&& 0x40 ≠ 0 ∨ b0.toNat &&& 0x20 = 0 then
        (match Impl.decodeLiteral Gen.intCap true st.table (b0 :: rest) (decide (b0.toNat &&& 0x40 ≠ 0)) with
         | .ok (h, c, t') => .ok (some h, c, { st with table := t' }) | .err e => .err e | .esc x => .esc x)
      else if seen then .err .decoding
      else
        (match mSizeUpdate st (b0 :: rest) with
         | .ok (c, st') => .ok (none, c, st') | .err e => .err e | .esc x => .esc x) := by
  unfold Impl.decodeField mIndexed mSizeUpdate
  simp only []
  split
  · cases Impl.decodeInt Gen.intCap (b0 :: rest) 7 with
    | err e => rfl
    | esc x => rfl
    | ok r =>
      obtain ⟨i, c⟩ := r
      simp only [obind_ok]
      cases st.table.getByIndex i <;> rfl
  · split
    · cases Impl.decodeLiteral Gen.intCap true st.table (b0 :: rest) (decide (b0.toNat &&& 0x40 ≠ 0)) with
      | err e => rfl
      | esc x => rfl
      | ok r => obtain ⟨h, c, t'⟩ := r; rfl
    · split
      · rfl
      · cases Impl.decodeInt Gen.intCap (b0 :: rest) 5 with
        | err e => rfl
        | esc x => rfl
        | ok r =>
          obtain ⟨n, c⟩ := r
          simp only [obind_ok]
          split
          · rfl
          · cases st.table.setMaxsize n <;> rfl

/-- a fresh object is the model's fresh decoder -/
theorem new_is_model (limit : Nat) : Src.Decoder.new (limit : Int) = absD { listLimit := limit } := by
  have ht : Src.HeaderTable.new = absT {} := by
    simp [Src.HeaderTable.new, absT, Src.c_HeaderTable_DEFAULT_SIZE]
    rfl
  simp only [Src.Decoder.new, absD, ht]
  rfl

end Props.SrcDec
