import HpackVerif.Proofs.SrcTieDec
/-! # Source tie — the model of `Decoder` **is** the translation of the `Decoder` class of `src/hpack/hpack.py`

`Generated/SrcDec.lean` is written on every run by `tools/py2lean.py` from the Python AST of `_unicode_if_needed` and of
the class `Decoder`: its three attributes (the `HeaderTable` object is a field of the record), the `header_table_size`
property, `_assert_valid_table_size`, `_update_encoding_context`, `_decode_indexed`, `_decode_literal` (+ its two wrappers)
and `decode`. A method returns the updated object with its value, or — `Py.RS` — the exception *with the object as it was
when raised*, so that what a refused block leaves behind is part of the statement. Calls into the table
(`self.header_table.get_by_index/add`, the `maxsize` property) go to the translated `HeaderTable` methods; `decode_integer`
and `decode_huffman` are the translated functions of the other units; slices are `drop`/`take`; `HeaderTuple` /
`NeverIndexedHeaderTuple` are a flag on the pair.

`SrcTie.absD` reads a model state as the Python object; `SrcTie.Agree r o okv sErr` says: the model outcome `o` is a value ⇒
the translated method returns `okv` of it; a documented error ⇒ it raises that class and leaves the object `sErr`; an escape
⇒ it raises that class. Not imported by the property modules (DESIGN.md §3.2a). -/
namespace Props.SrcDec
open SrcTie

/-- `_decode_literal(data, should_index)` = `Impl.decodeLiteral`: name by index or as a string, value string, Huffman or
plain, the never-indexed class, insertion when indexing; every truncation / bad index / Huffman error with its class and
the decoder untouched when it is raised — for every state, every octet string, both values of `should_index` -/
theorem decode_literal_is_model (st : Impl.DecState) (data : Bytes) (should_index : Bool) :
    ∃ f0, ∀ fuel, fuel ≥ f0 →
      Agree (Src.Decoder.decode_literal fuel (absD st) data should_index)
        (Impl.decodeLiteral Gen.intCap true st.table data should_index) (litOk st) (absD st) :=
  ⟨data.length + st.table.entries.length + 2, fun fuel hf => decode_literal_agree fuel st data should_index (by omega) (by omega)⟩

/-- `_decode_indexed(data)` = the indexed-field branch of `Impl.decodeField` -/
theorem decode_indexed_is_model (st : Impl.DecState) (data : Bytes) :
    ∃ f0, ∀ fuel, fuel ≥ f0 →
      Agree (Src.Decoder.decode_indexed fuel (absD st) data) (mIndexed st data)
        (fun r => (absD st, (hproj r.1, (r.2 : Int)))) (absD st) :=
  ⟨data.length + 1, fun fuel hf => decode_indexed_agree fuel st data (by omega)⟩

/-- `_update_encoding_context(data)` = the size-update branch of `Impl.decodeField`: refused above the permitted maximum
(decoder untouched), otherwise the table setter -/
theorem update_encoding_context_is_model (st : Impl.DecState) (data : Bytes) :
    ∃ f0, ∀ fuel, fuel ≥ f0 →
      Agree (Src.Decoder.update_encoding_context fuel (absD st) data) (mSizeUpdate st data)
        (fun r => (absD r.2, (r.1 : Int))) (absD st) :=
  ⟨data.length + st.table.entries.length + 1, fun fuel hf => update_encoding_context_agree fuel st data (by omega) (by omega)⟩

/-- `_assert_valid_table_size()`: the end-of-block check -/
theorem assert_valid_table_size_is_model (fuel : Nat) (st : Impl.DecState) :
    Src.Decoder.assert_valid_table_size fuel (absD st) =
      if st.table.maxsize > st.allowed then .error (.invalidTableSizeError, absD st) else .ok (absD st, ()) :=
  assert_valid_table_size_eq fuel st

/-- the three branches are what `Impl.decodeField` dispatches to -/
theorem decodeField_is_dispatch (st : Impl.DecState) (b0 : UInt8) (rest : Bytes) (seen : Bool) :
    Impl.decodeField Gen.intCap true st (b0 :: rest) seen =
      if b0.toNat &&& 0x80 ≠ 0 then
        (match mIndexed st (b0 :: rest) with
         | .ok (h, c) => .ok (some h, c, st) | .err e => .err e | .esc x => .esc x)
      else if b0.toNat &&& 0x40 ≠ 0 ∨ b0.toNat &&& 0x20 = 0 then
        (match Impl.decodeLiteral Gen.intCap true st.table (b0 :: rest) (decide (b0.toNat &&& 0x40 ≠ 0)) with
         | .ok (h, c, t') => .ok (some h, c, { st with table := t' }) | .err e => .err e | .esc x => .esc x)
      else if seen then .err .decoding
      else
        (match mSizeUpdate st (b0 :: rest) with
         | .ok (c, st') => .ok (none, c, st') | .err e => .err e | .esc x => .esc x) :=
  SrcTie.decodeField_is_dispatch st b0 rest seen

/-- **`Decoder.decode(data, raw)`** — the whole method: translated source = `Impl.Cur.decode` (the model every decoder
theorem of C02, C04–C08, C15, C17 is stated about). `AgreeRun`: a returned list ⇒ the same fields in the same order with
the same classes *and* the same decoder afterwards; a documented error ⇒ the same class *and* the same decoder afterwards
(what a refused block leaves behind); an escape ⇒ the same class (C04 proves there is none). For every state whose table
satisfies the invariant (every reachable one: `Props.decReach_inv`), whose list limit is printable, every octet string,
both modes, with enough fuel for the `while` loops. -/
theorem decode_is_model (st : Impl.DecState) (data : Bytes) (raw : Bool) (hinv : Impl.Inv st.table) (hlim : st.listLimit < 10 ^ 4300) :
    ∃ f0, ∀ fuel, fuel ≥ f0 → AgreeRun (Src.Decoder.decode fuel (absD st) data raw) (Impl.Cur.decode st data raw) :=
  ⟨3 * data.length + st.table.entries.length + 4, fun fuel hf => decode_agree st data raw hinv hlim fuel hf⟩

/-- non-vacuity: RFC 7541 C.3.1 through the translated source, from a fresh decoder -/
example : (Src.Decoder.decode 100 (Src.Decoder.new 65536)
      [0x82, 0x86, 0x84, 0x41, 0x0f, 0x77, 0x77, 0x77, 0x2e, 0x65, 0x78, 0x61, 0x6d, 0x70, 0x6c, 0x65, 0x2e, 0x63, 0x6f, 0x6d] true).toOption.map
      (fun r => (r.2.length, r.1.f_header_table.f_current_size)) = some (4, 57) := by
  decide +kernel

/-- a fresh object is the model's fresh decoder -/
theorem new_is_model (limit : Nat) : Src.Decoder.new (limit : Int) = absD { listLimit := limit } := by
  have ht : Src.HeaderTable.new = absT {} := by
    simp [Src.HeaderTable.new, absT, Src.c_HeaderTable_DEFAULT_SIZE]
    rfl
  simp only [Src.Decoder.new, absD, ht]
  rfl

end Props.SrcDec
