import HpackVerif.Props.Common
import HpackVerif.Proofs.Complete2
import HpackVerif.Proofs.DataEq
/-! # C13 — the Huffman decoder is the exact inverse of the Appendix B code, with strict padding

`huffDecodeBuf` models `decode_huffman` running on the 4096-entry automaton read from the source
(`Gen.huffTable`); the whole table is checked in the kernel against the code tree (`gen_table_ok`),
the tree against the code list (`gen_codeTreeOK`), the code list against Appendix B. -/
namespace Props.C13
open Impl

/-- the relational wire form: `bits` are the Appendix B codes of `syms` followed by 0..7 one-bits -/
def Wire (bits : List Bool) (syms : List Nat) : Prop := HuffWire RFCT.codes bits syms

/-- **exactness**: for every byte string `w`, decoding returns `syms` iff the bits of `w` are the codes
    of `syms` (all below 256, i.e. no EOS) followed by fewer than eight one-bits -/
theorem decode_iff (w : Bytes) (syms : List Nat) :
    huffDecode Gen.huffTable w = .ok syms ↔ Wire (bytesBits w) syms := by
  unfold Wire; rw [← codes_eq_rfc]; exact gen_impl_huffDecode_iff w syms

/-- every other input raises the decoding error — never anything else (in particular no `IndexError`
    from the table look-ups) -/
theorem reject_class (w : Bytes) :
    (∃ syms, huffDecode Gen.huffTable w = .ok syms) ∨ huffDecode Gen.huffTable w = .decodingError := by
  have h := gen_huffDecode_eq_ref w
  cases hr : Ref.huffDecode Gen.tree w with
  | some s => left; exact ⟨s, by rw [h, hr]⟩
  | none => right; rw [h, hr]

/-- hence: an input that is not of the wire form is refused with the decoding error -/
theorem reject_iff (w : Bytes) :
    huffDecode Gen.huffTable w = .decodingError ↔ ¬ ∃ syms, Wire (bytesBits w) syms := by
  constructor
  · rintro h ⟨syms, hs⟩
    rw [← decode_iff] at hs; rw [hs] at h; cases h
  · intro h
    rcases reject_class w with ⟨s, hs⟩ | hd
    · exact absurd ⟨s, (decode_iff w s).mp hs⟩ h
    · exact hd

/-- every accepted input re-encodes to itself -/
theorem reencode (w : Bytes) (syms : List Nat) (h : huffDecode Gen.huffTable w = .ok syms) :
    huffEncode Gen.codes (syms.map UInt8.ofNat) = w := (RFC.huffDecode_reencode w syms h).1.symm

/-- no two inputs decode to the same output -/
theorem injective (w1 w2 : Bytes) (syms : List Nat)
    (h1 : huffDecode Gen.huffTable w1 = .ok syms) (h2 : huffDecode Gen.huffTable w2 = .ok syms) : w1 = w2 := by
  rw [← reencode w1 syms h1, ← reencode w2 syms h2]

/-- the byte-level API result: symbols are bytes -/
theorem decodeBuf_ok (w : Bytes) (syms : List Nat) (h : huffDecode Gen.huffTable w = .ok syms) :
    huffDecodeBuf w = .ok ⟨syms.map UInt8.ofNat, false⟩ := by unfold huffDecodeBuf; rw [h]

/-- the whole automaton agrees with the code tree: all 4096 entries (obligation re-checked by the kernel
    whenever the translator output changes) -/
theorem automaton_checked : tableOK Gen.tree Gen.nodePaths Gen.huffTable = true := gen_table_ok

/-! non-vacuity: an accepted input, EOS, eight padding bits, a zero padding bit -/
example : huffDecode Gen.huffTable [0xf1, 0xe3, 0xc2, 0xe5, 0xf2, 0x3a, 0x6b, 0xa0, 0xab, 0x90, 0xf4, 0xff]
    = .ok ("www.example.com".toUTF8.toList.map (·.toNat)) := by decide +kernel
example : huffDecode Gen.huffTable [0xff, 0xff, 0xff, 0xff] = .decodingError := by decide +kernel
example : huffDecode Gen.huffTable [0x1f, 0xff] = .decodingError := by decide +kernel
example : huffDecode Gen.huffTable [0x1e] = .decodingError := by decide +kernel

end Props.C13
