import HpackVerif.Proofs.SrcTieEnc
/-! # Source tie — the model of the `Encoder` below `encode` **is** the translation of `src/hpack/hpack.py`

`Generated/SrcEnc.lean` is written on every run by `tools/py2lean.py` from the Python AST of the `Encoder` class: its three
attributes, the `header_table_size` property, `_encode_indexed`, `_encode_literal`, `_encode_indexed_literal`,
`_encode_table_size_change` and `add` (which calls the translated `HeaderTable.search` / `add` and `encode_integer`).

**Not translated**, and said so in the generated file: `HuffmanEncoder.encode` (a hex-string round trip) is represented by
the model's `Impl.huffEncode`; `Encoder.encode` itself dispatches on dynamic header forms (dict / tuples / `HeaderTuple`,
text or bytes). Both are tied to the code by the correspondence check (`henc` / `eapi` operations, `encodeForms`).

Not imported by the property modules (DESIGN.md §3.2a): a lost source tie is reported, never an alarm. -/
namespace Props.SrcEnc
open SrcTie

/-- `Encoder.add((name, value), sensitive, huffman)` = `Impl.EncState.add`: representation choice (full match → one index,
name match → indexed-name literal, otherwise literal), indexing octet 0x40 / 0x10, insertion of ordinary fields that
were not a full match; the octets emitted and the encoder afterwards -/
theorem add_is_model (e : Impl.EncState) (name value : Bytes) (sensitive huffman : Bool) :
    ∃ f0, ∀ fuel, fuel ≥ f0 →
      Agree (Src.Encoder.add fuel (absE e) (name, value) sensitive huffman) (e.add true name value sensitive huffman)
        (fun r => (absE r.2, r.1)) (absE e) :=
  ⟨addFuel e name value + 1, fun fuel hf => enc_add_agree fuel e name value sensitive huffman (by omega)⟩

/-- `Encoder.header_table_size = v` = `Impl.EncState.setSize` (the pending-update flag stays set once it is set) -/
theorem set_size_is_model (e : Impl.EncState) (v : Nat) :
    ∃ f0, ∀ fuel, fuel ≥ f0 →
      Agree (Src.Encoder.header_table_size_set fuel (absE e) (v : Int)) (e.setSize true v) (fun e' => (absE e', ())) (absE e) :=
  ⟨e.table.entries.length + 1, fun fuel hf => enc_set_size_agree fuel e v (by omega)⟩

/-- `_encode_table_size_change()`: one §6.3 update per pending change, oldest first; the pending list is emptied -/
theorem table_size_change_is_model (e : Impl.EncState) :
    ∃ f0, ∀ fuel, fuel ≥ f0 →
      Src.Encoder.encode_table_size_change fuel (absE e) =
        .ok (absE { e with changes := [] }, e.changes.flatMap fun n => Impl.orFirst (Impl.encodeInt n 5) 0x20) :=
  ⟨e.changes.sum + 1, fun fuel hf => encode_table_size_change_eq fuel e (by
    intro c hc
    have hle : ∀ (l : List Nat) (x : Nat), x ∈ l → x ≤ l.sum := by
      intro l
      induction l with
      | nil => intro x hx; cases hx
      | cons a t ih =>
        intro x hx
        simp only [List.mem_cons] at hx
        simp only [List.sum_cons]
        rcases hx with rfl | hx
        · omega
        · have := ih x hx; omega
    have := hle e.changes c hc
    omega)⟩

/-- `_encode_indexed(index)`: the §6.1 octets -/
theorem encode_indexed_is_model (self : Src.Encoder) (i : Nat) :
    ∃ f0, ∀ fuel, fuel ≥ f0 → Src.Encoder.encode_indexed fuel self (i : Int) = .ok (self, Impl.orFirst (Impl.encodeInt i 7) 0x80) :=
  ⟨i + 1, fun fuel hf => encode_indexed_eq fuel self i (by omega)⟩

/-- a fresh object is the model's fresh encoder -/
theorem new_is_model : Src.Encoder.new = absE {} := by
  have ht : Src.HeaderTable.new = absT {} := by
    simp [Src.HeaderTable.new, absT, Src.c_HeaderTable_DEFAULT_SIZE]
    rfl
  simp only [Src.Encoder.new, absE, ht]
  rfl

end Props.SrcEnc
