import HpackVerif.Props.Common
import HpackVerif.Proofs.Witness
/-! # C10 — Encoder and Decoder compression contexts stay in lockstep -/
namespace Props.C10
open Impl RFC

/-- after a block has been produced and consumed nothing is pending, and then the connection invariant
    says precisely: same entries (as byte pairs) at the same positions, same maximum size -/
theorem lockstep_of_inv (c : Conn) (hinv : ConnInv c) (hnone : c.enc.changes = []) :
    absT c.dec.table = absT c.enc.table ∧ c.dec.table.maxsize = c.enc.table.maxsize := by
  have := hinv.pending
  unfold Pending at this
  rw [hnone] at this
  simp only [applyUpd, Prod.mk.injEq] at this
  exact this

/-- every index therefore means the same field on both sides -/
theorem same_index_same_field (c : Conn) (hinv : ConnInv c) (hnone : c.enc.changes = []) (i : Nat) :
    resolve c.enc.table i = resolve c.dec.table i := by
  obtain ⟨h1, _⟩ := lockstep_of_inv c hinv hnone
  unfold resolve lookup
  simp only [h1]

def lastIsBlock : List ConnOp → Bool
  | [] => false
  | [.block _ _] => true
  | [.setSize _] => false
  | _ :: x :: xs => lastIsBlock (x :: xs)

theorem run_append (cap : Option Nat) (own : Bool) (c : Conn) (a b : List ConnOp) :
    runConn cap own c (a ++ b) =
      match runConn cap own c a with
      | some (c1, o1) => (runConn cap own c1 b).map fun r => (r.1, o1 ++ r.2)
      | none => none := by
  induction a generalizing c with
  | nil =>
    simp only [List.nil_append, runConn]
    cases runConn cap own c b with
    | none => rfl
    | some r => simp
  | cons op ops ih =>
    cases op with
    | setSize n =>
      simp only [List.cons_append, runConn]
      cases c.enc.setSize true n with
      | ok e' => simp only; exact ih _
      | err x => rfl
      | esc x => rfl
    | block hs huff =>
      simp only [List.cons_append, runConn]
      cases c.enc.encode true hs huff with
      | ok r =>
        obtain ⟨bytes, e'⟩ := r
        simp only
        cases hd : decode cap own c.dec bytes with
        | mk o d' =>
          cases o with
          | ok out =>
            simp only [ih]
            cases runConn cap own ⟨e', d'⟩ ops with
            | none => rfl
            | some r1 =>
              simp only [Option.map_some]
              cases runConn cap own r1.1 b with
              | none => rfl
              | some r2 => simp
          | err x => rfl
          | esc x => rfl
      | err x => rfl
      | esc x => rfl

theorem opsOK_prefix (cap : Option Nat) (allowed limit : Nat) (e0 : EncState) (a b : List ConnOp)
    (h : OpsOK cap allowed limit e0 (a ++ b)) : OpsOK cap allowed limit e0 a := by
  induction a generalizing e0 with
  | nil => trivial
  | cons op rest ih =>
    cases op with
    | setSize n => exact ⟨h.1, fun e' he' => ih e' (h.2 e' he')⟩
    | block hs' huff' => exact ⟨h.1, h.2.1, fun b' e' he' => ih e' (h.2.2 b' e' he')⟩

/-- **C10**: after each block of any admissible history has been produced by the Encoder and consumed by
    its Decoder, both hold the same dynamic table — the same maximum size and the same entries at the
    same indices; between blocks (size assignments pending) the decoder's table is the encoder's
    modulo exactly the pending updates (`ConnInv.pending`). -/
theorem lockstep (limit : Nat) (ops : List ConnOp) (hs : List (Bytes × Bytes × Bool)) (huff : Bool)
    (hops : OpsOK Gen.intCap (Props.freshDec limit).allowed limit Props.freshEnc (ops ++ [ConnOp.block hs huff])) :
    ∃ c' outs, runConn Gen.intCap true ⟨Props.freshEnc, Props.freshDec limit⟩ (ops ++ [ConnOp.block hs huff]) = some (c', outs) ∧
      absT c'.dec.table = absT c'.enc.table ∧ c'.dec.table.maxsize = c'.enc.table.maxsize ∧
      ∀ i, resolve c'.enc.table i = resolve c'.dec.table i := by
  have hfresh : ConnInv ⟨Props.freshEnc, Props.freshDec limit⟩ :=
    ⟨Props.freshEnc_ok, Props.freshDec_inv limit,
     by show applyUpd [] Gen.defaultSize [] = ([], Gen.defaultEncSize)
        simp only [applyUpd]
        have : Gen.defaultSize = Gen.defaultEncSize := by decide
        rw [this],
     by simp [Props.freshEnc],
     by show Gen.defaultEncSize ≤ Gen.defaultAllowed
        decide⟩
  obtain ⟨c', outs, hrun, hinv', _⟩ :=
    connection_roundtrip (own := true) Gen.intCap _ hfresh (ops ++ [ConnOp.block hs huff]) hops
  -- the last op is a block, so nothing is pending afterwards
  have hnone : c'.enc.changes = [] := by
    rw [run_append] at hrun
    cases h1 : runConn Gen.intCap true ⟨Props.freshEnc, Props.freshDec limit⟩ ops with
    | none => rw [h1] at hrun; cases hrun
    | some r1 =>
      obtain ⟨c1, o1⟩ := r1
      rw [h1] at hrun
      simp only [runConn] at hrun
      cases he : c1.enc.encode true hs huff with
      | ok r =>
        obtain ⟨bytes, e'⟩ := r
        rw [he] at hrun
        simp only at hrun
        cases hd : decode Gen.intCap true c1.dec bytes with
        | mk o d' =>
          rw [hd] at hrun
          cases o with
          | ok out =>
            simp only [Option.map_some, Option.some.injEq, Prod.mk.injEq] at hrun
            obtain ⟨hc, _⟩ := hrun
            rw [← hc]
            -- encode always clears the pending list
            have hreach : EncOK c1.enc := by
              -- c1 satisfies ConnInv by the round-trip theorem on the prefix
              have hpre := opsOK_prefix Gen.intCap (Props.freshDec limit).allowed limit Props.freshEnc ops _ hops
              obtain ⟨c1', o1', hr1, hi1, _⟩ := connection_roundtrip (own := true) Gen.intCap _ hfresh ops hpre
              rw [h1] at hr1
              cases hr1
              exact hi1.enc
            obtain ⟨b2, e2, h2, _, hch, _⟩ := Props.encode_encOK c1.enc hreach hs huff
            unfold Cur.encode at h2
            rw [he] at h2
            cases h2
            exact hch
          | err x => simp at hrun
          | esc x => simp at hrun
      | err x => rw [he] at hrun; simp at hrun
      | esc x => rw [he] at hrun; simp at hrun
  obtain ⟨h1, h2⟩ := lockstep_of_inv c' hinv' hnone
  exact ⟨c', outs, hrun, h1, h2, same_index_same_field c' hinv' hnone⟩

/-- the same under size-level hypotheses only (see `Props.C01.roundtrip_sizes`) -/
theorem lockstep_sizes (limit : Nat) (ops : List ConnOp) (hs : List (Bytes × Bytes × Bool)) (huff : Bool)
    (h : SizesOK (Props.freshDec limit).allowed limit (ops ++ [ConnOp.block hs huff])) :
    ∃ c' outs, runConn Gen.intCap true ⟨Props.freshEnc, Props.freshDec limit⟩ (ops ++ [ConnOp.block hs huff]) = some (c', outs) ∧
      absT c'.dec.table = absT c'.enc.table ∧ c'.dec.table.maxsize = c'.enc.table.maxsize ∧
      ∀ i, resolve c'.enc.table i = resolve c'.dec.table i :=
  lockstep limit ops hs huff (opsOK_of_sizesOK Gen.intCap Props.cap64 _ limit _ Props.freshEnc Props.freshEnc_ok
    (by decide) (by simp [Props.freshEnc]) h)

/-- before the repair D3 the contexts could drift apart (sizes 40, 40: no update is ever sent while the
    encoder's maximum is 40) -/
theorem desync_before_fix : Witness.setTwice = some ([0x40, 0x01, 0x61, 0x01, 0x62], 1, 40) :=
  Witness.c09_lost_update_witness

end Props.C10
