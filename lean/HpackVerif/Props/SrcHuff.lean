import HpackVerif.Proofs.SrcTieHuff
import HpackVerif.Impl.Model
/-! # Source tie — the model of `decode_huffman` **is** the translation of `src/hpack/huffman_table.py`

`Generated/SrcHuff.lean` is written on every run by `tools/py2lean.py` from the Python AST of `decode_huffman`: the
`for input_byte in huffman_string` loop is a structural recursion over the octets, each of the two unrolled look-ups
`HUFFMAN_TABLE[state * 16 + nibble]` is Python indexing of the flat 4 096-entry list (the run-time table the data
translator dumped, flattened), `decoded_bytes.append` is `bytearray.append` with its range check, the flag tests are
truth values of `flags & CONSTANT`. The theorem says the translated function returns, for **every** octet string, what
`Impl.huffDecodeBuf` (the model all C13 theorems and the decoder's string reading are stated about) returns.
Two finite facts about the table are checked by the kernel on the way: every row has 16 entries (so flat and row-wise
indexing agree) and every output octet is below 256 (so `append` cannot raise).

Not imported by the property modules (DESIGN.md §3.2a): a lost source tie is reported, never an alarm. -/
namespace Props.SrcHuff
open SrcTie

/-- `decode_huffman`: translated source = model, for all octet strings -/
theorem decode_huffman_is_model (fuel : Nat) (w : Bytes) :
    Src.decode_huffman fuel w =
      outToR (match Impl.huffDecodeBuf w with
              | .ok b => .ok b.bytes
              | .err e => .err e
              | .esc x => .esc x) := by
  rw [decode_huffman_tie]
  unfold Impl.huffDecodeBuf
  cases Impl.huffDecode Gen.huffTable w <;> rfl

/-- the flat table the source indexes is the 256 × 16 table the data translator dumped (checked against the code tree
in the kernel by `gen_table_ok`) -/
theorem table_is_generated : Src.c_HUFFMAN_TABLE = Gen.huffTable.flatten.map castT := SrcTie.table_is_generated

theorem rows_have_16_entries : Uniform Gen.huffTable := gen_uniform
theorem outputs_are_octets : OutOK Gen.huffTable := gen_outOK

/-- non-vacuity: RFC 7541 C.4.1 (`www.example.com`), and a string ending in more than 7 bits of padding -/
example : Src.decode_huffman 0 [0xf1, 0xe3, 0xc2, 0xe5, 0xf2, 0x3a, 0x6b, 0xa0, 0xab, 0x90, 0xf4, 0xff] =
      .ok [119, 119, 119, 46, 101, 120, 97, 109, 112, 108, 101, 46, 99, 111, 109] ∧
    Src.decode_huffman 0 [0x1f, 0xff] = .error .hpackDecodingError := by
  have h1 : Impl.huffDecodeBuf [0xf1, 0xe3, 0xc2, 0xe5, 0xf2, 0x3a, 0x6b, 0xa0, 0xab, 0x90, 0xf4, 0xff] =
      .ok ⟨[119, 119, 119, 46, 101, 120, 97, 109, 112, 108, 101, 46, 99, 111, 109], false⟩ := by decide +kernel
  have h2 : Impl.huffDecodeBuf [0x1f, 0xff] = .err .decoding := by decide +kernel
  constructor
  · rw [decode_huffman_is_model, h1]; rfl
  · rw [decode_huffman_is_model, h2]; rfl

end Props.SrcHuff
