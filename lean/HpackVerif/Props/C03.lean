import HpackVerif.Props.Common
import HpackVerif.Proofs.DataEq
import HpackVerif.Proofs.HuffEncProof
/-! # C03 — everything the Encoder emits is well-formed HPACK that decodes to its input

The statement is made against the L0 grammar and semantics (`blockOctets`, `interp`), not against this
library's decoder: *any* decoder that implements RFC 7541 (i.e. satisfies C02) recovers the list. The
peer is described by its RFC-level context `peer : Ctx`; "has processed the earlier blocks" is the
hypothesis that the peer's table, once the still-pending size updates are applied, is the encoder's. -/
namespace Props.C03
open Impl RFC

/-- the representation chosen for a field is never a size update: updates occur only in the prefix -/
theorem chosen_not_update (t : Table) (n v : Bytes) (s : Bool) : ∀ k, chosenRep true t n v s ≠ .sizeUpdate k := by
  intro k
  unfold chosenRep
  split
  · simp
  · split <;> simp

theorem encReps_no_update (huff : Bool) (e : EncState) (hs : List (Bytes × Bytes × Bool)) :
    ∀ rc ∈ encReps true huff e hs, ∀ k, rc.1 ≠ .sizeUpdate k := by
  induction hs generalizing e with
  | nil => intro rc h; simp [encReps] at h
  | cons h rest ih =>
    obtain ⟨n, v, s⟩ := h
    intro rc hrc
    unfold encReps at hrc
    cases ha : e.add true n v s huff with
    | ok r =>
      rw [ha] at hrc
      simp only [List.mem_cons] at hrc
      rcases hrc with rfl | hrc
      · exact chosen_not_update _ _ _ _
      · exact ih _ rc hrc
    | err x => rw [ha] at hrc; simp at hrc
    | esc x => rw [ha] at hrc; simp at hrc

/-- **C03**: for every reachable (consistent) encoder state, every header list and Huffman flag, and a
    peer that is in step with the encoder up to the pending size updates and permits them:
    * `encode` succeeds and its output is exactly `blockOctets rcs` — a sequence of RFC 7541
      representations, each string length-prefixed (`strOctets`) and, if Huffman-coded, the Appendix B
      code padded with fewer than 8 one-bits (`C12.encode_spec`);
    * `rcs` = the pending table-size updates, **only as a prefix**, followed by one representation per
      header, none of which is an update;
    * the RFC meaning of that block on the peer's context is exactly the header list that was passed in
      (so every emitted index was in range: a bad index would make `interp` an error), and the context the
      peer ends in is the encoder's new table. -/
theorem emits_wellformed (e : EncState) (hok : EncOK e) (hs : List (Bytes × Bytes × Bool)) (huff : Bool)
    (peer : Ctx) (hpeer : applyUpd peer.dyn peer.max e.changes = (absT e.table, e.table.maxsize))
    (hallow : ∀ v ∈ e.changes, v ≤ peer.allowed) (hcur : e.table.maxsize ≤ peer.allowed)
    (hlim : listSize hs ≤ peer.listLimit) :
    ∃ bytes e' fields, Cur.encode e hs huff = .ok (bytes, e') ∧
      bytes = blockOctets (updReps e.changes ++ fields) ∧
      (∀ rc ∈ fields, ∀ k, rc.1 ≠ .sizeUpdate k) ∧ fields.length = hs.length ∧
      ∃ fs, interp peer ((updReps e.changes ++ fields).map (·.1)) = (.ok fs, peerCtx e' peer.allowed peer.listLimit) ∧
        fs.map (fun f => (f.name, f.value)) = hs.map (fun h => (h.1, h.2.1)) := by
  let e0 : EncState := ⟨{ e.table with resized := false }, []⟩
  have hinv0 : Inv e0.table := ⟨hok.inv.cached, hok.inv.bounded⟩
  -- the encoder's output
  have hmirror : Pending e (Props.mirror e) → True := fun _ => trivial
  obtain ⟨e', hloop, _, _, _, _, fs', hI, hfs'⟩ :=
    encLoop_emits true huff e0 hinv0 [] hs peer.allowed peer.listLimit [] 0 (by omega) hcur
  have hbytes : Cur.encode e hs huff = .ok (blockOctets (updReps e.changes ++ encReps true huff e0 hs), e') := by
    unfold Cur.encode EncState.encode
    by_cases hr : e.table.resized = true
    · simp only [hr, if_true, bind]
      rw [encode_go_eq, updates_octets]
      obtain ⟨e'', hl2, _, _, _, _, fs2, hI2, _⟩ :=
        encLoop_emits true huff e0 hinv0 (blockOctets (updReps e.changes)) hs peer.allowed peer.listLimit [] 0 (by omega) hcur
      have hsame : e'' = e' := by
        have h1 := hI; rw [hI2] at h1
        -- both runs end in states with the same peer context; use determinism of the state component
        have : ∀ (hs : List (Bytes × Bytes × Bool)) (e0 : EncState) (a1 a2 : Bytes) (x y : Bytes × EncState),
            encLoop true huff e0 a1 hs = .ok x → encLoop true huff e0 a2 hs = .ok y → x.2 = y.2 := by
          intro hs
          induction hs with
          | nil => intro e0 a1 a2 x y h1 h2; simp [encLoop, pure] at h1 h2; rw [← h1, ← h2]
          | cons h rest ih =>
            intro e0 a1 a2 x y h1 h2
            obtain ⟨n, v, s⟩ := h
            simp only [encLoop, bind] at h1 h2
            cases ha : e0.add true n v s huff with
            | ok r => simp only [ha] at h1 h2; exact ih _ _ _ _ _ h1 h2
            | err z => simp [ha] at h1
            | esc z => simp [ha] at h1
        exact this hs e0 _ _ _ _ hl2 hloop
      rw [hl2, hsame, blockOctets_append]
    · have hr' : e.table.resized = false := by simpa using hr
      have hc0 : e.changes = [] := by
        by_contra hne
        have := hok.flag.mpr hne
        rw [hr'] at this; exact absurd this (by simp)
      have he0 : e0 = e := by
        show (⟨{ e.table with resized := false }, []⟩ : EncState) = e
        cases e with
        | mk t c =>
          simp only at hr' hc0
          subst hc0
          cases t with
          | mk en mx cu rs => simp only at hr'; subst hr'; rfl
      simp only [hr', Bool.false_eq_true, if_false, bind]
      rw [encode_go_eq, hc0]
      simp only [updReps, List.map_nil, List.nil_append]
      rw [← he0]
      simpa using hloop
  refine ⟨_, e', encReps true huff e0 hs, hbytes, rfl, encReps_no_update huff e0 hs, ?_, fs', ?_, hfs'⟩
  · -- one representation per header
    have : ∀ (hs : List (Bytes × Bytes × Bool)) (e1 : EncState), Inv e1.table → (encReps true huff e1 hs).length = hs.length := by
      intro hs
      induction hs with
      | nil => intro _ _; rfl
      | cons h rest ih =>
        intro e1 hi1
        obtain ⟨n, v, s⟩ := h
        obtain ⟨b, e2, ha, _, hi2, _⟩ := add_emits true e1 hi1 n v s huff
        unfold encReps
        rw [ha]
        simp only [List.length_cons, ih e2 hi2]
    exact this hs e0 hinv0
  · unfold interp
    rw [List.map_append, interpLoop_updates peer e.changes _ hallow, hpeer]
    simp only at hI ⊢
    have : peerCtx e0 peer.allowed peer.listLimit = ⟨absT e.table, e.table.maxsize, peer.allowed, peer.listLimit⟩ := rfl
    rw [this] at hI
    simpa using hI

/-- the tables the grammar and the semantics refer to are Appendix A and B -/
theorem tables_are_rfc : Gen.staticTable = RFCT.staticTable ∧ Gen.codes = RFCT.codes := ⟨static_eq_rfc, codes_eq_rfc⟩

/-- Huffman-coded strings in the output are validly padded (C12) -/
theorem huffman_padding (s : Bytes) :
    ∃ pad, pad < 8 ∧ bytesBits (huffEncode Gen.codes s) = huffBits Gen.codes (s.map (·.toNat)) ++ List.replicate pad true :=
  ⟨_, (gen_huffEncode_bits s).2, (gen_huffEncode_bits s).1⟩

/-! non-vacuity: a fresh encoder against a fresh peer -/
example : (match Cur.encode Props.freshEnc [(":method".toUTF8.toList, "GET".toUTF8.toList, false)] true with
    | .ok (b, _) => b | _ => []) = [0x82] := by decide +kernel

end Props.C03
