import HpackVerif.Props.Common
import HpackVerif.Proofs.HuffEncProof
import HpackVerif.Proofs.DataEq
/-! # C12 — the Huffman encoder emits the RFC 7541 Appendix B code and round-trips

`huffEncode Gen.codes` models `HuffmanEncoder.encode` on the code/length lists an `Encoder` really
holds (read by the translator); `RFCT.codes` is the frozen copy of Appendix B. -/
namespace Props.C12
open Impl

/-- the code and length lists in use are Appendix B (all 257 entries; kernel-evaluated) -/
theorem codes_are_appendixB : Gen.codes = RFCT.codes := codes_eq_rfc

/-- Appendix B itself is the canonical prefix code of its lengths and is complete (Kraft sum = 1):
    a transcription error in the frozen copy would break one of these -/
theorem appendixB_canonical : canonicalOK RFCT.codes = true ∧ kraft RFCT.codes = 2 ^ 30 :=
  ⟨rfc_code_canonical, rfc_code_kraft⟩

/-- for every byte string the output bits are the concatenated codes of its bytes, msb first, followed
    by fewer than eight one-bits up to the octet boundary -/
theorem encode_spec (s : Bytes) :
    let bits := huffBits Gen.codes (s.map (·.toNat))
    let pad := (8 - bits.length % 8) % 8
    bytesBits (huffEncode Gen.codes s) = bits ++ List.replicate pad true ∧ pad < 8 :=
  gen_huffEncode_bits s

/-- the same, stated against the frozen Appendix B table -/
theorem encode_spec_rfc (s : Bytes) :
    ∃ pad, pad < 8 ∧
      bytesBits (huffEncode Gen.codes s) = huffBits RFCT.codes (s.map (·.toNat)) ++ List.replicate pad true := by
  have h := gen_huffEncode_bits s
  rw [codes_eq_rfc] at h
  exact ⟨_, h.2, by rw [codes_eq_rfc]; exact h.1⟩

/-- the empty string encodes to the empty string -/
theorem encode_empty : huffEncode Gen.codes [] = [] := rfl

/-- decoding the output returns the original byte string -/
theorem roundtrip (s : Bytes) : huffDecodeBuf (huffEncode Gen.codes s) = .ok ⟨s, false⟩ := by
  unfold huffDecodeBuf
  rw [gen_huff_roundtrip s]
  simp only [List.map_map]
  congr 2
  rw [List.map_congr_left (g := id)]
  · simp
  · intro b _; simp

/-! non-vacuity (RFC 7541 C.4.1: "www.example.com") -/
example : huffEncode Gen.codes "www.example.com".toUTF8.toList
    = [0xf1, 0xe3, 0xc2, 0xe5, 0xf2, 0x3a, 0x6b, 0xa0, 0xab, 0x90, 0xf4, 0xff] := by decide +kernel

end Props.C12
