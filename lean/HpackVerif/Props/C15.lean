import HpackVerif.Props.Common
import HpackVerif.Proofs.Sound2
import HpackVerif.Proofs.C17
/-! # C15 — sensitive headers are never indexed, on either side -/
namespace Props.C15
open Impl RFC

/-- **Encoder, one field**: a field marked sensitive leaves the encoder's table untouched, and is sent
    either as a plain index (only when an identical field is already in the table: `search` reported a
    perfect match) or as a literal with the never-indexed pattern `0001xxxx` — never as a literal that
    permits indexing -/
theorem encoder_field (e : EncState) (hinv : Inv e.table) (name value : Bytes) (huff : Bool) :
    ∃ bytes e', e.add true name value true huff = .ok (bytes, e') ∧ e'.table = e.table ∧
      bytes = reprOctets (chosenRep true e.table name value true) (ch0 huff) ∧
      ((∃ i, chosenRep true e.table name value true = .indexed i ∧ resolve e.table i = some (name, value)) ∨
       (∃ nm, chosenRep true e.table name value true = .literal .never nm value)) := by
  obtain ⟨bytes, e', h1, h2, _, _, _, _, h7, _⟩ := add_emits true e hinv name value true huff
  refine ⟨bytes, e', h1, h7 rfl, h2, ?_⟩
  unfold chosenRep
  cases hs : e.table.search name value with
  | none => right; exact ⟨.lit name, rfl⟩
  | some r =>
    obtain ⟨idx, perfect⟩ := r
    simp only
    by_cases hp : perfect = true
    · left
      refine ⟨idx, by simp [hp], ?_⟩
      obtain ⟨en, hres, hn, hv⟩ := search_sound e.table name value hs
      rw [hres]
      have : en = (name, value) := by
        cases en with
        | mk a b => simp only at hn hv; rw [hn, hv hp]
      rw [this]
    · right
      exact ⟨.idx idx, by simp [hp, ixOf]⟩

/-- the never-indexed literal's first octet has the pattern `0001xxxx` -/
theorem never_pattern (nm : NameRef) (v : Bytes) (ch : Choice) :
    ∃ b0 rest, reprOctets (.literal .never nm v) ch = b0 :: rest ∧ b0.toNat &&& 0xF0 = 0x10 := by
  cases nm with
  | lit n => exact ⟨UInt8.ofNat 0x10, _, rfl, by decide⟩
  | idx i =>
    obtain ⟨tl, htl⟩ := intOctets_cons 4 0x10 i ch.zi
    refine ⟨_, tl ++ strOctets ch.valueC v, by simp only [reprOctets, Indexing.pfx, Indexing.pat]; rw [htl]; rfl, ?_⟩
    have hple := prefixVal_le 4 i
    have : ∀ x : Fin 16, (UInt8.ofNat (0x10 + x.val)).toNat &&& 0xF0 = 0x10 := by decide
    have h15 : prefixVal 4 i < 16 := by
      have : (2:Nat) ^ 4 - 1 = 15 := by decide
      omega
    exact this ⟨prefixVal 4 i, h15⟩

theorem add_entries_subset (e : EncState) (hinv : Inv e.table) (n v : Bytes) (s huff : Bool) (b : Bytes) (e' : EncState)
    (h : e.add true n v s huff = .ok (b, e')) :
    ∀ x ∈ absT e'.table, x ∈ absT e.table ∨ (x = (n, v) ∧ s = false) := by
  intro x hx
  cases s with
  | true =>
    obtain ⟨_, _, h1, _, _, _, _, _, h7, _⟩ := add_emits true e hinv n v true huff
    rw [h] at h1; cases h1
    rw [h7 rfl] at hx; exact Or.inl hx
  | false =>
    -- the table afterwards is either unchanged or `fit max ((n,v) :: entries)`
    unfold EncState.add at h
    cases hs : e.table.search n v with
    | none =>
      simp only [hs, bind, EncState.insert, Bool.not_false, if_true] at h
      obtain ⟨t', ha, he, _, _⟩ := add_spec e.table ⟨n, false⟩ ⟨v, false⟩ hinv
      simp only [ha, pure, Out.ok.injEq, Prod.mk.injEq] at h
      obtain ⟨_, rfl⟩ := h
      simp only [absT, he] at hx
      obtain ⟨en, hen, rfl⟩ := List.mem_map.mp hx
      have := fit_subset _ _ en hen
      simp only [List.mem_cons] at this
      rcases this with rfl | hm
      · right; exact ⟨rfl, rfl⟩
      · left; exact List.mem_map.mpr ⟨en, hm, rfl⟩
    | some r =>
      obtain ⟨idx, perfect⟩ := r
      simp only [hs] at h
      split at h
      · simp only [pure, Out.ok.injEq, Prod.mk.injEq] at h
        obtain ⟨_, rfl⟩ := h; exact Or.inl hx
      · simp only [bind, EncState.insert, Bool.not_false, if_true] at h
        obtain ⟨t', ha, he, _, _⟩ := add_spec e.table ⟨n, false⟩ ⟨v, false⟩ hinv
        simp only [ha, pure, Out.ok.injEq, Prod.mk.injEq] at h
        obtain ⟨_, rfl⟩ := h
        simp only [absT, he] at hx
        obtain ⟨en, hen, rfl⟩ := List.mem_map.mp hx
        have := fit_subset _ _ en hen
        simp only [List.mem_cons] at this
        rcases this with rfl | hm
        · right; exact ⟨rfl, rfl⟩
        · left; exact List.mem_map.mpr ⟨en, hm, rfl⟩


/-- the non-sensitive fields an application has submitted over a history -/
def submitted : List Props.EncOp → List (Bytes × Bytes)
  | [] => []
  | .setSize _ :: ops => submitted ops
  | .encode hs _ :: ops => (hs.filterMap fun h => if h.2.2 then none else some (h.1, h.2.1)) ++ submitted ops
  | .encodeRaises hs _ :: ops => (hs.filterMap fun h => if h.2.2 then none else some (h.1, h.2.1)) ++ submitted ops

theorem encLoop_entries_subset (huff : Bool) (hs : List (Bytes × Bytes × Bool)) (e : EncState) (hinv : Inv e.table)
    (acc : Bytes) (r : Bytes × EncState) (h : encLoop true huff e acc hs = .ok r) :
    ∀ x ∈ absT r.2.table, x ∈ absT e.table ∨ x ∈ (hs.filterMap fun h => if h.2.2 then none else some (h.1, h.2.1)) := by
  induction hs generalizing e acc with
  | nil => intro x hx; simp only [encLoop, pure, Out.ok.injEq] at h; rw [← h] at hx; exact Or.inl hx
  | cons hd rest ih =>
    obtain ⟨n, v, s⟩ := hd
    obtain ⟨b, e1, ha, _, hi1, _⟩ := add_emits true e hinv n v s huff
    simp only [encLoop, bind, ha] at h
    intro x hx
    rcases ih e1 hi1 _ h x hx with h1 | h1
    · rcases add_entries_subset e hinv n v s huff b e1 ha x h1 with h2 | ⟨h2, h3⟩
      · exact Or.inl h2
      · right; simp only [List.filterMap_cons, h3, Bool.false_eq_true, if_false]; rw [h2]; simp
    · right
      simp only [List.filterMap_cons]
      split
      · exact h1
      · exact List.mem_cons_of_mem _ h1

theorem encStep_entries_subset (e : EncState) (hok : EncOK e) (op : Props.EncOp) :
    ∀ x ∈ absT (Props.encStep e op).table, x ∈ absT e.table ∨ x ∈ submitted [op] := by
  cases op with
  | setSize n =>
    obtain ⟨e', hs, _, _⟩ := Props.setSize_encOK e hok n
    simp only [Props.encStep, hs]
    intro x hx
    left
    unfold Cur.setSize EncState.setSize at hs
    obtain ⟨t', ht, hent, _⟩ := setMaxsize_spec e.table n hok.inv
    simp only [ht, bind, pure, Out.ok.injEq] at hs
    rw [← hs] at hx
    simp only [absT, hent] at hx
    obtain ⟨en, hen, rfl⟩ := List.mem_map.mp hx
    exact List.mem_map.mpr ⟨en, fit_subset _ _ en hen, rfl⟩
  | encode hs huff =>
    obtain ⟨b, e', henc, _⟩ := Props.encode_encOK e hok hs huff
    simp only [Props.encStep, henc, submitted, List.append_nil]
    unfold Cur.encode EncState.encode at henc
    have hinv0 : Inv ({ e.table with resized := false } : Table) := ⟨hok.inv.cached, hok.inv.bounded⟩
    by_cases hr : e.table.resized = true
    · simp only [hr, if_true, bind] at henc
      rw [encode_go_eq] at henc
      exact encLoop_entries_subset huff hs ⟨{ e.table with resized := false }, []⟩ hinv0 _ _ henc
    · have hr' : e.table.resized = false := by simpa using hr
      simp only [hr', Bool.false_eq_true, if_false, bind] at henc
      rw [encode_go_eq] at henc
      exact encLoop_entries_subset huff hs e hok.inv _ _ henc
  | encodeRaises hs huff =>
    obtain ⟨b, e', henc, _⟩ := Props.encode_encOK e hok hs huff
    simp only [Props.encStep, henc, submitted, List.append_nil]
    unfold Cur.encode EncState.encode at henc
    have hinv0 : Inv ({ e.table with resized := false } : Table) := ⟨hok.inv.cached, hok.inv.bounded⟩
    by_cases hr : e.table.resized = true
    · simp only [hr, if_true, bind] at henc
      rw [encode_go_eq] at henc
      exact encLoop_entries_subset huff hs ⟨{ e.table with resized := false }, []⟩ hinv0 _ _ henc
    · have hr' : e.table.resized = false := by simpa using hr
      simp only [hr', Bool.false_eq_true, if_false, bind] at henc
      rw [encode_go_eq] at henc
      exact encLoop_entries_subset huff hs e hok.inv _ _ henc

/-- **Encoder, whole histories**: every entry in the table of an encoder reached by any history was
    submitted as a non-sensitive field at some point of that history — a sensitive field never gets in -/
theorem table_entries_were_submitted (ops : List Props.EncOp) :
    ∀ x ∈ absT (Props.encRun Props.freshEnc ops).table, x ∈ submitted ops := by
  suffices ∀ e0, EncOK e0 → ∀ x ∈ absT (Props.encRun e0 ops).table, x ∈ absT e0.table ∨ x ∈ submitted ops by
    intro x hx
    rcases this _ Props.freshEnc_ok x hx with h | h
    · simp [Props.freshEnc, absT] at h
    · exact h
  induction ops with
  | nil => intro e0 _ x hx; exact Or.inl hx
  | cons op ops ih =>
    intro e0 hok x hx
    have hstep := Props.encStep_ok e0 hok op
    rcases ih (Props.encStep e0 op) hstep x hx with h | h
    · rcases encStep_entries_subset e0 hok op x h with h2 | h2
      · exact Or.inl h2
      · right
        cases op with
        | setSize n => simp [submitted] at h2
        | encode hs huff => simp only [submitted, List.append_nil] at h2; simp only [submitted]; exact List.mem_append_left _ h2
        | encodeRaises hs huff => simp only [submitted, List.append_nil] at h2; simp only [submitted]; exact List.mem_append_left _ h2
    · right
      cases op with
      | setSize n => exact h
      | encode hs huff => simp only [submitted]; exact List.mem_append_right _ h
      | encodeRaises hs huff => simp only [submitted]; exact List.mem_append_right _ h

/-- **Decoder**: a never-indexed literal is decoded into the never-indexed tuple class and is not inserted
    into the decoder's table; a literal without indexing yields the plain class and no insertion; only
    the incremental-indexing pattern inserts (and yields the plain class) -/
theorem decoder_literal (st : DecState) (h : Props.DecReach st) (ix : Indexing) (nm : NameRef) (v : Bytes) (ch : Choice)
    (hok : RepOK Gen.intCap (.literal ix nm v) ch) (rest : Bytes) (name : Bytes)
    (hname : resolveName (abs st) nm = some name) :
    ∃ hd t', decodeLiteral Gen.intCap true st.table (reprOctets (.literal ix nm v) ch ++ rest) (decide (ix = .incremental))
        = .ok (hd, (reprOctets (.literal ix nm v) ch).length, t') ∧
      hd.name.bytes = name ∧ hd.value.bytes = v ∧ hd.never = (ix == .never) ∧
      absT t' = (if ix = .incremental then fitE st.table.maxsize ((name, v) :: absT st.table) else absT st.table) := by
  have := decodeLiteral_octets (own := true) Gen.intCap st (Props.decReach_inv h) ix nm v ch hok rest
  rw [hname] at this
  obtain ⟨hd, t', h1, h2, _, _, h5⟩ := this
  refine ⟨hd, t', h1, ?_, ?_, ?_, h5⟩
  · have := congrArg Field.name h2; exact this
  · have := congrArg Field.value h2; exact this
  · have := congrArg Field.never h2; exact this

/-- an indexed field always yields the plain class -/
theorem decoder_indexed_plain (st : DecState) (b0 : UInt8) (data : Bytes) (seen : Bool) (hb : b0.toNat &&& 0x80 ≠ 0)
    (hd : Header) (k : Nat) (st' : DecState)
    (h : decodeField Gen.intCap true st (b0 :: data) seen = .ok (some hd, k, st')) : hd.never = false ∧ st' = st := by
  unfold decodeField at h
  simp only [hb, ne_eq, not_false_eq_true, if_true, bind] at h
  cases hi : decodeInt Gen.intCap (b0 :: data) 7 with
  | ok r =>
    obtain ⟨index, consumed⟩ := r
    rw [hi] at h
    simp only at h
    cases hg : st.table.getByIndex index with
    | ok e =>
      rw [hg] at h
      simp only [pure, Out.ok.injEq, Prod.mk.injEq, Option.some.injEq] at h
      obtain ⟨rfl, _, rfl⟩ := h
      exact ⟨rfl, rfl⟩
    | err x => rw [hg] at h; cases h
    | esc x => rw [hg] at h; cases h
  | err x => rw [hi] at h; cases h
  | esc x => rw [hi] at h; cases h

/-! non-vacuity: a sensitive field with a name match goes out as `1f 09 …` / `10 …`, nothing is inserted -/
example : (match (Props.freshEnc).add true "cookie".toUTF8.toList "x".toUTF8.toList true false with
    | .ok (b, e') => (b.head?, e'.table.entries.length) | _ => (none, 99)) = (some 0x1f, 0) := by decide +kernel

end Props.C15
