import HpackVerif.Props.Common
import HpackVerif.Proofs.Utf8Proof
/-! # C01 — Encoder→Decoder round trip preserves every header list over a connection

A connection history is a list of `ConnOp`s: the application assigns the encoder's table size, or a
header list is encoded (with a per-block Huffman flag and a per-field sensitivity flag) and the octets
are handed to the decoder. `runConn` runs it on the models of `Encoder` and `Decoder` of the current tree. -/
namespace Props.C01
open Impl RFC

/-- a freshly constructed Encoder/Decoder pair (any list limit) satisfies the connection invariant -/
theorem fresh_inv (limit : Nat) : ConnInv ⟨Props.freshEnc, Props.freshDec limit⟩ :=
  ⟨Props.freshEnc_ok, Props.freshDec_inv limit,
   by show applyUpd [] Gen.defaultSize [] = ([], Gen.defaultEncSize)
      simp only [applyUpd]
      have : Gen.defaultSize = Gen.defaultEncSize := by decide
      rw [this],
   by simp [Props.freshEnc],
   by show Gen.defaultEncSize ≤ Gen.defaultAllowed
      decide⟩

/-- **C01** (raw mode): from a fresh pair, for every history — every sequence of header lists over
    arbitrary byte strings (empty, long, larger than the table), every per-block Huffman choice, every
    mix of sensitive and ordinary fields, every sequence of table-size assignments between blocks —
    provided the decoder's permitted table size admits the sizes the encoder signals and each list fits
    the decoder's list limit (`OpsOK`: the two refusals the library documents, plus integers within the
    implementation cap), every block is accepted and decodes to exactly the list that was encoded: the
    same fields in the same order with the same name and value bytes. -/
theorem roundtrip (limit : Nat) (ops : List ConnOp)
    (hops : OpsOK Gen.intCap (Props.freshDec limit).allowed limit Props.freshEnc ops) :
    ∃ c' outs, runConn Gen.intCap true ⟨Props.freshEnc, Props.freshDec limit⟩ ops = some (c', outs) ∧
      outs.map (fun out => out.map fun h => (h.name.bytes, h.value.bytes))
        = (blocksOf ops).map (fun hs => hs.map fun h => (h.1, h.2.1)) := by
  obtain ⟨c', outs, h1, _, h3⟩ :=
    connection_roundtrip (own := true) Gen.intCap ⟨Props.freshEnc, Props.freshDec limit⟩ (fresh_inv limit) ops hops
  exact ⟨c', outs, h1, h3⟩

/-- **C01 with size-level hypotheses only**: the technical `OpsOK` is implied by `SizesOK` — every
    assigned table size is admitted by the decoder's permitted maximum (and below 2^60), every header list
    fits the decoder's list limit, every name and value is shorter than 2^56 octets. Under exactly the
    property's proviso (plus those astronomically generous size bounds) every block round-trips. -/
theorem roundtrip_sizes (limit : Nat) (ops : List ConnOp)
    (h : SizesOK (Props.freshDec limit).allowed limit ops) :
    ∃ c' outs, runConn Gen.intCap true ⟨Props.freshEnc, Props.freshDec limit⟩ ops = some (c', outs) ∧
      outs.map (fun out => out.map fun h => (h.name.bytes, h.value.bytes))
        = (blocksOf ops).map (fun hs => hs.map fun h => (h.1, h.2.1)) :=
  roundtrip limit ops (opsOK_of_sizesOK Gen.intCap Props.cap64 _ limit ops Props.freshEnc Props.freshEnc_ok
    (by decide) (by simp [Props.freshEnc]) h)

/-- the same from **any** state in which the two sides are consistent (`ConnInv`: both table invariants,
    the decoder's table is what the encoder's becomes once the pending updates are applied, sizes admitted),
    and the invariant is re-established — so the statement composes over arbitrarily long connections -/
theorem roundtrip_from (c : Conn) (hinv : ConnInv c) (ops : List ConnOp)
    (hops : OpsOK Gen.intCap c.dec.allowed c.dec.listLimit c.enc ops) :
    ∃ c' outs, runConn Gen.intCap true c ops = some (c', outs) ∧ ConnInv c' ∧
      outs.map (fun out => out.map fun h => (h.name.bytes, h.value.bytes))
        = (blocksOf ops).map (fun hs => hs.map fun h => (h.1, h.2.1)) :=
  connection_roundtrip (own := true) Gen.intCap c hinv ops hops

/-- text mode: if the names and values of a decoded block are valid UTF-8, text mode returns the same
    fields (compared through their UTF-8 encoding) and leaves the same state as raw mode -/
theorem text_mode_same (st : DecState) (data : Bytes) (hs : List Header)
    (hd : (Cur.decode st data true).1 = .ok hs)
    (hutf : ∀ h ∈ hs, validUtf8 h.name.bytes = true ∧ validUtf8 h.value.bytes = true) :
    Cur.decode st data false = Cur.decode st data true := by
  unfold Cur.decode decodeApi at hd ⊢
  cases hr : (Impl.decode Gen.intCap true st data).1 with
  | ok raw =>
    have e : Impl.decode Gen.intCap true st data = (.ok raw, (Impl.decode Gen.intCap true st data).2) := by rw [← hr]
    rw [e] at hd ⊢
    simp only [finishHeaders, if_true, Out.ok.injEq] at hd
    simp only [finishHeaders, Bool.false_eq_true, if_false, if_true]
    have : raw.all (fun h => validUtf8 h.name.bytes && validUtf8 h.value.bytes) = true := by
      rw [List.all_eq_true]
      intro h hm
      have := hutf ({ name := ⟨h.name.bytes, false⟩, value := ⟨h.value.bytes, false⟩, never := h.never } : Header)
        (by rw [← hd]; exact List.mem_map.mpr ⟨h, hm, rfl⟩)
      simp only at this
      simp [this.1, this.2]
    rw [if_pos this]
  | err x =>
    have e : Impl.decode Gen.intCap true st data = (.err x, (Impl.decode Gen.intCap true st data).2) := by rw [← hr]
    rw [e] at hd; cases hd
  | esc x =>
    have e : Impl.decode Gen.intCap true st data = (.esc x, (Impl.decode Gen.intCap true st data).2) := by rw [← hr]
    rw [e] at hd; cases hd

/-- text round trip: when the fields that were encoded were given as text (`str`), the bytes the decoder
    recovers are their UTF-8 encodings (raw-mode round trip, above), which the strict decoder accepts
    (`validUtf8_text`) — so text mode returns them too, with the same state: text is recovered through its
    UTF-8 encoding -/
theorem text_roundtrip (st : DecState) (data : Bytes) (fields : List (PyStr × PyStr)) (out : List Header)
    (hd : (Cur.decode st data true).1 = .ok out)
    (hmatch : out.map (fun h => (h.name.bytes, h.value.bytes)) = fields.map (fun f => (f.1.toBytes, f.2.toBytes)))
    (htext : ∀ f ∈ fields, (∃ s, f.1 = .text s) ∧ (∃ s, f.2 = .text s)) :
    Cur.decode st data false = Cur.decode st data true := by
  apply text_mode_same st data out hd
  intro h hm
  have : (h.name.bytes, h.value.bytes) ∈ fields.map (fun f => (f.1.toBytes, f.2.toBytes)) := by
    rw [← hmatch]; exact List.mem_map.mpr ⟨h, hm, rfl⟩
  obtain ⟨f, hf, heq⟩ := List.mem_map.mp this
  obtain ⟨⟨s1, h1⟩, ⟨s2, h2⟩⟩ := htext f hf
  simp only [Prod.mk.injEq] at heq
  constructor
  · rw [← heq.1, h1]; exact validUtf8_text s1
  · rw [← heq.2, h2]; exact validUtf8_text s2

/-! non-vacuity: a concrete history — shrink the table to 40, send a sensitive and an ordinary field with
    Huffman coding, grow to 100, send them again — satisfies `OpsOK` and runs to completion -/
def demo : List ConnOp :=
  [.setSize 40, .block [("a".toUTF8.toList, "b".toUTF8.toList, false), ("k".toUTF8.toList, "secret".toUTF8.toList, true)] true,
   .setSize 100, .block [("a".toUTF8.toList, "b".toUTF8.toList, false)] false]
example : (runConn Gen.intCap true ⟨Props.freshEnc, Props.freshDec 65536⟩ demo).isSome = true := by decide +kernel
example : SizesOK (Props.freshDec 65536).allowed 65536 demo := by
  refine ⟨by decide, by decide, ⟨by decide +kernel, ?_, ⟨by decide, by decide, ⟨by decide +kernel, ?_, trivial⟩⟩⟩⟩ <;>
  · intro h hm
    simp only [List.mem_cons, List.not_mem_nil, or_false] at hm
    rcases hm with rfl | rfl <;> decide +kernel

end Props.C01
