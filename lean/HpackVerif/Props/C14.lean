import HpackVerif.Props.Common
import HpackVerif.Proofs.SearchProof
import HpackVerif.Proofs.DataEq
/-! # C14 — index space: 1–61 are the RFC static table, 62+k the k-th newest dynamic entry

`Table.getByIndex` models `HeaderTable.get_by_index`, `Table.search` models `HeaderTable.search`
(including the import-time mapping, re-derived by the model and compared entry by entry with the
mapping object read from the running library — `mapping_*`). -/
namespace Props.C14
open Impl RFC

/-- the static table in use is RFC 7541 Appendix A, all 61 entries in order (kernel-evaluated) -/
theorem static_is_appendixA : Gen.staticTable = RFCT.staticTable := static_eq_rfc
theorem static_length : Gen.staticTable.length = 61 := by decide
/-- the table length constant the code indexes with agrees with the table -/
theorem static_length_const : Gen.staticTableLength = Gen.staticTable.length := by decide

/-- indices 1..61 resolve to the Appendix A entries, in every table state (the result does not depend
    on the state at all: no history can change it) -/
theorem static_index (t : Table) (i : Nat) (h1 : 1 ≤ i) (h2 : i ≤ 61) :
    ∃ n v, RFCT.staticTable[i - 1]? = some (n, v) ∧ t.getByIndex i = .ok (⟨n, false⟩, ⟨v, false⟩) := by
  have hlen := static_length
  have hlt : i - 1 < Gen.staticTable.length := by omega
  have hget : Gen.staticTable[i - 1]? = some Gen.staticTable[i - 1] := List.getElem?_eq_getElem hlt
  refine ⟨Gen.staticTable[i - 1].1, Gen.staticTable[i - 1].2, ?_, ?_⟩
  · rw [← static_eq_rfc, hget]
  · unfold Table.getByIndex
    rw [if_neg (by omega)]
    simp only [hlt, if_true, staticEntry, hget, Option.map_some]

/-- index 62 + k resolves to the k-th entry of the dynamic table, newest first … -/
theorem dynamic_index (t : Table) (k : Nat) (e : Entry) (h : t.entries[k]? = some e) :
    t.getByIndex (62 + k) = .ok e := by
  have hlen := static_length
  unfold Table.getByIndex
  rw [if_neg (by omega)]
  have : ¬ (62 + k - 1 < Gen.staticTable.length) := by omega
  simp only [this, if_false]
  have e1 : 62 + k - 1 - Gen.staticTable.length = k := by omega
  rw [e1, h]

/-- … and insertion puts the new entry at index 62 and shifts every surviving entry up by one
    (`fit` keeps the longest newest-first prefix that fits: C06) -/
theorem insertion_is_newest (t : Table) (n v : PyBuf) (h : Inv t) :
    ∃ t', t.add n v = .ok t' ∧ t'.entries = fit t.maxsize ((n, v) :: t.entries) := by
  obtain ⟨t', h1, h2, _, _⟩ := add_spec t n v h
  exact ⟨t', h1, h2⟩

/-- index 0 is invalid -/
theorem index_zero_invalid (t : Table) : t.getByIndex 0 = .err .invalidIndex := by
  unfold Table.getByIndex
  have : ¬ (0 ≥ 10 ^ maxStrDigits) := by
    have : 0 < 10 ^ maxStrDigits := Nat.pow_pos (by decide)
    omega
  simp [this]

/-- every index beyond the last dynamic entry is invalid (for every index the decoder can produce: it is
    bounded by the integer cap, `Props.capOK`; a caller handing `get_by_index` an integer of more than 4300
    decimal digits gets Python's `ValueError` from the message formatting instead) -/
theorem index_past_end_invalid (t : Table) (i : Nat) (h : 62 + t.entries.length ≤ i) (hp : i < 10 ^ maxStrDigits) :
    t.getByIndex i = .err .invalidIndex := by
  have hlen := static_length
  unfold Table.getByIndex
  have h0 : ¬ (i ≥ 10 ^ maxStrDigits) := by omega
  rw [if_neg (by omega)]
  have : ¬ (i - 1 < Gen.staticTable.length) := by omega
  simp only [this, if_false, h0]
  have : t.entries[i - 1 - Gen.staticTable.length]? = none := by
    apply List.getElem?_eq_none; omega
  rw [this]

/-- a look-up by name and value only ever reports an index that resolves to that name, and for an exact
    match to that value as well — for all table states, including names occurring several times -/
theorem search_sound (t : Table) (name value : Bytes) (idx : Nat) (perfect : Bool)
    (h : t.search name value = some (idx, perfect)) :
    ∃ e, t.getByIndex idx = .ok e ∧ e.1.bytes = name ∧ (perfect = true → e.2.bytes = value) := by
  obtain ⟨e, hres, hn, hv⟩ := RFC.search_sound t name value h
  have : lookup (abs { table := t, allowed := 0, listLimit := 0 }) idx = some e := hres
  obtain ⟨e', hget, habs⟩ := lookup_some _ idx e this
  refine ⟨e', hget, ?_, ?_⟩
  · rw [← hn, ← habs]; rfl
  · intro hp; rw [← hv hp, ← habs]; rfl

/-- the import-time search mapping is the one `_build_static_table_mapping` derives from the static table -/
theorem mapping_is_derived : Gen.staticMapping = staticMapping := by decide +kernel

/-! non-vacuity -/
example : (({} : Table).getByIndex 2) = .ok (⟨":method".toUTF8.toList, false⟩, ⟨"GET".toUTF8.toList, false⟩) := by
  decide +kernel
example : ({} : Table).search ":method".toUTF8.toList "POST".toUTF8.toList = some (3, true) := by decide +kernel

end Props.C14
