import HpackVerif.Props.Common
import HpackVerif.Proofs.Witness
/-! # C04 — `decode()` fails only with the documented decoding-error family

Outcome type of the model: `ok` | `err e` with `e` one of the four documented classes
(`HPACKDecodingError`, `InvalidTableIndexError`, `InvalidTableSizeError`, `OversizedHeaderListError`) |
`esc x` for anything else the Python code could raise: `IndexError` from an unguarded subscript or table
look-up or from popping an empty deque, `ValueError` from formatting an index of more than 4300 digits,
and `nonTermination` if the `while` loop ran out of the fuel `len(data) + 1` (i.e. some iteration consumed
no octet). Escapes are *modelled*, then proved unreachable. -/
namespace Props.C04
open Impl RFC

theorem finish_no_esc (raw : Bool) (hs : List Header) : (finishHeaders raw hs).isEsc = false := by
  unfold finishHeaders; split
  · rfl
  · split <;> rfl

/-- from any state satisfying the table invariant, for every byte string and both modes: no escape
    (including non-termination), and the invariant survives -/
theorem no_escape_inv (st : DecState) (hinv : Inv st.table) (data : Bytes) (raw : Bool) :
    (Cur.decode st data raw).1.isEsc = false ∧ Inv (Cur.decode st data raw).2.table := by
  have h := decode_safe (own := true) Props.capN Props.capOK st hinv data
  rw [← Props.cap_eq] at h
  refine ⟨?_, by rw [Props.curDecode_state]; exact h.2⟩
  unfold Cur.decode decodeApi
  cases hd : (Impl.decode Gen.intCap true st data).1 with
  | ok hs =>
    have e : Impl.decode Gen.intCap true st data = (.ok hs, (Impl.decode Gen.intCap true st data).2) := by rw [← hd]
    rw [e]; exact finish_no_esc raw hs
  | err x =>
    have e : Impl.decode Gen.intCap true st data = (.err x, (Impl.decode Gen.intCap true st data).2) := by rw [← hd]
    rw [e]; rfl
  | esc x => rw [hd] at h; simp [Out.isEsc] at h

/-- **C04**: for every byte string, every decoder configuration and every prior history (any sequence of
    earlier blocks — valid or not —, table-size assignments, permitted-maximum and list-limit changes),
    decoding terminates and either returns a header list or raises one of the four documented classes -/
theorem only_documented_errors (st : DecState) (h : Props.DecReach st) (data : Bytes) (raw : Bool) :
    (∃ out, (Cur.decode st data raw).1 = .ok out) ∨ (∃ e : DErr, (Cur.decode st data raw).1 = .err e) := by
  have := (no_escape_inv st (Props.decReach_inv h) data raw).1
  cases hd : (Cur.decode st data raw).1 with
  | ok out => exact Or.inl ⟨out, rfl⟩
  | err e => exact Or.inr ⟨e, rfl⟩
  | esc x => rw [hd] at this; simp [Out.isEsc] at this

/-- the Huffman decoder inside never raises `IndexError` from its table look-ups -/
theorem huffman_no_escape (w : Bytes) : (huffDecodeBuf w).isEsc = false := huffDecodeBuf_no_esc w

/-- before the repair D1 (no cap) the statement was false: a 2100-octet index escaped as `ValueError` -/
theorem without_cap_escapes :
    Witness.isValueErr (Impl.decode none false {} (0xff :: (List.replicate 2100 0xff ++ [0x01]))).1 = true :=
  Witness.c04_escape_witness

/-! non-vacuity: reachable states exist and the error branch is really taken -/
example : Props.DecReach (Props.freshDec 65536) := ⟨65536, [], rfl⟩
example : (Cur.decode (Props.freshDec 65536) [0x80] true).1 = .err .invalidIndex := by decide +kernel
example : (Cur.decode (Props.freshDec 65536) [0x40, 0x05] true).1 = .err .decoding := by decide +kernel

end Props.C04
