import HpackVerif.Props.Common
import HpackVerif.Proofs.IntExtra
/-! # C11 — the prefix-integer codec implements RFC 7541 §5.1 exactly and inverts itself

`encodeIntApi` / `Cur.decodeInt` are the models of `hpack.hpack.encode_integer` / `decode_integer`
(with their `ValueError` guards) on the current tree; `RFC.intOctets N hi v z` is the §5.1 wire form
(`hi` = bits above the prefix, `z` = redundant zero digits a peer may append). -/
namespace Props.C11
open Impl RFC

/-- for every `n ≥ 0` and prefix width 1..8, encoding yields exactly the §5.1 octets: `n` alone below
    `2^N - 1`, otherwise `2^N - 1` followed by the little-endian base-128 digits of the remainder, every
    digit but the last carrying the continuation bit -/
theorem encode_wire (n N : Nat) (hN1 : 1 ≤ N) (hN8 : N ≤ 8) :
    encodeIntApi (n : Int) (N : Int) =
      .ok (if n < 2 ^ N - 1 then [UInt8.ofNat n]
           else UInt8.ofNat (2 ^ N - 1) :: contOctets (digits (n - (2 ^ N - 1)))) := by
  unfold encodeIntApi
  rw [if_neg (by omega), if_neg (by omega)]
  simp only [Int.toNat_natCast, encodeInt_eq, intOctets, Nat.zero_add, List.replicate_zero, List.append_nil]

/-- negative integers are refused -/
theorem encode_refuses_negative (n N : Int) (h : n < 0) : encodeIntApi n N = .esc .valueError := by
  unfold encodeIntApi; rw [if_pos h]

/-- prefix widths outside 1..8 are refused by the encoder … -/
theorem encode_refuses_width (n N : Int) (h : N < 1 ∨ N > 8) : encodeIntApi n N = .esc .valueError := by
  unfold encodeIntApi; split
  · rfl
  · rfl

/-- … and by the decoder, whatever the data -/
theorem decode_refuses_width (data : Bytes) (N : Int) (h : N < 1 ∨ N > 8) :
    Cur.decodeInt data N = .esc .valueError := by
  unfold Cur.decodeInt decodeIntApi; rw [if_pos h]

/-- decoding the §5.1 octets of `v` — whatever follows them, whatever the bits above the prefix, and
    with any number of redundant zero digits that stays within the implementation's cap — returns `v`
    and the exact number of octets used -/
theorem roundtrip_general (N : Nat) (hN1 : 1 ≤ N) (hN8 : N ≤ 8) (hi v z : Nat)
    (hhi : hi % 2 ^ N = 0) (hhi2 : hi < 256) (rest : Bytes)
    (hfit : 2 ^ N - 1 ≤ v → 7 * ((digits (v - (2 ^ N - 1))).length + z - 1) ≤ capN) :
    Cur.decodeInt (intOctets N hi v z ++ rest) (N : Int) = .ok (v, (intOctets N hi v z).length) := by
  unfold Cur.decodeInt decodeIntApi
  rw [if_neg (by omega)]
  simp only [Int.toNat_natCast]
  apply decodeInt_intOctets _ N hN1 hN8 hi v z hhi hhi2 rest
  intro c hc hv
  rw [cap_eq] at hc
  cases hc
  exact hfit hv

/-- **for every n below 2^64** (indeed below 2^70) and every prefix width, decoding what the encoder
    produced returns `n` and the number of octets the encoder produced, whatever follows -/
theorem roundtrip_64 (n N : Nat) (hN1 : 1 ≤ N) (hN8 : N ≤ 8) (hn : n < 2 ^ 64) (rest : Bytes) :
    ∃ enc, encodeIntApi (n : Int) (N : Int) = .ok enc ∧
      Cur.decodeInt (enc ++ rest) (N : Int) = .ok (n, enc.length) := by
  refine ⟨intOctets N 0 n 0, ?_, ?_⟩
  · unfold encodeIntApi
    rw [if_neg (by omega), if_neg (by omega)]
    simp only [Int.toNat_natCast, encodeInt_eq]
  · apply roundtrip_general N hN1 hN8 0 n 0 (by simp) (by omega) rest
    intro _
    have h1 : n - (2 ^ N - 1) < 128 ^ (9 + 1) := by
      have : (2:Nat) ^ 64 ≤ 128 ^ 10 := by decide
      omega
    have := digits_length_le 9 _ h1
    have := cap_admits_64
    omega

/-- the same with arbitrary bits above the prefix (as inside a header block) -/
theorem roundtrip_64_highbits (n N : Nat) (hN1 : 1 ≤ N) (hN8 : N ≤ 8) (hn : n < 2 ^ 64) (hi : Nat)
    (hhi : hi % 2 ^ N = 0) (hhi2 : hi < 256) (rest : Bytes) :
    Cur.decodeInt (intOctets N hi n 0 ++ rest) (N : Int) = .ok (n, (intOctets N hi n 0).length) := by
  apply roundtrip_general N hN1 hN8 hi n 0 hhi hhi2 rest
  intro _
  have h1 : n - (2 ^ N - 1) < 128 ^ (9 + 1) := by
    have : (2:Nat) ^ 64 ≤ 128 ^ 10 := by decide
    omega
  have := digits_length_le 9 _ h1
  have := cap_admits_64
  omega

/-- decoding any byte string: a returned `(v, k)` has `1 ≤ k ≤ |data|`, and the `k` octets consumed are
    a §5.1 encoding of `v` (with the first octet's own high bits and some redundant zeros within the cap) -/
theorem decode_sound (data : Bytes) (N : Nat) (hN1 : 1 ≤ N) (hN8 : N ≤ 8) {v k : Nat}
    (h : Cur.decodeInt data (N : Int) = .ok (v, k)) :
    1 ≤ k ∧ k ≤ data.length ∧ ∃ hi z, hi % 2 ^ N = 0 ∧ hi < 256 ∧ data.take k = intOctets N hi v z := by
  unfold Cur.decodeInt decodeIntApi at h
  rw [if_neg (by omega)] at h
  simp only [Int.toNat_natCast] at h
  cases data with
  | nil => simp [decodeInt] at h
  | cons b0 rest =>
    obtain ⟨z, htake, hk2, hk1, _, _⟩ := decodeInt_complete Gen.intCap b0 rest N hN1 hN8 h
    refine ⟨hk1, hk2, b0.toNat - (b0.toNat &&& (2 ^ N - 1)), z, ?_, ?_, htake⟩
    · rw [Nat.and_two_pow_sub_one_eq_mod]
      have := Nat.mod_add_div b0.toNat (2 ^ N)
      have h2 : b0.toNat - b0.toNat % 2 ^ N = 2 ^ N * (b0.toNat / 2 ^ N) := by omega
      rw [h2]; exact Nat.mul_mod_right _ _
    · have := b0.toNat_lt; omega

/-- decoding never raises anything but the decoding error (no escape, no other class) -/
theorem decode_total (data : Bytes) (N : Nat) (hN1 : 1 ≤ N) (hN8 : N ≤ 8) :
    (∃ v k, Cur.decodeInt data (N : Int) = .ok (v, k)) ∨ Cur.decodeInt data (N : Int) = .err .decoding := by
  unfold Cur.decodeInt decodeIntApi
  rw [if_neg (by omega)]
  simp only [Int.toNat_natCast]
  have hne := decodeInt_no_esc Gen.intCap data N
  cases h : decodeInt Gen.intCap data N with
  | ok r => exact Or.inl ⟨r.1, r.2, rfl⟩
  | err e => rw [decodeInt_err _ _ _ h]; exact Or.inr rfl
  | esc x => rw [h] at hne; simp [Out.isEsc] at hne

/-- truncated input — the empty string, and every proper prefix of any §5.1 encoding — raises the
    decoding error -/
theorem decode_truncated (N : Nat) (hN1 : 1 ≤ N) (hN8 : N ≤ 8) (hi v z : Nat)
    (hhi : hi % 2 ^ N = 0) (hhi2 : hi < 256) (k : Nat) (hk : k < (intOctets N hi v z).length) :
    Cur.decodeInt ((intOctets N hi v z).take k) (N : Int) = .err .decoding := by
  unfold Cur.decodeInt decodeIntApi
  rw [if_neg (by omega)]
  simp only [Int.toNat_natCast]
  exact decodeInt_truncated _ N hN1 hN8 hi v z hhi hhi2 k hk

/-- every value the decoder returns is bounded by the cap (what makes over-long encodings "refused
    rather than accumulated") -/
theorem decode_bounded (data : Bytes) (N : Nat) (hN1 : 1 ≤ N) (hN8 : N ≤ 8) {v k : Nat}
    (h : Cur.decodeInt data (N : Int) = .ok (v, k)) : v < 2 ^ (capN + 9) := by
  unfold Cur.decodeInt decodeIntApi at h
  rw [if_neg (by omega)] at h
  simp only [Int.toNat_natCast] at h
  rw [cap_eq] at h
  exact (decodeInt_spec capN data N h).2.2

/-! non-vacuity: concrete instances, evaluated by the kernel -/
example : encodeIntApi 1337 5 = .ok [31, 154, 10] := by decide +kernel
example : Cur.decodeInt [31, 154, 10, 0xAA] 5 = .ok (1337, 3) := by decide +kernel
example : Cur.decodeInt [0xFF, 154] 5 = .err .decoding := by decide +kernel

end Props.C11
