import HpackVerif.Props.Common
import HpackVerif.Props.C03
import HpackVerif.Proofs.Witness
import HpackVerif.Proofs.Events
/-! # C09 — the Encoder signals every table-size change at the start of its next block

`setSizes e vs` = the application assigns `Encoder.header_table_size` the values `vs` in turn;
`e.changes` models `Encoder.table_size_changes` (what the next block will open with). -/
namespace Props.C09
open Impl RFC

/-- **what is pending after any run of assignments** `vs` made since the previous block (nothing pending
    before, size in force `e.table.maxsize`): the assignments never fail; the pending list `E`
    * contains only values the application assigned,
    * contains every assigned value except possibly the size that was already in force (a no-op
      assignment is not a change) — in particular **the smallest size set** is in `E` unless it is that
      old size,
    * ends with the size now in force (so a peer applying `E` ends at the encoder's size),
    and setting a value twice or returning to the previous value loses nothing. -/
theorem pending_after_assignments (e : EncState) (h : Props.EncReach e) (hnone : e.changes = []) (vs : List Nat) :
    ∃ e', setSizes e vs = .ok e' ∧ Props.EncReach e' ∧
      (∀ x ∈ e'.changes, x ∈ vs) ∧
      (∀ v ∈ vs, v ∈ e'.changes ∨ v = e.table.maxsize) ∧
      (∀ x, e'.changes.getLast? = some x → x = e'.table.maxsize) ∧
      (e'.changes = [] → e'.table.maxsize = e.table.maxsize) := by
  have hok := Props.encReach_ok h
  obtain ⟨e', hrun, hok', hsub, hall, _, hlast⟩ := setSizes_signalled e hok vs
  have hreach : ∀ (vs : List Nat) (e0 e1 : EncState), Props.EncReach e0 → setSizes e0 vs = .ok e1 → Props.EncReach e1 := by
    intro vs
    induction vs with
    | nil => intro e0 e1 h0 hr; simp only [setSizes, Out.ok.injEq] at hr; rw [← hr]; exact h0
    | cons v rest ih =>
      intro e0 e1 h0 hr
      simp only [setSizes] at hr
      cases hs : e0.setSize true v with
      | ok e2 =>
        rw [hs] at hr
        have hr : setSizes e2 rest = .ok e1 := hr
        have : Props.encStep e0 (.setSize v) = e2 := by simp [Props.encStep, Cur.setSize, hs]
        exact ih e2 e1 (this ▸ Props.encReach_step h0 (.setSize v)) hr
      | err x => rw [hs] at hr; cases hr
      | esc x => rw [hs] at hr; cases hr
  have hsize : ∀ (vs : List Nat) (e0 e1 : EncState), EncOK e0 → setSizes e0 vs = .ok e1 →
      e1.changes = e0.changes → e1.table.maxsize = e0.table.maxsize := by
    intro vs
    induction vs with
    | nil => intro e0 e1 _ hr _; simp only [setSizes, Out.ok.injEq] at hr; rw [← hr]
    | cons v rest ih =>
      intro e0 e1 hok0 hr hsame
      simp only [setSizes] at hr
      cases hs : e0.setSize true v with
      | ok e2 =>
        rw [hs] at hr
        have hr : setSizes e2 rest = .ok e1 := hr
        obtain ⟨hm2, hc2⟩ := setSize_changes e0 hok0 v hs
        obtain ⟨_, hok2, _⟩ := Props.setSize_encOK e0 hok0 v
        have hok2' : EncOK e2 := by
          obtain ⟨e2', h2', hok2', _⟩ := Props.setSize_encOK e0 hok0 v
          unfold Cur.setSize at h2'; rw [hs] at h2'; cases h2'; exact hok2'
        obtain ⟨e1', hr', _, _, _, hmono, _⟩ := setSizes_signalled e2 hok2' rest
        rw [hr] at hr'; cases hr'
        by_cases hv : v = e0.table.maxsize
        · rw [if_pos hv] at hc2
          rw [ih e2 e1 hok2' hr (by rw [hsame, hc2]), hm2, hv]
        · rw [if_neg hv] at hc2
          -- v was appended and stays in the list: the list cannot be the old one
          have hmem : v ∈ e1.changes := hmono v (by rw [hc2]; simp)
          have hlen : e2.changes.length ≤ e1.changes.length := by
            -- monotone: lists only grow (each step keeps or appends)
            have : ∀ (vs : List Nat) (a b : EncState), EncOK a → setSizes a vs = .ok b → a.changes.length ≤ b.changes.length := by
              intro vs
              induction vs with
              | nil => intro a b _ hab; simp only [setSizes, Out.ok.injEq] at hab; rw [hab]
              | cons w ws ihw =>
                intro a b hoka hab
                simp only [setSizes] at hab
                cases hsa : a.setSize true w with
                | ok a2 =>
                  rw [hsa] at hab
                  have hab : setSizes a2 ws = .ok b := hab
                  obtain ⟨_, hca⟩ := setSize_changes a hoka w hsa
                  have hoka2 : EncOK a2 := by
                    obtain ⟨a2', h2', hok2', _⟩ := Props.setSize_encOK a hoka w
                    unfold Cur.setSize at h2'; rw [hsa] at h2'; cases h2'; exact hok2'
                  have := ihw a2 b hoka2 hab
                  rw [hca] at this
                  split at this
                  · exact this
                  · simp only [List.length_append, List.length_singleton] at this; omega
                | err x => rw [hsa] at hab; cases hab
                | esc x => rw [hsa] at hab; cases hab
            exact this rest e2 e1 hok2' hr
          rw [hsame, hc2] at hlen
          simp only [List.length_append, List.length_singleton] at hlen
          omega
      | err x => rw [hs] at hr; cases hr
      | esc x => rw [hs] at hr; cases hr
  refine ⟨e', hrun, hreach vs e e' h hrun, ?_, hall, hlast (by intro x hx; rw [hnone] at hx; simp at hx), ?_⟩
  · intro x hx
    rcases hsub x hx with h1 | h1
    · rw [hnone] at h1; simp at h1
    · exact h1
  · intro hempty
    exact hsize vs e e' hok hrun (by rw [hempty, hnone])

/-- **the next block**: it is `updates(E) ++ fields` with no update among the fields (updates appear only
    before the first field), and a peer that was in step before the assignments and permits the sizes ends
    with the encoder's table: the same maximum *and* the same entries (C03) -/
theorem next_block_signals (e : EncState) (h : Props.EncReach e) (hs : List (Bytes × Bytes × Bool)) (huff : Bool)
    (peer : Ctx) (hpeer : applyUpd peer.dyn peer.max e.changes = (absT e.table, e.table.maxsize))
    (hallow : ∀ v ∈ e.changes, v ≤ peer.allowed) (hcur : e.table.maxsize ≤ peer.allowed)
    (hlim : listSize hs ≤ peer.listLimit) :
    ∃ bytes e' fields fs, Cur.encode e hs huff = .ok (bytes, e') ∧
      bytes = blockOctets (updReps e.changes ++ fields) ∧
      (∀ rc ∈ fields, ∀ k, rc.1 ≠ .sizeUpdate k) ∧
      e'.changes = [] ∧ e'.table.maxsize = e.table.maxsize ∧
      (interp peer ((updReps e.changes ++ fields).map (·.1))).1 = .ok fs ∧
      (interp peer ((updReps e.changes ++ fields).map (·.1))).2.max = e'.table.maxsize ∧
      (interp peer ((updReps e.changes ++ fields).map (·.1))).2.dyn = absT e'.table := by
  have hok := Props.encReach_ok h
  obtain ⟨bytes, e', fields, henc, hb, hnu, _, fs, hI, _⟩ :=
    Props.C03.emits_wellformed e hok hs huff peer hpeer hallow hcur hlim
  obtain ⟨b2, e2, h2, _, hch, hmx⟩ := Props.encode_encOK e hok hs huff
  rw [henc] at h2; cases h2
  exact ⟨bytes, e', fields, fs, henc, hb, hnu, hch, hmx, by rw [hI], by rw [hI]; rfl, by rw [hI]; rfl⟩

/-- `updReps` are exactly the wire form of size updates: `001` + 5-bit-prefix integer, in order -/
theorem updates_wire (vs : List Nat) :
    blockOctets (updReps vs) = vs.flatMap (fun n => intOctets 5 0x20 n 0) := by
  induction vs with
  | nil => rfl
  | cons v vs ih => simp only [updReps, List.map_cons, blockOctets, reprOctets, ch0, List.flatMap_cons] at ih ⊢; rw [ih]

/-- the full statement of the property additionally demands that **no emitted update exceeds the size
    currently in force**. That clause is FALSE of the current code (known finding D5, not repaired because
    the test-suite pins the octets): sizes 40, 100, 40 emit updates 40, 100, 40 and 100 > 40. -/
def NoneExceeds : Prop :=
  ∀ vs e', setSizes Props.freshEnc vs = .ok e' → ∀ u ∈ e'.changes, u ≤ e'.table.maxsize

theorem full_statement_false : ¬ NoneExceeds := by
  intro h
  have hw : ∃ e', setSizes Props.freshEnc [40, 100, 40] = .ok e' ∧ e'.changes = [40, 100, 40] ∧ e'.table.maxsize = 40 := by
    refine ⟨⟨{ maxsize := 40, resized := true }, [40, 100, 40]⟩, by decide +kernel, rfl, rfl⟩
  obtain ⟨e', hr, hc, hm⟩ := hw
  have := h [40, 100, 40] e' hr 100 (by rw [hc]; simp)
  rw [hm] at this
  omega

/-- **a size assignment made while a block is being encoded** (the application's header generator runs
    `encoder.header_table_size = n` between two of the fields it yields): the block itself carries only what was
    pending when `encode` was called; if the assignment changes the size, then when `encode` returns the update is
    owed and `[n]` is exactly what is pending — the *next* block opens with it. An assignment of the size already in
    force at that moment leaves nothing pending. -/
theorem assignment_during_block (e : EncState) (h : Props.EncReach e) (fs1 fs2 : List FieldForm) (n : Nat) (huff : Bool)
    (b : Bytes) (e' : EncState)
    (hrun : e.encodeEvents true true (fs1.map .field ++ .setSize n :: fs2.map .field) huff = .ok (b, e')) :
    ∃ size_then : Nat,
      (n ≠ size_then → e'.table.resized = true ∧ e'.changes = [n]) ∧
      (n = size_then → e'.table.resized = false ∧ e'.changes = []) := by
  have hok := Props.encReach_ok h
  unfold EncState.encodeEvents at hrun
  by_cases hr : e.table.resized = true
  · simp only [hr, if_true] at hrun
    obtain ⟨e1, b1, _, h1, h2⟩ := Impl.assignment_during_block true huff _ e' _ b fs1 fs2 n hrun
    exact ⟨e1.table.maxsize, fun hne => by simpa using h1 hne, fun heq => by simpa using h2 heq⟩
  · have hr' : e.table.resized = false := by simpa using hr
    have hch : e.changes = [] := by
      by_contra hne
      have := hok.flag.mpr hne
      rw [hr'] at this; cases this
    simp only [hr', Bool.false_eq_true, if_false] at hrun
    obtain ⟨e1, b1, _, h1, h2⟩ := Impl.assignment_during_block true huff e e' [] b fs1 fs2 n hrun
    exact ⟨e1.table.maxsize, fun hne => by simpa [hch] using h1 hne, fun heq => by simpa [hch, hr'] using h2 heq⟩

/-- a generator that assigns nothing is just the list of the fields it yields -/
theorem events_without_assignment (e : EncState) (fs : List FieldForm) (huff : Bool) :
    e.encodeEvents true true (fs.map .field) huff = e.encodeForms true (.iterable fs) huff :=
  Impl.events_without_assignment true true huff e fs

/-- before the repair D3 an assignment of the same value twice lost the update altogether -/
theorem lost_update_before_fix : Witness.setTwice = some ([0x40, 0x01, 0x61, 0x01, 0x62], 1, 40) :=
  Witness.c09_lost_update_witness

/-! non-vacuity -/
example : Props.EncReach Props.freshEnc := ⟨[], rfl⟩
example : (match Props.freshEnc.encodeEvents true true
    ([FieldForm.tuple2 (.bytes [0x61]) (.bytes [0x62])].map .field ++ .setSize 64 :: [FieldForm.tuple2 (.bytes [0x63]) (.bytes [0x64])].map .field) false with
    | .ok (b, e') => decide (b = [0x40, 1, 0x61, 1, 0x62, 0x40, 1, 0x63, 1, 0x64]) && decide (e'.changes = [64]) && e'.table.resized
    | _ => false) = true := by
  decide +kernel

end Props.C09
