import HpackVerif.Props.Common
import HpackVerif.Proofs.Limits
import HpackVerif.Proofs.Prefix
/-! # C07 — the decoded header list never exceeds `max_header_list_size`

`Cur.decode` models `Decoder.decode` on the current tree; `hsize` is the size of a header list as the
property defines it (Σ name length + value length + 32). -/
namespace Props.C07
open Impl RFC

theorem finish_size (raw : Bool) (hs out : List Header) (h : finishHeaders raw hs = .ok out) : hsize out = hsize hs := by
  unfold finishHeaders at h
  have key : hsize (hs.map fun h => ({ name := ⟨h.name.bytes, false⟩, value := ⟨h.value.bytes, false⟩, never := h.never } : Header)) = hsize hs := by
    unfold hsize; simp [List.map_map, Function.comp_def, entrySize]
  split at h
  · cases h; exact key
  · split at h
    · cases h; exact key
    · cases h

/-- **whenever decode returns** — for every byte string, every decoder state, both modes — the size of
    the returned list is at most the configured maximum -/
theorem bound (st : DecState) (data : Bytes) (raw : Bool) (out : List Header)
    (h : (Cur.decode st data raw).1 = .ok out) : hsize out ≤ st.listLimit := by
  unfold Cur.decode decodeApi at h
  cases hd : (Impl.decode Gen.intCap true st data).1 with
  | ok hs =>
    have e : Impl.decode Gen.intCap true st data = (.ok hs, (Impl.decode Gen.intCap true st data).2) := by rw [← hd]
    rw [e] at h
    simp only at h
    rw [finish_size raw hs out h]
    exact (decode_limits (own := true) Gen.intCap st data hd).1
  | err x =>
    have e : Impl.decode Gen.intCap true st data = (.err x, (Impl.decode Gen.intCap true st data).2) := by rw [← hd]
    rw [e] at h; cases h
  | esc x =>
    have e : Impl.decode Gen.intCap true st data = (.esc x, (Impl.decode Gen.intCap true st data).2) := by rw [← hd]
    rw [e] at h; cases h

/-- the loop invariant behind it: at every iteration the running size is within the limit, and a field
    that makes it cross the limit ends the block with the oversized-header-list error **at that field**
    (nothing after it is examined: the result does not depend on the remaining octets) -/
theorem refused_at_crossing (fuel : Nat) (st st' : DecState) (b0 : UInt8) (data : Bytes) (hs : List Header) (infl : Nat)
    (h : Header) (consumed : Nat)
    (hf : decodeField Gen.intCap true st (b0 :: data) (!hs.isEmpty) = .ok (some h, consumed, st'))
    (hcross : infl + entrySize (h.name, h.value) > st'.listLimit) :
    decodeLoop Gen.intCap true (fuel + 1) st (b0 :: data) hs infl = (.err .oversized, st') := by
  rw [decodeLoop]
  simp only [hf]
  rw [if_pos hcross]

/-- a list exactly at the limit is accepted: a field that brings the running size to exactly the limit
    does not end the block -/
theorem exact_limit_continues (fuel : Nat) (st st' : DecState) (b0 : UInt8) (data : Bytes) (hs : List Header) (infl : Nat)
    (h : Header) (consumed : Nat)
    (hf : decodeField Gen.intCap true st (b0 :: data) (!hs.isEmpty) = .ok (some h, consumed, st'))
    (hexact : infl + entrySize (h.name, h.value) = st'.listLimit) :
    decodeLoop Gen.intCap true (fuel + 1) st (b0 :: data) hs infl =
      decodeLoop Gen.intCap true fuel st' ((b0 :: data).drop consumed) (h :: hs) st'.listLimit := by
  rw [decodeLoop]
  simp only [hf]
  rw [if_neg (by omega), hexact]

/-- lifted to blocks: if the running size of a list of representations crosses the limit at some field
    (`interpPrefix … = error (oversized, _)`), the block is refused with the oversized-header-list error
    **whatever octets follow that field** — nothing after the crossing point influences the outcome, so the
    work spent is bounded by the limit plus the octets up to that point -/
theorem refused_at_crossing_block (st : DecState) (h : Props.DecReach st) (rcs : List (Rep × Choice))
    (hok : ∀ rc ∈ rcs, RepOK Gen.intCap rc.1 rc.2) (rest : Bytes) (ctx : Ctx)
    (hp : interpPrefix (abs st) (rcs.map (·.1)) [] 0 = .error (.oversized, ctx)) :
    (Impl.decode Gen.intCap true st (blockOctets rcs ++ rest)).1 = .err .oversized :=
  (decode_prefix_error (own := true) Gen.intCap st (Props.decReach_inv h) rcs hok rest .oversized ctx hp).1

theorem hsize_ge (out : List Header) : 32 * out.length ≤ hsize out := by
  unfold hsize
  induction out with
  | nil => simp
  | cons x xs ih =>
    have := entrySize_pos (x.name, x.value)
    simp only [List.length_cons, List.map_cons, List.sum_cons]
    omega

/-- work bound: the number of fields in a returned list is at most `limit / 32` (every field costs at
    least 32), however strongly indexed references would expand the block -/
theorem fields_bounded (st : DecState) (data : Bytes) (raw : Bool) (out : List Header)
    (h : (Cur.decode st data raw).1 = .ok out) : 32 * out.length ≤ st.listLimit := by
  have hb := bound st data raw out h
  have := hsize_ge out
  omega

/-! non-vacuity: limit 68 accepts two 34-octet fields (exactly at the limit); limit 67 refuses the second -/
def blk : Bytes := [0x40, 0x01, 0x61, 0x01, 0x62, 0xbe]
example : (Cur.decode (Props.freshDec 68) blk true).1 =
    .ok [⟨⟨[0x61], false⟩, ⟨[0x62], false⟩, false⟩, ⟨⟨[0x61], false⟩, ⟨[0x62], false⟩, false⟩] := by decide +kernel
example : (Cur.decode (Props.freshDec 67) blk true).1 = .err .oversized := by decide +kernel

end Props.C07
