import HpackVerif.Props.Common
import HpackVerif.Proofs.C17
import HpackVerif.Proofs.Witness
/-! # C17 — the Decoder keeps nothing of the caller's input buffer after decode returns  (partial)

Every string object the model handles carries an ownership tag: `view = true` for a `memoryview` slice
of the caller's buffer, `false` for an object the library owns (`bytes(...)`, the result of
`decode_huffman`, a static-table entry). The correspondence check compares the tag with
`type(x) is bytes` for every string stored in the real table and returned by the real decoder.
**Partial**: CPython's reference counts, and frames kept alive by a traceback the *caller* holds, are
outside the model; the run-time judge probes them (buffer overwrite, `sys.getrefcount`, resizability). -/
namespace Props.C17
open Impl RFC

/-- every reachable decoder state holds only owned strings in its table -/
theorem reachable_owned (st : DecState) (h : Props.DecReach st) : AllOwned st.table := by
  obtain ⟨limit, ops, rfl⟩ := h
  suffices ∀ s0 : DecState, Inv s0.table → AllOwned s0.table → AllOwned (Props.decRun s0 ops).table from
    this _ (Props.freshDec_inv limit) (by intro e he; simp [Props.freshDec] at he)
  induction ops with
  | nil => intro s0 _ h0; exact h0
  | cons op ops ih =>
    intro s0 hi h0
    apply ih _ (Props.decStep_inv s0 hi op)
    cases op with
    | decode data raw =>
      simp only [Props.decStep, Props.curDecode_state]
      exact (decode_owned Gen.intCap s0 hi h0 data).1
    | setSize n =>
      obtain ⟨t', hs, _⟩ := setMaxsize_spec s0.table n hi
      simp only [Props.decStep, hs]
      exact setMaxsize_owned s0.table hi h0 n hs
    | setAllowed n => exact h0
    | setLimit n => exact h0

/-- **C17**: for every decoder history and every further block of any size — returning or raising —
    no string in the dynamic table and no string in the returned list is a view of the input buffer.
    Hence later results are a function of the bytes that were passed at the time (`Impl.decode` takes
    the input by value and the state contains no reference to it). -/
theorem holds_no_view (st : DecState) (h : Props.DecReach st) (data : Bytes) (raw : Bool) :
    AllOwned (Cur.decode st data raw).2.table ∧
    ∀ out, (Cur.decode st data raw).1 = .ok out → ∀ hd ∈ out, HOwned hd := by
  have hr := reachable_owned _ (Props.decReach_step h (.decode data raw))
  refine ⟨hr, ?_⟩
  intro out ho hd hm
  unfold Cur.decode decodeApi at ho
  cases hx : (Impl.decode Gen.intCap true st data).1 with
  | ok hs =>
    have e : Impl.decode Gen.intCap true st data = (.ok hs, (Impl.decode Gen.intCap true st data).2) := by rw [← hx]
    rw [e] at ho
    simp only [finishHeaders] at ho
    split at ho
    · cases ho; obtain ⟨x, _, rfl⟩ := List.mem_map.mp hm; exact ⟨rfl, rfl⟩
    · split at ho
      · cases ho; obtain ⟨x, _, rfl⟩ := List.mem_map.mp hm; exact ⟨rfl, rfl⟩
      · cases ho
  | err x =>
    have e : Impl.decode Gen.intCap true st data = (.err x, (Impl.decode Gen.intCap true st data).2) := by rw [← hx]
    rw [e] at ho; cases ho
  | esc x =>
    have e : Impl.decode Gen.intCap true st data = (.esc x, (Impl.decode Gen.intCap true st data).2) := by rw [← hx]
    rw [e] at ho; cases ho

/-- what is retained between blocks is bounded by the table size: Σ (|name| + |value| + 32) ≤ maxsize
    (C06), whatever the sizes of the blocks were -/
theorem retained_bounded (st : DecState) (h : Props.DecReach st) :
    tsize st.table.entries ≤ st.table.maxsize := (Props.decReach_inv h).bounded

/-- before the repair D2 a plain incremental literal left two views of the caller's buffer in the table -/
theorem views_before_fix :
    ((Impl.decode none false {} [0x40, 0x01, 0x61, 0x01, 0x62]).2.table.entries.map fun e => (e.1.view, e.2.view))
      = [(true, true)] := Witness.c17_view_witness

/-! non-vacuity: the same block on the current tree stores owned copies -/
example : ((Cur.decode (Props.freshDec 65536) [0x40, 0x01, 0x61, 0x01, 0x62] true).2.table.entries.map
    fun e => (e.1.view, e.2.view)) = [(false, false)] := by decide +kernel

end Props.C17
