import HpackVerif.Props.Common
import HpackVerif.Proofs.Sound3
import HpackVerif.Proofs.IntExtra
import HpackVerif.Proofs.Complete2
import HpackVerif.Proofs.DataEq
/-! # C02 — the Decoder returns the RFC 7541 meaning of every well-formed header block

L0 (`RFC.*`): `Rep` = the three representation kinds of RFC 7541 §6; `reprOctets r ch` = the octets of
`r` under the peer's choices `ch` (Huffman or plain per string, `z` redundant zero digits per integer);
`blockOctets` = a block; `interp ctx reps` = the header list, resulting dynamic table and error class
RFC 7541 assigns (§2.3, §4, §6) under the two application limits. `abs st` is the RFC-level context of a
decoder state (dynamic table as byte pairs, maximum, permitted maximum, list limit). -/
namespace Props.C02
open Impl RFC

/-- the tables the semantics is evaluated on are Appendix A and Appendix B -/
theorem tables_are_rfc : Gen.staticTable = RFCT.staticTable ∧ Gen.codes = RFCT.codes := ⟨static_eq_rfc, codes_eq_rfc⟩

/-- the L0 grammar writes a Huffman-coded string as `huffEncode codes s`; that is not an appeal to the
    implementation: it is **the unique octet string** whose bits are the Appendix B codes of `s` followed by fewer
    than eight one-bits (the §5.2 definition). Any peer's Huffman coding of `s` is this string. -/
theorem huffman_payload_unique (s w : Bytes) :
    HuffWire RFCT.codes (bytesBits w) (s.map (·.toNat)) ↔ w = huffEncode Gen.codes s := by
  rw [← codes_eq_rfc]
  constructor
  · intro hw
    have hd := (gen_impl_huffDecode_iff w (s.map (·.toNat))).mpr hw
    have := (huffDecode_reencode w _ hd).1
    rw [map_ofNat_toNat] at this
    exact this
  · intro hw
    subst hw
    obtain ⟨h1, h2⟩ := gen_huffEncode_bits s
    refine ⟨?_, _, h2, h1⟩
    intro x hx
    obtain ⟨b, _, rfl⟩ := List.mem_map.mp hx
    exact b.toNat_lt

/-- `RepOK` is met by what a reasonable peer sends: integers below 2^64 with up to three redundant
    zero continuation octets … -/
theorem intOK_of_small (N v z : Nat) (hv : v < 2 ^ 64) (hz : z ≤ 3) : IntOK Gen.intCap N v z := by
  intro c hc _
  rw [Props.cap_eq] at hc; cases hc
  have h1 : v - (2 ^ N - 1) < 128 ^ (9 + 1) := by
    have : (2:Nat) ^ 64 ≤ 128 ^ 10 := by decide
    omega
  have := digits_length_le 9 _ h1
  have hcap : 84 ≤ Props.capN := by decide
  omega

/-- **C02**: for every reachable decoder state, every list of representations and every legal choice
    of string coding and integer padding, decoding the block agrees with the RFC meaning: the same
    fields in the same order with the same never-indexed flags (`absH`), the same error class if the
    block is to be refused, and — in every case — the resulting dynamic table, maximum and limits that
    RFC 7541 prescribes (`abs d.2 = res.2`). Because the resulting state is part of the statement,
    sequences of blocks follow by induction (`sequence`). -/
theorem meaning (st : DecState) (h : Props.DecReach st) (rcs : List (Rep × Choice))
    (hok : ∀ rc ∈ rcs, RepOK Gen.intCap rc.1 rc.2) :
    BlockAgrees (interp (abs st) (rcs.map (·.1))) (Impl.decode Gen.intCap true st (blockOctets rcs)) :=
  decode_blockOctets (own := true) Gen.intCap st (Props.decReach_inv h) rcs hok

/-- the public entry point in raw mode returns those fields as `bytes`; never-indexed literals are
    reported with the never-indexed tuple class (`never = true`), every other field with the plain class -/
theorem meaning_raw (st : DecState) (h : Props.DecReach st) (rcs : List (Rep × Choice))
    (hok : ∀ rc ∈ rcs, RepOK Gen.intCap rc.1 rc.2) (fs : List Field)
    (hi : (interp (abs st) (rcs.map (·.1))).1 = .ok fs) :
    ∃ out, (Cur.decode st (blockOctets rcs) true).1 = .ok out ∧ out.map absH = fs ∧
      abs (Cur.decode st (blockOctets rcs) true).2 = (interp (abs st) (rcs.map (·.1))).2 := by
  have hm := meaning st h rcs hok
  unfold BlockAgrees at hm
  rw [hi] at hm
  obtain ⟨⟨hs', h1, h2⟩, h3⟩ := hm
  have e : Impl.decode Gen.intCap true st (blockOctets rcs) = (.ok hs', (Impl.decode Gen.intCap true st (blockOctets rcs)).2) := by
    rw [← h1]
  refine ⟨hs'.map fun h => ({ name := ⟨h.name.bytes, false⟩, value := ⟨h.value.bytes, false⟩, never := h.never } : Header), ?_, ?_, ?_⟩
  · unfold Cur.decode decodeApi; rw [e]; simp [finishHeaders]
  · rw [← h2]; simp [List.map_map, Function.comp_def, absH]
  · rw [Props.curDecode_state]; exact h3

/-- a sequence of well-formed blocks: each is decoded against the context the previous ones left -/
def runBlocks (st : DecState) : List Bytes → List (Out (List Header)) × DecState
  | [] => ([], st)
  | b :: bs =>
    let r := Impl.decode Gen.intCap true st b
    let rest := runBlocks r.2 bs
    (r.1 :: rest.1, rest.2)

def interpBlocks (ctx : Ctx) : List (List Rep) → List (Except DErr (List Field)) × Ctx
  | [] => ([], ctx)
  | rs :: rss =>
    let r := interp ctx rs
    let rest := interpBlocks r.2 rss
    (r.1 :: rest.1, rest.2)

def OutAgrees : Except DErr (List Field) → Out (List Header) → Prop
  | .ok fs, o => ∃ hs', o = .ok hs' ∧ hs'.map absH = fs
  | .error e, o => o = .err e

theorem sequence (st : DecState) (hinv : Inv st.table) (blocks : List (List (Rep × Choice)))
    (hok : ∀ rcs ∈ blocks, ∀ rc ∈ rcs, RepOK Gen.intCap rc.1 rc.2) :
    List.Forall₂ OutAgrees (interpBlocks (abs st) (blocks.map (·.map (·.1)))).1 (runBlocks st (blocks.map blockOctets)).1 ∧
    abs (runBlocks st (blocks.map blockOctets)).2 = (interpBlocks (abs st) (blocks.map (·.map (·.1)))).2 := by
  induction blocks generalizing st with
  | nil => exact ⟨List.Forall₂.nil, rfl⟩
  | cons rcs rest ih =>
    have hm := decode_blockOctets (own := true) Gen.intCap st hinv rcs (hok rcs (by simp))
    have hinv' := decode_inv (own := true) Gen.intCap st hinv (blockOctets rcs)
    obtain ⟨ha, hs⟩ := hm
    have ih' := ih (Impl.decode Gen.intCap true st (blockOctets rcs)).2 hinv' (fun r hr => hok r (by simp [hr]))
    simp only [List.map_cons, runBlocks, interpBlocks]
    rw [hs] at ih'
    refine ⟨List.Forall₂.cons ?_ ih'.1, ih'.2⟩
    unfold OutAgrees
    cases hi : (interp (abs st) (rcs.map (·.1))).1 with
    | ok fs => rw [hi] at ha; exact ha
    | error e => rw [hi] at ha; exact ha

/-! non-vacuity: RFC 7541 C.3.1 (first request, no Huffman) on a fresh decoder -/
def c31 : List (Rep × Choice) :=
  [(.indexed 2, ch0 false), (.indexed 6, ch0 false), (.indexed 4, ch0 false),
   (.literal .incremental (.idx 1) "www.example.com".toUTF8.toList, ch0 false)]
example : blockOctets c31 = [0x82, 0x86, 0x84, 0x41, 0x0f] ++ "www.example.com".toUTF8.toList := by decide +kernel
example : ((interp (abs (Props.freshDec 65536)) (c31.map (·.1))).1.toOption.map (·.length)) = some 4 := by decide +kernel

end Props.C02
