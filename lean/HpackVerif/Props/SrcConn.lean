import HpackVerif.Props.SrcEncApi
import HpackVerif.Props.SrcDec
import HpackVerif.Props.SrcEnc
import HpackVerif.Props.C01
import HpackVerif.Props.C10
/-! # C01 stated on the translated source

The tie theorems say *translated source = model*; the property theorems say *the model has the property*. This module puts
the two together for the round trip, so that the statement is about the Lean rendering of `Encoder.encode`,
`Encoder.header_table_size = n` and `Decoder.decode` in `src/hpack/hpack.py` themselves (`Generated/SrcEnc.lean`,
`Generated/SrcDec.lean`), with no model function left in it except the abstraction of the two objects:

* a freshly constructed `Encoder()` / `Decoder(max_header_list_size=limit)` pair is in step (`fresh`);
* from a pair in step, assigning a table size the decoder admits keeps the pair in step (`set_size_step`);
* from a pair in step, `Encoder.encode(headers, huffman)` on any represented container returns octets which
  `Decoder.decode(octets, raw=True)` accepts and turns into exactly the (name bytes, value bytes) list of the input, and the
  pair is in step afterwards (`block_step`) — under the property's provisos (the list fits the decoder's limit, lengths and
  sizes are below the astronomically generous bounds of `C01.roundtrip_sizes`).

"In step" is `RFC.ConnInv` of the two model states the objects stand for (`absE`, `absD`). By induction the three steps cover
every history of size assignments and blocks, which is C01's quantifier. Informational like the other source ties. -/
namespace Props.SrcConn
open SrcTie Impl RFC

/-- the two Python objects stand for a consistent connection -/
def InStep (enc : Src.Encoder) (dec : Src.Decoder) : Prop :=
  ∃ c : Conn, ConnInv c ∧ c.dec.listLimit < 10 ^ 4300 ∧ c.enc.table.maxsize < 2 ^ 60 ∧ (∀ v ∈ c.enc.changes, v < 2 ^ 60) ∧
    enc = absE c.enc ∧ dec = absD c.dec

/-- `Encoder()` and `Decoder(max_header_list_size=limit)` -/
theorem fresh (limit : Nat) (hl : limit < 10 ^ 4300) : InStep Src.Encoder.new (Src.Decoder.new (limit : Int)) := by
  refine ⟨⟨Props.freshEnc, Props.freshDec limit⟩, Props.C01.fresh_inv limit, hl, (by show Gen.defaultEncSize < 2 ^ 60; decide), by simp [Props.freshEnc], ?_, ?_⟩
  · rw [Props.SrcEnc.new_is_model]; rfl
  · rw [Props.SrcDec.new_is_model]; rfl

/-- one header block: encode with the translated `Encoder.encode`, decode with the translated `Decoder.decode` -/
theorem block_step_model (cont : Container) (hs : Py.Headers) (hrep : ContRep cont hs) (huff : Bool)
    (c : Conn) (hinv : ConnInv c) (hlim : c.dec.listLimit < 10 ^ 4300)
    (hops : OpsOK Gen.intCap c.dec.allowed c.dec.listLimit c.enc [.block cont.norm huff]) :
    ∃ e' d', ConnInv ⟨e', d'⟩ ∧ d'.listLimit = c.dec.listLimit ∧ (∃ b, c.enc.encode true cont.norm huff = .ok (b, e')) ∧
    ∃ f0, ∀ fuel, fuel ≥ f0 →
      ∃ block out,
        Src.Encoder.encode fuel (absE c.enc) hs huff = .ok (absE e', block) ∧
        Src.Decoder.decode fuel (absD c.dec) block true = .ok (absD d', out) ∧
        out.map (fun x => (x.1, x.2.1)) = cont.norm.map (fun x => (x.1, x.2.1)) := by
  obtain ⟨c', outs, hrun, hinv', hout⟩ := Props.C01.roundtrip_from c hinv [.block cont.norm huff] hops
  -- open the one step of `runConn`
  simp only [runConn] at hrun
  generalize hen : c.enc.encode true cont.norm huff = en at hrun
  cases en with
  | err e => simp at hrun
  | esc x => simp at hrun
  | ok r =>
    obtain ⟨bytes, e'⟩ := r
    simp only at hrun
    generalize hde : decode Gen.intCap true c.dec bytes = de at hrun
    obtain ⟨ro, d'⟩ := de
    cases ro with
    | err e => simp at hrun
    | esc x => simp at hrun
    | ok o =>
      simp only [Option.map_some, Option.some.injEq, Prod.mk.injEq] at hrun
      obtain ⟨hc', houts⟩ := hrun
      subst hc' houts
      simp only [blocksOf, List.map_cons, List.map_nil, List.cons.injEq, and_true] at hout
      obtain ⟨f1, hf1⟩ := Props.SrcEncApi.encode_is_normal_form c.enc cont hs hrep huff
      have hdl : (decode Gen.intCap true c.dec bytes).2.listLimit = c.dec.listLimit := by
        have h1 : (decode Gen.intCap true c.dec bytes).1 = .ok o := by rw [hde]
        exact (decodeLoop_limits (own := true) Gen.intCap _ c.dec bytes [] 0 rfl (by omega) h1).2.2.1
      obtain ⟨f2, hf2⟩ := Props.SrcDec.decode_is_model c.dec bytes true hinv.dec hlim
      have hd' : d' = (decode Gen.intCap true c.dec bytes).2 := by rw [hde]
      refine ⟨e', d', hinv', by rw [hd', hdl], ⟨bytes, rfl⟩, max f1 f2, fun fuel hf => ?_⟩
      have h1 := hf1 fuel (by omega)
      rw [hen] at h1
      simp only [AgreeOut] at h1
      have h2 := hf2 fuel (by omega)
      unfold Cur.decode decodeApi at h2
      rw [hde] at h2
      simp only [finishHeaders, if_true, AgreeRun] at h2
      refine ⟨bytes, _, h1, h2, ?_⟩
      rw [← hout]
      simp [List.map_map, Function.comp_def, hproj]

/-- **one header block**, stated on the objects: from a pair in step, for a represented container whose list fits the
decoder's `max_header_list_size` and whose strings are shorter than 2^56 octets, the translated `Encoder.encode` succeeds,
the translated `Decoder.decode` accepts its output and returns the input's (name, value) list, and the pair is in step -/
theorem block_step (enc : Src.Encoder) (dec : Src.Decoder) (h : InStep enc dec)
    (cont : Container) (hs : Py.Headers) (hrep : ContRep cont hs) (huff : Bool)
    (hfit : (listSize cont.norm : Int) ≤ dec.f_max_header_list_size)
    (hlen : ∀ x ∈ cont.norm, x.1.length < 2 ^ 56 ∧ x.2.1.length < 2 ^ 56) :
    ∃ f0, ∀ fuel, fuel ≥ f0 →
      ∃ enc' dec' block out,
        Src.Encoder.encode fuel enc hs huff = .ok (enc', block) ∧
        Src.Decoder.decode fuel dec block true = .ok (dec', out) ∧
        out.map (fun x => (x.1, x.2.1)) = cont.norm.map (fun x => (x.1, x.2.1)) ∧
        InStep enc' dec' ∧
        -- C10: after the block the two dynamic tables are the same list of (name, value) pairs with the same maximum
        dec'.f_header_table.f_dynamic_entries = enc'.f_header_table.f_dynamic_entries ∧
        dec'.f_header_table.f_maxsize = enc'.f_header_table.f_maxsize := by
  obtain ⟨c, hinv, hlim, hmax, hch, he, hd⟩ := h
  subst he hd
  have hfit' : listSize cont.norm ≤ c.dec.listLimit := by
    have : (absD c.dec).f_max_header_list_size = (c.dec.listLimit : Int) := rfl
    rw [this] at hfit; omega
  have hops : OpsOK Gen.intCap c.dec.allowed c.dec.listLimit c.enc [.block cont.norm huff] :=
    opsOK_of_sizesOK Gen.intCap Props.cap64 _ _ _ c.enc hinv.enc hmax hch ⟨hfit', hlen, trivial⟩
  obtain ⟨e', d', hinv', hl', ⟨b, hb⟩, f0, hf⟩ := block_step_model cont hs hrep huff c hinv hlim hops
  obtain ⟨b2, e2, h2, _, hch2, hmax2⟩ := Props.encode_encOK c.enc hinv.enc cont.norm huff
  have heq : e2 = e' := by
    unfold Cur.encode at h2
    rw [hb] at h2
    simp only [Out.ok.injEq, Prod.mk.injEq] at h2
    exact h2.2.symm
  subst heq
  refine ⟨f0, fun fuel hfu => ?_⟩
  obtain ⟨block, out, h1, h2', h3⟩ := hf fuel hfu
  obtain ⟨ht, hm⟩ := Props.C10.lockstep_of_inv ⟨e2, d'⟩ hinv' hch2
  refine ⟨absE e2, absD d', block, out, h1, h2', h3, ⟨⟨e2, d'⟩, hinv', by rw [hl']; exact hlim, by rw [hmax2]; exact hmax,
    by rw [hch2]; simp, rfl, rfl⟩, ?_, ?_⟩
  · show d'.table.entries.map proj = e2.table.entries.map proj
    have : (RFC.absT d'.table) = (RFC.absT e2.table) := ht
    simp only [RFC.absT] at this
    have hfun : (proj : Entry → List UInt8 × List UInt8) = RFC.absE := rfl
    rw [hfun]; exact this
  · show ((d'.table.maxsize : Nat) : Int) = ((e2.table.maxsize : Nat) : Int)
    simp only at hm
    exact_mod_cast hm

/-- **the application assigns `encoder.header_table_size = n`** (a size the decoder admits, below 2^60) -/
theorem set_size_step (enc : Src.Encoder) (dec : Src.Decoder) (h : InStep enc dec) (n : Nat)
    (hadm : (n : Int) ≤ dec.f_max_allowed_table_size) (hn60 : n < 2 ^ 60) :
    ∃ f0, ∀ fuel, fuel ≥ f0 →
      ∃ enc', Src.Encoder.header_table_size_set fuel enc (n : Int) = .ok (enc', ()) ∧ InStep enc' dec := by
  obtain ⟨c, hinv, hlim, hmax, hch, he, hd⟩ := h
  subst he hd
  have hn : n ≤ c.dec.allowed := by
    have : (absD c.dec).f_max_allowed_table_size = (c.dec.allowed : Int) := rfl
    rw [this] at hadm; omega
  obtain ⟨e', hset, hok', hp', hmax', hsub⟩ := setSize_ok c.enc c.dec hinv.enc hinv.pending n
  obtain ⟨f0, hf0⟩ := Props.SrcEnc.set_size_is_model c.enc n
  refine ⟨f0, fun fuel hf => ?_⟩
  have h1 := hf0 fuel hf
  rw [hset] at h1
  simp only [Agree] at h1
  refine ⟨absE e', h1, ⟨e', c.dec⟩, ⟨hok', hinv.dec, hp', ?_, ?_⟩, hlim, by rw [hmax']; exact hn60, ?_, rfl, rfl⟩
  · intro v hv
    rcases hsub v hv with h | h
    · exact hinv.allow v h
    · rw [h]; exact hn
  · show e'.table.maxsize ≤ c.dec.allowed
    rw [hmax']; exact hn
  · intro v hv
    rcases hsub v hv with h | h
    · exact hch v h
    · rw [h]; exact hn60

end Props.SrcConn

namespace Props.SrcConn
/-- non-vacuity: the default pair (`Decoder()` has `max_header_list_size = 65536`) is in step -/
example : InStep Src.Encoder.new (Src.Decoder.new (65536 : Nat)) :=
  fresh 65536 (Nat.lt_of_lt_of_le (by decide : 65536 < 10 ^ 5) (Nat.pow_le_pow_right (by decide) (by decide)))
end Props.SrcConn
