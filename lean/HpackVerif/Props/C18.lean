import HpackVerif.Props.Common
import HpackVerif.Proofs.Utf8Proof
/-! # C18 — header text/bytes and container forms are interchangeable at the API

`FieldForm` / `Container` model the shapes `Encoder.encode` accepts (2-tuples, 3-tuples, `HeaderTuple`,
`NeverIndexedHeaderTuple`, each component `str` or `bytes`; any iterable, or a `dict`);
`Container.norm` is what the loop in `Encoder.encode` computes from them (`_to_bytes`, the sensitivity
extraction, `_dict_to_iterable`). The model's `encodeApi` is *defined* as `encode ∘ norm`; that the
real `Encoder.encode` factors this way is what the `api` correspondence stream checks (all form
assignments, outputs and tables compared). The theorems state what the factorisation yields. -/
namespace Props.C18
open Impl RFC

/-- the Encoder's output and resulting state depend only on the normalised sequence of
    (name bytes, value bytes, sensitivity) -/
theorem encoder_depends_on_norm (e : EncState) (c1 c2 : Container) (huff : Bool) (h : c1.norm = c2.norm) :
    e.encodeApi true c1 huff = e.encodeApi true c2 huff := by
  unfold EncState.encodeApi; rw [h]

theorem formsLoop_eq (huff : Bool) (fs : List FieldForm) (e : EncState) (acc : Bytes) :
    encodeFormsLoop true huff e acc fs = EncState.encode.go true huff e acc (fs.map FieldForm.norm) := by
  induction fs generalizing e acc with
  | nil => rfl
  | cons f rest ih =>
    have hn : f.norm = (f.name.toBytes, f.value.toBytes, f.sensitiveFlag) := by cases f <;> rfl
    simp only [encodeFormsLoop, List.map_cons, hn, EncState.encode.go, bind]
    cases e.add true f.name.toBytes f.value.toBytes f.sensitiveFlag huff with
    | ok r => simp only; exact ih _ _
    | err x => rfl
    | esc x => rfl

/-- **factorisation**: the loop of `Encoder.encode` as written — flag re-initialised per header, read from the
    header's own shape, a dict first turned into 2-tuples in `_dict_to_iterable` order — computes exactly
    `encode` of the normalised (name bytes, value bytes, sensitivity) sequence -/
theorem forms_factor (e : EncState) (c : Container) (huff : Bool) :
    e.encodeForms true c huff = e.encodeApi true c huff := by
  unfold EncState.encodeForms EncState.encodeApi EncState.encode
  have hitems : c.items.map FieldForm.norm = c.norm := by
    cases c with
    | iterable fs => rfl
    | dict items => simp [Container.items, Container.norm, List.map_map, Function.comp_def, FieldForm.norm]
  by_cases hr : e.table.resized = true
  · simp only [hr, if_true, formsLoop_eq, hitems, bind]
  · have hr' : e.table.resized = false := by simpa using hr
    simp only [hr', Bool.false_eq_true, if_false, formsLoop_eq, hitems, bind]

/-- text and its UTF-8 bytes are interchangeable -/
theorem text_is_utf8 (s : String) : (PyStr.text s).toBytes = (PyStr.bytes s.toUTF8.data.toList).toBytes := rfl

/-- the UTF-8 encoding of any text is accepted by the strict decoder: text-mode decoding never fails on a
    field that was given as text -/
theorem text_is_valid_utf8 (s : String) : validUtf8 (PyStr.text s).toBytes = true := validUtf8_text s

/-- two-tuples, three-tuples with a false flag and plain header tuples are interchangeable … -/
theorem plain_forms (n v : PyStr) :
    (FieldForm.tuple2 n v).norm = (FieldForm.tuple3 n v false).norm ∧
    (FieldForm.tuple2 n v).norm = (FieldForm.headerTuple n v).norm := ⟨rfl, rfl⟩

/-- … and so are a true flag and the never-indexed class -/
theorem sensitive_forms (n v : PyStr) : (FieldForm.tuple3 n v true).norm = (FieldForm.neverTuple n v).norm := rfl

/-- a field form is determined by (name bytes, value bytes, sensitivity): any two forms agreeing on
    those normalise identically — whatever mix of `str`/`bytes` components they use -/
theorem form_determined (f g : FieldForm)
    (h : f.norm = g.norm) (e : EncState) (huff : Bool) (pre post : List FieldForm) :
    e.encodeApi true (.iterable (pre ++ f :: post)) huff = e.encodeApi true (.iterable (pre ++ g :: post)) huff := by
  apply encoder_depends_on_norm
  simp only [Container.norm, List.map_append, List.map_cons, h]

/-- lists and one-shot iterators are the same `Container.iterable`: both are consumed front to back once.
    A dict is treated as its items with colon-prefixed names moved first, in **stable** order: -/
theorem dict_order_spec (items : List (PyStr × PyStr)) :
    dictOrder items = items.filter (fun kv => isSpecial kv.1) ++ items.filter (fun kv => !isSpecial kv.1) := rfl

/-- `dictOrder` is a permutation that keeps the relative order inside each class (stability) and puts
    every special name before every ordinary one -/
theorem dict_order_stable (items : List (PyStr × PyStr)) :
    (dictOrder items).filter (fun kv => isSpecial kv.1) = items.filter (fun kv => isSpecial kv.1) ∧
    (dictOrder items).filter (fun kv => !isSpecial kv.1) = items.filter (fun kv => !isSpecial kv.1) := by
  unfold dictOrder
  constructor
  · rw [List.filter_append, List.filter_filter, List.filter_filter]
    have : (items.filter fun a => (isSpecial a.1 && !isSpecial a.1)) = [] := by
      rw [List.filter_eq_nil_iff]; intro a _; simp
    simp [this]
  · rw [List.filter_append, List.filter_filter, List.filter_filter]
    have : (items.filter fun a => (!isSpecial a.1 && isSpecial a.1)) = [] := by
      rw [List.filter_eq_nil_iff]; intro a _; simp
    simp [this]

/-- a dict is interchangeable with the list of its items in that order, as 2-tuples -/
theorem dict_is_its_items (e : EncState) (items : List (PyStr × PyStr)) (huff : Bool) :
    e.encodeApi true (.dict items) huff =
      e.encodeApi true (.iterable ((dictOrder items).map fun kv => .tuple2 kv.1 kv.2)) huff := by
  apply encoder_depends_on_norm
  simp [Container.norm, List.map_map, Function.comp_def, FieldForm.norm]

/-- **Decoder**: raw and text modes leave identical state, always — also when text mode fails on invalid
    UTF-8 (the conversion happens after the last state change) -/
theorem modes_same_state (st : DecState) (data : Bytes) :
    (Cur.decode st data true).2 = (Cur.decode st data false).2 := by
  rw [Props.curDecode_state, Props.curDecode_state]

/-- if text mode returns fields, raw mode returns the same fields (bytes versus their UTF-8 decoding —
    the model represents text by its UTF-8 bytes) in the same tuple classes -/
theorem text_ok_implies_raw (st : DecState) (data : Bytes) (out : List Header)
    (h : (Cur.decode st data false).1 = .ok out) : (Cur.decode st data true).1 = .ok out := by
  unfold Cur.decode decodeApi at h ⊢
  cases hx : (Impl.decode Gen.intCap true st data).1 with
  | ok hs =>
    have e : Impl.decode Gen.intCap true st data = (.ok hs, (Impl.decode Gen.intCap true st data).2) := by rw [← hx]
    rw [e] at h ⊢
    simp only [finishHeaders, Bool.false_eq_true, if_false] at h
    simp only [finishHeaders, if_true]
    split at h
    · exact h
    · cases h
  | err x =>
    have e : Impl.decode Gen.intCap true st data = (.err x, (Impl.decode Gen.intCap true st data).2) := by rw [← hx]
    rw [e] at h; cases h
  | esc x =>
    have e : Impl.decode Gen.intCap true st data = (.esc x, (Impl.decode Gen.intCap true st data).2) := by rw [← hx]
    rw [e] at h; cases h

/-- conversely, raw fields that are all valid UTF-8 are returned by text mode too; otherwise text mode
    raises the general decoding error; a failure of the block itself is the same error in both modes -/
theorem raw_vs_text (st : DecState) (data : Bytes) :
    match (Cur.decode st data true).1 with
    | .ok out =>
      (Cur.decode st data false).1 =
        if out.all (fun h => validUtf8 h.name.bytes && validUtf8 h.value.bytes) then .ok out else .err .decoding
    | .err e => (Cur.decode st data false).1 = .err e
    | .esc x => (Cur.decode st data false).1 = .esc x := by
  unfold Cur.decode decodeApi
  cases hx : (Impl.decode Gen.intCap true st data).1 with
  | ok hs =>
    have e : Impl.decode Gen.intCap true st data = (.ok hs, (Impl.decode Gen.intCap true st data).2) := by rw [← hx]
    rw [e]
    simp only [finishHeaders, if_true, Bool.false_eq_true, if_false, List.all_map]
    rfl
  | err x =>
    have e : Impl.decode Gen.intCap true st data = (.err x, (Impl.decode Gen.intCap true st data).2) := by rw [← hx]
    rw [e]
  | esc x =>
    have e : Impl.decode Gen.intCap true st data = (.esc x, (Impl.decode Gen.intCap true st data).2) := by rw [← hx]
    rw [e]

/-! non-vacuity: a dict with a special name after an ordinary one -/
example : (Container.dict [(.text "a", .text "1"), (.bytes ":path".toUTF8.toList, .text "/")]).norm
    = [(":path".toUTF8.toList, "/".toUTF8.toList, false), ("a".toUTF8.toList, "1".toUTF8.toList, false)] := by decide +kernel

end Props.C18
