import HpackVerif.Props.Common
/-! # C06 — the dynamic table never exceeds its maximum size and evicts strictly oldest-first

`Table` models `HeaderTable` (deque, newest first; `curSize` = the cached `_current_size`, an `Int`
because Python's subtraction could go negative and the model must not be tidier than the code).
`Inv t` = "the cached size equals the sum of entry sizes, and that sum is at most `maxsize`". -/
namespace Props.C06
open Impl RFC

/-- `Inv` spelled out: the table's own accounting equals Σ (|name| + |value| + 32) and that sum is at
    most the current maximum -/
theorem inv_meaning (t : Table) :
    Inv t ↔ (t.curSize = ((t.entries.map fun e => 32 + e.1.bytes.length + e.2.bytes.length).sum : Nat) ∧
             (t.entries.map fun e => 32 + e.1.bytes.length + e.2.bytes.length).sum ≤ t.maxsize) := by
  constructor
  · intro h; exact ⟨h.cached, h.bounded⟩
  · intro h; exact ⟨h.1, h.2⟩

/-- `fit max l` — what survives of a newest-first list — is the **longest** prefix that fits: entries
    are dropped from the old end only, and only as many as needed -/
theorem fit_is_longest_prefix (max : Nat) (l : List Entry) :
    ∃ k, k ≤ l.length ∧ fit max l = l.take k ∧ tsize (l.take k) ≤ max ∧
      (k = l.length ∨ tsize (l.take (k + 1)) > max) := by
  induction l generalizing max with
  | nil => exact ⟨0, by simp, by simp [fit], by simp, Or.inl rfl⟩
  | cons e es ih =>
    by_cases he : entrySize e ≤ max
    · obtain ⟨k, hk, hf, hs, hn⟩ := ih (max - entrySize e)
      refine ⟨k + 1, by simpa using hk, by simp [fit, he, hf], by simp only [List.take_succ_cons, tsize_cons]; omega, ?_⟩
      rcases hn with h | h
      · left; simp [h]
      · right; simp only [List.take_succ_cons, tsize_cons]; omega
    · exact ⟨0, by simp, by simp [fit, he], by simp, Or.inr (by simp; omega)⟩

/-- **insertion** (`HeaderTable.add`), from any consistent table: never fails, evicts the oldest entries
    and only as many as needed, keeps the invariant -/
theorem add_evicts_oldest (t : Table) (n v : PyBuf) (h : Inv t) :
    ∃ t', t.add n v = .ok t' ∧ t'.entries = fit t.maxsize ((n, v) :: t.entries) ∧ t'.maxsize = t.maxsize ∧ Inv t' :=
  add_spec t n v h

/-- an entry that exactly fits (together with what is kept) is kept: if everything fits, nothing is evicted -/
theorem add_exact_fit_kept (t : Table) (n v : PyBuf) (h : Inv t)
    (hfit : entrySize (n, v) + tsize t.entries ≤ t.maxsize) :
    ∃ t', t.add n v = .ok t' ∧ t'.entries = (n, v) :: t.entries := by
  obtain ⟨t', h1, h2, _, _⟩ := add_spec t n v h
  exact ⟨t', h1, by rw [h2, fit_of_le]; simpa using hfit⟩

/-- an entry larger than the maximum empties the table and is not stored -/
theorem add_oversized_empties (t : Table) (n v : PyBuf) (h : Inv t) (hbig : entrySize (n, v) > t.maxsize) :
    ∃ t', t.add n v = .ok t' ∧ t'.entries = [] := by
  obtain ⟨t', h1, h2, _, _⟩ := add_spec t n v h
  exact ⟨t', h1, by rw [h2]; simp [fit]; omega⟩

/-- **resizing** (`maxsize` setter): never fails; lowering evicts immediately (oldest first, only as
    needed); raising evicts nothing -/
theorem resize (t : Table) (m : Nat) (h : Inv t) :
    ∃ t', t.setMaxsize m = .ok t' ∧ t'.entries = fit m t.entries ∧ t'.maxsize = m ∧ Inv t' ∧
      (m ≥ t.maxsize → t'.entries = t.entries) :=
  setMaxsize_spec t m h

/-- **at every moment, Decoder**: every state reachable by any history of blocks (well-formed,
    malformed, failing midway), size assignments and limit changes satisfies the invariant -/
theorem always_decoder (st : DecState) (h : Props.DecReach st) : Inv st.table := Props.decReach_inv h

/-- **at every moment, Encoder**: likewise for every history of size assignments and `encode` calls -/
theorem always_encoder (e : EncState) (h : Props.EncReach e) : Inv e.table := (Props.encReach_ok h).inv

/-- and in the middle of a block too: whatever `decode` does with any byte string — return, raise a
    documented error, or even (were it possible) let an undocumented exception escape — the table it
    leaves behind is consistent -/
theorem decode_any_outcome (st : DecState) (h : Inv st.table) (data : Bytes) (raw : Bool) :
    Inv (Cur.decode st data raw).2.table := by
  rw [Props.curDecode_state]; exact decode_inv (own := true) Gen.intCap st h data

/-! non-vacuity: a reachable non-trivial state — maximum 66, two entries of 32 and 34 octets (exact fit) -/
example : Inv ({ entries := [(⟨[], false⟩, ⟨[1, 2], false⟩), (⟨[], false⟩, ⟨[], false⟩)], maxsize := 66, curSize := 66 } : Table) :=
  ⟨by decide, by decide⟩
example : fit 66 [(⟨[], false⟩, ⟨[9], false⟩), (⟨[], false⟩, ⟨[1, 2], false⟩), (⟨[], false⟩, ⟨[], false⟩)]
    = [(⟨[], false⟩, ⟨[9], false⟩)] := by decide

end Props.C06
