import HpackVerif.Proofs.SrcTieTable
/-! # Source tie — the model of `HeaderTable` **is** the translation of `src/hpack/table.py`

`Generated/SrcTable.lean` is written on every run by `tools/py2lean.py` from the Python AST of `table_entry_size`,
`HeaderTable.__init__` (the fields), `get_by_index`, `_shrink`, `add` and the `maxsize` setter in the working tree: the
object is a record of its four attributes, the deque a list (`appendleft` = cons, `pop()` = remove the last element or
`IndexError`, `clear()`), a method returns the updated object with its result, the `while` loop of `_shrink` is a
recursive function over fuel. `SrcTie.absT` reads a model table (`Impl.Table`, whose strings carry an ownership tag) as
that Python object. The theorems say that the translated methods, run on `absT t`, return `absT` of what the model's
operations return — for **every** table state `t`, not only the reachable ones — or raise what the model says they raise.
A method's exception carries the object as it was when raised (`Py.RS`); `get_by_index` is stated with that state
(unchanged), the mutating methods through `dropS` (their only exceptions are the escapes the model marks unreachable).

Not imported by the property modules (DESIGN.md §3.2a): a lost source tie is reported, never an alarm. -/
namespace Props.SrcTable
open SrcTie

/-- `get_by_index`: static entries, dynamic entries, `InvalidTableIndex` for 0 and past the end, and the `ValueError` of
`"%d" % index` for an index too large to print — as `Impl.Table.getByIndex` has them -/
theorem get_by_index_is_model (t : Impl.Table) (index : Nat) (fuel : Nat) :
    Src.HeaderTable.get_by_index fuel (absT t) (index : Int) =
      Py.liftR (absT t) (outToR (mapOut (fun e => (absT t, proj e)) (t.getByIndex index))) :=
  get_by_index_tie t index fuel

/-- `add`: too large empties the table, otherwise insert at the front and evict from the old end while the cached
size exceeds the maximum — as `Impl.Table.add`, with enough fuel for the eviction loop -/
theorem add_is_model (t : Impl.Table) (name value : Impl.PyBuf) :
    ∃ f0, ∀ fuel, fuel ≥ f0 → dropS (Src.HeaderTable.add fuel (absT t) name.bytes value.bytes) = tableRes (t.add name value) :=
  ⟨t.entries.length + 2, fun fuel hf => add_tie t name value fuel (by omega)⟩

/-- `_shrink` = `Impl.Table.shrink` (including the `IndexError` of popping an empty deque when the cached size is wrong) -/
theorem shrink_is_model (t : Impl.Table) :
    ∃ f0, ∀ fuel, fuel ≥ f0 → dropS (Src.HeaderTable.shrink fuel (absT t)) = tableRes t.shrink :=
  ⟨t.entries.length + 1, fun fuel hf => shrink_tie t fuel (by omega)⟩

/-- the `maxsize` setter for a non-negative size = `Impl.Table.setMaxsize`: `resized` recomputed, 0 clears, lowering evicts -/
theorem maxsize_setter_is_model (t : Impl.Table) (newmax : Nat) :
    ∃ f0, ∀ fuel, fuel ≥ f0 → dropS (Src.HeaderTable.maxsize_set fuel (absT t) (newmax : Int)) = tableRes (t.setMaxsize newmax) :=
  ⟨t.entries.length + 1, fun fuel hf => maxsize_set_tie t newmax fuel (by omega)⟩

/-- `search(name, value)` = `Impl.Table.search`: the import-time static mapping first (full match wins; a name match is the
fallback), then the dynamic entries newest first; returned as `(index, name, value or None)`; the table is not changed -/
theorem search_is_model (t : Impl.Table) (name value : Bytes) (fuel : Nat) :
    Src.HeaderTable.search fuel (absT t) name value = .ok (absT t, castRes name value (t.search name value)) :=
  search_tie t name value fuel

/-- a fresh object is the model's fresh table -/
theorem new_is_model : Src.HeaderTable.new = absT {} := by
  simp [Src.HeaderTable.new, absT, Src.c_HeaderTable_DEFAULT_SIZE]
  rfl

/-- the static table the source indexes is the table the data translator dumped (and proved equal to Appendix A) -/
theorem static_table_is_generated : Src.c_HeaderTable_STATIC_TABLE = Gen.staticTable := static_is_generated

/-- non-vacuity: the translated source on a 70-octet table — two 34-octet entries fit, the third evicts the oldest -/
example :
    (do let (t, _) ← Src.HeaderTable.maxsize_set 9 Src.HeaderTable.new 70
        let (t, _) ← Src.HeaderTable.add 9 t [97] [49]
        let (t, _) ← Src.HeaderTable.add 9 t [98] [50]
        let (t, _) ← Src.HeaderTable.add 9 t [99] [51]
        let (_, e) ← Src.HeaderTable.get_by_index 9 t 63
        pure (t.f_dynamic_entries, t.f_current_size, e) : Py.RS Src.HeaderTable _) =
      .ok ([([99], [51]), ([98], [50])], 68, ([98], [50])) := by rfl

end Props.SrcTable
