import HpackVerif.Props.Common
import HpackVerif.Impl.World
/-! # C20 — instances are isolated and deterministic; the static table is never modified

The model of a process is `World.Proc S := Nat → S` (instance id ↦ instance state); every operation is a
*function* of the instance's own state (determinism is by construction) and there is no shared mutable
component: the static table, the search mapping, the Huffman code and automaton are constants of the
model (`Gen.*`). Whether the implementation really has no shared mutable state, no dependence on the
logging level and none on hash randomisation is exactly what the correspondence and the `multi` judge
establish for this property; the theorem says what follows once it has none. -/
namespace Props.C20
open Impl

/-- an instance is an Encoder or a Decoder -/
inductive Inst | enc (e : EncState) | dec (d : DecState)

inductive Op
  | setEncSize (n : Nat) | encode (hs : List (Bytes × Bytes × Bool)) (huff : Bool)
  | decode (data : Bytes) (raw : Bool) | setDecSize (n : Nat) | setAllowed (n : Nat) | setLimit (n : Nat)

inductive Obs | none | bytes (b : Out Bytes) | headers (h : Out (List Header))

/-- one public-API call on one instance (a call that does not apply to the instance kind is a no-op) -/
def step : Inst → Op → Inst × Obs
  | .enc e, .setEncSize n => (.enc (Props.encStep e (.setSize n)), .none)
  | .enc e, .encode hs huff =>
    (.enc (Props.encStep e (.encode hs huff)),
     .bytes (match Cur.encode e hs huff with | .ok (b, _) => .ok b | .err x => .err x | .esc x => .esc x))
  | .dec d, .decode data raw => (.dec (Cur.decode d data raw).2, .headers (Cur.decode d data raw).1)
  | .dec d, .setDecSize n => (.dec (Props.decStep d (.setSize n)), .none)
  | .dec d, .setAllowed n => (.dec (Props.decStep d (.setAllowed n)), .none)
  | .dec d, .setLimit n => (.dec (Props.decStep d (.setLimit n)), .none)
  | i, _ => (i, .none)

/-- **C20**: for every interleaving of operations on any number of instances in one process, what
    instance `i` emits / returns, and the state it ends in, are exactly what it would have produced had
    its own operations been run alone — unaffected by other instances used interleaved or earlier -/
theorem isolated (w : World.Proc Inst) (ops : List (Nat × Op)) (i : Nat) :
    ((World.runAll step w ops).1 i, World.mine i (World.runAll step w ops).2)
      = World.run step (w i) (World.mine i ops) :=
  World.frame step w ops i

/-- instances created and used *earlier* leave no trace: running a prefix of operations on other
    instances first changes nothing for `i` -/
theorem earlier_instances_irrelevant (w : World.Proc Inst) (before ops : List (Nat × Op)) (i : Nat)
    (hother : ∀ p ∈ before, p.1 ≠ i) :
    World.mine i (World.runAll step w (before ++ ops)).2 = World.mine i (World.runAll step w ops).2 := by
  have h1 := congrArg Prod.snd (World.frame step w (before ++ ops) i)
  have h2 := congrArg Prod.snd (World.frame step w ops i)
  simp only at h1 h2
  rw [h1, h2]
  congr 1
  unfold World.mine
  rw [List.filter_append]
  have : before.filter (fun x => decide (x.1 = i)) = [] := by
    rw [List.filter_eq_nil_iff]
    intro p hp; simp [hother p hp]
  rw [this]; rfl

/-- the static table is a constant: the look-up of indices 1..61 does not depend on the state at all -/
theorem static_constant (t1 t2 : Table) (i : Nat) (h1 : 1 ≤ i) (h2 : i ≤ Gen.staticTable.length) :
    t1.getByIndex i = t2.getByIndex i := by
  have h0 : ¬ i = 0 := by omega
  have hlt : i - 1 < Gen.staticTable.length := by omega
  unfold Table.getByIndex
  simp only [h0, if_false, hlt, if_true]

/-! non-vacuity: two interleaved instances -/
example : (World.runAll step (fun _ => .dec (Props.freshDec 65536)) [(0, .decode [0x82] true), (1, .decode [0x84] true)]).2.length = 2 := by
  decide +kernel

end Props.C20
