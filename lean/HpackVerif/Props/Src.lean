import HpackVerif.Proofs.SrcTieInt
import HpackVerif.Impl.Api
/-! # Source tie — the model of the integer codec **is** the translation of the source text

`Generated/SrcInt.lean` is written on every run by `tools/py2lean.py` from the Python AST of
`hpack.hpack.encode_integer` / `decode_integer` in the working tree (statement by statement, over the small
Python semantics of `Src/Py.lean`: unbounded integers, Python indexing, `<<`/`>>`, `bytearray(list)`, `try/except`,
`raise`, loops as recursion over a fuel argument). The theorems below say that, for **all** arguments, with enough
fuel for the loops, that translation returns exactly what the hand-written model (`Impl.encodeIntApi`,
`Impl.Cur.decodeInt`, about which every C11 theorem and the decoder theorems are stated) returns: the same
octets / value and octet count, the same exception class, and never `nonTermination`.

This module is *not* imported by the property modules: when the source is rewritten in a shape the translator or
these proofs do not follow, the tie is reported as unavailable and the correspondence check alone ties the model to
the code (DESIGN.md §3.5). -/
namespace Props.Src
open SrcTie

/-- `encode_integer`: translated source = model (`ValueError` guards included), for all Python integers -/
theorem encode_integer_is_model (integer prefix_bits : Int) :
    ∃ f0, ∀ fuel, fuel ≥ f0 → Src.encode_integer fuel integer prefix_bits = outToR (Impl.encodeIntApi integer prefix_bits) := by
  obtain ⟨f0, h⟩ := encode_integer_tie integer prefix_bits
  refine ⟨f0, fun fuel hf => ?_⟩
  rw [h fuel hf]
  unfold modelEncodeInteger Impl.encodeIntApi
  by_cases h1 : integer < 0
  · simp [h1, outToR]
  · by_cases h2 : prefix_bits < 1 ∨ prefix_bits > 8
    · simp [h1, h2, outToR]
    · simp [h1, h2, outToR]

/-- the cap the model uses (read by the data translator) is the constant the translated source compares with -/
theorem cap_is_source_constant : Gen.intCap = some Src.c__MAX_INTEGER_SHIFT.toNat := by decide

/-- `decode_integer`: translated source = model on the current tree, for all octet strings and all Python integers as
prefix width — value and octets consumed, `HPACKDecodingError` for truncation and for over-long encodings, `ValueError`
for a bad width; the `while True` loop terminates -/
theorem decode_integer_is_model (data : Bytes) (prefix_bits : Int) :
    ∃ f0, ∀ fuel, fuel ≥ f0 → Src.decode_integer fuel data prefix_bits = outToR (castPair (Impl.Cur.decodeInt data prefix_bits)) := by
  obtain ⟨f0, h⟩ := decode_integer_tie data prefix_bits
  refine ⟨f0, fun fuel hf => ?_⟩
  rw [h fuel hf]
  unfold modelDecodeInteger Impl.Cur.decodeInt Impl.decodeIntApi
  rw [cap_is_source_constant]
  by_cases h2 : prefix_bits < 1 ∨ prefix_bits > 8
  · simp [h2, outToR, castPair]
  · simp [h2]

/-- non-vacuity: the translated source run on RFC 7541 C.1.2 (1337, 5-bit prefix) and back -/
example : Src.encode_integer 10 1337 5 = .ok [31, 154, 10] ∧ Src.decode_integer 10 [31, 154, 10] 5 = .ok (1337, 3) := by
  exact ⟨rfl, rfl⟩

end Props.Src
