import HpackVerif.Proofs.SrcTieEncApi
import HpackVerif.Props.C18
/-! # Source tie — the model of `Encoder.encode` **is** the translation of `src/hpack/hpack.py`

`Generated/SrcEnc.lean` also holds, when the translator can follow them, `_to_bytes`, `_dict_to_iterable` and
`Encoder.encode` — the part of the encoder that works on dynamically typed input. `Src/Py.lean` gives that input a
meaning: a name or value is a `bytes`, a `str` or some other object (known by its `str()` and its truth value); a header
is a plain tuple of any length or a `HeaderTuple` instance (with `indexable`); `headers` is a dict (items in insertion
order) or any other iterable. Translated as written: `type(value) is bytes`, `str(value)`, `.encode("utf-8")`;
`isinstance(…, dict)`, the `TypeError`, `sorted(header_dict.keys(), key=lambda k: not _to_bytes(k).startswith(b":"))`
(keys computed first, stable sort on a Boolean key), the generator (rendered as the list of what it yields);
the prologue (`if self.header_table.resized:` … `resized = False`), `isinstance(headers, dict)`, `iter(headers)`, the
`for` loop with `sensitive = False` re-initialised per header, `isinstance(header, HeaderTuple)` → `not header.indexable`,
`elif len(header) > 2` → `header[2]` (its truth value is what `add` tests), `_to_bytes(header[0])`, `_to_bytes(header[1])`,
`self.add(…)`, `b"".join(header_block)`.

The theorems say that on every input the model gives a meaning to (`ContRep`: any iterable of 2-tuples, tuples of three **or
more** elements whose third has any truth value, `HeaderTuple`s, `NeverIndexedHeaderTuple`s, over `bytes` and `str`;
any dict with pairwise distinct keys) the translated method returns the octets and leaves the encoder that
`Impl.EncState.encodeForms` — and hence, by `Props.C18.forms_factor`, `encodeApi` — computes; on failure the same exception
class escapes. What the translated source does on inputs outside `ContRep` (a 1-tuple raises `IndexError`, an object that
is neither bytes nor str goes through `str()`) is defined by `Py.lean` but not claimed about the model.

Not imported by the property modules (DESIGN.md §3.2a): a lost source tie is reported, never an alarm. -/
namespace Props.SrcEncApi
open SrcTie

/-- `Encoder.encode(headers, huffman)`: translated source = the model's loop over header forms -/
theorem encode_is_model (e : Impl.EncState) (c : Impl.Container) (hs : Py.Headers) (hrep : ContRep c hs) (huff : Bool) :
    ∃ f0, ∀ fuel, fuel ≥ f0 →
      AgreeOut (Src.Encoder.encode fuel (absE e) hs huff) (e.encodeForms true c huff) (fun a => (absE a.2, a.1)) :=
  ⟨encodeFuel e c huff, fun fuel hf => encode_agree fuel e c hs hrep huff hf⟩

/-- … = `encode` of the normalised (name bytes, value bytes, sensitivity) list (`Props.C18.forms_factor`) -/
theorem encode_is_normal_form (e : Impl.EncState) (c : Impl.Container) (hs : Py.Headers) (hrep : ContRep c hs) (huff : Bool) :
    ∃ f0, ∀ fuel, fuel ≥ f0 →
      AgreeOut (Src.Encoder.encode fuel (absE e) hs huff) (e.encode true c.norm huff) (fun a => (absE a.2, a.1)) := by
  obtain ⟨f0, h⟩ := encode_is_model e c hs hrep huff
  refine ⟨f0, fun fuel hf => ?_⟩
  have := h fuel hf
  rw [Props.C18.forms_factor] at this
  exact this

/-- `_to_bytes`: `bytes` unchanged, `str` as UTF-8, anything else as the UTF-8 of its `str()` -/
theorem to_bytes_is_model (fuel : Nat) (p : Impl.PyStr) : Src._to_bytes fuel (objOf p) = .ok p.toBytes := to_bytes_eq fuel p
theorem to_bytes_other (fuel : Nat) (r : String) (t : Bool) : Src._to_bytes fuel (.other r t) = .ok r.toUTF8.data.toList := rfl

/-- `_dict_to_iterable`: special headers first, each group in insertion order; a non-dict is refused -/
theorem dict_to_iterable_is_model (fuel : Nat) (items : List (Impl.PyStr × Impl.PyStr)) (hnd : (items.map fun kv => objOf kv.1).Nodup) :
    Src._dict_to_iterable fuel (.dict (items.map pairOf)) = .ok ((Impl.dictOrder items).map tupleOf) :=
  dict_to_iterable_eq fuel items hnd
theorem dict_to_iterable_refuses (fuel : Nat) (hs : List Py.Hdr) : Src._dict_to_iterable fuel (.iterable hs) = .error .typeError := rfl

/-- the run-time facts about `HeaderTuple` / `NeverIndexedHeaderTuple` that `Py.Hdr` and the model's forms rest on -/
theorem tuple_classes_ok :
    Src.c_NeverIndexedHeaderTuple_isHeaderTuple = true ∧ Src.c_HeaderTuple_isTuple2 = true ∧ Src.c_plainTuple_isHeaderTuple = false ∧
    Src.c_HeaderTuple_indexable = true ∧ Src.c_NeverIndexedHeaderTuple_indexable = false := SrcTie.tuple_classes_ok

/-- non-vacuity: a list mixing all four header forms, and a dict, are represented -/
example : ContRep (.iterable [.tuple2 (.text ":method") (.bytes [71, 69, 84]), .tuple3 (.bytes [97]) (.text "b") true,
      .headerTuple (.text "x") (.text "y"), .neverTuple (.text "k") (.text "v")])
    (.iterable [.tuple [.str ":method", .bytes [71, 69, 84]], .tuple [.bytes [97], .str "b", .other "True" true],
      .headerTuple (.str "x") (.str "y") true, .headerTuple (.str "k") (.str "v") false]) :=
  .iterable _ _ (.cons (.tuple2 _ _) (.cons (FormRep.tuple3 (.bytes [97]) (.text "b") (.other "True" true) []) (.cons (.headerTuple _ _) (.cons (.neverTuple _ _) .nil))))
example : ContRep (.dict [(.text "a", .text "1"), (.bytes [58, 112], .text "/")])
    (.dict ([(.text "a", .text "1"), (.bytes [58, 112], .text "/")].map pairOf)) :=
  .dict _ (by decide)

end Props.SrcEncApi
