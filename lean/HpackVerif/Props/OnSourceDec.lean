import HpackVerif.Props.SrcDec
import HpackVerif.Props.C04
import HpackVerif.Props.C07
/-! # Property theorems restated on the translated source

Each statement here composes a *tie* theorem (translated source = model, `Props.Src*`) with a *property* theorem (the model
has the property, `Props.Cxx`), so that no model function is left in the conclusion: the statements are about
`Src.encode_integer`, `Src.decode_integer`, `Src.decode_huffman`, `Src.HuffmanEncoder.encode` and `Src.Decoder.decode` —
the Lean rendering of the functions' source text in `/repo` as of this run. They add no new mathematics; they make explicit
what the two layers say together. (`Props.SrcConn` does the same for the C01 round trip.) Informational like all source
ties: not imported by the property modules. -/
namespace Props.OnSourceDec
open SrcTie Impl

/-- **C04 on the source**: from every decoder state with the table invariant (every reachable state has it), for every
octet string and both modes, the translated `Decoder.decode` terminates (enough fuel exists) and either returns a header
list or raises one of the four documented classes, carrying a decoder that again has the invariant -/
theorem decode_only_documented_errors (st : DecState) (hinv : Inv st.table) (hlim : st.listLimit < 10 ^ 4300) (data : Bytes) (raw : Bool) :
    ∃ f0, ∀ fuel, fuel ≥ f0 →
      (∃ st' out, Src.Decoder.decode fuel (absD st) data raw = .ok (absD st', out) ∧ Inv st'.table) ∨
      (∃ st' e, Src.Decoder.decode fuel (absD st) data raw = .error (e, absD st') ∧ Inv st'.table ∧
        (e = .hpackDecodingError ∨ e = .invalidTableIndex ∨ e = .invalidTableSizeError ∨ e = .oversizedHeaderListError)) := by
  obtain ⟨f0, h⟩ := Props.SrcDec.decode_is_model st data raw hinv hlim
  obtain ⟨hne, hinv'⟩ := Props.C04.no_escape_inv st hinv data raw
  refine ⟨f0, fun fuel hf => ?_⟩
  have ha := h fuel hf
  generalize hm : Impl.Cur.decode st data raw = m at ha hne hinv'
  obtain ⟨r, st'⟩ := m
  cases r with
  | ok hs => exact Or.inl ⟨st', _, ha, hinv'⟩
  | err e =>
    refine Or.inr ⟨st', excOfErr e, ha, hinv', ?_⟩
    cases e <;> simp [excOfErr]
  | esc x => simp [Out.isEsc] at hne

/-- **C07 on the source**: whenever the translated `Decoder.decode` returns, the size of the returned list (name + value
+ 32 per field) is at most the decoder's `max_header_list_size` -/
theorem decoded_list_bounded (st : DecState) (hinv : Inv st.table) (hlim : st.listLimit < 10 ^ 4300) (data : Bytes) (raw : Bool) :
    ∃ f0, ∀ fuel, fuel ≥ f0 → ∀ dec' out, Src.Decoder.decode fuel (absD st) data raw = .ok (dec', out) →
      (((out.map fun h => 32 + h.1.length + h.2.1.length).sum : Nat) : Int) ≤ (absD st).f_max_header_list_size := by
  obtain ⟨f0, h⟩ := Props.SrcDec.decode_is_model st data raw hinv hlim
  refine ⟨f0, fun fuel hf dec' out hret => ?_⟩
  have ha := h fuel hf
  generalize hm : Impl.Cur.decode st data raw = m at ha
  obtain ⟨r, st'⟩ := m
  cases r with
  | ok hs =>
    simp only [AgreeRun] at ha
    rw [ha] at hret
    simp only [Except.ok.injEq, Prod.mk.injEq] at hret
    have hb := Props.C07.bound st data raw hs (by rw [hm])
    have hsz : (out.map fun h => 32 + h.1.length + h.2.1.length).sum = hsize hs := by
      rw [← hret.2]
      simp only [List.map_map, Function.comp_def, hproj, hsize, entrySize]
    show (((out.map fun h => 32 + h.1.length + h.2.1.length).sum : Nat) : Int) ≤ (st.listLimit : Int)
    rw [hsz]; exact_mod_cast hb
  | err e => simp only [AgreeRun] at ha; rw [ha] at hret; cases hret
  | esc x =>
    simp only [AgreeRun] at ha
    rw [hret] at ha; simp [dropS] at ha

end Props.OnSourceDec
