import HpackVerif.Props.SrcDec
import HpackVerif.Props.C04
import HpackVerif.Props.C07
import HpackVerif.Props.C02
import HpackVerif.Props.C08
import HpackVerif.Props.C05
import HpackVerif.Props.C15
/-! # Property theorems restated on the translated source

Each statement here composes a *tie* theorem (translated source = model, `Props.Src*`) with a *property* theorem (the model
has the property, `Props.Cxx`), so that no model function is left in the conclusion: the statements are about
`Src.encode_integer`, `Src.decode_integer`, `Src.decode_huffman`, `Src.HuffmanEncoder.encode` and `Src.Decoder.decode` —
the Lean rendering of the functions' source text in `/repo` as of this run. They add no new mathematics; they make explicit
what the two layers say together. (`Props.SrcConn` does the same for the C01 round trip.) Informational like all source
ties: not imported by the property modules. -/
namespace Props.OnSourceDec
open SrcTie Impl

/-- **C04 on the source**: from every decoder state with the table invariant (every reachable state has it), for every
octet string and both modes, the translated `Decoder.decode` terminates (enough fuel exists) and either returns a header
list or raises one of the four documented classes, carrying a decoder that again has the invariant -/
theorem decode_only_documented_errors (st : DecState) (hinv : Inv st.table) (hlim : st.listLimit < 10 ^ 4300) (data : Bytes) (raw : Bool) :
    ∃ f0, ∀ fuel, fuel ≥ f0 →
      (∃ st' out, Src.Decoder.decode fuel (absD st) data raw = .ok (absD st', out) ∧ Inv st'.table) ∨
      (∃ st' e, Src.Decoder.decode fuel (absD st) data raw = .error (e, absD st') ∧ Inv st'.table ∧
        (e = .hpackDecodingError ∨ e = .invalidTableIndex ∨ e = .invalidTableSizeError ∨ e = .oversizedHeaderListError)) := by
  obtain ⟨f0, h⟩ := Props.SrcDec.decode_is_model st data raw hinv hlim
  obtain ⟨hne, hinv'⟩ := Props.C04.no_escape_inv st hinv data raw
  refine ⟨f0, fun fuel hf => ?_⟩
  have ha := h fuel hf
  generalize hm : Impl.Cur.decode st data raw = m at ha hne hinv'
  obtain ⟨r, st'⟩ := m
  cases r with
  | ok hs => exact Or.inl ⟨st', _, ha, hinv'⟩
  | err e =>
    refine Or.inr ⟨st', excOfErr e, ha, hinv', ?_⟩
    cases e <;> simp [excOfErr]
  | esc x => simp [Out.isEsc] at hne

/-- **C07 on the source**: whenever the translated `Decoder.decode` returns, the size of the returned list (name + value
+ 32 per field) is at most the decoder's `max_header_list_size` -/
theorem decoded_list_bounded (st : DecState) (hinv : Inv st.table) (hlim : st.listLimit < 10 ^ 4300) (data : Bytes) (raw : Bool) :
    ∃ f0, ∀ fuel, fuel ≥ f0 → ∀ dec' out, Src.Decoder.decode fuel (absD st) data raw = .ok (dec', out) →
      (((out.map fun h => 32 + h.1.length + h.2.1.length).sum : Nat) : Int) ≤ (absD st).f_max_header_list_size := by
  obtain ⟨f0, h⟩ := Props.SrcDec.decode_is_model st data raw hinv hlim
  refine ⟨f0, fun fuel hf dec' out hret => ?_⟩
  have ha := h fuel hf
  generalize hm : Impl.Cur.decode st data raw = m at ha
  obtain ⟨r, st'⟩ := m
  cases r with
  | ok hs =>
    simp only [AgreeRun] at ha
    rw [ha] at hret
    simp only [Except.ok.injEq, Prod.mk.injEq] at hret
    have hb := Props.C07.bound st data raw hs (by rw [hm])
    have hsz : (out.map fun h => 32 + h.1.length + h.2.1.length).sum = hsize hs := by
      rw [← hret.2]
      simp only [List.map_map, Function.comp_def, hproj, hsize, entrySize]
    show (((out.map fun h => 32 + h.1.length + h.2.1.length).sum : Nat) : Int) ≤ (st.listLimit : Int)
    rw [hsz]; exact_mod_cast hb
  | err e => simp only [AgreeRun] at ha; rw [ha] at hret; cases hret
  | esc x =>
    simp only [AgreeRun] at ha
    rw [hret] at ha; simp [dropS] at ha

/-- **C02 on the source**: for every reachable decoder state and every well-formed block (any sequence of representations,
any per-string Huffman choice and integer padding within the implementation's cap) whose RFC 7541 meaning is a header
list, the translated `Decoder.decode(block, raw=True)` returns exactly that list — names, values and the never-indexed
class — and the decoder it leaves stands for the context RFC 7541 prescribes after the block -/
theorem rfc_meaning (st : DecState) (h : Props.DecReach st) (hlim : st.listLimit < 10 ^ 4300) (rcs : List (RFC.Rep × RFC.Choice))
    (hok : ∀ rc ∈ rcs, RFC.RepOK Gen.intCap rc.1 rc.2) (fs : List RFC.Field)
    (hi : (RFC.interp (RFC.abs st) (rcs.map (·.1))).1 = .ok fs) :
    ∃ f0, ∀ fuel, fuel ≥ f0 → ∃ st' out,
      Src.Decoder.decode fuel (absD st) (RFC.blockOctets rcs) true = .ok (absD st', out) ∧
      out = fs.map (fun f => (f.name, f.value, f.never)) ∧
      RFC.abs st' = (RFC.interp (RFC.abs st) (rcs.map (·.1))).2 := by
  obtain ⟨out, ho, hfs, hst⟩ := Props.C02.meaning_raw st h rcs hok fs hi
  obtain ⟨f0, hf⟩ := Props.SrcDec.decode_is_model st (RFC.blockOctets rcs) true (Props.decReach_inv h) hlim
  refine ⟨f0, fun fuel hfu => ?_⟩
  have ha := hf fuel hfu
  generalize hm : Impl.Cur.decode st (RFC.blockOctets rcs) true = m at ha ho hst
  obtain ⟨r, st'⟩ := m
  simp only at ho
  subst ho
  simp only [AgreeRun] at ha
  refine ⟨st', _, ha, ?_, hst⟩
  rw [← hfs]
  simp [List.map_map, Function.comp_def, hproj, RFC.absH]

/-- **C08 on the source**: whenever the translated `Decoder.decode` returns, the table's maximum in the decoder it leaves
is at most the `max_allowed_table_size` the application configured -/
theorem table_size_within_allowed (st : DecState) (hinv : Inv st.table) (hlim : st.listLimit < 10 ^ 4300) (data : Bytes) (raw : Bool) :
    ∃ f0, ∀ fuel, fuel ≥ f0 → ∀ dec' out, Src.Decoder.decode fuel (absD st) data raw = .ok (dec', out) →
      dec'.f_header_table.f_maxsize ≤ (absD st).f_max_allowed_table_size := by
  obtain ⟨f0, h⟩ := Props.SrcDec.decode_is_model st data raw hinv hlim
  refine ⟨f0, fun fuel hf dec' out hret => ?_⟩
  have ha := h fuel hf
  have hb := Props.C08.after_ok_block st data raw
  generalize hm : Impl.Cur.decode st data raw = m at ha hb
  obtain ⟨r, st'⟩ := m
  cases r with
  | ok hs =>
    simp only [AgreeRun] at ha
    rw [ha] at hret
    simp only [Except.ok.injEq, Prod.mk.injEq] at hret
    have := hb hs rfl
    rw [← hret.1]
    show ((st'.table.maxsize : Nat) : Int) ≤ ((st.allowed : Nat) : Int)
    exact_mod_cast this
  | err e => simp only [AgreeRun] at ha; rw [ha] at hret; cases hret
  | esc x =>
    simp only [AgreeRun] at ha
    rw [hret] at ha; simp [dropS] at ha

def excOf : DErr → Py.Exc
  | .decoding => .hpackDecodingError
  | .invalidIndex => .invalidTableIndex
  | .invalidTableSize => .invalidTableSizeError
  | .oversized => .oversizedHeaderListError

/-- **C05 on the source — the first defect decides, whatever follows it**: if a list of well-formed representations fails
at some representation under RFC 7541 (`interpPrefix`: a bad index, an update above the permitted maximum or after a field,
a list over the limit, …), then the octets of that list followed by ANY octets at all are refused by the translated
`Decoder.decode`, in both modes, with exactly the documented class of that defect, and the decoder the exception leaves
behind stands for the context reached just before the defect -/
theorem defect_decides (st : DecState) (h : Props.DecReach st) (hlim : st.listLimit < 10 ^ 4300) (rcs : List (RFC.Rep × RFC.Choice))
    (hok : ∀ rc ∈ rcs, RFC.RepOK Gen.intCap rc.1 rc.2) (rest : Bytes) (e : DErr) (ctx : RFC.Ctx) (raw : Bool)
    (hp : RFC.interpPrefix (RFC.abs st) (rcs.map (·.1)) [] 0 = .error (e, ctx)) :
    ∃ f0, ∀ fuel, fuel ≥ f0 → ∃ st',
      Src.Decoder.decode fuel (absD st) (RFC.blockOctets rcs ++ rest) raw = .error (excOf e, absD st') ∧ RFC.abs st' = ctx := by
  obtain ⟨h1, h2⟩ := Props.C05.defect_decides st h rcs hok rest e ctx hp
  obtain ⟨f0, hf⟩ := Props.SrcDec.decode_is_model st (RFC.blockOctets rcs ++ rest) raw (Props.decReach_inv h) hlim
  refine ⟨f0, fun fuel hfu => ?_⟩
  have ha := hf fuel hfu
  unfold Cur.decode decodeApi at ha
  generalize hm : Impl.decode Gen.intCap true st (RFC.blockOctets rcs ++ rest) = m at ha h1 h2
  obtain ⟨r, st'⟩ := m
  simp only at h1 h2
  subst h1
  simp only [AgreeRun] at ha
  refine ⟨st', ?_, h2⟩
  rw [ha]
  cases e <;> rfl

/-- **C15 on the source, decoder side**: for every reachable decoder and every well-formed literal representation
(`ix` = incremental / without indexing / never indexed; literal or indexed name; any string coding), the translated
`Decoder._decode_literal` returns the field with the never-indexed class exactly for the never-indexed pattern, consumes
exactly the representation's octets, and inserts into the table only for the incremental pattern -/
theorem decoder_literal (st : DecState) (h : Props.DecReach st) (ix : RFC.Indexing) (nm : RFC.NameRef) (v : Bytes) (ch : RFC.Choice)
    (hok : RFC.RepOK Gen.intCap (.literal ix nm v) ch) (rest : Bytes) (name : Bytes)
    (hname : RFC.resolveName (RFC.abs st) nm = some name) :
    ∃ f0, ∀ fuel, fuel ≥ f0 → ∃ t',
      Src.Decoder.decode_literal fuel (absD st) (RFC.reprOctets (.literal ix nm v) ch ++ rest) (decide (ix = .incremental))
        = .ok (absD { st with table := t' }, ((name, v, (ix == .never)), ((RFC.reprOctets (.literal ix nm v) ch).length : Int))) ∧
      RFC.absT t' = (if ix = .incremental then RFC.fitE st.table.maxsize ((name, v) :: RFC.absT st.table) else RFC.absT st.table) := by
  obtain ⟨hd, t', h1, hn, hv, hnv, ht⟩ := Props.C15.decoder_literal st h ix nm v ch hok rest name hname
  obtain ⟨f0, hf⟩ := Props.SrcDec.decode_literal_is_model st (RFC.reprOctets (.literal ix nm v) ch ++ rest) (decide (ix = .incremental))
  refine ⟨f0, fun fuel hfu => ⟨t', ?_, ht⟩⟩
  have ha := hf fuel hfu
  rw [h1] at ha
  simp only [Agree] at ha
  rw [ha]
  simp only [litOk, hproj, hn, hv, hnv]

/-- **C16 on the source, as far as a fuel argument can say it**: the translated `while` loops (the block loop of `decode`, the
continuation loops of `decode_integer`, the eviction loop of `_shrink`) take one unit of fuel per iteration and fail with
`nonTermination` when it runs out. With `3·|block| + |table| + 4` units no loop of a call runs out — each loop of one
`decode` call iterates at most linearly often in the block (plus the table's entries for evictions). (This bounds every
loop separately; the total work, linear as well, is what the cost model of `Props.C16` and the cost probe establish.) -/
theorem linear_fuel_suffices (st : DecState) (hinv : Inv st.table) (hlim : st.listLimit < 10 ^ 4300) (data : Bytes) (raw : Bool)
    (fuel : Nat) (hf : fuel ≥ 3 * data.length + st.table.entries.length + 4) :
    dropS (Src.Decoder.decode fuel (absD st) data raw) ≠ .error .nonTermination := by
  have ha := SrcTie.decode_agree st data raw hinv hlim fuel hf
  obtain ⟨hne, _⟩ := Props.C04.no_escape_inv st hinv data raw
  unfold Cur.decode at hne
  generalize hm : Impl.decodeApi Gen.intCap true st data raw = m at ha hne
  obtain ⟨r, st'⟩ := m
  cases r with
  | ok hs => simp only [AgreeRun] at ha; rw [ha]; simp [dropS]
  | err e => simp only [AgreeRun] at ha; rw [ha]; cases e <;> simp [dropS, excOfErr]
  | esc x => simp [Out.isEsc] at hne

end Props.OnSourceDec
