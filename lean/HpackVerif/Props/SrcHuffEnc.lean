import HpackVerif.Proofs.SrcTieHuffEnc
/-! # Source tie — the model of `HuffmanEncoder.encode` **is** the translation of `src/hpack/huffman.py`

`Generated/SrcHuffEnc.lean` is written on every run by `tools/py2lean.py` from the Python AST of the `HuffmanEncoder`
class: the two code lists it is constructed with, the early return for an empty string, the accumulation loop
(`final_num <<= bin_int_len; final_num |= bin_int; final_int_len += bin_int_len` over Python's unbounded integers, with
the `& (2 ** (bin_int_len + 1) - 1)` mask as written), the padding (`8 - (final_int_len % 8)` bits of ones), and the
conversion to octets exactly as the source does it: `hex(final_num)[2:].rstrip('L')`, a leading `'0'` when the digit count
is odd, left-padding with `'0'` up to `2 * total_bytes` digits, `bytes.fromhex`. `Src/Py.lean` gives `hex` (digit list of
a non-negative integer), `%` and `//` (floor semantics, `ZeroDivisionError`), `**` and `bytes.fromhex` (rejects an odd
digit count) their Python meaning.

The theorem says that for **every** octet string the translated method returns what `Impl.huffEncode Gen.codes` returns —
the function all C12 theorems (prefix-free code, EOS padding < 8 bits, round trip through the decoder) and the encoder
model (`Impl.encString`, hence C01/C03/C09) are stated about — and leaves the coder object unchanged. `Gen.codes` is read
by the data translator from `Encoder().huffman_coder` at run time, so `coderOf Gen.codes` is the object an `Encoder` holds.
The hex-string round trip is `SrcTie.hex_round_trip` (`Proofs/HexLemma.lean`): digits of `n`, evened and zero-padded to
`2 * total` digits, parse to the big-endian octets of `n` in `max total (byteLen n)` octets.

The `Encoder` tie (`Props.SrcEnc`) stands on a placeholder for this method with the same right-hand side
(`Impl.huffEncode Gen.codes`); this theorem discharges that placeholder. The two are kept in separate modules so that a
rewrite of one class does not lose the tie of the other.

Not imported by the property modules (DESIGN.md §3.2a): a lost source tie is reported, never an alarm. -/
namespace Props.SrcHuffEnc
open SrcTie

theorem gen_codes_cover_octets : 256 ≤ Gen.codes.length := by decide +kernel

/-- `HuffmanEncoder.encode`: translated source = model, for all octet strings and any fuel (the method has no `while`) -/
theorem encode_is_model (fuel : Nat) (w : Bytes) :
    Src.HuffmanEncoder.encode fuel (coderOf Gen.codes) w = .ok (coderOf Gen.codes, Impl.huffEncode Gen.codes w) :=
  huff_encode_tie Gen.codes gen_codes_cover_octets fuel w

/-- the same for any code table that covers the 256 octets (the method does not depend on the HPACK code) -/
theorem encode_is_model_any_code (codes : List (Nat × Nat)) (h : 256 ≤ codes.length) (fuel : Nat) (w : Bytes) :
    Src.HuffmanEncoder.encode fuel (coderOf codes) w = .ok (coderOf codes, Impl.huffEncode codes w) :=
  huff_encode_tie codes h fuel w

/-- `HuffmanEncoder(codes, lengths)` on the lists an `Encoder` passes is the model's coder -/
theorem new_is_model :
    Src.HuffmanEncoder.new (Gen.codes.map fun c => (c.1 : Int)) (Gen.codes.map fun c => (c.2 : Int)) = coderOf Gen.codes := rfl

/-- the hex-string conversion on its own: what the source does with `hex()`, padding and `bytes.fromhex` yields the
big-endian octets -/
theorem hex_round_trip (num total : Nat) :
    Py.fromHex (let s := Py.hexDigitsNat num
                let s1 := if s.length % 2 ≠ 0 then 0 :: s else s
                if s1.length ≠ 2 * total then List.replicate (2 * total - s1.length) 0 ++ s1 else s1) =
      .ok (Impl.toBytesBE num (max total (Impl.byteLen num))) := SrcTie.hex_round_trip num total

/-- non-vacuity: RFC 7541 C.4.1 (`www.example.com`) through the translated method -/
example : (Src.HuffmanEncoder.encode 0 (coderOf Gen.codes) "www.example.com".toUTF8.toList).toOption.map (·.2) =
    some [0xf1, 0xe3, 0xc2, 0xe5, 0xf2, 0x3a, 0x6b, 0xa0, 0xab, 0x90, 0xf4, 0xff] := by
  rw [encode_is_model]; decide +kernel

end Props.SrcHuffEnc
