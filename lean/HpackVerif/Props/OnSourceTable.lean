import HpackVerif.Props.SrcTable
import HpackVerif.Props.C06
import HpackVerif.Props.C14
/-! # C06 and C14 restated on the translated `HeaderTable`

Tie theorems (`Props.SrcTable`: translated `src/hpack/table.py` = model) composed with the property theorems
(`Props.C06`, `Props.C14`), so that the statements are about `Src.HeaderTable.get_by_index`, `Src.HeaderTable.add` and the
`maxsize` setter themselves; `absT t` is the Python object a model table stands for (its `dynamic_entries` deque, `maxsize`,
`_current_size`, `resized`). Informational like all source ties. -/
namespace Props.OnSourceTable
open SrcTie Impl

/-- **C14**: indices 1–61 are the RFC 7541 Appendix A entries, whatever the table holds; the object is unchanged -/
theorem static_index (t : Table) (i : Nat) (h1 : 1 ≤ i) (h2 : i ≤ 61) (fuel : Nat) :
    ∃ n v, RFCT.staticTable[i - 1]? = some (n, v) ∧
      Src.HeaderTable.get_by_index fuel (absT t) (i : Int) = .ok (absT t, (n, v)) := by
  obtain ⟨n, v, hs, hg⟩ := Props.C14.static_index t i h1 h2
  refine ⟨n, v, hs, ?_⟩
  rw [Props.SrcTable.get_by_index_is_model, hg]
  rfl

/-- **C14**: index 62 + k is the k-th newest dynamic entry -/
theorem dynamic_index (t : Table) (k : Nat) (e : Entry) (h : t.entries[k]? = some e) (fuel : Nat) :
    Src.HeaderTable.get_by_index fuel (absT t) ((62 + k : Nat) : Int) = .ok (absT t, (e.1.bytes, e.2.bytes)) := by
  rw [Props.SrcTable.get_by_index_is_model, Props.C14.dynamic_index t k e h]
  rfl

/-- **C14**: index 0 and every index past the last dynamic entry raise `InvalidTableIndex` and leave the object as it was -/
theorem index_zero_invalid (t : Table) (fuel : Nat) :
    Src.HeaderTable.get_by_index fuel (absT t) (0 : Int) = .error (.invalidTableIndex, absT t) := by
  have := Props.SrcTable.get_by_index_is_model t 0 fuel
  rw [Props.C14.index_zero_invalid t] at this
  exact this
theorem index_past_end_invalid (t : Table) (i : Nat) (h : 62 + t.entries.length ≤ i) (hp : i < 10 ^ maxStrDigits) (fuel : Nat) :
    Src.HeaderTable.get_by_index fuel (absT t) (i : Int) = .error (.invalidTableIndex, absT t) := by
  rw [Props.SrcTable.get_by_index_is_model, Props.C14.index_past_end_invalid t i h hp]
  rfl

/-- **C06**: `add(name, value)` on a consistent table never fails, keeps exactly the longest newest-first prefix that fits
(eviction strictly oldest first, only as much as needed; an oversized entry empties the table) and leaves a consistent
table whose size is within `maxsize` -/
theorem add_evicts_oldest (t : Table) (n v : PyBuf) (h : Inv t) :
    ∃ f0, ∀ fuel, fuel ≥ f0 → ∃ t',
      dropS (Src.HeaderTable.add fuel (absT t) n.bytes v.bytes) = .ok (absT t', ()) ∧
      t'.entries = fit t.maxsize ((n, v) :: t.entries) ∧ t'.maxsize = t.maxsize ∧ Inv t' := by
  obtain ⟨t', ha, he, hm, hi⟩ := Props.C06.add_evicts_oldest t n v h
  obtain ⟨f0, hf⟩ := Props.SrcTable.add_is_model t n v
  refine ⟨f0, fun fuel hfu => ⟨t', ?_, he, hm, hi⟩⟩
  rw [hf fuel hfu, ha]
  rfl

/-- **C06**: assigning `maxsize` never fails; lowering evicts at once (oldest first, only as needed), raising evicts nothing -/
theorem resize (t : Table) (m : Nat) (h : Inv t) :
    ∃ f0, ∀ fuel, fuel ≥ f0 → ∃ t',
      dropS (Src.HeaderTable.maxsize_set fuel (absT t) (m : Int)) = .ok (absT t', ()) ∧
      t'.entries = fit m t.entries ∧ t'.maxsize = m ∧ Inv t' ∧ (m ≥ t.maxsize → t'.entries = t.entries) := by
  obtain ⟨t', hs, he, hm, hi, hr⟩ := Props.C06.resize t m h
  obtain ⟨f0, hf⟩ := Props.SrcTable.maxsize_setter_is_model t m
  refine ⟨f0, fun fuel hfu => ⟨t', ?_, he, hm, hi, hr⟩⟩
  rw [hf fuel hfu, hs]
  rfl

/-- what `Inv` says about the Python object: `_current_size` is Σ (32 + |name| + |value|) over the deque, and that is at
most `maxsize` -/
theorem inv_on_object (t : Table) (h : Inv t) :
    (absT t).f_current_size = (((absT t).f_dynamic_entries.map fun e => 32 + e.1.length + e.2.length).sum : Nat) ∧
    ((((absT t).f_dynamic_entries.map fun e => 32 + e.1.length + e.2.length).sum : Nat) : Int) ≤ (absT t).f_maxsize := by
  obtain ⟨h1, h2⟩ := (Props.C06.inv_meaning t).mp h
  simp only [absT, List.map_map, Function.comp_def, proj]
  exact ⟨by exact_mod_cast h1, by exact_mod_cast h2⟩

end Props.OnSourceTable
