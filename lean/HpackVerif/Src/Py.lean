/-! Semantics of the small Python subset that `tools/py2lean.py` translates (core Lean only).
Integers are unbounded (`Int`), `bytes`/`bytearray`/`memoryview` objects are `List UInt8`, lists of integers are
`List Int`. Operations that can raise in Python return in `R`; everything else is a plain Lean operation. -/
namespace Py

inductive Exc
  | valueError | indexError | typeError | hpackDecodingError | invalidTableIndex | invalidTableSizeError
  | oversizedHeaderListError | unicodeDecodeError | zeroDivisionError | keyError | attributeError | outsideModel | nonTermination
deriving Repr, DecidableEq

abbrev R := Except Exc

/-- normalise a Python index against a length: negative indices count from the end -/
def normIndex (len : Nat) (i : Int) : Option Nat :=
  let j := if i < 0 then i + (len : Int) else i
  if 0 ≤ j ∧ j < (len : Int) then some j.toNat else none

/-- `data[i]` on a bytes-like object -/
def getByte (data : List UInt8) (i : Int) : R Int :=
  match normIndex data.length i with
  | some j => match data[j]? with
    | some b => .ok (b.toNat : Int)
    | none => .error .indexError
  | none => .error .indexError

/-- `xs[i]` on a list / tuple of integers -/
def listGet (xs : List Int) (i : Int) : R Int :=
  match normIndex xs.length i with
  | some j => match xs[j]? with
    | some x => .ok x
    | none => .error .indexError
  | none => .error .indexError

/-- `xs[i]` on any sequence (tuple, list, deque) -/
def seqGet {α} (xs : List α) (i : Int) : R α :=
  match normIndex xs.length i with
  | some j => match xs[j]? with
    | some x => .ok x
    | none => .error .indexError
  | none => .error .indexError

/-- `deque.pop()`: removes and returns the rightmost element; IndexError on an empty deque -/
def popRight {α} : List α → R (α × List α)
  | [] => .error .indexError
  | [x] => .ok (x, [])
  | x :: y :: rest =>
    match popRight (y :: rest) with
    | .ok (l, init) => .ok (l, x :: init)
    | .error e => .error e

/-- `a & b` on unbounded integers (two's complement with infinitely many sign bits) -/
def band : Int → Int → Int
  | .ofNat m, .ofNat n => .ofNat (m &&& n)
  | .ofNat m, .negSucc n => .ofNat (m - (m &&& n))
  | .negSucc m, .ofNat n => .ofNat (n - (m &&& n))
  | .negSucc m, .negSucc n => .negSucc (m ||| n)

/-- `a | b` -/
def bor : Int → Int → Int
  | .ofNat m, .ofNat n => .ofNat (m ||| n)
  | .ofNat m, .negSucc n => .negSucc (n - (m &&& n))
  | .negSucc m, .ofNat n => .negSucc (m - (m &&& n))
  | .negSucc m, .negSucc n => .negSucc (m &&& n)

/-- `a << s` : ValueError on a negative count -/
def shl (a s : Int) : R Int := if s < 0 then .error .valueError else .ok (a * 2 ^ s.toNat)

/-- `a >> s` : ValueError on a negative count; floor division by 2^s (arithmetic shift) -/
def shr (a s : Int) : R Int := if s < 0 then .error .valueError else .ok (a >>> s.toNat)

/-- CPython's limit on int -> str conversion (`sys.get_int_max_str_digits()`, read from the interpreter by the translator
of the data tables and compared there): formatting an integer with more digits raises ValueError -/
def maxStrDigits : Nat := 4300
def fmtInt (x : Int) : R Unit := if x.natAbs ≥ 10 ^ maxStrDigits then .error .valueError else .ok ()

/-- `bytearray(xs)` / `bytes(xs)` for a list of integers: ValueError unless every item is in range(256) -/
def bytesOfInts : List Int → R (List UInt8)
  | [] => .ok []
  | x :: xs =>
    if 0 ≤ x ∧ x < 256 then
      match bytesOfInts xs with
      | .ok r => .ok (UInt8.ofNat x.toNat :: r)
      | .error e => .error e
    else .error .valueError

/-- `bytearray.append(x)`: ValueError unless x is in range(256) -/
def bytesAppend (b : List UInt8) (x : Int) : R (List UInt8) :=
  if 0 ≤ x ∧ x < 256 then .ok (b ++ [UInt8.ofNat x.toNat]) else .error .valueError

/-- `try: body  except <exc>: handler` -/
def tryExcept {α} (body : R α) (exc : Exc) (handler : R α) : R α :=
  match body with
  | .ok a => .ok a
  | .error e => if e = exc then handler else .error e

/-! ### methods: the object travels with the result *and* with the exception (mutations made before a `raise` persist) -/

/-- result of a method on an object of type `σ`: the updated object and the value, or the exception and the object as it was when raised -/
abbrev RS (σ : Type) (α : Type) := Except (Exc × σ) α

/-- a pure (object-free) partial operation used inside a method: an exception leaves the object as it is now -/
def liftR {σ α} (s : σ) (r : R α) : RS σ α :=
  match r with
  | .ok a => .ok a
  | .error e => .error (e, s)

/-- a method of a sub-object `τ` stored in a field of `σ`: the field is updated on return and on exception -/
def liftSub {σ τ α} (s : σ) (put : σ → τ → σ) (r : RS τ (τ × α)) : RS σ (σ × α) :=
  match r with
  | .ok (t, a) => .ok (put s t, a)
  | .error (e, t) => .error (e, put s t)

/-- `try: body except <exc>: handler` inside a method: the handler starts from the object as it was when the exception was raised -/
def tryExceptS {σ α} (body : RS σ α) (exc : Exc) (handler : σ → RS σ α) : RS σ α :=
  match body with
  | .ok a => .ok a
  | .error (e, s) => if e = exc then handler s else .error (e, s)

/-! ### slices of bytes-like objects (non-negative bounds; Python clamps to the length) -/
def sliceFrom (b : List UInt8) (i : Int) : R (List UInt8) :=
  if i < 0 then .error .typeError else .ok (b.drop i.toNat)      -- negative bounds are outside the translated subset
def slice (b : List UInt8) (i j : Int) : R (List UInt8) :=
  if i < 0 ∨ j < 0 then .error .typeError else .ok ((b.take j.toNat).drop i.toNat)

/-- `[f(x) for x in xs]`: the first exception stops the comprehension -/
def listMapM {α β} (f : α → R β) : List α → R (List β)
  | [] => .ok []
  | x :: xs =>
    match f x with
    | .error e => .error e
    | .ok y =>
      match listMapM f xs with
      | .error e => .error e
      | .ok ys => .ok (y :: ys)

/-- `b[0] |= m` on a bytearray: IndexError when empty; the result stays an octet for an octet mask -/
def setFirstOr (b : List UInt8) (m : Int) : R (List UInt8) :=
  match b with
  | [] => .error .indexError
  | x :: xs => if 0 ≤ m ∧ m < 256 then .ok (UInt8.ofNat (x.toNat ||| m.toNat) :: xs) else .error .valueError

/-- `ord(b)` for a bytes object: TypeError unless its length is 1 -/
def ord1 (b : List UInt8) : R Int :=
  match b with
  | [x] => .ok (x.toNat : Int)
  | _ => .error .typeError

/-- `a ** b` on integers with a non-negative exponent (a negative one yields a float: outside the translated subset) -/
def ipow (a b : Int) : R Int := if b < 0 then .error .typeError else .ok (a ^ b.toNat)
/-- `a % b` (the result has the sign of `b`; ZeroDivisionError for 0, rendered as ValueError's sibling `typeError` is wrong: its own class) -/
def imod (a b : Int) : R Int := if b = 0 then .error .zeroDivisionError else .ok (a.fmod b)
/-- `a // b` (floor division) -/
def ifloordiv (a b : Int) : R Int := if b = 0 then .error .zeroDivisionError else .ok (a.fdiv b)

/-- hexadecimal digits of a natural number, most significant first (`[0]` for 0) -/
def hexDigitsNat (n : Nat) : List Nat :=
  if _h : n < 16 then [n] else hexDigitsNat (n / 16) ++ [n % 16]
termination_by n
decreasing_by omega

/-- `hex(n)[2:].rstrip("L")` for a non-negative `n` (a negative one has a sign in front: outside the translated subset) -/
def hexDigits (n : Int) : R (List Nat) := if n < 0 then .error .typeError else .ok (hexDigitsNat n.toNat)

/-- `bytes.fromhex(s)` for a string of hexadecimal digits: ValueError for an odd number of digits -/
def fromHex : List Nat → R (List UInt8)
  | [] => .ok []
  | [_] => .error .valueError
  | a :: b :: rest =>
    match fromHex rest with
    | .ok bs => .ok (UInt8.ofNat (a * 16 + b) :: bs)
    | .error e => .error e

/-- `d.get(key)` on a dict with bytes keys, kept as an insertion-ordered association list -/
def assocGet {β} : List (List UInt8 × β) → List UInt8 → Option β
  | [], _ => none
  | (k, v) :: rest, key => if k = key then some v else assocGet rest key

/-- what a loop body did: `return r` or fell through to the next iteration with state `s` -/
inductive Flow (ρ σ : Type) where
  | ret (r : ρ)
  | next (s : σ)

/-- a decoded header field: name, value, and whether its class is `NeverIndexedHeaderTuple` -/
abbrev Header := List UInt8 × List UInt8 × Bool

/-- `b.decode('utf-8')`: `str` values are represented by their UTF-8 encoding; decoding is validation -/
def utf8Decode (valid : List UInt8 → Bool) (b : List UInt8) : R (List UInt8) :=
  if valid b then .ok b else .error .unicodeDecodeError

/-! ### dynamically typed values at the `Encoder.encode` boundary

`Encoder.encode` takes whatever the application passes. The values below are the part of that space the translated
source is given a meaning on: names and values that are `bytes`, `str` or any other object (known by what `str()`
returns for it and by its truth value), headers that are plain tuples of any length or `HeaderTuple` instances (which
carry `indexable`), and a header collection that is a `dict` (its items in insertion order) or any other iterable of
headers (a list and a one-shot iterator are consumed identically by a `for` loop). A `str` is a Lean `String` (a
sequence of Unicode scalar values; lone surrogates, for which `.encode('utf-8')` raises, are outside the model). -/

inductive Ty | bytes | str | other
deriving Repr, DecidableEq

inductive Obj
  | bytes (b : List UInt8)
  | str (s : String)
  | other (repr : String) (truth : Bool)
deriving Repr, DecidableEq

/-- `type(x)` as far as `is bytes` / `is str` can tell (exact types: a subclass instance is `other`) -/
def Obj.typeOf : Obj → Ty
  | .bytes _ => .bytes
  | .str _ => .str
  | .other _ _ => .other

/-- `str(x)`; `str()` of a `bytes` object (its repr) is not modelled -/
def Obj.strOf : Obj → R Obj
  | .str s => .ok (.str s)
  | .other r _ => .ok (.str r)
  | .bytes _ => .error .outsideModel

/-- `x.encode("utf-8")`: only `str` has the method -/
def Obj.encodeUtf8 : Obj → R (List UInt8)
  | .str s => .ok s.toUTF8.data.toList
  | _ => .error .attributeError

/-- a value declared `bytes` by the source's annotations: the translator inserts this checked cast -/
def Obj.asBytes : Obj → R (List UInt8)
  | .bytes b => .ok b
  | _ => .error .typeError

/-- truth value (`if x`, `not x`) -/
def Obj.truthy : Obj → Bool
  | .bytes b => !b.isEmpty
  | .str s => !s.isEmpty
  | .other _ t => t

/-- `b.startswith(p)` on bytes -/
def startsWith (b p : List UInt8) : Bool := p.isPrefixOf b

/-- one header as passed: a plain tuple of any length, or a `HeaderTuple` / `NeverIndexedHeaderTuple` (two items) -/
inductive Hdr
  | tuple (items : List Obj)
  | headerTuple (name value : Obj) (indexable : Bool)
deriving Repr, DecidableEq

def Hdr.isHeaderTuple : Hdr → Bool
  | .headerTuple _ _ _ => true
  | .tuple _ => false

def Hdr.items : Hdr → List Obj
  | .tuple xs => xs
  | .headerTuple n v _ => [n, v]

/-- `len(header)` -/
def Hdr.len (h : Hdr) : Int := (h.items.length : Int)
/-- `header[i]` -/
def Hdr.get (h : Hdr) (i : Int) : R Obj := seqGet h.items i
/-- `header.indexable`: a plain tuple has no such attribute -/
def Hdr.indexable : Hdr → R Bool
  | .headerTuple _ _ ix => .ok ix
  | .tuple _ => .error .attributeError

/-- the `headers` argument: a `dict` (or subclass) given by its items in insertion order, or any other iterable -/
inductive Headers
  | dict (items : List (Obj × Obj))
  | iterable (items : List Hdr)
deriving Repr

/-- `isinstance(x, dict)` -/
def Headers.isDict : Headers → Bool
  | .dict _ => true
  | .iterable _ => false

/-- `d.keys()` -/
def Headers.keys : Headers → R (List Obj)
  | .dict items => .ok (items.map (·.1))
  | .iterable _ => .error .attributeError

/-- `d[key]`: the first item with an equal key (a dict holds a key once) -/
def Headers.getItem : Headers → Obj → R Obj
  | .dict items, key => match items.find? (fun kv => kv.1 = key) with
    | some kv => .ok kv.2
    | none => .error .keyError
  | .iterable _, _ => .error .typeError

/-- `iter(headers)` consumed by a `for` loop. Iterating a dict would yield its keys as headers; `Encoder.encode` does this
only for non-dicts, and the other case is not given a meaning. -/
def Headers.iter : Headers → R (List Hdr)
  | .iterable items => .ok items
  | .dict _ => .error .outsideModel

/-- `sorted(xs, key=…)` for a Boolean key (`False < True`), the keys having been computed first, in order: stable -/
def sortedByBool {α} (xs : List α) (keys : List Bool) : List α :=
  let z := xs.zip keys
  (z.filter (fun p => !p.2)).map (·.1) ++ (z.filter (fun p => p.2)).map (·.1)

/-- `b"".join(parts)` -/
def joinBytes (parts : List (List UInt8)) : List UInt8 := parts.flatten

end Py
