import HpackVerif.Impl.Huff
/-! A linear-time implementation of the Huffman decoding loop for the compiled driver. The model appends
    each decoded symbol at the END of a list (`out ++ [ob]`, as the Python appends to a bytearray), which
    is quadratic on Lean lists; here the output is accumulated in reverse and reversed once. The
    `@[csimp]` lemma makes the compiler use the fast version; it is justified by the equality theorem
    below, so the theorems about `huffDecode` apply to what the driver executes. -/
namespace Impl

def nibbleR (tbl : Tbl) (state x : Nat) (rout : List Nat) : Res (Nat × Nat × List Nat) :=
  match tbl[state]? with
  | none => .indexError
  | some row =>
    match row[x]? with
    | none => .indexError
    | some (state', flags, ob) =>
      if flags &&& 4 != 0 then .decodingError
      else if flags &&& 2 != 0 then .ok (state', flags, ob :: rout)
      else .ok (state', flags, rout)

def loopR (tbl : Tbl) : Bytes → (state flags : Nat) → List Nat → Res (Nat × List Nat)
  | [], _, flags, rout => .ok (flags, rout)
  | b :: bs, state, _, rout =>
    match nibbleR tbl state (b.toNat / 16) rout with
    | .ok (s1, _, o1) =>
      match nibbleR tbl s1 (b.toNat % 16) o1 with
      | .ok (s2, f2, o2) => loopR tbl bs s2 f2 o2
      | .decodingError => .decodingError
      | .indexError => .indexError
    | .decodingError => .decodingError
    | .indexError => .indexError

def huffDecodeFast (tbl : Tbl) (w : Bytes) : Res (List Nat) :=
  if w.isEmpty then .ok []
  else match loopR tbl w 0 0 [] with
    | .ok (flags, rout) => if flags &&& 1 != 0 then .ok rout.reverse else .decodingError
    | .decodingError => .decodingError
    | .indexError => .indexError

def revRes : Res (Nat × Nat × List Nat) → Res (Nat × Nat × List Nat)
  | .ok (a, b, l) => .ok (a, b, l.reverse)
  | .decodingError => .decodingError
  | .indexError => .indexError

theorem nibbleR_eq (tbl : Tbl) (state x : Nat) (out : List Nat) :
    nibble tbl state x out = revRes (nibbleR tbl state x out.reverse) := by
  unfold nibble nibbleR
  cases tbl[state]? with
  | none => rfl
  | some row =>
    simp only
    cases row[x]? with
    | none => rfl
    | some e =>
      obtain ⟨s', f, ob⟩ := e
      simp only
      split
      · rfl
      · split
        · simp [revRes]
        · simp [revRes]

theorem loopR_eq (tbl : Tbl) (w : Bytes) (state flags : Nat) (out : List Nat) :
    loop tbl w state flags out =
      (match loopR tbl w state flags out.reverse with
       | .ok (f, rout) => .ok (f, rout.reverse)
       | .decodingError => .decodingError
       | .indexError => .indexError) := by
  induction w generalizing state flags out with
  | nil => simp [loop, loopR]
  | cons b bs ih =>
    simp only [loop, loopR]
    rw [nibbleR_eq]
    cases h1 : nibbleR tbl state (b.toNat / 16) out.reverse with
    | ok r1 =>
      obtain ⟨s1, f1, o1⟩ := r1
      simp only [revRes]
      rw [nibbleR_eq, List.reverse_reverse]
      cases h2 : nibbleR tbl s1 (b.toNat % 16) o1 with
      | ok r2 =>
        obtain ⟨s2, f2, o2⟩ := r2
        simp only [revRes]
        rw [ih, List.reverse_reverse]
      | decodingError => simp [revRes]
      | indexError => simp [revRes]
    | decodingError => simp [revRes]
    | indexError => simp [revRes]

@[csimp] theorem huffDecode_eq_fast : @huffDecode = @huffDecodeFast := by
  funext tbl w
  unfold huffDecode huffDecodeFast
  split
  · rfl
  · rw [loopR_eq]
    simp only [List.reverse_nil]
    cases loopR tbl w 0 0 [] with
    | ok r => obtain ⟨f, rout⟩ := r; simp only
    | decodingError => rfl
    | indexError => rfl

end Impl
