import HpackVerif.Impl.Model
/-! prototype L2 model of HuffmanEncoder.encode, encode_integer, HeaderTable.search, Encoder (unfixed tree) -/
namespace Impl

/-- encode_integer for n ≥ 0, 1 ≤ N ≤ 8 (the guards are modelled separately) -/
def encTail (r : Nat) : Bytes :=
  if _h : r ≥ 128 then UInt8.ofNat ((r &&& 127) + 128) :: encTail (r >>> 7)
  else [UInt8.ofNat r]
termination_by r
decreasing_by simp [Nat.shiftRight_eq_div_pow]; omega

def encodeInt (n N : Nat) : Bytes :=
  let maxN := 2 ^ N - 1
  if n < maxN then [UInt8.ofNat n] else UInt8.ofNat maxN :: encTail (n - maxN)

def orFirst (b : Bytes) (m : Nat) : Bytes :=
  match b with
  | [] => []
  | x :: xs => UInt8.ofNat (x.toNat ||| m) :: xs

/-- HuffmanEncoder.encode -/
def huffAccum (codes : List (Nat × Nat)) : Bytes → Nat → Nat → Nat × Nat
  | [], num, len => (num, len)
  | b :: bs, num, len =>
    let (c, l) := codes.getD b.toNat (0, 0)
    huffAccum codes bs ((num <<< l) ||| (c &&& (2 ^ (l + 1) - 1))) (len + l)

def byteLen (n : Nat) : Nat := (Nat.log2 n + 8) / 8   -- hex digits of n, rounded up to whole octets (n=0 ↦ 1)

def toBytesBE (num : Nat) : Nat → Bytes
  | 0 => []
  | n + 1 => UInt8.ofNat ((num >>> (8 * n)) % 256) :: toBytesBE num n

def huffEncode (codes : List (Nat × Nat)) (s : Bytes) : Bytes :=
  if s.isEmpty then [] else
  let (num, len) := huffAccum codes s 0 0
  let pad := (8 - len % 8) % 8
  let num := (num <<< pad) ||| ((1 <<< pad) - 1)
  let total := (len + pad) / 8
  toBytesBE num (max total (byteLen num))

/-- _build_static_table_mapping, as an insertion-ordered association list -/
abbrev Mapping := List (Bytes × Nat × List (Bytes × Nat))

def mapInsert (m : Mapping) (name value : Bytes) (index : Nat) : Mapping :=
  match m with
  | [] => [(name, index, [(value, index)])]
  | (n, first, vals) :: rest =>
    if n = name then
      let vals' := if vals.any (·.1 = value) then vals.map (fun p => if p.1 = value then (p.1, index) else p)
                   else vals ++ [(value, index)]
      (n, first, vals') :: rest
    else (n, first, vals) :: mapInsert rest name value index

def buildMapping (tbl : List (Bytes × Bytes)) : Mapping :=
  (tbl.zipIdx 1).foldl (fun m ((n, v), i) => mapInsert m n v i) []

def staticMapping : Mapping := buildMapping Gen.staticTable

/-- HeaderTable.search: (index, perfect?) -/
def searchDyn (name value : Bytes) : List Entry → Nat → Option (Nat × Bool) → Option (Nat × Bool)
  | [], _, partial_ => partial_
  | (n, v) :: rest, i, partial_ =>
    if n.bytes = name then
      if v.bytes = value then some (i, true)
      else searchDyn name value rest (i + 1) (if partial_.isNone then some (i, false) else partial_)
    else searchDyn name value rest (i + 1) partial_

def Table.search (t : Table) (name value : Bytes) : Option (Nat × Bool) :=
  let st := staticMapping.find? (·.1 = name)
  match st with
  | some (_, first, vals) =>
    match vals.find? (·.1 = value) with
    | some (_, idx) => some (idx, true)
    | none => searchDyn name value t.entries (Gen.staticTable.length + 1) (some (first, false))
  | none => searchDyn name value t.entries (Gen.staticTable.length + 1) none

structure EncState where
  table : Table := {}
  changes : List Nat := []
deriving Repr, DecidableEq

/-- `sticky = false` is the unfixed setter (a no-op assignment overwrites `resized` with False) -/
def EncState.setSize (sticky : Bool) (e : EncState) (v : Nat) : Out EncState := do
  let t ← e.table.setMaxsize v
  let changes := if t.resized then e.changes ++ [v] else e.changes
  pure { table := { t with resized := t.resized || (sticky && e.table.resized) }, changes := changes }

def encString (huff : Bool) (s : Bytes) : Bytes :=
  if huff then
    let e := huffEncode Gen.codes s
    orFirst (encodeInt e.length 7) 0x80 ++ e
  else encodeInt s.length 7 ++ s

/-- `if not sensitive: self.header_table.add(name, value)` -/
def EncState.insert (e : EncState) (name value : Bytes) (sensitive : Bool) : Out EncState :=
  if !sensitive then do
    let t ← e.table.add ⟨name, false⟩ ⟨value, false⟩
    pure { e with table := t }
  else pure e

/-- Encoder.add. `perfect ∧ !value.isEmpty` mirrors `if perfect:` on the matched *value* -/
def EncState.add (strict : Bool) (e : EncState) (name value : Bytes) (sensitive huff : Bool) : Out (Bytes × EncState) :=
  let indexbit : Nat := if !sensitive then 0x40 else 0x10
  match e.table.search name value with
  | none => do
    let enc := [UInt8.ofNat indexbit] ++ encString huff name ++ encString huff value
    let e' ← e.insert name value sensitive
    pure (enc, e')
  | some (index, perfect) =>
    if perfect ∧ (strict ∨ !value.isEmpty) then   -- unfixed (`strict = false`): `if perfect:` tests the value bytes
      pure (orFirst (encodeInt index 7) 0x80, e)
    else do
      let pfx := if indexbit ≠ 0x40 then encodeInt index 4 else encodeInt index 6
      let enc := orFirst pfx indexbit ++ encString huff value
      let e' ← e.insert name value sensitive
      pure (enc, e')

def EncState.encode (strict : Bool) (e : EncState) (hs : List (Bytes × Bytes × Bool)) (huff : Bool) : Out (Bytes × EncState) := do
  let (pre, e) :=
    if e.table.resized then
      (e.changes.flatMap (fun n => orFirst (encodeInt n 5) 0x20),
       { table := { e.table with resized := false }, changes := [] })
    else ([], e)
  let rec go (e : EncState) (acc : Bytes) : List (Bytes × Bytes × Bool) → Out (Bytes × EncState)
    | [] => pure (acc, e)
    | (n, v, s) :: rest => do
      let (b, e') ← e.add strict n v s huff
      go e' (acc ++ b) rest
  go e pre hs

end Impl
