import HpackVerif.Impl.HuffFast
import HpackVerif.Generated.Static
/-! prototype L2 model of table + decoder + encoder (mirrors the *unfixed* tree) -/
namespace Impl

inductive DErr | decoding | invalidIndex | invalidTableSize | oversized
deriving Repr, DecidableEq
inductive PyExc | valueError | indexError | nonTermination
deriving Repr, DecidableEq
inductive Out (α : Type) | ok (a : α) | err (e : DErr) | esc (x : PyExc)
deriving Repr, DecidableEq

instance : Monad Out where
  pure := .ok
  bind x f := match x with | .ok a => f a | .err e => .err e | .esc x => .esc x

structure PyBuf where
  bytes : Bytes
  view : Bool := false
deriving Repr, DecidableEq

abbrev Entry := PyBuf × PyBuf
def entrySize (e : Entry) : Nat := 32 + e.1.bytes.length + e.2.bytes.length

structure Table where
  entries : List Entry := []     -- newest first
  maxsize : Nat := Gen.defaultSize
  curSize : Int := 0
  resized : Bool := false
deriving Repr, DecidableEq

def maxStrDigits : Nat := 4300

def staticEntry (i : Nat) : Option Entry :=
  Gen.staticTable[i]?.map fun (n, v) => (⟨n, false⟩, ⟨v, false⟩)

/-- HeaderTable.get_by_index -/
def Table.getByIndex (t : Table) (index : Nat) : Out Entry :=
  let fail : Out Entry := if index ≥ 10 ^ maxStrDigits then .esc .valueError else .err .invalidIndex
  if index = 0 then fail
  else
    let i := index - 1
    if i < Gen.staticTable.length then
      match staticEntry i with | some e => .ok e | none => .esc .indexError
    else
      match t.entries[i - Gen.staticTable.length]? with
      | some e => .ok e
      | none => fail

/-- the `while cursize > maxsize: pop()` loop, on the reversed (oldest-first) list -/
def shrinkLoop (maxsize : Nat) : List Entry → Int → Out (List Entry × Int)
  | rev, cur =>
    if cur > maxsize then
      match rev with
      | [] => .esc .indexError
      | e :: r => shrinkLoop maxsize r (cur - entrySize e)
    else .ok (rev, cur)

def Table.shrink (t : Table) : Out Table :=
  match shrinkLoop t.maxsize t.entries.reverse t.curSize with
  | .ok (rev, cur) => .ok { t with entries := rev.reverse, curSize := cur }
  | .err e => .err e
  | .esc x => .esc x

/-- HeaderTable.add -/
def Table.add (t : Table) (name value : PyBuf) : Out Table :=
  let size := entrySize (name, value)
  if size > t.maxsize then .ok { t with entries := [], curSize := 0 }
  else ({ t with entries := (name, value) :: t.entries, curSize := t.curSize + size } : Table).shrink

/-- HeaderTable.maxsize setter -/
def Table.setMaxsize (t : Table) (newmax : Nat) : Out Table :=
  let oldmax := t.maxsize
  let t := { t with maxsize := newmax, resized := newmax != oldmax }
  if newmax = 0 then .ok { t with entries := [], curSize := 0 }
  else if oldmax > newmax then t.shrink
  else .ok t

/-- decode_integer on a (view of a) buffer; `cap` = largest shift allowed (none on the unfixed tree) -/
def capExceeded (cap : Option Nat) (s : Nat) : Bool :=
  match cap with
  | some c => decide (s > c)
  | none => false

def decLoop (cap : Option Nat) : Bytes → (number shift index : Nat) → Out (Nat × Nat)
  | [], _, _, _ => .err .decoding
  | b :: rest, number, shift, index =>
    if b.toNat ≥ 128 then
      if capExceeded cap (shift + 7) then .err .decoding
      else decLoop cap rest (number + ((b.toNat - 128) <<< shift)) (shift + 7) (index + 1)
    else .ok (number + (b.toNat <<< shift), index + 1)

def decodeInt (cap : Option Nat) (data : Bytes) (N : Nat) : Out (Nat × Nat) :=
  let maxN := 2 ^ N - 1
  let mask := 0xFF >>> (8 - N)
  match data with
  | [] => .err .decoding
  | b0 :: rest =>
    let number := b0.toNat &&& mask
    if number = maxN then decLoop cap rest number 0 1
    else .ok (number, 1)

def huffDecodeBuf (w : Bytes) : Out PyBuf :=
  match huffDecode Gen.huffTable w with
  | .ok syms => .ok ⟨syms.map UInt8.ofNat, false⟩
  | .decodingError => .err .decoding
  | .indexError => .esc .indexError

structure Header where
  name : PyBuf
  value : PyBuf
  never : Bool
deriving Repr, DecidableEq

structure DecState where
  table : Table := {}
  allowed : Nat := Gen.defaultSize
  listLimit : Nat := Gen.defaultListLimit
deriving Repr, DecidableEq

/-- a length-prefixed string starting at `data` (data[0] carries the H bit): returns (buf, octets consumed) -/
def readString (cap : Option Nat) (own : Bool) (data : Bytes) : Out (PyBuf × Nat) := do
  let (length, consumed) ← decodeInt cap data 7
  let raw := (data.drop consumed).take length
  if raw.length ≠ length then .err .decoding
  else
    match data with
    | [] => .esc .indexError
    | b0 :: _ =>
      if b0.toNat &&& 0x80 ≠ 0 then do
        let s ← huffDecodeBuf raw
        pure (s, consumed + length)
      else pure (⟨raw, !own⟩, consumed + length)

/-- Decoder._decode_literal: returns header, consumed, new table -/
def decodeLiteral (cap : Option Nat) (own : Bool) (t : Table) (data : Bytes) (shouldIndex : Bool) : Out (Header × Nat × Table) :=
  match data with
  | [] => .esc .indexError
  | b0 :: tail => do
    let (indexedName, nameLen, notIndexable) :=
      if shouldIndex then (b0.toNat &&& 0x3F, 6, false)
      else (b0.toNat &&& 0x0F, 4, b0.toNat &&& 0x10 ≠ 0)
    let (name, consumedName, rest) ←
      (if indexedName ≠ 0 then do
        let (index, consumed) ← decodeInt cap data nameLen
        let e ← t.getByIndex index
        pure (e.1, consumed, data.drop consumed)
      else do
        let (s, c) ← readString cap own tail
        pure (s, c + 1, tail.drop c) : Out (PyBuf × Nat × Bytes))
    let (value, c2) ← readString cap own rest
    let total := consumedName + c2
    let t' ← if shouldIndex then t.add name value else pure t
    pure (⟨name, value, notIndexable⟩, total, t')

def utf8Ok (_ : Bytes) : Bool := true   -- placeholder in the prototype

/-- one iteration of the `while` loop of Decoder.decode, up to (not including) the list-size check:
    `seen` = "headers is non-empty". Returns the header (none for a size update), octets consumed, new state. -/
def decodeField (cap : Option Nat) (own : Bool) (st : DecState) (data : Bytes) (seen : Bool) :
    Out (Option Header × Nat × DecState) :=
  match data with
  | [] => .esc .indexError
  | b0 :: _ =>
    let cur := b0.toNat
    if cur &&& 0x80 ≠ 0 then do
      let (index, consumed) ← decodeInt cap data 7
      let e ← st.table.getByIndex index
      pure (some ⟨e.1, e.2, false⟩, consumed, st)
    else if cur &&& 0x40 ≠ 0 ∨ cur &&& 0x20 = 0 then do
      let (h, consumed, t') ← decodeLiteral cap own st.table data (cur &&& 0x40 ≠ 0)
      pure (some h, consumed, { st with table := t' })
    else
      if seen then .err .decoding
      else do
        let (newSize, consumed) ← decodeInt cap data 5
        if newSize > st.allowed then .err .invalidTableSize
        else do
          let t' ← st.table.setMaxsize newSize
          pure (none, consumed, { st with table := t' })

def decodeLoop (cap : Option Nat) (own : Bool) (fuel : Nat) (st : DecState) (data : Bytes) (headers : List Header) (inflated : Nat) :
    Out (List Header) × DecState :=
  match fuel with
  | 0 => (.esc .nonTermination, st)
  | fuel + 1 =>
    match data with
    | [] =>
      if st.table.maxsize > st.allowed then (.err .invalidTableSize, st)
      else (.ok headers.reverse, st)
    | _ :: _ =>
      match decodeField cap own st data (!headers.isEmpty) with
      | .ok (some h, consumed, st') =>
        let inflated := inflated + entrySize (h.name, h.value)
        if inflated > st'.listLimit then (.err .oversized, st')
        else decodeLoop cap own fuel st' (data.drop consumed) (h :: headers) inflated
      | .ok (none, consumed, st') => decodeLoop cap own fuel st' (data.drop consumed) headers inflated
      | .err e => (.err e, st)
      | .esc x => (.esc x, st)

def decode (cap : Option Nat) (own : Bool) (st : DecState) (data : Bytes) : Out (List Header) × DecState :=
  decodeLoop cap own (data.length + 1) st data [] 0

end Impl
