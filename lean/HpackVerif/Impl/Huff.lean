import HpackVerif.Generated.Codes
import HpackVerif.Generated.Table
import HpackVerif.Generated.Tree
import HpackVerif.Impl.Basic

namespace HTree
def step? : HTree → Bool → Option HTree
  | .leaf _, _ => none
  | .node z o, b => some (if b then o else z)
def descend? : HTree → List Bool → Option HTree
  | t, [] => some t
  | t, b :: bs => (t.step? b).bind (descend? · bs)
end HTree

/-- bits of `v` of width `len`, msb first -/
def bitsOf (v len : Nat) : List Bool :=
  (List.range len).map fun i => v.testBit (len - 1 - i)

def nibbleBits (x : Nat) : List Bool := bitsOf x 4

def bytesBits (w : Bytes) : List Bool :=
  w.flatMap fun b => nibbleBits (b.toNat / 16) ++ nibbleBits (b.toNat % 16)

namespace Ref
/-- bit-level walk: `p` = bits consumed since the last symbol -/
def bits (root : HTree) : List Bool → List Bool → List Nat → Option (List Bool × List Nat)
  | p, [], out => some (p, out)
  | p, b :: bs, out =>
    match root.descend? (p ++ [b]) with
    | some (.leaf s) => if s == 256 then none else bits root [] bs (out ++ [s])
    | some (.node _ _) => bits root (p ++ [b]) bs out
    | none => none

def accept (p : List Bool) : Bool := p.all id && p.length < 8

def huffDecode (root : HTree) (w : Bytes) : Option (List Nat) :=
  match bits root [] (bytesBits w) [] with
  | some (p, out) => if accept p then some out else none
  | none => none
end Ref

namespace Impl
abbrev Tbl := List (List (Nat × Nat × Nat))

inductive Res (α : Type) | ok (a : α) | decodingError | indexError
deriving Repr, DecidableEq

/-- one table lookup + flag handling, as in the loop body of decode_huffman -/
def nibble (tbl : Tbl) (state x : Nat) (out : List Nat) : Res (Nat × Nat × List Nat) :=
  match tbl[state]? with
  | none => .indexError
  | some row =>
    match row[x]? with
    | none => .indexError
    | some (state', flags, ob) =>
      if flags &&& 4 != 0 then .decodingError
      else if flags &&& 2 != 0 then .ok (state', flags, out ++ [ob])
      else .ok (state', flags, out)

def loop (tbl : Tbl) : Bytes → (state flags : Nat) → List Nat → Res (Nat × List Nat)
  | [], _, flags, out => .ok (flags, out)
  | b :: bs, state, _, out =>
    match nibble tbl state (b.toNat / 16) out with
    | .ok (s1, _, o1) =>
      match nibble tbl s1 (b.toNat % 16) o1 with
      | .ok (s2, f2, o2) => loop tbl bs s2 f2 o2
      | .decodingError => .decodingError
      | .indexError => .indexError
    | .decodingError => .decodingError
    | .indexError => .indexError

def huffDecode (tbl : Tbl) (w : Bytes) : Res (List Nat) :=
  if w.isEmpty then .ok []
  else match loop tbl w 0 0 [] with
    | .ok (flags, out) => if flags &&& 1 != 0 then .ok out else .decodingError
    | .decodingError => .decodingError
    | .indexError => .indexError
end Impl

/-! ### the finite obligation -/
def entryOK (root : HTree) (paths : List (List Bool)) (s x : Nat) (e : Nat × Nat × Nat) : Bool :=
  match Ref.bits root (paths.getD s []) (nibbleBits x) [] with
  | none => e.2.1 &&& 4 != 0
  | some (p', outs) =>
    e.2.1 &&& 4 == 0 &&
    (match outs with
     | [] => e.2.1 &&& 2 == 0
     | [sym] => e.2.1 &&& 2 != 0 && e.2.2 == sym
     | _ => false) &&
    e.1 < 256 && paths.getD e.1 [] == p' &&
    ((e.2.1 &&& 1 != 0) == Ref.accept p')

def rowOK (root : HTree) (paths : List (List Bool)) (s : Nat) (row : List (Nat × Nat × Nat)) : Bool :=
  row.length == 16 && ((List.range 16).all fun x => entryOK root paths s x (row.getD x (0,4,0)))

def tableOK (root : HTree) (paths : List (List Bool)) (tbl : Impl.Tbl) : Bool :=
  tbl.length == 256 && paths.length == 256 && paths.getD 0 [true] == [] &&
  ((List.range 256).all fun s => rowOK root paths s (tbl.getD s []))

