import HpackVerif.Impl.EncModel
import HpackVerif.Impl.Utf8
import HpackVerif.Generated.Consts
/-! L2 model of the API glue around the codec core:
    `_unicode_if_needed` / text mode of `Decoder.decode`, `_to_bytes`, sensitivity extraction,
    `_dict_to_iterable`, the guards of `encode_integer` / `decode_integer`.  Core Lean only. -/
namespace Impl

/-! ### integer codec entry points with their `ValueError` guards -/

/-- `encode_integer(integer, prefix_bits)` for arbitrary Python ints -/
def encodeIntApi (n N : Int) : Out Bytes :=
  if n < 0 then .esc .valueError
  else if N < 1 ∨ N > 8 then .esc .valueError
  else .ok (encodeInt n.toNat N.toNat)

/-- `decode_integer(data, prefix_bits)` for arbitrary Python ints `prefix_bits` -/
def decodeIntApi (cap : Option Nat) (data : Bytes) (N : Int) : Out (Nat × Nat) :=
  if N < 1 ∨ N > 8 then .esc .valueError
  else decodeInt cap data N.toNat

/-! ### text mode -/

/-- `[_unicode_if_needed(h, raw) for h in headers]` wrapped in `except UnicodeDecodeError`:
    in raw mode the bytes are returned (as fresh `bytes` objects); in text mode every name and value must
    be valid UTF-8, otherwise the general decoding error is raised.  The text result is represented by its
    UTF-8 bytes (the harness compares text through its UTF-8 encoding). -/
def finishHeaders (raw : Bool) (hs : List Header) : Out (List Header) :=
  let hs' := hs.map fun h => ({ name := ⟨h.name.bytes, false⟩, value := ⟨h.value.bytes, false⟩, never := h.never } : Header)
  if raw then .ok hs'
  else if hs.all (fun h => validUtf8 h.name.bytes && validUtf8 h.value.bytes) then .ok hs'
  else .err .decoding

/-- `Decoder.decode(data, raw)`: the conversion happens after the last state change -/
def decodeApi (cap : Option Nat) (own : Bool) (st : DecState) (data : Bytes) (raw : Bool) : Out (List Header) × DecState :=
  let (r, st') := decode cap own st data
  match r with
  | .ok hs => (finishHeaders raw hs, st')
  | .err e => (.err e, st')
  | .esc x => (.esc x, st')

/-! ### encoder input forms -/

/-- a Python `bytes` or `str` object (a `str` is a Lean `String`: a sequence of Unicode scalar values;
    lone surrogates, for which `.encode('utf-8')` raises, are outside the model) -/
inductive PyStr
  | bytes (b : Bytes)
  | text (s : String)
deriving Repr

/-- `_to_bytes` -/
def PyStr.toBytes : PyStr → Bytes
  | .bytes b => b
  | .text s => s.toUTF8.data.toList

/-- the shapes `Encoder.encode` accepts for one header -/
inductive FieldForm
  | tuple2 (n v : PyStr)                    -- `(name, value)`
  | tuple3 (n v : PyStr) (sens : Bool)      -- `(name, value, sensitive)` (third element by truthiness)
  | headerTuple (n v : PyStr)               -- `HeaderTuple(name, value)`
  | neverTuple (n v : PyStr)                -- `NeverIndexedHeaderTuple(name, value)`
deriving Repr

/-- `sensitive = not header.indexable` for header tuples, `header[2]` for longer tuples, else False -/
def FieldForm.norm : FieldForm → Bytes × Bytes × Bool
  | .tuple2 n v => (n.toBytes, v.toBytes, false)
  | .tuple3 n v s => (n.toBytes, v.toBytes, s)
  | .headerTuple n v => (n.toBytes, v.toBytes, false)
  | .neverTuple n v => (n.toBytes, v.toBytes, true)

/-- the container: any iterable of fields (a list and a one-shot iterator are consumed identically), or a
    `dict` given by its items in insertion order -/
inductive Container
  | iterable (fs : List FieldForm)
  | dict (items : List (PyStr × PyStr))
deriving Repr

def isSpecial (k : PyStr) : Bool :=
  match k.toBytes with
  | b :: _ => b == 58      -- b':'
  | [] => false

/-- `sorted(keys, key=lambda k: not _to_bytes(k).startswith(b':'))`: a stable sort on a Boolean key -/
def dictOrder (items : List (PyStr × PyStr)) : List (PyStr × PyStr) :=
  items.filter (fun kv => isSpecial kv.1) ++ items.filter (fun kv => !isSpecial kv.1)

def Container.norm : Container → List (Bytes × Bytes × Bool)
  | .iterable fs => fs.map FieldForm.norm
  | .dict items => (dictOrder items).map fun kv => (kv.1.toBytes, kv.2.toBytes, false)

/-- `Encoder.encode(headers, huffman)` on any accepted input form, via the normal form -/
def EncState.encodeApi (strict : Bool) (e : EncState) (c : Container) (huff : Bool) : Out (Bytes × EncState) :=
  e.encode strict c.norm huff

/-! #### the loop of `Encoder.encode` as it is written

```
if self.header_table.resized: header_block.append(self._encode_table_size_change()); resized = False
hpack_headers = _dict_to_iterable(headers) if isinstance(headers, dict) else iter(headers)
for header in hpack_headers:
    sensitive = False
    if isinstance(header, HeaderTuple): sensitive = not header.indexable
    elif len(header) > 2:               sensitive = header[2]
    new_header = (_to_bytes(header[0]), _to_bytes(header[1]))
    header_block.append(self.add(new_header, sensitive, huffman))
```
`encodeForms` follows this text: the flag is re-initialised for every header and read from the header's own
shape; names and values are converted one header at a time; a dict is first turned into 2-tuples in
`_dict_to_iterable` order. `Props.C18.forms_factor` proves it equal to `encodeApi` (encode after `norm`). -/

def FieldForm.name : FieldForm → PyStr
  | .tuple2 n _ | .tuple3 n _ _ | .headerTuple n _ | .neverTuple n _ => n
def FieldForm.value : FieldForm → PyStr
  | .tuple2 _ v | .tuple3 _ v _ | .headerTuple _ v | .neverTuple _ v => v

/-- one iteration's `sensitive` -/
def FieldForm.sensitiveFlag (f : FieldForm) : Bool :=
  let sensitive := false                       -- `sensitive = False`
  match f with
  | .headerTuple _ _ => !true                  -- `not header.indexable` (HeaderTuple.indexable = True)
  | .neverTuple _ _ => !false                  -- NeverIndexedHeaderTuple.indexable = False
  | .tuple3 _ _ s => s                         -- `len(header) > 2`: `header[2]`, by truthiness
  | .tuple2 _ _ => sensitive

def Container.items : Container → List FieldForm
  | .iterable fs => fs
  | .dict items => (dictOrder items).map fun kv => .tuple2 kv.1 kv.2

def encodeFormsLoop (strict huff : Bool) : EncState → Bytes → List FieldForm → Out (Bytes × EncState)
  | e, acc, [] => pure (acc, e)
  | e, acc, f :: rest => do
    let (b, e') ← e.add strict f.name.toBytes f.value.toBytes f.sensitiveFlag huff
    encodeFormsLoop strict huff e' (acc ++ b) rest

def EncState.encodeForms (strict : Bool) (e : EncState) (c : Container) (huff : Bool) : Out (Bytes × EncState) :=
  let (pre, e) :=
    if e.table.resized then
      (e.changes.flatMap (fun n => orFirst (encodeInt n 5) 0x20),
       ({ table := { e.table with resized := false }, changes := [] } : EncState))
    else ([], e)
  encodeFormsLoop strict huff e pre c.items

/-! #### a header iterable that acts on the Encoder while it is being consumed

An application's generator may assign `encoder.header_table_size` between two of the headers it yields (the
assignment runs inside `encode`'s `for` loop). The prologue has already flushed what was pending when `encode`
started; an assignment made during the loop takes effect on the table at once and stays pending for the next
block. -/
inductive Event
  | field (f : FieldForm)
  | setSize (n : Nat)
deriving Repr

def encodeEventsLoop (strict sticky huff : Bool) : EncState → Bytes → List Event → Out (Bytes × EncState)
  | e, acc, [] => pure (acc, e)
  | e, acc, .field f :: rest => do
    let (b, e') ← e.add strict f.name.toBytes f.value.toBytes f.sensitiveFlag huff
    encodeEventsLoop strict sticky huff e' (acc ++ b) rest
  | e, acc, .setSize n :: rest => do
    let e' ← e.setSize sticky n
    encodeEventsLoop strict sticky huff e' acc rest

def EncState.encodeEvents (strict sticky : Bool) (e : EncState) (evs : List Event) (huff : Bool) : Out (Bytes × EncState) :=
  let (pre, e) :=
    if e.table.resized then
      (e.changes.flatMap (fun n => orFirst (encodeInt n 5) 0x20),
       ({ table := { e.table with resized := false }, changes := [] } : EncState))
    else ([], e)
  encodeEventsLoop strict sticky huff e pre evs

/-! ### the tree as it stands

The model functions are parametrised by four switches so that one development can state both the
witnesses about the behaviour before the repairs D1-D4 and the theorems about the repaired code.
`Cfg`'s defaults describe the CURRENT tree: the integer cap is the constant the translator reads from
the source (`none` if there is none), the three Boolean repairs are in.  The line-protocol driver runs
the model at `Cfg` defaults, so this is the instantiation the correspondence check validates against
the implementation, and the one the property theorems (`Props/*`) are stated for. -/
structure Cfg where
  cap : Option Nat := Gen.intCap
  own : Bool := true       -- D2: plain literals are copied out of the caller's buffer
  sticky : Bool := true    -- D3: a no-op size assignment keeps a pending update
  strict : Bool := true    -- D4: `if perfect is not None`

namespace Cur
/-- `Decoder.decode(data, raw)` on the current tree -/
def decode (st : DecState) (data : Bytes) (raw : Bool) : Out (List Header) × DecState :=
  decodeApi Gen.intCap true st data raw
/-- `Encoder.encode(headers, huffman)` on normalised input on the current tree -/
def encode (e : EncState) (hs : List (Bytes × Bytes × Bool)) (huff : Bool) : Out (Bytes × EncState) :=
  e.encode true hs huff
/-- `Encoder.header_table_size = v` on the current tree -/
def setSize (e : EncState) (v : Nat) : Out EncState := e.setSize true v
def decodeInt (data : Bytes) (N : Int) : Out (Nat × Nat) := decodeIntApi Gen.intCap data N
end Cur

end Impl
