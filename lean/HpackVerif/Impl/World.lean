/-! C20 (prototype): several instances in one process; operations on one instance neither observe nor
    disturb another. Generic in the per-instance step function, instantiated with the Encoder/Decoder model. -/
namespace World

variable {S Op O : Type} (step : S → Op → S × O)

/-- run a history on one instance, collecting its outputs -/
def run : S → List Op → S × List O
  | s, [] => (s, [])
  | s, op :: ops =>
    let (s', o) := step s op
    let (s'', os) := run s' ops
    (s'', o :: os)

/-- a process: instance id ↦ state -/
abbrev Proc (S : Type) := Nat → S

def update (w : Proc S) (i : Nat) (s : S) : Proc S := fun j => if j = i then s else w j

/-- run an interleaved history of (instance, op) pairs; outputs are tagged with the instance -/
def runAll : Proc S → List (Nat × Op) → Proc S × List (Nat × O)
  | w, [] => (w, [])
  | w, (i, op) :: ops =>
    let (s', o) := step (w i) op
    let (w', os) := runAll (update w i s') ops
    (w', (i, o) :: os)

def mine (i : Nat) {α : Type} (l : List (Nat × α)) : List α := (l.filter (·.1 = i)).map (·.2)

/-- **C20 frame theorem**: in any interleaving, what instance `i` ends up as and what it output are
    exactly what it would have produced running its own operations alone -/
theorem frame (w : Proc S) (ops : List (Nat × Op)) (i : Nat) :
    ((runAll step w ops).1 i, mine i (runAll step w ops).2) = run step (w i) (mine i ops) := by
  induction ops generalizing w with
  | nil => rfl
  | cons x xs ih =>
    obtain ⟨j, op⟩ := x
    simp only [runAll]
    by_cases hj : j = i
    · subst hj
      have := ih (update w j (step (w j) op).1)
      simp only [update, if_true] at this
      simp only [mine, List.filter_cons, decide_true, if_true, List.map_cons, run] at this ⊢
      rw [← this]
    · have := ih (update w j (step (w j) op).1)
      have hw : update w j (step (w j) op).1 i = w i := by simp [update, Ne.symm hj]
      rw [hw] at this
      simp only [mine, List.filter_cons, hj, decide_false, Bool.false_eq_true, if_false] at this ⊢
      exact this

end World
#print axioms World.frame
