/-! model of CPython's strict UTF-8 decoder acceptance (bytes.decode('utf-8')) — Unicode Table 3-7 -/
namespace Impl

def isCont (b : UInt8) : Bool := 0x80 ≤ b.toNat && b.toNat ≤ 0xBF
def inRange (b : UInt8) (lo hi : Nat) : Bool := lo ≤ b.toNat && b.toNat ≤ hi

def validUtf8 : List UInt8 → Bool
  | [] => true
  | b0 :: rest =>
    let x := b0.toNat
    if x < 0x80 then validUtf8 rest
    else if 0xC2 ≤ x ∧ x ≤ 0xDF then
      match rest with
      | b1 :: r => isCont b1 && validUtf8 r
      | _ => false
    else if 0xE0 ≤ x ∧ x ≤ 0xEF then
      match rest with
      | b1 :: b2 :: r =>
        (if x = 0xE0 then inRange b1 0xA0 0xBF else if x = 0xED then inRange b1 0x80 0x9F else isCont b1)
          && isCont b2 && validUtf8 r
      | _ => false
    else if 0xF0 ≤ x ∧ x ≤ 0xF4 then
      match rest with
      | b1 :: b2 :: b3 :: r =>
        (if x = 0xF0 then inRange b1 0x90 0xBF else if x = 0xF4 then inRange b1 0x80 0x8F else isCont b1)
          && isCont b2 && isCont b3 && validUtf8 r
      | _ => false
    else false
termination_by l => l.length
decreasing_by all_goals simp_wf <;> omega

end Impl
