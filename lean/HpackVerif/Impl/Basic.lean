/-! Common types of the model. Core Lean only (the driver links without Mathlib). -/

abbrev Bytes := List UInt8

/-- binary code tree (Appendix B); symbol 256 is EOS -/
inductive HTree where
  | leaf (sym : Nat)
  | node (zero one : HTree)
deriving Repr, DecidableEq
