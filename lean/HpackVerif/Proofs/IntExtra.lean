import HpackVerif.Proofs.IntProof
import HpackVerif.Proofs.Complete1
/-! more facts about the prefix-integer codec: digit counts, truncation, error class -/
namespace RFC
open Impl

/-- a remainder below `128^k` has at most `k` base-128 digits -/
theorem digits_length_le (k : Nat) (r : Nat) (h : r < 128 ^ (k + 1)) : (digits r).length ≤ k + 1 := by
  induction k generalizing r with
  | zero =>
    rw [digits]; simp only [Nat.zero_add, Nat.pow_one] at h
    simp [show ¬ r ≥ 128 by omega]
  | succ k ih =>
    rw [digits]
    by_cases hr : r ≥ 128
    · simp only [hr, dite_true, List.length_cons]
      have : r / 128 < 128 ^ (k + 1) := by
        apply Nat.div_lt_of_lt_mul
        rw [Nat.pow_succ] at h; omega
      have := ih (r / 128) this
      omega
    · simp [hr]

/-- the decoder's only failure mode is the general decoding error -/
theorem decLoop_err (cap : Option Nat) (rest : Bytes) (number shift index : Nat) {e : DErr}
    (h : decLoop cap rest number shift index = .err e) : e = .decoding := by
  induction rest generalizing number shift index with
  | nil => simp only [decLoop, Out.err.injEq] at h; exact h.symm
  | cons b bs ih =>
    unfold decLoop at h
    split at h
    · split at h
      · simp only [Out.err.injEq] at h; exact h.symm
      · exact ih _ _ _ h
    · simp at h

theorem decodeInt_err (cap : Option Nat) (data : Bytes) (N : Nat) {e : DErr}
    (h : decodeInt cap data N = .err e) : e = .decoding := by
  unfold decodeInt at h
  cases data with
  | nil => simp only [Out.err.injEq] at h; exact h.symm
  | cons b rest =>
    simp only at h
    split at h
    · exact decLoop_err _ _ _ _ _ h
    · simp at h

/-- a run of continuation octets with nothing after it is a truncated integer -/
theorem decLoop_allCont (cap : Option Nat) (rest : Bytes) (hall : ∀ b ∈ rest, b.toNat ≥ 128) (number shift index : Nat) :
    decLoop cap rest number shift index = .err .decoding := by
  induction rest generalizing number shift index with
  | nil => rfl
  | cons b bs ih =>
    unfold decLoop
    rw [if_pos (hall b (by simp))]
    split
    · rfl
    · exact ih (fun x hx => hall x (by simp [hx])) _ _ _

theorem contOctets_take_cont (ds : List Nat) (hd : ∀ d ∈ ds, d < 128) (k : Nat) (hk : k < ds.length) :
    ∀ b ∈ (contOctets ds).take k, b.toNat ≥ 128 := by
  induction ds generalizing k with
  | nil => simp at hk
  | cons d ds ih =>
    cases ds with
    | nil =>
      simp only [List.length_cons, List.length_nil] at hk
      have : k = 0 := by omega
      subst this; simp
    | cons d' ds' =>
      cases k with
      | zero => simp
      | succ k =>
        simp only [contOctets, List.take_succ_cons, List.mem_cons]
        rintro b (rfl | hb)
        · have : d < 128 := hd d (by simp)
          rw [UInt8.toNat_ofNat', Nat.mod_eq_of_lt (by omega)]; omega
        · exact ih (fun x hx => hd x (by simp [hx])) k (by simpa using hk) b hb

/-- **truncation**: every proper prefix of a §5.1 encoding (whatever the high bits and however many
    redundant zero digits) is refused with the decoding error -/
theorem decodeInt_truncated (cap : Option Nat) (N : Nat) (hN1 : 1 ≤ N) (hN8 : N ≤ 8) (hi v z : Nat)
    (hhi : hi % 2 ^ N = 0) (hhi2 : hi < 256) (k : Nat) (hk : k < (intOctets N hi v z).length) :
    decodeInt cap ((intOctets N hi v z).take k) N = .err .decoding := by
  cases k with
  | zero => simp [decodeInt]
  | succ k =>
    have hpow : 2 ^ N ≤ 256 := by
      calc 2 ^ N ≤ 2 ^ 8 := Nat.pow_le_pow_right (by omega) hN8
        _ = 256 := by decide
    have hpos : 0 < 2 ^ N := Nat.two_pow_pos N
    have hmask : (0xFF >>> (8 - N)) = 2 ^ N - 1 := by
      have : ∀ n : Fin 9, 1 ≤ n.val → (0xFF >>> (8 - n.val)) = 2 ^ n.val - 1 := by decide
      exact this ⟨N, by omega⟩ hN1
    unfold intOctets at hk ⊢
    by_cases hv : v < 2 ^ N - 1
    · simp only [hv, if_true, List.length_cons, List.length_nil] at hk; omega
    · simp only [hv, if_false, List.length_cons] at hk
      simp only [hv, if_false, List.take_succ_cons, decodeInt, hmask]
      -- first octet is saturated
      have h1 : hi + (2 ^ N - 1) < 256 := by
        obtain ⟨q, hq⟩ := Nat.dvd_of_mod_eq_zero hhi
        have hdiv : 2 ^ N ∣ 256 := by
          have : ∀ n : Fin 9, 2 ^ n.val ∣ 256 := by decide
          exact this ⟨N, by omega⟩
        obtain ⟨m, hm⟩ := hdiv
        have : q < m := by
          apply Nat.lt_of_mul_lt_mul_left (a := 2 ^ N); omega
        have : (q + 1) * 2 ^ N ≤ m * 2 ^ N := Nat.mul_le_mul_right _ (by omega)
        rw [Nat.add_mul, Nat.mul_comm q, Nat.mul_comm m] at this; omega
      have hb : (UInt8.ofNat (hi + (2 ^ N - 1))).toNat = hi + (2 ^ N - 1) := by
        rw [UInt8.toNat_ofNat']; exact Nat.mod_eq_of_lt h1
      have h2 : (hi + (2 ^ N - 1)) &&& (2 ^ N - 1) = 2 ^ N - 1 := by
        rw [Nat.and_two_pow_sub_one_eq_mod, Nat.add_mod, hhi]; simp [Nat.mod_eq_of_lt (show 2 ^ N - 1 < 2 ^ N by omega)]
      simp only [hb, h2, if_true]
      apply decLoop_allCont
      apply contOctets_take_cont
      · intro d hd
        simp only [List.mem_append, List.mem_replicate] at hd
        rcases hd with hd | ⟨_, rfl⟩
        · exact digits_lt _ d hd
        · omega
      · rw [contOctets_length] at hk; omega

end RFC
