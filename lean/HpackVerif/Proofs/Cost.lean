import Mathlib.Tactic.Ring
import HpackVerif.Proofs.InvAny
/-! C16 (prototype): an explicit work model of the decoder and its bounds -/
namespace Impl.Cost
open Impl

/-- limb work of one `number += x << shift` (CPython ints use 30-bit digits) -/
def limbs (s : Nat) : Nat := s / 30 + 1

/-- work of the accumulation loop of decode_integer: one unit + limb work per octet examined -/
def decLoopCost (cap : Option Nat) : Bytes → Nat → Nat
  | [], _ => 1
  | b :: rest, shift =>
    if b.toNat ≥ 128 then
      if capExceeded cap (shift + 7) then limbs shift + 1
      else limbs shift + 1 + decLoopCost cap rest (shift + 7)
    else limbs shift + 1

def decodeIntCost (cap : Option Nat) (data : Bytes) (N : Nat) : Nat :=
  match data with
  | [] => 1
  | b0 :: rest => if (b0.toNat &&& (0xFF >>> (8 - N))) = 2 ^ N - 1 then 1 + decLoopCost cap rest 0 else 1

/-- with the cap, an integer costs at most a constant, however long the run of continuation octets -/
theorem decLoopCost_capped (c : Nat) (rest : Bytes) (shift : Nat) (hs : shift ≤ c + 7) :
    decLoopCost (some c) rest shift ≤ ((c + 14 - shift) / 7) * (limbs (c + 7) + 1) + 1 := by
  induction rest generalizing shift with
  | nil => simp [decLoopCost]
  | cons b bs ih =>
    unfold decLoopCost
    have hl : limbs shift ≤ limbs (c + 7) := by unfold limbs; exact Nat.add_le_add_right (Nat.div_le_div_right hs) 1
    have hstep : (c + 14 - shift) / 7 ≥ 1 := by
      apply Nat.le_div_iff_mul_le (by omega) |>.mpr; omega
    have hone : limbs shift + 1 ≤ ((c + 14 - shift) / 7) * (limbs (c + 7) + 1) + 1 := by
      calc limbs shift + 1 ≤ 1 * (limbs (c + 7) + 1) := by omega
        _ ≤ ((c + 14 - shift) / 7) * (limbs (c + 7) + 1) := Nat.mul_le_mul_right _ hstep
        _ ≤ _ := by omega
    by_cases hge : b.toNat ≥ 128
    · rw [if_pos hge]
      by_cases hcap : capExceeded (some c) (shift + 7) = true
      · rw [if_pos hcap]; exact hone
      · rw [if_neg hcap]
        have hle : shift + 7 ≤ c := by simpa [capExceeded] using hcap
        have := ih (shift + 7) (by omega)
        have e : (c + 14 - shift) / 7 = (c + 14 - (shift + 7)) / 7 + 1 := by
          have : c + 14 - shift = (c + 14 - (shift + 7)) + 7 := by omega
          rw [this, Nat.add_div_right _ (by omega)]
        rw [e, Nat.add_mul]
        omega
    · rw [if_neg hge]; exact hone

/-- the constant of `decLoopCost_capped` at shift 0 -/
def intConst (c : Nat) : Nat := ((c + 14) / 7) * (limbs (c + 7) + 1) + 2

theorem decodeIntCost_capped (c : Nat) (data : Bytes) (N : Nat) : decodeIntCost (some c) data N ≤ intConst c := by
  unfold decodeIntCost intConst
  cases data with
  | nil => dsimp only; have : 0 ≤ (c + 14) / 7 * (limbs (c + 7) + 1) := Nat.zero_le _; omega
  | cons b0 rest =>
    dsimp only
    split
    · have := decLoopCost_capped c rest 0 (by omega)
      simp only [Nat.sub_zero] at this; omega
    · have : 0 ≤ (c + 14) / 7 * (limbs (c + 7) + 1) := Nat.zero_le _; omega

/-- without the cap (unfixed tree) a run of `n` continuation octets costs at least `n²/10`: D1 -/
theorem decLoopCost_uncapped (n shift : Nat) :
    decLoopCost none (List.replicate n 0xff) shift * 60 ≥ 7 * n * n + 2 * shift * n := by
  induction n generalizing shift with
  | zero => simp [decLoopCost]
  | succ n ih =>
    rw [List.replicate_succ]
    unfold decLoopCost
    have hb : (0xff : UInt8).toNat ≥ 128 := by decide
    rw [if_pos hb]
    have hc : ¬ capExceeded none (shift + 7) = true := by simp [capExceeded]
    rw [if_neg hc]
    have hih := ih (shift + 7)
    have hl : limbs shift * 30 ≥ shift + 1 := by
      unfold limbs
      have := Nat.div_add_mod shift 30
      have := Nat.mod_lt shift (show 30 > 0 by omega)
      omega
    have e1 : 7 * (n + 1) * (n + 1) = 7 * (n * n) + 14 * n + 7 := by ring
    have e2 : 2 * shift * (n + 1) = 2 * (shift * n) + 2 * shift := by ring
    have e3 : 2 * (shift + 7) * n = 2 * (shift * n) + 14 * n := by ring
    have e4 : 7 * n * n = 7 * (n * n) := by ring
    have e5 : (limbs shift + 1 + decLoopCost none (List.replicate n 255) (shift + 7)) * 60
        = limbs shift * 60 + 60 + decLoopCost none (List.replicate n 255) (shift + 7) * 60 := by ring
    rw [e3, e4] at hih
    rw [e1, e2, e5]
    omega

end Impl.Cost
#print axioms Impl.Cost.decodeIntCost_capped
#print axioms Impl.Cost.decLoopCost_uncapped
