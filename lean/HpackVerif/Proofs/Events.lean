import HpackVerif.Impl.Api
import HpackVerif.Proofs.EncProof
/-! C09 / C18: a header iterable that assigns `header_table_size` on the Encoder while `encode` is consuming it.

`encodeEvents` models `Encoder.encode(gen)` where the generator yields fields and, between two of them, runs
`encoder.header_table_size = n`. Facts proved here:
* without assignments it is `encodeForms` (so everything proved about `encode` applies);
* encoding a field never touches what is pending (`changes`, `resized`);
* hence an assignment made in the middle of a block that really changes the size is still pending, as the last
  change, when `encode` returns — the next block opens with it. -/
namespace Impl

theorem insert_keeps_pending (e e' : EncState) (n v : Bytes) (s : Bool) (h : e.insert n v s = .ok e') :
    e'.changes = e.changes ∧ e'.table.resized = e.table.resized := by
  unfold EncState.insert at h
  cases s with
  | true => simp only [Bool.not_true, Bool.false_eq_true, if_false] at h; cases h; exact ⟨rfl, rfl⟩
  | false =>
    simp only [Bool.not_false, if_true] at h
    cases ht : e.table.add ⟨n, false⟩ ⟨v, false⟩ with
    | ok t =>
      rw [ht] at h
      have h : (Out.ok { e with table := t } : Out EncState) = .ok e' := h
      cases h
      exact ⟨rfl, RFC.add_resized e.table _ _ t ht⟩
    | err x => rw [ht] at h; cases h
    | esc x => rw [ht] at h; cases h

theorem add_keeps_pending (strict : Bool) (e e' : EncState) (n v b : Bytes) (s huff : Bool)
    (h : e.add strict n v s huff = .ok (b, e')) :
    e'.changes = e.changes ∧ e'.table.resized = e.table.resized := by
  unfold EncState.add at h
  dsimp only at h
  cases hs : e.table.search n v with
  | none =>
    rw [hs] at h
    cases hi : e.insert n v s with
    | ok e2 =>
      rw [hi] at h
      have h : (Out.ok (_, e2) : Out (Bytes × EncState)) = .ok (b, e') := h
      simp only [Out.ok.injEq, Prod.mk.injEq] at h
      rw [← h.2]; exact insert_keeps_pending e e2 n v s hi
    | err x => rw [hi] at h; cases h
    | esc x => rw [hi] at h; cases h
  | some ip =>
    obtain ⟨index, perfect⟩ := ip
    rw [hs] at h
    dsimp only at h
    split at h
    · have h : (Out.ok (_, e) : Out (Bytes × EncState)) = .ok (b, e') := h
      simp only [Out.ok.injEq, Prod.mk.injEq] at h
      rw [← h.2]; exact ⟨rfl, rfl⟩
    · cases hi : e.insert n v s with
      | ok e2 =>
        rw [hi] at h
        have h : (Out.ok (_, e2) : Out (Bytes × EncState)) = .ok (b, e') := h
        simp only [Out.ok.injEq, Prod.mk.injEq] at h
        rw [← h.2]; exact insert_keeps_pending e e2 n v s hi
      | err x => rw [hi] at h; cases h
      | esc x => rw [hi] at h; cases h

/-- a generator that only yields fields: `encode` behaves as on the list of those fields -/
theorem eventsLoop_fields (strict sticky huff : Bool) (e : EncState) (acc : Bytes) (fs : List FieldForm) :
    encodeEventsLoop strict sticky huff e acc (fs.map .field) = encodeFormsLoop strict huff e acc fs := by
  induction fs generalizing e acc with
  | nil => rfl
  | cons f rest ih =>
    simp only [List.map_cons, encodeEventsLoop, encodeFormsLoop]
    cases e.add strict f.name.toBytes f.value.toBytes f.sensitiveFlag huff with
    | ok r => obtain ⟨b, e'⟩ := r; exact ih e' (acc ++ b)
    | err x => rfl
    | esc x => rfl

theorem events_without_assignment (strict sticky huff : Bool) (e : EncState) (fs : List FieldForm) :
    e.encodeEvents strict sticky (fs.map .field) huff = e.encodeForms strict (.iterable fs) huff := by
  unfold EncState.encodeEvents EncState.encodeForms
  simp only [Container.items]
  split <;> exact eventsLoop_fields _ _ _ _ _ _

/-- fields alone leave what is pending as it was -/
theorem eventsLoop_fields_keep_pending (strict sticky huff : Bool) (e e' : EncState) (acc b : Bytes) (fs : List FieldForm)
    (h : encodeEventsLoop strict sticky huff e acc (fs.map .field) = .ok (b, e')) :
    e'.changes = e.changes ∧ e'.table.resized = e.table.resized := by
  induction fs generalizing e acc with
  | nil =>
    simp only [List.map_nil, encodeEventsLoop] at h
    have h : (Out.ok (acc, e) : Out (Bytes × EncState)) = .ok (b, e') := h
    simp only [Out.ok.injEq, Prod.mk.injEq] at h
    rw [← h.2]; exact ⟨rfl, rfl⟩
  | cons f rest ih =>
    simp only [List.map_cons, encodeEventsLoop] at h
    cases ha : e.add strict f.name.toBytes f.value.toBytes f.sensitiveFlag huff with
    | ok r =>
      obtain ⟨b1, e1⟩ := r
      rw [ha] at h
      have h : encodeEventsLoop strict sticky huff e1 (acc ++ b1) (rest.map .field) = .ok (b, e') := h
      obtain ⟨hc, hr⟩ := ih e1 (acc ++ b1) h
      obtain ⟨hc1, hr1⟩ := add_keeps_pending strict e e1 _ _ b1 _ huff ha
      exact ⟨hc.trans hc1, hr.trans hr1⟩
    | err x => rw [ha] at h; cases h
    | esc x => rw [ha] at h; cases h

/-- **an assignment in the middle of a block stays pending**: the generator yields `fs1`, assigns size `n`, yields
    `fs2`. If the assignment changes the size then, when `encode` returns, the update is still owed (`resized`)
    and `n` is the last pending change (`e.changes` is what was pending when the loop started, i.e. `[]` after the
    prologue): the next block opens with it. -/
theorem assignment_during_block (strict huff : Bool) (e e' : EncState) (acc b : Bytes) (fs1 fs2 : List FieldForm) (n : Nat)
    (h : encodeEventsLoop strict true huff e acc (fs1.map .field ++ .setSize n :: fs2.map .field) = .ok (b, e')) :
    ∃ e1 b1, encodeEventsLoop strict true huff e acc (fs1.map .field) = .ok (b1, e1) ∧
      (n ≠ e1.table.maxsize → e'.table.resized = true ∧ e'.changes = e.changes ++ [n]) ∧
      (n = e1.table.maxsize → e'.table.resized = e.table.resized ∧ e'.changes = e.changes) := by
  induction fs1 generalizing e acc with
  | nil =>
    simp only [List.map_nil, List.nil_append, encodeEventsLoop] at h
    refine ⟨e, acc, rfl, ?_, ?_⟩
    all_goals
      cases hs : e.setSize true n with
      | ok e2 =>
        rw [hs] at h
        have h : encodeEventsLoop strict true huff e2 acc (fs2.map .field) = .ok (b, e') := h
        obtain ⟨hc, hr⟩ := eventsLoop_fields_keep_pending strict true huff e2 e' acc b fs2 h
        unfold EncState.setSize at hs
        cases hm : e.table.setMaxsize n with
        | ok t =>
          rw [hm] at hs
          have hs : (Out.ok { table := { t with resized := t.resized || (true && e.table.resized) },
                              changes := if t.resized then e.changes ++ [n] else e.changes } : Out EncState) = .ok e2 := hs
          cases hs
          have htr : t.resized = (n != e.table.maxsize) := by
            unfold Table.setMaxsize at hm
            dsimp only at hm
            split at hm
            · cases hm; rfl
            · split at hm
              · unfold Table.shrink at hm
                split at hm
                · cases hm; rfl
                · cases hm
                · cases hm
              · cases hm; rfl
          intro hne
          rw [hc, hr]
          simp only [htr]
          first
            | (have : (n != e.table.maxsize) = true := by simpa using hne
               simp [this])
            | (have : (n != e.table.maxsize) = false := by simpa using hne
               simp [this])
        | err x => rw [hm] at hs; cases hs
        | esc x => rw [hm] at hs; cases hs
      | err x => rw [hs] at h; cases h
      | esc x => rw [hs] at h; cases h
  | cons f rest ih =>
    simp only [List.map_cons, List.cons_append, encodeEventsLoop] at h ⊢
    cases ha : e.add strict f.name.toBytes f.value.toBytes f.sensitiveFlag huff with
    | ok r =>
      obtain ⟨b0, e0⟩ := r
      rw [ha] at h
      have h : encodeEventsLoop strict true huff e0 (acc ++ b0) (rest.map .field ++ .setSize n :: fs2.map .field) = .ok (b, e') := h
      obtain ⟨e1, b1, hl, h1, h2⟩ := ih e0 (acc ++ b0) h
      obtain ⟨hc0, hr0⟩ := add_keeps_pending strict e e0 _ _ b0 _ huff ha
      refine ⟨e1, b1, hl, ?_, ?_⟩
      · intro hne; obtain ⟨a, c⟩ := h1 hne; exact ⟨a, by rw [c, hc0]⟩
      · intro heq; obtain ⟨a, c⟩ := h2 heq; exact ⟨by rw [a, hr0], by rw [c, hc0]⟩
    | err x => rw [ha] at h; cases h
    | esc x => rw [ha] at h; cases h

end Impl
