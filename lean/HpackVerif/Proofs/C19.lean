import HpackVerif.Proofs.RoundTrip
namespace RFC
open Impl

theorem searchDyn_perfect (name value : Bytes) (entries : List Entry) (i : Nat) (p : Option (Nat × Bool))
    (k : Nat) (e : Entry) (hk : entries[k]? = some e) (hn : e.1.bytes = name) (hv : e.2.bytes = value) :
    ∃ j, searchDyn name value entries i p = some (i + j, true) ∧ j ≤ k := by
  induction entries generalizing i p k with
  | nil => simp at hk
  | cons x xs ih =>
    obtain ⟨n, v⟩ := x
    simp only [searchDyn]
    by_cases h1 : n.bytes = name
    · by_cases h2 : v.bytes = value
      · exact ⟨0, by simp [h1, h2], by omega⟩
      · cases k with
        | zero => simp at hk; rw [← hk] at hv; exact absurd hv h2
        | succ k =>
          obtain ⟨j, hj, hjk⟩ := ih (i + 1) (if p.isNone then some (i, false) else p) k (by simpa using hk)
          exact ⟨j + 1, by simp only [h1, h2, if_true, if_false]; rw [hj]; congr 2; omega, by omega⟩
    · cases k with
      | zero => simp at hk; rw [← hk] at hn; exact absurd hn h1
      | succ k =>
        obtain ⟨j, hj, hjk⟩ := ih (i + 1) p k (by simpa using hk)
        exact ⟨j + 1, by simp only [h1, if_false]; rw [hj]; congr 2; omega, by omega⟩

/-- search completeness: an addressable exact match is always found as a perfect match -/
theorem search_complete (t : Table) (i : Nat) (name value : Bytes) (h : resolve t i = some (name, value)) :
    ∃ j, t.search name value = some (j, true) := by
  have hmc := mapping_complete
  simp only [mappingComplete, List.all_eq_true] at hmc
  unfold Table.search
  -- is (name, value) a static entry?
  by_cases hst : (name, value) ∈ Gen.staticTable
  · have := hmc _ hst
    dsimp only at this
    cases hf : staticMapping.find? (·.1 = name) with
    | none => simp [hf] at this
    | some ent =>
      obtain ⟨n, first, vals⟩ := ent
      simp only [hf] at this ⊢
      cases hv : vals.find? (·.1 = value) with
      | none => simp [hv] at this
      | some ve => exact ⟨ve.2, rfl⟩
  · -- then i addresses the dynamic table
    have hdyn : ∃ k : Nat, (absT t)[k]? = some (name, value) := by
      unfold resolve lookup at h
      split at h
      · simp at h
      · split at h
        · exact absurd (List.mem_of_getElem? h) hst
        · exact ⟨_, h⟩
    obtain ⟨k, hk⟩ := hdyn
    simp only [absT, List.getElem?_map, Option.map_eq_some_iff] at hk
    obtain ⟨e, he, hab⟩ := hk
    simp only [absE, Prod.mk.injEq] at hab
    have hperfect : ∀ p, ∃ j, searchDyn name value t.entries (Gen.staticTable.length + 1) p = some (j, true) := by
      intro p
      obtain ⟨j, hj, _⟩ := searchDyn_perfect name value t.entries _ p k e he hab.1 hab.2
      exact ⟨_, hj⟩
    cases hf : staticMapping.find? (·.1 = name) with
    | none => exact hperfect none
    | some ent =>
      obtain ⟨n, first, vals⟩ := ent
      dsimp only
      cases hv : vals.find? (·.1 = value) with
      | some ve => exact ⟨ve.2, rfl⟩
      | none => exact hperfect _

/-- **C19** (fixed `is not None` test): a field equal to an addressable entry — static or dynamic,
    empty value included — is sent as one indexed field that resolves to it, and nothing is inserted -/
theorem c19_indexed (e : EncState) (hinv : Inv e.table) (i : Nat) (name value : Bytes) (sens huff : Bool)
    (h : resolve e.table i = some (name, value)) :
    ∃ j, chosenRep true e.table name value sens = .indexed j ∧ resolve e.table j = some (name, value) ∧
      ∃ bytes e', e.add true name value sens huff = .ok (bytes, e') ∧ e'.table = e.table ∧
        bytes = reprOctets (.indexed j) (ch0 huff) := by
  obtain ⟨j, hj⟩ := search_complete e.table i name value h
  obtain ⟨ent, hres, hn, hv⟩ := search_sound e.table name value hj
  have hrep : chosenRep true e.table name value sens = .indexed j := by
    simp [chosenRep, hj]
  refine ⟨j, hrep, ?_, ?_⟩
  · rw [hres, ← hn, ← hv rfl]
  · unfold EncState.add
    simp only [hj, true_or, and_self, if_true, pure]
    refine ⟨_, e, rfl, rfl, ?_⟩
    simp only [reprOctets, ch0]
    rw [orFirst_encodeInt _ 7 0x80 (by omega) (by omega) (by decide)]

end RFC
#print axioms RFC.c19_indexed
