import HpackVerif.Generated.SrcHuffEnc
import HpackVerif.Proofs.HexLemma
import HpackVerif.Proofs.SrcTieTable
/-! The hand-written model of `HuffmanEncoder.encode` (`Impl.huffEncode`: the big-integer accumulator with the mask as
written, the padding, the hex-string round trip as big-endian octets) equals the mechanical translation of
`src/hpack/huffman.py` (`Generated/SrcHuffEnc.lean`). -/
namespace SrcTie
open Py

/-- the coder object built from a code table -/
def coderOf (codes : List (Nat × Nat)) : Src.HuffmanEncoder :=
  { f_huffman_code_list := codes.map fun c => (c.1 : Int), f_huffman_code_list_lengths := codes.map fun c => (c.2 : Int) }

theorem bor_ofNat (a b : Nat) : Py.bor (a : Int) (b : Int) = ((a ||| b : Nat) : Int) := rfl

theorem listGet_map (xs : List (Nat × Nat)) (f : Nat × Nat → Int) (i : Nat) (hi : i < xs.length) :
    Py.listGet (xs.map f) (i : Int) = .ok (f (xs.getD i (0, 0))) := by
  unfold Py.listGet Py.normIndex
  have h1 : ¬ ((i : Int) < 0) := by omega
  have h2 : (0 : Int) ≤ (i : Int) ∧ (i : Int) < ((xs.map f).length : Int) := by simp; omega
  have h3 : xs[i]? = some xs[i] := List.getElem?_eq_getElem hi
  simp [h1, hi, h3, List.getD]

theorem imod_ofNat (a b : Nat) (hb : b ≠ 0) : Py.imod (a : Int) (b : Int) = .ok ((a % b : Nat) : Int) := by
  unfold Py.imod
  have : ¬ ((b : Int) = 0) := by omega
  rw [if_neg this, Int.fmod_eq_emod_of_nonneg _ (by omega)]
  rfl

theorem ifloordiv_ofNat (a b : Nat) (hb : b ≠ 0) : Py.ifloordiv (a : Int) (b : Int) = .ok ((a / b : Nat) : Int) := by
  unfold Py.ifloordiv
  have : ¬ ((b : Int) = 0) := by omega
  rw [if_neg this, Int.fdiv_eq_ediv_of_nonneg _ (by omega)]
  rfl

theorem ipow_two (k : Nat) : Py.ipow 2 (k : Int) = .ok (((2 ^ k : Nat)) : Int) := by
  unfold Py.ipow
  have : ¬ ((k : Int) < 0) := by omega
  simp [this]

/-- the accumulation loop: translated `for byte in bytes_to_encode` = `Impl.huffAccum` -/
theorem huffenc_loop (codes : List (Nat × Nat)) (hlen : 256 ≤ codes.length) (fuel : Nat) :
    ∀ (w : Bytes) (num len : Nat),
      Src.HuffmanEncoder.encode.for1 fuel w (coderOf codes) (num : Int) (len : Int) =
        .ok (((Impl.huffAccum codes w num len).1 : Int), ((Impl.huffAccum codes w num len).2 : Int)) := by
  intro w
  induction w with
  | nil => intro num len; rfl
  | cons b bs ih =>
    intro num len
    have hb : b.toNat < codes.length := by have := b.toNat_lt; omega
    rw [Src.HuffmanEncoder.encode.for1]
    have g1 : Py.listGet (coderOf codes).f_huffman_code_list_lengths (b.toNat : Int) = .ok (((codes.getD b.toNat (0, 0)).2 : Nat) : Int) :=
      listGet_map codes (fun c => (c.2 : Int)) b.toNat hb
    have g2 : Py.listGet (coderOf codes).f_huffman_code_list (b.toNat : Int) = .ok (((codes.getD b.toNat (0, 0)).1 : Nat) : Int) :=
      listGet_map codes (fun c => (c.1 : Int)) b.toNat hb
    generalize hcl : codes.getD b.toNat (0, 0) = cl at g1 g2
    obtain ⟨c, l⟩ := cl
    simp only at g1 g2
    have hp : Py.ipow 2 ((l : Int) + 1) = .ok (((2 ^ (l + 1) : Nat)) : Int) := by
      have : (l : Int) + 1 = ((l + 1 : Nat) : Int) := by omega
      rw [this]; exact ipow_two (l + 1)
    have hone : 1 ≤ 2 ^ (l + 1) := Nat.one_le_two_pow
    have hsub : (((2 ^ (l + 1) : Nat)) : Int) - 1 = ((2 ^ (l + 1) - 1 : Nat) : Int) := by omega
    simp only [g1, g2, hp, liftR_ok, bind, Except.bind, hsub, band_ofNat, shl_ofNat, bor_ofNat]
    have hl2 : (len : Int) + (l : Int) = ((len + l : Nat) : Int) := by omega
    rw [hl2, ih]
    simp only [Impl.huffAccum, hcl]

theorem hexDigits_ofNat (n : Nat) : Py.hexDigits (n : Int) = .ok (Py.hexDigitsNat n) := by
  unfold Py.hexDigits
  have : ¬ ((n : Int) < 0) := by omega
  simp [this]

/-- **`HuffmanEncoder.encode`**: translated method = `Impl.huffEncode`, for every code table with at least 256 entries and
every byte string -/
theorem huff_encode_tie (codes : List (Nat × Nat)) (hlen : 256 ≤ codes.length) (fuel : Nat) (w : Bytes) :
    Src.HuffmanEncoder.encode fuel (coderOf codes) w = .ok (coderOf codes, Impl.huffEncode codes w) := by
  unfold Src.HuffmanEncoder.encode Impl.huffEncode
  cases w with
  | nil => simp
  | cons b bs =>
    have hne : ¬ ¬ ((b :: bs) ≠ []) := by simp
    simp only [hne, if_false, List.isEmpty_cons, Bool.false_eq_true]
    have hloop := huffenc_loop codes hlen fuel (b :: bs) 0 0
    have hz : ((0 : Nat) : Int) = (0 : Int) := rfl
    rw [hz] at hloop
    generalize hacc : Impl.huffAccum codes (b :: bs) 0 0 = acc at hloop
    obtain ⟨num, len⟩ := acc
    simp only at hloop
    simp only [hloop, bind, Except.bind]
    have h8 : ((8 : Nat) : Int) = (8 : Int) := rfl
    have h2' : ((2 : Nat) : Int) = (2 : Int) := rfl
    have m1 : Py.imod (len : Int) 8 = .ok ((len % 8 : Nat) : Int) := by rw [← h8]; exact imod_ofNat len 8 (by omega)
    have hsub : (8 : Int) - ((len % 8 : Nat) : Int) = ((8 - len % 8 : Nat) : Int) := by omega
    have m2 : Py.imod ((8 - len % 8 : Nat) : Int) 8 = .ok (((8 - len % 8) % 8 : Nat) : Int) := by rw [← h8]; exact imod_ofNat _ 8 (by omega)
    simp only [m1, liftR_ok, hsub, m2, shl_ofNat]
    have hone : ((1 : Nat) : Int) = (1 : Int) := rfl
    have s1 : Py.shl 1 (((8 - len % 8) % 8 : Nat) : Int) = .ok ((1 <<< ((8 - len % 8) % 8) : Nat) : Int) := by rw [← hone]; exact shl_ofNat 1 _
    have hge : 1 ≤ 1 <<< ((8 - len % 8) % 8) := by rw [Nat.shiftLeft_eq]; exact Nat.one_le_two_pow |> fun h => by simpa using h
    have hsub2 : ((1 <<< ((8 - len % 8) % 8) : Nat) : Int) - (1 : Int) = ((1 <<< ((8 - len % 8) % 8) - 1 : Nat) : Int) := by omega
    simp only [s1, liftR_ok, hsub2, bor_ofNat, hexDigits_ofNat]
    generalize hnum' : (num <<< ((8 - len % 8) % 8) ||| (1 <<< ((8 - len % 8) % 8) - 1)) = num'
    have m3 : Py.imod ((Py.hexDigitsNat num').length : Int) 2 = .ok (((Py.hexDigitsNat num').length % 2 : Nat) : Int) := by
      rw [← h2']; exact imod_ofNat _ 2 (by omega)
    have hadd : (len : Int) + (((8 - len % 8) % 8 : Nat) : Int) = ((len + (8 - len % 8) % 8 : Nat) : Int) := by omega
    have d1 : Py.ifloordiv ((len + (8 - len % 8) % 8 : Nat) : Int) 8 = .ok (((len + (8 - len % 8) % 8) / 8 : Nat) : Int) := by
      rw [← h8]; exact ifloordiv_ofNat _ 8 (by omega)
    simp only [m3, liftR_ok, hadd, d1]
    generalize htot : (len + (8 - len % 8) % 8) / 8 = total
    have hrt := hex_round_trip num' total
    simp only [] at hrt
    -- the string after the odd-length fix
    have hcond : ((((Py.hexDigitsNat num').length % 2 : Nat) : Int) ≠ 0) ↔ ((Py.hexDigitsNat num').length % 2 ≠ 0) := by omega
    by_cases hodd : (Py.hexDigitsNat num').length % 2 ≠ 0
    · have hodd' : (((Py.hexDigitsNat num').length % 2 : Nat) : Int) ≠ 0 := hcond.mpr hodd
      simp only [hodd, hodd', if_true, ne_eq, not_false_eq_true] at hrt ⊢
      have hlenS : (((0 :: Py.hexDigitsNat num').length : Nat) : Int) ≠ (total : Int) * 2 ↔ (0 :: Py.hexDigitsNat num').length ≠ 2 * total := by omega
      by_cases hne2 : (0 :: Py.hexDigitsNat num').length ≠ 2 * total
      · have hne2' := hlenS.mpr hne2
        simp only [hne2, hne2', if_true, ne_eq, not_false_eq_true] at hrt ⊢
        have hm : ((total : Int) * 2 - (((0 :: Py.hexDigitsNat num').length : Nat) : Int)).toNat = 2 * total - (0 :: Py.hexDigitsNat num').length := by omega
        rw [hm, hrt]; rfl
      · have hne2' : ¬ ((((0 :: Py.hexDigitsNat num').length : Nat) : Int) ≠ (total : Int) * 2) := fun h => hne2 (hlenS.mp h)
        simp only [hne2, hne2', if_false] at hrt ⊢
        rw [hrt]; rfl
    · have hodd' : ¬ ((((Py.hexDigitsNat num').length % 2 : Nat) : Int) ≠ 0) := fun h => hodd (hcond.mp h)
      simp only [hodd, hodd', if_false] at hrt ⊢
      have hlenS : (((Py.hexDigitsNat num').length : Nat) : Int) ≠ (total : Int) * 2 ↔ (Py.hexDigitsNat num').length ≠ 2 * total := by omega
      by_cases hne2 : (Py.hexDigitsNat num').length ≠ 2 * total
      · have hne2' := hlenS.mpr hne2
        simp only [hne2, hne2', if_true, ne_eq, not_false_eq_true] at hrt ⊢
        have hm : ((total : Int) * 2 - (((Py.hexDigitsNat num').length : Nat) : Int)).toNat = 2 * total - (Py.hexDigitsNat num').length := by omega
        rw [hm, hrt]; rfl
      · have hne2' : ¬ ((((Py.hexDigitsNat num').length : Nat) : Int) ≠ (total : Int) * 2) := fun h => hne2 (hlenS.mp h)
        simp only [hne2, hne2', if_false] at hrt ⊢
        rw [hrt]; rfl

end SrcTie
