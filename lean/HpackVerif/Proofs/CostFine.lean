import HpackVerif.Proofs.CostLoop
/-! C16: a finer work model of one loop iteration, built from the modelled integer loop, and the proof that
    the coarse per-iteration charge of `CostLoop` (`fieldCost`) bounds it.

`fineFieldCost` follows `decodeField` branch by branch: every prefix integer is charged by `decodeIntCost`
(the per-octet model of `decode_integer` with bigint limb work — capped ⇒ at most `intConst c`), every string by
its length integer plus one unit per payload octet actually present (`bytes(view)` / two table look-ups per
octet in `decode_huffman`), a table look-up, an insertion or a resize by one unit plus the entries popped, the
rest by a constant. `fineFieldCost ≤ fieldCost` turns `decodeCost_linear` into a bound on this finer model. -/
namespace Impl.Cost
open Impl
variable {own : Bool}

/-- reading one length-prefixed string -/
def strCost (c : Nat) (data : Bytes) : Nat :=
  decodeIntCost (some c) data 7 +
  match decodeInt (some c) data 7 with
  | .ok (len, consumed) => 1 + min len (data.length - consumed)
  | _ => 0

/-- entries popped by the field, if it succeeded -/
def evictedBy (c : Nat) (own : Bool) (st : DecState) (data : Bytes) (seen : Bool) : Nat :=
  match decodeField (some c) own st data seen with
  | .ok (_, _, st') => evicted st st'
  | _ => 0

def fineFieldCost (c : Nat) (own : Bool) (st : DecState) (data : Bytes) (seen : Bool) : Nat :=
  match data with
  | [] => 1
  | b0 :: tail =>
    let cur := b0.toNat
    if cur &&& 0x80 ≠ 0 then
      2 + decodeIntCost (some c) data 7                                  -- index, table look-up, tuple
    else if cur &&& 0x40 ≠ 0 ∨ cur &&& 0x20 = 0 then
      let si := decide (cur &&& 0x40 ≠ 0)
      let idxName := if si then cur &&& 0x3F else cur &&& 0x0F
      let N := if si then 6 else 4
      3 + (if idxName ≠ 0 then
             decodeIntCost (some c) data N +
             (match decodeInt (some c) data N with
              | .ok (_, consumed) => strCost c (data.drop consumed)
              | _ => 0)
           else
             strCost c tail +
             (match readString (some c) own tail with
              | .ok (_, cn) => strCost c (tail.drop cn)
              | _ => 0))
        + evictedBy c own st data seen
    else
      2 + decodeIntCost (some c) data 5 + evictedBy c own st data seen    -- size update: integer, resize, pops

theorem strCost_le (c : Nat) (data : Bytes) : strCost c data ≤ intConst c + 1 + data.length := by
  unfold strCost
  have := decodeIntCost_capped c data 7
  cases decodeInt (some c) data 7 with
  | ok r =>
    obtain ⟨len, consumed⟩ := r
    simp only
    have := Nat.min_le_right len (data.length - consumed)
    omega
  | err e => simp only; omega
  | esc x => simp only; omega

/-- a string that was read successfully costs its length integer plus the octets it consumed -/
theorem strCost_ok (c : Nat) (data : Bytes) {s : PyBuf} {k : Nat} (h : readString (some c) own data = .ok (s, k)) :
    strCost c data ≤ intConst c + 1 + k := by
  unfold strCost
  have hi := decodeIntCost_capped c data 7
  unfold readString at h
  cases hd : decodeInt (some c) data 7 with
  | ok r =>
    obtain ⟨len, consumed⟩ := r
    simp only [hd, bind] at h ⊢
    split at h
    · cases h
    · rename_i hlen
      have hk : k = consumed + len := by
        cases data with
        | nil => simp at h
        | cons b0 tl =>
          simp only at h
          split at h
          · cases hh : huffDecodeBuf (List.take len (List.drop consumed (b0 :: tl))) with
            | ok sb => rw [hh] at h; simp only [pure, Out.ok.injEq, Prod.mk.injEq] at h; exact h.2.symm
            | err e => rw [hh] at h; cases h
            | esc x => rw [hh] at h; cases h
          · simp only [pure, Out.ok.injEq, Prod.mk.injEq] at h; exact h.2.symm
      have := Nat.min_le_left len (data.length - consumed)
      omega
  | err e => simp [hd, bind] at h
  | esc x => simp [hd, bind] at h

theorem evictedBy_eq (c : Nat) (st : DecState) (data : Bytes) (seen : Bool) {oh : Option Header} {k : Nat} {st' : DecState}
    (h : decodeField (some c) own st data seen = .ok (oh, k, st')) : evictedBy c own st data seen = evicted st st' := by
  unfold evictedBy; rw [h]

theorem evictedBy_fail (c : Nat) (st : DecState) (data : Bytes) (seen : Bool)
    (h : ∀ r, decodeField (some c) own st data seen ≠ .ok r) : evictedBy c own st data seen = 0 := by
  unfold evictedBy
  cases hd : decodeField (some c) own st data seen with
  | ok r => exact absurd hd (h r)
  | err e => rfl
  | esc x => rfl

/-- the literal branch: cost of name and value parts against what the branch consumed -/
theorem literal_parts_le (c : Nat) (t : Table) (b0 : UInt8) (tail : Bytes) (si : Bool) :
    let cur := b0.toNat
    let idxName := if si then cur &&& 0x3F else cur &&& 0x0F
    let N := if si then 6 else 4
    let parts := (if idxName ≠ 0 then
             decodeIntCost (some c) (b0 :: tail) N +
             (match decodeInt (some c) (b0 :: tail) N with
              | .ok (_, consumed) => strCost c ((b0 :: tail).drop consumed)
              | _ => 0)
           else
             strCost c tail +
             (match readString (some c) own tail with
              | .ok (_, cn) => strCost c (tail.drop cn)
              | _ => 0))
    (∀ h k t', decodeLiteral (some c) own t (b0 :: tail) si = .ok (h, k, t') → parts ≤ 2 * intConst c + 2 + k) ∧
    parts ≤ 2 * intConst c + 2 + (b0 :: tail).length := by
  intro cur idxName N parts
  have hN : N = (if si then 6 else 4) := rfl
  by_cases hin : idxName ≠ 0
  · -- indexed name
    have hparts : parts = decodeIntCost (some c) (b0 :: tail) N +
        (match decodeInt (some c) (b0 :: tail) N with
          | .ok (_, consumed) => strCost c ((b0 :: tail).drop consumed)
          | _ => 0) := by
      show (if idxName ≠ 0 then _ else _) = _
      rw [if_pos hin]
    have hic := decodeIntCost_capped c (b0 :: tail) N
    constructor
    · intro h k t' hd
      rw [hparts]
      unfold decodeLiteral at hd
      simp only at hd
      have htrip : (if si = true then (b0.toNat &&& 0x3F, 6, false)
          else (b0.toNat &&& 0x0F, 4, decide (b0.toNat &&& 0x10 ≠ 0))).1 = idxName := by
        cases si <;> rfl
      have htrip2 : (if si = true then (b0.toNat &&& 0x3F, 6, false)
          else (b0.toNat &&& 0x0F, 4, decide (b0.toNat &&& 0x10 ≠ 0))).2.1 = N := by
        cases si <;> rfl
      generalize htr : (if si = true then (b0.toNat &&& 0x3F, 6, false)
          else (b0.toNat &&& 0x0F, 4, decide (b0.toNat &&& 0x10 ≠ 0))) = trip at hd htrip htrip2
      obtain ⟨i1, n1, ni⟩ := trip
      simp only at htrip htrip2 hd
      subst htrip; subst htrip2
      rw [if_pos hin] at hd
      cases hdi : decodeInt (some c) (b0 :: tail) N with
      | err e => simp [hdi, bind] at hd
      | esc x => simp [hdi, bind] at hd
      | ok r =>
        obtain ⟨index, consumed⟩ := r
        simp only [hdi, bind, pure] at hd ⊢
        cases hg : t.getByIndex index with
        | err e => simp [hg] at hd
        | esc x => simp [hg] at hd
        | ok ent =>
          simp only [hg] at hd
          cases hr : readString (some c) own (List.drop consumed (b0 :: tail)) with
          | err e => simp [hr, bind] at hd
          | esc x => simp [hr, bind] at hd
          | ok rv =>
            obtain ⟨value, c2⟩ := rv
            have hs := strCost_ok (own := own) c _ hr
            simp only [hr, bind, pure] at hd
            have hk : k = consumed + c2 := by
              cases si with
              | true =>
                simp only [if_true] at hd
                cases ha : t.add ent.1 value with
                | ok t2 => rw [ha] at hd; simp only [Out.ok.injEq, Prod.mk.injEq] at hd; exact hd.2.1.symm
                | err e => rw [ha] at hd; cases hd
                | esc x => rw [ha] at hd; cases hd
              | false =>
                simp only [Bool.false_eq_true, if_false, Out.ok.injEq, Prod.mk.injEq] at hd; exact hd.2.1.symm
            omega
    · rw [hparts]
      cases hdi : decodeInt (some c) (b0 :: tail) N with
      | err e => simp only; omega
      | esc x => simp only; omega
      | ok r =>
        obtain ⟨index, consumed⟩ := r
        simp only
        have := strCost_le c (List.drop consumed (b0 :: tail))
        have hl : (List.drop consumed (b0 :: tail)).length ≤ (b0 :: tail).length := by simp
        omega
  · -- literal name
    have hin0 : idxName = 0 := by
      by_contra h; exact hin h
    have hparts : parts = strCost c tail +
        (match readString (some c) own tail with
          | .ok (_, cn) => strCost c (tail.drop cn)
          | _ => 0) := by
      show (if idxName ≠ 0 then _ else _) = _
      rw [if_neg hin]
    constructor
    · intro h k t' hd
      rw [hparts]
      unfold decodeLiteral at hd
      simp only at hd
      have htrip : (if si = true then (b0.toNat &&& 0x3F, 6, false)
          else (b0.toNat &&& 0x0F, 4, decide (b0.toNat &&& 0x10 ≠ 0))).1 = idxName := by
        cases si <;> rfl
      generalize htr : (if si = true then (b0.toNat &&& 0x3F, 6, false)
          else (b0.toNat &&& 0x0F, 4, decide (b0.toNat &&& 0x10 ≠ 0))) = trip at hd htrip
      obtain ⟨i1, n1, ni⟩ := trip
      simp only at htrip hd
      subst htrip
      rw [if_neg hin] at hd
      cases hr1 : readString (some c) own tail with
      | err e => simp [hr1, bind] at hd
      | esc x => simp [hr1, bind] at hd
      | ok r1 =>
        obtain ⟨nameb, c1⟩ := r1
        have hs1 := strCost_ok (own := own) c _ hr1
        simp only [hr1, bind, pure] at hd ⊢
        cases hr2 : readString (some c) own (List.drop c1 tail) with
        | err e => simp [hr2, bind] at hd
        | esc x => simp [hr2, bind] at hd
        | ok r2 =>
          obtain ⟨value, c2⟩ := r2
          have hs2 := strCost_ok (own := own) c _ hr2
          simp only [hr2, bind, pure] at hd
          have hk : k = c1 + 1 + c2 := by
            cases si with
            | true =>
              simp only [if_true] at hd
              cases ha : t.add nameb value with
              | ok t2 => rw [ha] at hd; simp only [Out.ok.injEq, Prod.mk.injEq] at hd; exact hd.2.1.symm
              | err e => rw [ha] at hd; cases hd
              | esc x => rw [ha] at hd; cases hd
            | false =>
              simp only [Bool.false_eq_true, if_false, Out.ok.injEq, Prod.mk.injEq] at hd; exact hd.2.1.symm
          omega
    · rw [hparts]
      cases hr1 : readString (some c) own tail with
      | err e => simp only; have := strCost_le c tail; simp only [List.length_cons]; omega
      | esc x => simp only; have := strCost_le c tail; simp only [List.length_cons]; omega
      | ok r1 =>
        obtain ⟨nameb, c1⟩ := r1
        simp only
        have hs1 := strCost_ok (own := own) c _ hr1
        have hk := readString_consumed (own := own) c tail hr1
        have := strCost_le c (List.drop c1 tail)
        have hl : (List.drop c1 tail).length = tail.length - c1 := by simp
        simp only [List.length_cons]
        omega

/-- **the coarse charge bounds the fine model**, on every input -/
theorem fine_le_coarse (c : Nat) (hc : CapOK c) (st : DecState) (hinv : Inv st.table) (data : Bytes) (hne : data ≠ []) (seen : Bool) :
    fineFieldCost c own st data seen ≤ fieldCost c own st data seen := by
  cases data with
  | nil => exact absurd rfl hne
  | cons b0 tail =>
    have hsafe := (decodeField_safe (own := own) c hc st hinv (b0 :: tail) hne seen).2
    have hI7 := decodeIntCost_capped c (b0 :: tail) 7
    have hI5 := decodeIntCost_capped c (b0 :: tail) 5
    unfold fineFieldCost fieldCost fieldOverhead
    simp only
    by_cases h80 : b0.toNat &&& 0x80 ≠ 0
    · rw [if_pos h80]
      cases hf : decodeField (some c) own st (b0 :: tail) seen with
      | ok r =>
        obtain ⟨oh, k, st'⟩ := r
        obtain ⟨hk1, _⟩ := hsafe oh k st' hf
        simp only; omega
      | err e => simp only [List.length_cons]; omega
      | esc x => simp only [List.length_cons]; omega
    · rw [if_neg h80]
      by_cases hlit : b0.toNat &&& 0x40 ≠ 0 ∨ b0.toNat &&& 0x20 = 0
      · rw [if_pos hlit]
        obtain ⟨hok, hfail⟩ := literal_parts_le (own := own) c st.table b0 tail (decide (b0.toNat &&& 0x40 ≠ 0))
        cases hf : decodeField (some c) own st (b0 :: tail) seen with
        | ok r =>
          obtain ⟨oh, k, st'⟩ := r
          rw [evictedBy_eq c st _ seen hf]
          -- the field's consumed count is the literal branch's
          have hl : ∃ h t', decodeLiteral (some c) own st.table (b0 :: tail) (decide (b0.toNat &&& 0x40 ≠ 0)) = .ok (h, k, t') := by
            unfold decodeField at hf
            simp only [if_neg h80, if_pos hlit, bind] at hf
            split at hf
            · rename_i a heq
              obtain ⟨h, kk, t'⟩ := a
              simp only [pure, Out.ok.injEq, Prod.mk.injEq] at hf
              refine ⟨h, t', ?_⟩
              rw [← hf.2.1]; exact heq
            · cases hf
            · cases hf
          obtain ⟨h, t', hd⟩ := hl
          have := hok h k t' hd
          simp only; omega
        | err e =>
          rw [evictedBy_fail c st _ seen (by intro r hr; rw [hf] at hr; cases hr)]
          simp only; omega
        | esc x =>
          rw [evictedBy_fail c st _ seen (by intro r hr; rw [hf] at hr; cases hr)]
          simp only; omega
      · rw [if_neg hlit]
        cases hf : decodeField (some c) own st (b0 :: tail) seen with
        | ok r =>
          obtain ⟨oh, k, st'⟩ := r
          obtain ⟨hk1, _⟩ := hsafe oh k st' hf
          rw [evictedBy_eq c st _ seen hf]
          simp only; omega
        | err e =>
          rw [evictedBy_fail c st _ seen (by intro r hr; rw [hf] at hr; cases hr)]
          simp only [List.length_cons]; omega
        | esc x =>
          rw [evictedBy_fail c st _ seen (by intro r hr; rw [hf] at hr; cases hr)]
          simp only [List.length_cons]; omega

end Impl.Cost
