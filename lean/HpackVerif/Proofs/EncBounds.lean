import HpackVerif.Proofs.Connection
import HpackVerif.Proofs.IntExtra
import HpackVerif.Proofs.Complete2
import HpackVerif.Proofs.C09
/-! Discharging `RepOK` for what the Encoder emits: under plain size bounds (strings shorter than 2^56
    octets, table sizes below 2^60 — far beyond anything a process can hold) every integer the encoder
    writes stays within the decoder's integer cap, provided the cap admits 64-bit values. This turns the
    technical hypothesis of the round-trip theorems into one about sizes. -/
namespace RFC
open Impl

/-- the cap admits every value below 2^64 written without redundant zeros -/
def Cap64 (cap : Option Nat) : Prop := ∀ c, cap = some c → 63 ≤ c

theorem intOK_of_lt (cap : Option Nat) (hc : Cap64 cap) (N v : Nat) (hv : v < 2 ^ 64) : IntOK cap N v 0 := by
  intro c hcap _
  have h1 : v - (2 ^ N - 1) < 128 ^ (9 + 1) := by
    have : (2:Nat) ^ 64 ≤ 128 ^ 10 := by decide
    omega
  have := digits_length_le 9 _ h1
  have := hc c hcap
  omega

theorem codes_len_le : Gen.codes.all (fun p => p.2 ≤ 30) = true := by decide +kernel

theorem codeBits_length_le (s : Nat) : (codeBits Gen.codes s).length ≤ 30 := by
  unfold codeBits
  cases h : Gen.codes[s]? with
  | none => simp
  | some p =>
    obtain ⟨c, l⟩ := p
    simp only [bitsOf_length]
    have hm : (c, l) ∈ Gen.codes := List.mem_of_getElem? h
    have := codes_len_le
    rw [List.all_eq_true] at this
    simpa using this (c, l) hm

theorem huffBits_length_le (syms : List Nat) : (huffBits Gen.codes syms).length ≤ 30 * syms.length := by
  induction syms with
  | nil => simp [huffBits]
  | cons s rest ih =>
    simp only [huffBits, List.flatMap_cons, List.length_append, List.length_cons] at ih ⊢
    have := codeBits_length_le s
    omega

/-- a Huffman-coded string is at most four times as long as the string (codes have at most 30 bits) -/
theorem huffEncode_length_le (s : Bytes) : (huffEncode Gen.codes s).length ≤ 4 * s.length + 1 := by
  have h := gen_huffEncode_bits s
  obtain ⟨h1, h2⟩ := h
  have hl := congrArg List.length h1
  rw [bytesBits_length] at hl
  simp only [List.length_append, List.length_replicate] at hl
  have := huffBits_length_le (s.map (·.toNat))
  simp only [List.length_map] at this
  omega

theorem strOK_of_short (cap : Option Nat) (hc : Cap64 cap) (huff : Bool) (s : Bytes) (hs : s.length < 2 ^ 56) :
    StrOK cap ⟨huff, 0⟩ s := by
  unfold StrOK
  apply intOK_of_lt cap hc
  cases huff with
  | true =>
    simp only [if_true]
    have := huffEncode_length_le s
    have : (2:Nat) ^ 56 * 4 + 1 < 2 ^ 64 := by decide
    omega
  | false =>
    simp only [Bool.false_eq_true, if_false]
    have : (2:Nat) ^ 56 < 2 ^ 64 := by decide
    omega

/-- an index reported by `search` is at least 1 and at most 61 + the number of dynamic entries -/
theorem search_index_bounds (t : Table) (name value : Bytes) {idx : Nat} {perfect : Bool}
    (h : t.search name value = some (idx, perfect)) : 1 ≤ idx ∧ idx ≤ Gen.staticTable.length + t.entries.length := by
  obtain ⟨e, hres, _, _⟩ := search_sound t name value h
  unfold resolve lookup at hres
  by_cases h0 : idx = 0
  · simp [h0] at hres
  · rw [if_neg h0] at hres
    refine ⟨by omega, ?_⟩
    by_cases h1 : idx - 1 < Gen.staticTable.length
    · omega
    · rw [if_neg h1] at hres
      simp only [absT, List.getElem?_map, Option.map_eq_some_iff] at hres
      obtain ⟨e', he', _⟩ := hres
      have : idx - 1 - Gen.staticTable.length < t.entries.length := by
        by_contra hc
        rw [List.getElem?_eq_none (by omega)] at he'
        cases he'
      omega

theorem entries_length_le (t : Table) (h : Inv t) : 32 * t.entries.length ≤ t.maxsize := by
  have hb := h.bounded
  have : 32 * t.entries.length ≤ tsize t.entries := by
    generalize t.entries = l
    induction l with
    | nil => simp
    | cons e es ih =>
      have := entrySize_pos e
      simp only [List.length_cons, tsize_cons]
      omega
  omega

theorem small_lt_printable (i : Nat) (h : i < 2 ^ 64) : i < 10 ^ maxStrDigits := by
  have : (2:Nat) ^ 64 < 10 ^ maxStrDigits := by unfold maxStrDigits; decide +kernel
  omega

/-- the representation chosen for one field is within the cap -/
theorem chosenRep_ok (cap : Option Nat) (hc : Cap64 cap) (t : Table) (hinv : Inv t) (hmax : t.maxsize < 2 ^ 60)
    (n v : Bytes) (s huff : Bool) (hn : n.length < 2 ^ 56) (hv : v.length < 2 ^ 56) :
    RepOK cap (chosenRep true t n v s) (ch0 huff) := by
  have hlen := entries_length_le t hinv
  have hst : Gen.staticTable.length = 61 := by decide
  unfold chosenRep
  cases hs : t.search n v with
  | none =>
    simp only [RepOK, ch0]
    exact ⟨strOK_of_short cap hc huff n hn, strOK_of_short cap hc huff v hv⟩
  | some r =>
    obtain ⟨idx, perfect⟩ := r
    obtain ⟨h1, h2⟩ := search_index_bounds t n v hs
    have hidx : idx < 2 ^ 64 := by
      have : (2:Nat) ^ 60 + 61 < 2 ^ 64 := by decide
      omega
    simp only
    split
    · simp only [RepOK, ch0]
      exact ⟨intOK_of_lt cap hc 7 idx hidx, small_lt_printable idx hidx⟩
    · simp only [RepOK, ch0]
      exact ⟨h1, intOK_of_lt cap hc _ idx hidx, small_lt_printable idx hidx, strOK_of_short cap hc huff v hv⟩

/-- **everything `encode` emits for a header list is within the cap**, given plain size bounds -/
theorem encReps_ok (cap : Option Nat) (hc : Cap64 cap) (huff : Bool) (hs : List (Bytes × Bytes × Bool))
    (e : EncState) (hinv : Inv e.table) (hmax : e.table.maxsize < 2 ^ 60)
    (hstr : ∀ h ∈ hs, h.1.length < 2 ^ 56 ∧ h.2.1.length < 2 ^ 56) :
    ∀ rc ∈ encReps true huff e hs, RepOK cap rc.1 rc.2 := by
  induction hs generalizing e with
  | nil => intro rc h; simp [encReps] at h
  | cons hd rest ih =>
    obtain ⟨n, v, s⟩ := hd
    obtain ⟨b, e', ha, _, hi', _, hm', _⟩ := add_emits true e hinv n v s huff
    intro rc hrc
    unfold encReps at hrc
    rw [ha] at hrc
    simp only [List.mem_cons] at hrc
    obtain ⟨hn, hv⟩ := hstr (n, v, s) (by simp)
    rcases hrc with rfl | hrc
    · exact chosenRep_ok cap hc e.table hinv hmax n v s huff hn hv
    · exact ih e' hi' (by rw [hm']; exact hmax) (fun h hm => hstr h (by simp [hm])) rc hrc

theorem updReps_ok (cap : Option Nat) (hc : Cap64 cap) (vs : List Nat) (h : ∀ v ∈ vs, v < 2 ^ 64) :
    ∀ rc ∈ updReps vs, RepOK cap rc.1 rc.2 := by
  intro rc hrc
  simp only [updReps, List.mem_map] at hrc
  obtain ⟨v, hv, rfl⟩ := hrc
  simp only [RepOK, ch0]
  exact intOK_of_lt cap hc 5 v (h v hv)

/-- size-level side conditions of a connection history: every assigned table size is admitted by the
    decoder (and below 2^60), every list fits the decoder's limit, every string is shorter than 2^56 -/
def SizesOK (allowed limit : Nat) : List ConnOp → Prop
  | [] => True
  | .setSize n :: ops => n ≤ allowed ∧ n < 2 ^ 60 ∧ SizesOK allowed limit ops
  | .block hs _ :: ops =>
    listSize hs ≤ limit ∧ (∀ h ∈ hs, h.1.length < 2 ^ 56 ∧ h.2.1.length < 2 ^ 56) ∧ SizesOK allowed limit ops

/-- `SizesOK` implies the technical `OpsOK` of the round-trip theorem, from any consistent encoder state
    whose own sizes are small -/
theorem opsOK_of_sizesOK (cap : Option Nat) (hc : Cap64 cap) (allowed limit : Nat) (ops : List ConnOp)
    (e : EncState) (hok : EncOK e) (hmax : e.table.maxsize < 2 ^ 60) (hch : ∀ v ∈ e.changes, v < 2 ^ 60)
    (h : SizesOK allowed limit ops) : OpsOK cap allowed limit e ops := by
  induction ops generalizing e with
  | nil => trivial
  | cons op rest ih =>
    cases op with
    | setSize n =>
      obtain ⟨h1, h2, h3⟩ := h
      refine ⟨h1, ?_⟩
      intro e' he'
      obtain ⟨hm', hc'⟩ := setSize_changes e hok n he'
      have hok' : EncOK e' := by
        obtain ⟨e2, hr, hok2, _⟩ := setSizes_signalled e hok [n]
        simp only [setSizes, he'] at hr
        cases hr; exact hok2
      apply ih e' hok' (by rw [hm']; exact h2)
      · intro v hv
        rw [hc'] at hv
        split at hv
        · exact hch v hv
        · simp only [List.mem_append, List.mem_singleton] at hv
          rcases hv with hv | rfl
          · exact hch v hv
          · exact h2
      · exact h3
    | block hs huff =>
      obtain ⟨h1, h2, h3⟩ := h
      refine ⟨h1, ?_, ?_⟩
      · intro rc hrc
        simp only [List.mem_append] at hrc
        rcases hrc with hrc | hrc
        · exact updReps_ok cap hc e.changes (fun v hv => by
            have := hch v hv
            have : (2:Nat) ^ 60 < 2 ^ 64 := by decide
            omega) rc hrc
        · exact encReps_ok cap hc huff hs ⟨{ e.table with resized := false }, []⟩ ⟨hok.inv.cached, hok.inv.bounded⟩ hmax h2 rc hrc
      · intro b e' he'
        -- after a block nothing is pending and the maximum is unchanged
        have hinv0 : Inv ({ e.table with resized := false } : Table) := ⟨hok.inv.cached, hok.inv.bounded⟩
        have key : EncOK e' ∧ e'.changes = [] ∧ e'.table.maxsize = e.table.maxsize := by
          unfold EncState.encode at he'
          by_cases hr : e.table.resized = true
          · simp only [hr, if_true, bind] at he'
            rw [encode_go_eq] at he'
            obtain ⟨e2, hl, hi2, hc2, hm2, hr2, _⟩ :=
              encLoop_emits true huff ⟨{ e.table with resized := false }, []⟩ hinv0
                (e.changes.flatMap fun n => orFirst (encodeInt n 5) 0x20) hs e.table.maxsize (listSize hs) [] 0 (by omega) (Nat.le_refl _)
            rw [hl] at he'
            simp only [Out.ok.injEq, Prod.mk.injEq] at he'
            obtain ⟨_, rfl⟩ := he'
            exact ⟨⟨hi2, by simp [hr2, hc2]⟩, hc2, hm2⟩
          · have hr' : e.table.resized = false := by simpa using hr
            have hc0 : e.changes = [] := by
              by_contra hne
              have := hok.flag.mpr hne
              rw [hr'] at this; exact absurd this (by simp)
            simp only [hr', Bool.false_eq_true, if_false, bind] at he'
            rw [encode_go_eq] at he'
            obtain ⟨e2, hl, hi2, hc2, hm2, hr2, _⟩ :=
              encLoop_emits true huff e hok.inv [] hs e.table.maxsize (listSize hs) [] 0 (by omega) (Nat.le_refl _)
            rw [hl] at he'
            simp only [Out.ok.injEq, Prod.mk.injEq] at he'
            obtain ⟨_, rfl⟩ := he'
            exact ⟨⟨hi2, by simp [hr2, hr', hc2, hc0]⟩, by rw [hc2, hc0], hm2⟩
        obtain ⟨hok', hch', hm'⟩ := key
        exact ih e' hok' (by rw [hm']; exact hmax) (by rw [hch']; simp) h3

end RFC
