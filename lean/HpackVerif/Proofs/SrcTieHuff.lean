import HpackVerif.Generated.SrcHuff
import HpackVerif.Proofs.SrcTieInt
import HpackVerif.Impl.Huff
/-! The hand-written model of `decode_huffman` (`Impl.huffDecode`: two table look-ups per octet, FAIL before EMIT,
COMPLETE of the last transition) equals the mechanical translation of `src/hpack/huffman_table.py`
(`Generated/SrcHuff.lean`). The Python indexes one flat list of 4 096 triples with `state * 16 + nibble`; the model
indexes 256 rows of 16: equal because every row has 16 entries. -/
namespace SrcTie
open Py

def castT (e : Nat × Nat × Nat) : Int × Int × Int := ((e.1 : Int), (e.2.1 : Int), (e.2.2 : Int))

def Uniform (tbl : Impl.Tbl) : Prop := ∀ row ∈ tbl, row.length = 16
def OutOK (tbl : Impl.Tbl) : Prop := ∀ row ∈ tbl, ∀ e ∈ row, e.2.2 < 256

theorem flat_get (tbl : Impl.Tbl) (hu : Uniform tbl) (s x : Nat) (hx : x < 16) :
    tbl.flatten[s * 16 + x]? = (tbl[s]?).bind (·[x]?) := by
  induction tbl generalizing s with
  | nil => simp
  | cons row rest ih =>
    have hrow : row.length = 16 := hu row (by simp)
    have hrest : Uniform rest := fun r hr => hu r (by simp [hr])
    cases s with
    | zero =>
      simp only [List.flatten_cons, Nat.zero_mul, Nat.zero_add, List.getElem?_cons_zero, Option.bind_some]
      rw [List.getElem?_append_left (by omega)]
    | succ s' =>
      simp only [List.flatten_cons, List.getElem?_cons_succ]
      rw [List.getElem?_append_right (by omega)]
      have : (s' + 1) * 16 + x - row.length = s' * 16 + x := by omega
      rw [this]
      exact ih hrest s'

theorem ok_bind {α β} (a : α) (f : α → R β) : Except.bind (Except.ok a) f = f a := rfl
theorem err_bind {α β} (e : Exc) (f : α → R β) : Except.bind (Except.error e : R α) f = .error e := rfl
theorem bind_ite {α β} (c : Prop) [Decidable c] (a b : R α) (k : α → R β) :
    Except.bind (if c then a else b) k = if c then Except.bind a k else Except.bind b k := by
  split <;> rfl
theorem bind_bind {α β γ} (x : R α) (f : α → R β) (k : β → R γ) :
    Except.bind (Except.bind x f) k = Except.bind x fun a => Except.bind (f a) k := by
  cases x <;> rfl

/-- one table look-up with its flag handling, as it appears (twice) in the translated loop body -/
def srcNibble (tbl : Impl.Tbl) (state x : Int) (dec : List UInt8) : R (Int × Int × List UInt8) :=
  Except.bind (Py.seqGet (tbl.flatten.map castT) (state * 16 + x)) fun t =>
    if Py.band t.2.1 4 ≠ 0 then .error .hpackDecodingError
    else if Py.band t.2.1 2 ≠ 0 then
      Except.bind (Py.bytesAppend dec t.2.2) fun d => .ok (t.1, t.2.1, d)
    else .ok (t.1, t.2.1, dec)

def resToR {α} : Impl.Res α → R α
  | .ok a => .ok a
  | .decodingError => .error .hpackDecodingError
  | .indexError => .error .indexError

def castN (r : Nat × Nat × List Nat) : Int × Int × List UInt8 := ((r.1 : Int), (r.2.1 : Int), r.2.2.map UInt8.ofNat)

def mapRes {α β} (f : α → β) : Impl.Res α → Impl.Res β
  | .ok a => .ok (f a)
  | .decodingError => .decodingError
  | .indexError => .indexError

theorem seqGet_none {α} (xs : List α) (i : Nat) (h : xs[i]? = none) : Py.seqGet xs (i : Int) = .error .indexError := by
  have hlen : xs.length ≤ i := by
    apply Classical.byContradiction; intro hc
    have := List.getElem?_eq_getElem (l := xs) (i := i) (by omega)
    rw [h] at this; cases this
  unfold Py.seqGet Py.normIndex
  have h1 : ¬ ((i : Int) < 0) := by omega
  have h3 : ¬ (i < xs.length) := by omega
  simp [h1, h3]

theorem seqGet_some {α} (xs : List α) (i : Nat) (x : α) (h : xs[i]? = some x) : Py.seqGet xs (i : Int) = .ok x := by
  have hlt : i < xs.length := by
    apply Classical.byContradiction; intro hc
    have : xs[i]? = none := List.getElem?_eq_none (by omega)
    rw [this] at h; cases h
  unfold Py.seqGet Py.normIndex
  have h1 : ¬ ((i : Int) < 0) := by omega
  have h2 : (0 : Int) ≤ (i : Int) ∧ (i : Int) < (xs.length : Int) := by omega
  simp [h1, h2, h]

theorem srcNibble_tie (tbl : Impl.Tbl) (hu : Uniform tbl) (ho : OutOK tbl) (state x : Nat) (hx : x < 16) (out : List Nat) :
    srcNibble tbl (state : Int) (x : Int) (out.map UInt8.ofNat) = resToR (mapRes castN (Impl.nibble tbl state x out)) := by
  unfold srcNibble Impl.nibble
  have hidx : (state : Int) * 16 + (x : Int) = ((state * 16 + x : Nat) : Int) := by omega
  rw [hidx]
  have hflat := flat_get tbl hu state x hx
  cases hrow : tbl[state]? with
  | none =>
    rw [hrow] at hflat
    have hnone : (tbl.flatten.map castT)[state * 16 + x]? = none := by rw [List.getElem?_map, hflat]; rfl
    rw [seqGet_none _ _ hnone]
    rfl
  | some row =>
    rw [hrow] at hflat
    simp only [Option.bind_some] at hflat
    cases he : row[x]? with
    | none =>
      rw [he] at hflat
      have hnone : (tbl.flatten.map castT)[state * 16 + x]? = none := by rw [List.getElem?_map, hflat]; rfl
      rw [seqGet_none _ _ hnone]
      simp only [he]
      rfl
    | some e =>
      rw [he] at hflat
      obtain ⟨s', fl, ob⟩ := e
      have hsome : (tbl.flatten.map castT)[state * 16 + x]? = some (castT (s', fl, ob)) := by rw [List.getElem?_map, hflat]; rfl
      rw [seqGet_some _ _ _ hsome, ok_bind]
      have hmem_row : row ∈ tbl := List.mem_of_getElem? hrow
      have hmem_e : (s', fl, ob) ∈ row := List.mem_of_getElem? he
      have hob : ob < 256 := ho row hmem_row _ hmem_e
      simp only [castT]
      have hb4 : Py.band (fl : Int) 4 = ((fl &&& 4 : Nat) : Int) := band_ofNat fl 4
      have hb2 : Py.band (fl : Int) 2 = ((fl &&& 2 : Nat) : Int) := band_ofNat fl 2
      simp only [hb4, hb2, he]
      by_cases h4 : fl &&& 4 = 0
      · have h4' : ¬ (((fl &&& 4 : Nat) : Int) ≠ 0) := by omega
        simp only [h4', if_false, h4, bne_self_eq_false, Bool.false_eq_true]
        by_cases h2 : fl &&& 2 = 0
        · have h2' : ¬ (((fl &&& 2 : Nat) : Int) ≠ 0) := by omega
          simp [h2', h2, resToR, mapRes, castN]
        · have h2' : ((fl &&& 2 : Nat) : Int) ≠ 0 := by omega
          have happ : Py.bytesAppend (out.map UInt8.ofNat) (ob : Int) = .ok ((out ++ [ob]).map UInt8.ofNat) := by
            unfold Py.bytesAppend
            have : (0 : Int) ≤ (ob : Int) ∧ (ob : Int) < 256 := by omega
            simp [this]
          simp [h2', h2, happ, ok_bind, resToR, mapRes, castN]
      · have h4' : ((fl &&& 4 : Nat) : Int) ≠ 0 := by omega
        simp [h4', h4, resToR, mapRes]

theorem cFAIL : Src.c_HUFFMAN_FAIL = 4 := rfl
theorem cEMIT : Src.c_HUFFMAN_EMIT_SYMBOL = 2 := rfl
theorem cCOMPLETE : Src.c_HUFFMAN_COMPLETE = 1 := rfl
theorem table_is_generated : Src.c_HUFFMAN_TABLE = Gen.huffTable.flatten.map castT := rfl

/-- the translated loop body is two table look-ups (high nibble, low nibble) and the recursive call -/
theorem for1_cons (tbl : Impl.Tbl) (htbl : Src.c_HUFFMAN_TABLE = tbl.flatten.map castT) (fuel : Nat)
    (b : UInt8) (bs : List UInt8) (state flags : Int) (dec : List UInt8) :
    Src.decode_huffman.for1 fuel (b :: bs) state flags dec =
      Except.bind (srcNibble tbl state ((b.toNat >>> 4 : Nat) : Int) dec) fun r1 =>
        Except.bind (srcNibble tbl r1.1 (Py.band (b.toNat : Int) 15) r1.2.2) fun r2 =>
          Src.decode_huffman.for1 fuel bs r2.1 r2.2.1 r2.2.2 := by
  rw [Src.decode_huffman.for1]
  have hs : Py.shr (b.toNat : Int) 4 = .ok ((b.toNat >>> 4 : Nat) : Int) := shr_ofNat _ 4
  simp only [hs, bind, ok_bind, err_bind, bind_ite, bind_bind, srcNibble, htbl, cFAIL, cEMIT]
  rfl

set_option maxRecDepth 100000 in
theorem gen_uniform : Uniform Gen.huffTable := by
  have h : (Gen.huffTable.all fun r => r.length == 16) = true := by decide +kernel
  intro row hrow
  have := List.all_eq_true.mp h row hrow
  simpa using this

set_option maxRecDepth 100000 in
theorem gen_outOK_bool : (Gen.huffTable.all fun r => r.all fun e => Nat.ble (e.2.2 + 1) 256) = true := by decide +kernel

theorem gen_outOK : OutOK Gen.huffTable := by
  intro row hrow e he
  have := List.all_eq_true.mp (List.all_eq_true.mp gen_outOK_bool row hrow) e he
  have h2 : e.2.2 + 1 ≤ 256 := Nat.le_of_ble_eq_true this
  omega

def castL (r : Nat × List Nat) : Int × List UInt8 := ((r.1 : Int), r.2.map UInt8.ofNat)

/-- the octet loop: translated `for input_byte in huffman_string` = `Impl.loop`, from every state -/
theorem for1_tie (tbl : Impl.Tbl) (htbl : Src.c_HUFFMAN_TABLE = tbl.flatten.map castT) (hu : Uniform tbl) (ho : OutOK tbl) (fuel : Nat) :
    ∀ (w : List UInt8) (state flags : Nat) (out : List Nat),
    (Src.decode_huffman.for1 fuel w (state : Int) (flags : Int) (out.map UInt8.ofNat)).map (fun r => (r.2.1, r.2.2)) =
      resToR (mapRes castL (Impl.loop tbl w state flags out)) := by
  intro w
  induction w with
  | nil => intro state flags out; simp only [Src.decode_huffman.for1, Impl.loop, Except.map, resToR, mapRes, castL]
  | cons b bs ih =>
    intro state flags out
    rw [for1_cons tbl htbl fuel]
    have hb : b.toNat < 256 := b.toNat_lt
    have hx1 : b.toNat >>> 4 = b.toNat / 16 := by simp [Nat.shiftRight_eq_div_pow]
    have hx2 : Py.band (b.toNat : Int) 15 = ((b.toNat % 16 : Nat) : Int) := by
      have : Py.band (b.toNat : Int) 15 = ((b.toNat &&& 15 : Nat) : Int) := band_ofNat _ 15
      rw [this]
      have : b.toNat &&& 15 = b.toNat % 16 := Nat.and_two_pow_sub_one_eq_mod b.toNat 4
      rw [this]
    rw [hx1, hx2, srcNibble_tie tbl hu ho state (b.toNat / 16) (by omega) out]
    rw [Impl.loop]
    cases h1 : Impl.nibble tbl state (b.toNat / 16) out with
    | decodingError => simp only [resToR, mapRes, err_bind, Except.map]
    | indexError => simp only [resToR, mapRes, err_bind, Except.map]
    | ok r1 =>
      obtain ⟨s1, f1, o1⟩ := r1
      simp only [resToR, mapRes, castN, ok_bind]
      rw [srcNibble_tie tbl hu ho s1 (b.toNat % 16) (by omega) o1]
      cases h2 : Impl.nibble tbl s1 (b.toNat % 16) o1 with
      | decodingError => simp only [resToR, mapRes, err_bind, Except.map]
      | indexError => simp only [resToR, mapRes, err_bind, Except.map]
      | ok r2 =>
        obtain ⟨s2, f2, o2⟩ := r2
        simp only [resToR, mapRes, castN, ok_bind]
        exact ih s2 f2 o2

/-- **Tie (decode_huffman).** For every octet string the translated source returns what the model returns: the decoded
octets, `HPACKDecodingError` for a FAIL transition or a last transition without COMPLETE, the empty string for the empty
string (the `IndexError` outcome of the model corresponds to an out-of-range table index, which the kernel-checked
table obligations exclude). -/
theorem decode_huffman_tie_gen (tbl : Impl.Tbl) (htbl : Src.c_HUFFMAN_TABLE = tbl.flatten.map castT) (hu : Uniform tbl) (ho : OutOK tbl)
    (fuel : Nat) (w : List UInt8) :
    Src.decode_huffman fuel w = resToR (mapRes (List.map UInt8.ofNat) (Impl.huffDecode tbl w)) := by
  unfold Src.decode_huffman Impl.huffDecode
  cases w with
  | nil => simp [resToR, mapRes]
  | cons b bs =>
    have hne : ¬ ¬ ((b :: bs) ≠ []) := by simp
    simp only [hne, if_false, List.isEmpty_cons, Bool.false_eq_true]
    have h : (Src.decode_huffman.for1 fuel (b :: bs) 0 0 []).map (fun r => (r.2.1, r.2.2)) =
        resToR (mapRes castL (Impl.loop tbl (b :: bs) 0 0 [])) := for1_tie tbl htbl hu ho fuel (b :: bs) 0 0 []
    cases hl : Impl.loop tbl (b :: bs) 0 0 [] with
    | decodingError =>
      rw [hl] at h
      cases hs : Src.decode_huffman.for1 fuel (b :: bs) 0 0 [] with
      | error e => rw [hs] at h; simp [Except.map, resToR, mapRes] at h; subst h; rfl
      | ok r => rw [hs] at h; simp [Except.map, resToR, mapRes] at h
    | indexError =>
      rw [hl] at h
      cases hs : Src.decode_huffman.for1 fuel (b :: bs) 0 0 [] with
      | error e => rw [hs] at h; simp [Except.map, resToR, mapRes] at h; subst h; rfl
      | ok r => rw [hs] at h; simp [Except.map, resToR, mapRes] at h
    | ok r =>
      obtain ⟨fl, out⟩ := r
      rw [hl] at h
      cases hs : Src.decode_huffman.for1 fuel (b :: bs) 0 0 [] with
      | error e => rw [hs] at h; simp [Except.map, resToR, mapRes] at h
      | ok r' =>
        obtain ⟨s', f', d'⟩ := r'
        rw [hs] at h
        simp only [Except.map, resToR, mapRes, castL, Except.ok.injEq, Prod.mk.injEq] at h
        obtain ⟨hf, hd⟩ := h
        subst hf hd
        simp only [bind, Except.bind, cCOMPLETE]
        have hb1 : Py.band (fl : Int) 1 = ((fl &&& 1 : Nat) : Int) := band_ofNat fl 1
        simp only [hb1]
        have hand : fl &&& 1 = fl % 2 := Nat.and_two_pow_sub_one_eq_mod fl 1
        rw [hand]
        rcases Nat.mod_two_eq_zero_or_one fl with hm | hm
        · have h1 : ¬ ¬ (((fl % 2 : Nat) : Int) ≠ 0) → False := by omega
          have h2 : ¬ (((fl % 2 : Nat) : Int) ≠ 0) := by omega
          simp only [h2, not_false_eq_true, if_true, hm]
          rfl
        · have h2 : ((fl % 2 : Nat) : Int) ≠ 0 := by omega
          simp only [h2, not_true_eq_false, if_false, hm]
          rfl

theorem decode_huffman_tie (fuel : Nat) (w : List UInt8) :
    Src.decode_huffman fuel w = resToR (mapRes (List.map UInt8.ofNat) (Impl.huffDecode Gen.huffTable w)) :=
  decode_huffman_tie_gen Gen.huffTable table_is_generated gen_uniform gen_outOK fuel w

end SrcTie
