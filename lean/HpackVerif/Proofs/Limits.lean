import HpackVerif.Proofs.DecProof2
namespace Impl
variable {own : Bool}

def hsize (hs : List Header) : Nat := (hs.map fun h => entrySize (h.name, h.value)).sum

theorem decodeField_limits (cap : Option Nat) (st : DecState) (data : Bytes) (seen : Bool)
    {oh : Option Header} {k : Nat} {st' : DecState} (h : decodeField cap own st data seen = .ok (oh, k, st')) :
    st'.allowed = st.allowed ∧ st'.listLimit = st.listLimit := by
  unfold decodeField at h
  cases data with
  | nil => simp at h
  | cons b0 rest =>
    dsimp only at h
    split at h
    · cases hd : decodeInt cap (b0 :: rest) 7 with
      | ok r =>
        simp only [hd, bind, pure] at h
        cases hg : st.table.getByIndex r.1 with
        | ok e => simp only [hg, Out.ok.injEq, Prod.mk.injEq] at h; obtain ⟨_, _, rfl⟩ := h; exact ⟨rfl, rfl⟩
        | err e => simp [hg] at h
        | esc x => simp [hg] at h
      | err e => simp [hd, bind] at h
      | esc x => simp [hd, bind] at h
    · split at h
      · generalize decide (b0.toNat &&& 0x40 ≠ 0) = si at h
        cases hl : decodeLiteral cap own st.table (b0 :: rest) si with
        | ok r => simp only [hl, bind, pure, Out.ok.injEq, Prod.mk.injEq] at h; obtain ⟨_, _, rfl⟩ := h; exact ⟨rfl, rfl⟩
        | err e => simp [hl, bind] at h
        | esc x => simp [hl, bind] at h
      · split at h
        · simp at h
        · cases hd : decodeInt cap (b0 :: rest) 5 with
          | ok r =>
            simp only [hd, bind, pure] at h
            split at h
            · simp at h
            · cases hs : st.table.setMaxsize r.1 with
              | ok t' => simp only [hs, Out.ok.injEq, Prod.mk.injEq] at h; obtain ⟨_, _, rfl⟩ := h; exact ⟨rfl, rfl⟩
              | err e => simp [hs] at h
              | esc x => simp [hs] at h
          | err e => simp [hd, bind] at h
          | esc x => simp [hd, bind] at h

/-- C07 + C08 on *every* byte string: whatever `decode` returns successfully is within the list limit,
    and the table maximum is within the permitted maximum -/
theorem decodeLoop_limits (cap : Option Nat) (fuel : Nat) (st : DecState) (data : Bytes) (hs : List Header)
    (infl : Nat) (hinfl : infl = hsize hs) (hle : infl ≤ st.listLimit) {out : List Header}
    (h : (decodeLoop cap own fuel st data hs infl).1 = .ok out) :
    hsize out ≤ st.listLimit ∧
    (decodeLoop cap own fuel st data hs infl).2.table.maxsize ≤ (decodeLoop cap own fuel st data hs infl).2.allowed ∧
    (decodeLoop cap own fuel st data hs infl).2.listLimit = st.listLimit ∧
    (decodeLoop cap own fuel st data hs infl).2.allowed = st.allowed := by
  induction fuel generalizing st data hs infl with
  | zero => simp [decodeLoop] at h
  | succ fuel ih =>
    unfold decodeLoop at h ⊢
    cases data with
    | nil =>
      dsimp only at h ⊢
      by_cases hgt : st.table.maxsize > st.allowed
      · rw [if_pos hgt] at h; simp at h
      · rw [if_neg hgt] at h ⊢
        simp only [Out.ok.injEq] at h
        subst h
        refine ⟨?_, by show st.table.maxsize ≤ st.allowed; omega, rfl, rfl⟩
        have : hsize hs.reverse = hsize hs := by simp [hsize, List.sum_reverse]
        omega
    | cons b0 rest =>
      dsimp only at h ⊢
      cases hf : decodeField cap own st (b0 :: rest) (!hs.isEmpty) with
      | err e => simp [hf] at h
      | esc x => simp [hf] at h
      | ok r =>
        obtain ⟨oh, consumed, st'⟩ := r
        obtain ⟨ha, hl⟩ := decodeField_limits (own := own) cap st _ _ hf
        simp only [hf] at h ⊢
        cases oh with
        | none =>
          dsimp only at h ⊢
          have := ih st' _ hs infl hinfl (by omega) h
          rw [hl, ha] at this; exact this
        | some hd =>
          dsimp only at h ⊢
          by_cases hover : infl + entrySize (hd.name, hd.value) > st'.listLimit
          · rw [if_pos hover] at h; simp at h
          · rw [if_neg hover] at h ⊢
            have := ih st' _ (hd :: hs) (infl + entrySize (hd.name, hd.value))
              (by simp [hsize, hinfl]; omega) (by omega) h
            rw [hl, ha] at this; exact this

theorem decode_limits (cap : Option Nat) (st : DecState) (data : Bytes) {out : List Header}
    (h : (decode cap own st data).1 = .ok out) :
    hsize out ≤ st.listLimit ∧ (decode cap own st data).2.table.maxsize ≤ st.allowed := by
  obtain ⟨h1, h2, _, h4⟩ := decodeLoop_limits (own := own) cap _ st data [] 0 rfl (by omega) h
  exact ⟨h1, by rw [← h4]; exact h2⟩

end Impl
#print axioms Impl.decode_limits
