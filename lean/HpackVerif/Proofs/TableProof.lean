import HpackVerif.Impl.Model
namespace Impl

def tsize (l : List Entry) : Nat := (l.map entrySize).sum

@[simp] theorem tsize_nil : tsize [] = 0 := rfl
@[simp] theorem tsize_cons (e : Entry) (l : List Entry) : tsize (e :: l) = entrySize e + tsize l := by
  simp [tsize]
@[simp] theorem tsize_append (a b : List Entry) : tsize (a ++ b) = tsize a + tsize b := by
  simp [tsize]

theorem entrySize_pos (e : Entry) : 32 ≤ entrySize e := by unfold entrySize; omega

/-- RFC 7541 §4.4 eviction, newest-first list: keep the longest prefix that fits -/
def fit (max : Nat) : List Entry → List Entry
  | [] => []
  | e :: es => if entrySize e ≤ max then e :: fit (max - entrySize e) es else []

theorem fit_eq_take (max : Nat) (l : List Entry) (m : Nat) (hm : m ≤ l.length)
    (hfit : tsize (l.take m) ≤ max)
    (hnext : m = l.length ∨ tsize (l.take (m + 1)) > max) : fit max l = l.take m := by
  induction l generalizing max m with
  | nil => simp [fit]
  | cons e es ih =>
    cases m with
    | zero =>
      simp only [List.take_zero]
      rcases hnext with h | h
      · simp at h
      · simp only [Nat.zero_add, List.take_succ_cons, List.take_zero, tsize_cons, tsize_nil] at h
        simp [fit]; omega
    | succ m =>
      simp only [List.take_succ_cons, tsize_cons] at hfit
      have he : entrySize e ≤ max := by omega
      simp only [fit, he, if_true, List.take_succ_cons]
      congr 1
      apply ih
      · simpa using hm
      · omega
      · rcases hnext with h | h
        · left; simpa using h
        · right; simp only [List.take_succ_cons, tsize_cons] at h; omega

theorem tsize_fit_le (max : Nat) (l : List Entry) : tsize (fit max l) ≤ max := by
  induction l generalizing max with
  | nil => simp [fit]
  | cons e es ih =>
    simp only [fit]; split
    · have := ih (max - entrySize e); simp only [tsize_cons]; omega
    · simp

/-- the pop-from-the-old-end loop, started with a consistent cached size -/
theorem shrinkLoop_spec (max : Nat) (rev : List Entry) :
    ∃ k, k ≤ rev.length ∧ shrinkLoop max rev (tsize rev : Int) = .ok (rev.drop k, (tsize (rev.drop k) : Int)) ∧
      tsize (rev.drop k) ≤ max ∧ (k = 0 ∨ tsize (rev.drop (k - 1)) > max) := by
  induction rev with
  | nil =>
    refine ⟨0, by simp, ?_, by simp, Or.inl rfl⟩
    rw [shrinkLoop]; simp
  | cons e r ih =>
    rw [shrinkLoop]
    by_cases h : (tsize (e :: r) : Int) > max
    · simp only [h, if_true]
      obtain ⟨k, hk, hs, hle, hprev⟩ := ih
      have hcur : (tsize (e :: r) : Int) - entrySize e = tsize r := by simp; omega
      rw [hcur, hs]
      refine ⟨k + 1, by simpa using hk, by simp, by simpa using hle, Or.inr ?_⟩
      rcases hprev with h0 | hp
      · subst h0; simp only [Nat.add_sub_cancel, List.drop_zero]; exact_mod_cast h
      · simp only [Nat.add_sub_cancel]
        cases k with
        | zero => simp only [List.drop_zero]; exact_mod_cast h
        | succ k => simpa using hp
    · simp only [h, if_false]
      refine ⟨0, by simp, by simp, ?_, Or.inl rfl⟩
      simp only [List.drop_zero]; push_cast at h; omega

/-- the table invariant of C06 -/
structure Inv (t : Table) : Prop where
  cached : t.curSize = (tsize t.entries : Int)
  bounded : tsize t.entries ≤ t.maxsize

theorem shrink_spec (t : Table) (hc : t.curSize = (tsize t.entries : Int)) :
    ∃ t', t.shrink = .ok t' ∧ t'.entries = fit t.maxsize t.entries ∧ t'.maxsize = t.maxsize ∧
      t'.resized = t.resized ∧ Inv t' := by
  obtain ⟨k, hk, hs, hle, hprev⟩ := shrinkLoop_spec t.maxsize t.entries.reverse
  have hrev : tsize t.entries.reverse = tsize t.entries := by simp [tsize, List.sum_reverse]
  unfold Table.shrink
  rw [hc, ← hrev, hs]
  have hdrop : (t.entries.reverse.drop k).reverse = t.entries.take (t.entries.length - k) := by
    rw [List.reverse_drop]; simp
  have hsz : ∀ j, tsize (t.entries.reverse.drop j) = tsize (t.entries.take (t.entries.length - j)) := by
    intro j
    have : (t.entries.reverse.drop j).reverse = t.entries.take (t.entries.length - j) := by
      rw [List.reverse_drop]; simp
    rw [← this]; simp [tsize, List.sum_reverse]
  simp only [List.length_reverse] at hk
  refine ⟨_, rfl, ?_, rfl, rfl, ⟨?_, ?_⟩⟩
  · simp only [hdrop]
    symm
    apply fit_eq_take
    · omega
    · rw [← hsz]; exact hle
    · rcases hprev with h0 | hp
      · left; omega
      · right
        rw [hsz] at hp
        have hk0 : k ≠ 0 := by
          intro h0; subst h0
          simp only [Nat.zero_sub, Nat.sub_zero, List.take_length] at hp
          rw [hsz] at hle; simp at hle; omega
        have : t.entries.length - (k - 1) = t.entries.length - k + 1 := by omega
        rw [this] at hp; exact hp
  · simp only [hdrop]; rw [hsz]
  · simp only [hdrop]; rw [← hsz]; exact hle

/-- C06: insertion = RFC eviction, invariant preserved, never an escape -/
theorem add_spec (t : Table) (n v : PyBuf) (h : Inv t) :
    ∃ t', t.add n v = .ok t' ∧ t'.entries = fit t.maxsize ((n, v) :: t.entries) ∧
      t'.maxsize = t.maxsize ∧ Inv t' := by
  unfold Table.add
  by_cases hbig : entrySize (n, v) > t.maxsize
  · simp only [hbig, if_true]
    refine ⟨_, rfl, ?_, rfl, ⟨by simp, by simp⟩⟩
    simp [fit]; omega
  · simp only [hbig, if_false]
    obtain ⟨t', hs, he, hm, _, hinv⟩ := shrink_spec
      ({ t with entries := (n, v) :: t.entries, curSize := t.curSize + entrySize (n, v) } : Table)
      (by simp [h.cached]; omega)
    exact ⟨t', hs, he, hm, hinv⟩

theorem fit_of_le (max : Nat) (l : List Entry) (h : tsize l ≤ max) : fit max l = l := by
  have := fit_eq_take max l l.length (by omega) (by simpa using h) (Or.inl rfl)
  simpa using this

/-- C06: changing the maximum = RFC eviction; raising it evicts nothing -/
theorem setMaxsize_spec (t : Table) (m : Nat) (h : Inv t) :
    ∃ t', t.setMaxsize m = .ok t' ∧ t'.entries = fit m t.entries ∧ t'.maxsize = m ∧ Inv t' ∧
      (m ≥ t.maxsize → t'.entries = t.entries) := by
  unfold Table.setMaxsize
  by_cases h0 : m = 0
  · subst h0
    simp only [if_true]
    refine ⟨_, rfl, ?_, rfl, ⟨by simp, by simp⟩, ?_⟩
    · cases he : t.entries with
      | nil => simp [fit]
      | cons e es => simp [fit]; have := entrySize_pos e; omega
    · intro hge
      have : tsize t.entries = 0 := by have := h.bounded; omega
      cases he : t.entries with
      | nil => rfl
      | cons e es => rw [he] at this; simp at this; have := entrySize_pos e; omega
  · simp only [h0, if_false]
    by_cases hlow : t.maxsize > m
    · simp only [hlow, if_true]
      obtain ⟨t', hs, he, hm, _, hinv⟩ := shrink_spec
        ({ t with maxsize := m, resized := m != t.maxsize } : Table) (by simp [h.cached])
      exact ⟨t', hs, he, hm, hinv, fun hge => by omega⟩
    · simp only [hlow, if_false]
      have hle : tsize t.entries ≤ m := by have := h.bounded; omega
      exact ⟨_, rfl, by simp [fit_of_le m _ hle], rfl, ⟨by simp [h.cached], by simpa using hle⟩, fun _ => rfl⟩

end Impl
#print axioms Impl.add_spec
#print axioms Impl.setMaxsize_spec
