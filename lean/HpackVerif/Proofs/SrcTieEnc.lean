import HpackVerif.Generated.SrcEnc
import HpackVerif.Proofs.SrcTieDec
/-! The hand-written model of the `Encoder` below `encode` (`Impl.EncState.setSize`, `EncState.add` and the byte layouts it
uses) equals the mechanical translation of the corresponding methods of `src/hpack/hpack.py` (`Generated/SrcEnc.lean`):
the `header_table_size` setter, `_encode_indexed`, `_encode_literal`, `_encode_indexed_literal`,
`_encode_table_size_change` and `add`. `HuffmanEncoder.encode` is *not* translated (hex-string round trip): the generated
file represents it by the model's `Impl.huffEncode`, which the correspondence check ties to the code. `Encoder.encode`
itself (dynamic header forms) is tied by the correspondence check (`encodeForms`). -/
namespace SrcTie
open Py

/-- the Python object a model encoder state stands for -/
def absE (e : Impl.EncState) : Src.Encoder :=
  { f_header_table := absT e.table, f_huffman_coder := Src.HuffmanEncoder.std, f_table_size_changes := e.changes.map fun (n : Nat) => (n : Int) }

theorem encode_integer_eq (fuel n N : Nat) (hN : 1 ≤ N ∧ N ≤ 8) (hf : fuel > n) :
    Src.encode_integer fuel (n : Int) (N : Int) = .ok (Impl.encodeInt n N) := by
  rcases (show N = 1 ∨ N = 2 ∨ N = 3 ∨ N = 4 ∨ N = 5 ∨ N = 6 ∨ N = 7 ∨ N = 8 by omega) with h | h | h | h | h | h | h | h <;> subst h <;>
    exact encode_integer_core n _ (by decide) fuel hf _ rfl (by decide)

theorem encodeInt_ne_nil (n N : Nat) : Impl.encodeInt n N ≠ [] := by
  unfold Impl.encodeInt; simp only; split <;> simp

theorem setFirstOr_eq (b : Bytes) (m : Nat) (hm : m < 256) (hb : b ≠ []) : Py.setFirstOr b (m : Int) = .ok (Impl.orFirst b m) := by
  cases b with
  | nil => exact absurd rfl hb
  | cons x xs =>
    have : (0 : Int) ≤ (m : Int) ∧ (m : Int) < 256 := by omega
    simp [Py.setFirstOr, Impl.orFirst, this]

/-- `_encode_indexed(index)` -/
theorem encode_indexed_eq (fuel : Nat) (self : Src.Encoder) (i : Nat) (hf : fuel > i) :
    Src.Encoder.encode_indexed fuel self (i : Int) = .ok (self, Impl.orFirst (Impl.encodeInt i 7) 0x80) := by
  unfold Src.Encoder.encode_indexed
  have h := encode_integer_eq fuel i 7 (by omega) hf
  have h7 : ((7 : Nat) : Int) = (7 : Int) := rfl
  rw [h7] at h
  have h2 : Py.setFirstOr (Impl.encodeInt i 7) 128 = .ok (Impl.orFirst (Impl.encodeInt i 7) 0x80) :=
    setFirstOr_eq _ 128 (by omega) (encodeInt_ne_nil i 7)
  simp only [h, liftR_ok, h2, bind, Except.bind]

/-- one string of a literal, as the translated methods lay it out: (length octets, payload) -/
theorem encString_parts (huff : Bool) (s : Bytes) :
    Impl.encString huff s =
      if huff then Impl.orFirst (Impl.encodeInt (Impl.huffEncode Gen.codes s).length 7) 0x80 ++ Impl.huffEncode Gen.codes s
      else Impl.encodeInt s.length 7 ++ s := by
  unfold Impl.encString; cases huff <;> rfl

theorem huff_call (fuel : Nat) (self : Src.Encoder) (s : Bytes) :
    Py.liftSub self (fun s x => { s with f_huffman_coder := x }) (Src.HuffmanEncoder.encode fuel self.f_huffman_coder s) =
      .ok (self, Impl.huffEncode Gen.codes s) := by
  cases self; rfl

/-- `_encode_literal(name, value, indexbit, huffman)` -/
theorem encode_literal_eq (fuel : Nat) (self : Src.Encoder) (name value indexbit : Bytes) (huff : Bool)
    (hf : fuel > name.length + value.length + (Impl.huffEncode Gen.codes name).length + (Impl.huffEncode Gen.codes value).length) :
    Src.Encoder.encode_literal fuel self name value indexbit huff =
      .ok (self, indexbit ++ Impl.encString huff name ++ Impl.encString huff value) := by
  unfold Src.Encoder.encode_literal
  have h128 : ∀ k, Py.setFirstOr (Impl.encodeInt k 7) 128 = .ok (Impl.orFirst (Impl.encodeInt k 7) 0x80) :=
    fun k => setFirstOr_eq _ 128 (by omega) (encodeInt_ne_nil k 7)
  have h7 : ((7 : Nat) : Int) = (7 : Int) := rfl
  cases huff with
  | true =>
    have e1 := encode_integer_eq fuel (Impl.huffEncode Gen.codes name).length 7 (by omega) (by omega)
    have e2 := encode_integer_eq fuel (Impl.huffEncode Gen.codes value).length 7 (by omega) (by omega)
    rw [h7] at e1 e2
    simp [huff_call, e1, e2, h128, liftR_ok, bind, Except.bind, encString_parts]
  | false =>
    have e1 := encode_integer_eq fuel name.length 7 (by omega) (by omega)
    have e2 := encode_integer_eq fuel value.length 7 (by omega) (by omega)
    rw [h7] at e1 e2
    simp [e1, e2, liftR_ok, bind, Except.bind, encString_parts]

theorem c_inc : Src.c_INDEX_INCREMENTAL = [0x40] := rfl
theorem c_never : Src.c_INDEX_NEVER = [0x10] := rfl

/-- `_encode_indexed_literal(index, value, indexbit, huffman)` for the two index octets the encoder uses -/
theorem encode_indexed_literal_eq (fuel : Nat) (self : Src.Encoder) (i : Nat) (value : Bytes) (ib : Nat) (huff : Bool)
    (hib : ib = 0x40 ∨ ib = 0x10)
    (hf : fuel > i + value.length + (Impl.huffEncode Gen.codes value).length) :
    Src.Encoder.encode_indexed_literal fuel self (i : Int) value [UInt8.ofNat ib] huff =
      .ok (self, Impl.orFirst (if ib ≠ 0x40 then Impl.encodeInt i 4 else Impl.encodeInt i 6) ib ++ Impl.encString huff value) := by
  unfold Src.Encoder.encode_indexed_literal
  have h128 : ∀ k, Py.setFirstOr (Impl.encodeInt k 7) 128 = .ok (Impl.orFirst (Impl.encodeInt k 7) 0x80) :=
    fun k => setFirstOr_eq _ 128 (by omega) (encodeInt_ne_nil k 7)
  have h7 : ((7 : Nat) : Int) = (7 : Int) := rfl
  have h4 : ((4 : Nat) : Int) = (4 : Int) := rfl
  have h6 : ((6 : Nat) : Int) = (6 : Int) := rfl
  have e4 := encode_integer_eq fuel i 4 (by omega) (by omega)
  have e6 := encode_integer_eq fuel i 6 (by omega) (by omega)
  rw [h4] at e4
  rw [h6] at e6
  have ev := encode_integer_eq fuel value.length 7 (by omega) (by omega)
  have eh := encode_integer_eq fuel (Impl.huffEncode Gen.codes value).length 7 (by omega) (by omega)
  rw [h7] at ev eh
  rcases hib with hib | hib <;> subst hib
  · -- incremental indexing: 6-bit prefix
    have hne : Src.c_INDEX_INCREMENTAL = ([64] : Bytes) := rfl
    have ho : Py.ord1 ([64] : Bytes) = .ok 64 := rfl
    have hs : Py.setFirstOr (Impl.encodeInt i 6) 64 = .ok (Impl.orFirst (Impl.encodeInt i 6) 0x40) :=
      setFirstOr_eq _ 64 (by omega) (encodeInt_ne_nil i 6)
    cases huff <;> simp [hne, ho, hs, e6, ev, eh, h128, huff_call, liftR_ok, bind, Except.bind, encString_parts]
  · have hne : Src.c_INDEX_INCREMENTAL = ([64] : Bytes) := rfl
    have ho : Py.ord1 ([16] : Bytes) = .ok 16 := rfl
    have hs : Py.setFirstOr (Impl.encodeInt i 4) 16 = .ok (Impl.orFirst (Impl.encodeInt i 4) 0x10) :=
      setFirstOr_eq _ 16 (by omega) (encodeInt_ne_nil i 4)
    cases huff <;> simp [hne, ho, hs, e4, ev, eh, h128, huff_call, liftR_ok, bind, Except.bind, encString_parts]

/-- the loop of `_encode_table_size_change` -/
theorem size_change_loop (fuel : Nat) (self : Src.Encoder) : ∀ (cs : List Nat) (block : Bytes), (∀ c ∈ cs, fuel > c) →
    Src.Encoder.encode_table_size_change.for1 fuel (cs.map fun (n : Nat) => (n : Int)) self block =
      .ok (block ++ cs.flatMap fun n => Impl.orFirst (Impl.encodeInt n 5) 0x20) := by
  intro cs
  induction cs with
  | nil => intro block _; simp [Src.Encoder.encode_table_size_change.for1]
  | cons c rest ih =>
    intro block hfu
    have h5 : ((5 : Nat) : Int) = (5 : Int) := rfl
    have e5 := encode_integer_eq fuel c 5 (by omega) (hfu c (by simp))
    rw [h5] at e5
    have hs : Py.setFirstOr (Impl.encodeInt c 5) 32 = .ok (Impl.orFirst (Impl.encodeInt c 5) 0x20) :=
      setFirstOr_eq _ 32 (by omega) (encodeInt_ne_nil c 5)
    simp only [List.map_cons, Src.Encoder.encode_table_size_change.for1, e5, liftR_ok, hs, bind, Except.bind]
    rw [ih _ (fun x hx => hfu x (by simp [hx]))]
    simp [List.flatMap_cons, List.append_assoc]

/-- `_encode_table_size_change()`: one size update per pending change, oldest first; the pending list is emptied -/
theorem encode_table_size_change_eq (fuel : Nat) (e : Impl.EncState) (hfu : ∀ c ∈ e.changes, fuel > c) :
    Src.Encoder.encode_table_size_change fuel (absE e) =
      .ok (absE { e with changes := [] }, e.changes.flatMap fun n => Impl.orFirst (Impl.encodeInt n 5) 0x20) := by
  unfold Src.Encoder.encode_table_size_change
  have := size_change_loop fuel (absE e) e.changes [] hfu
  simp only [absE] at this ⊢
  simp only [this, bind, Except.bind, List.nil_append]
  rfl

theorem absE_table (e : Impl.EncState) (t' : Impl.Table) :
    ({ absE e with f_header_table := absT t' } : Src.Encoder) = absE { e with table := t' } := rfl

/-- `Encoder.header_table_size = v`: translated setter = `Impl.EncState.setSize` (with the repaired, sticky `resized`) -/
theorem enc_set_size_agree (fuel : Nat) (e : Impl.EncState) (v : Nat) (hf : fuel > e.table.entries.length) :
    Agree (Src.Encoder.header_table_size_set fuel (absE e) (v : Int)) (e.setSize true v) (fun e' => (absE e', ())) (absE e) := by
  unfold Src.Encoder.header_table_size_set Impl.EncState.setSize
  have ht := maxsize_set_tie e.table v fuel hf
  unfold tableRes at ht
  have habs : (absE e).f_header_table = absT e.table := rfl
  cases ho : e.table.setMaxsize v with
  | err er => exact absurd ho (setMaxsize_no_err _ _ er)
  | esc x =>
    rw [ho] at ht
    simp only [obind_esc, Agree]
    cases hr : Src.HeaderTable.maxsize_set fuel (absT e.table) (v : Int) with
    | ok a => rw [hr] at ht; simp [dropS, mapOut, outToR_esc] at ht
    | error es =>
      obtain ⟨ex, s⟩ := es
      rw [hr] at ht
      simp only [dropS, mapOut, outToR_esc, Except.error.injEq] at ht
      simp [habs, hr, liftSub_error, dropS, bind, Except.bind, ht]
  | ok t' =>
    rw [ho] at ht
    have h1 := dropS_eq_ok _ _ ht
    simp only [obind_ok, opure, Agree, habs, h1, liftSub_ok, bind, Except.bind, mapOut]
    cases hr : t'.resized <;> cases hp : e.table.resized <;>
      simp [absE, absT, hr, hp, Impl.Out.ok.injEq]

theorem insert_no_err (e : Impl.EncState) (name value : Bytes) (s : Bool) (er : Impl.DErr) : e.insert name value s ≠ .err er := by
  unfold Impl.EncState.insert
  cases s with
  | true => simp [opure]
  | false =>
    simp only [Bool.not_false, if_true]
    cases h : e.table.add ⟨name, false⟩ ⟨value, false⟩ with
    | ok t => simp [obind_ok, opure]
    | err x => exact absurd h (add_no_err _ _ _ x)
    | esc x => simp [obind_esc]

/-- `if not sensitive: self.header_table.add(name, value)` followed by `return encoded` -/
theorem insert_agree (fuel : Nat) (e : Impl.EncState) (name value enc : Bytes) (sensitive : Bool)
    (hf : fuel > e.table.entries.length + 1) :
    Agree (if (¬ (sensitive = true)) then
             (Except.bind (Py.liftSub (absE e) (fun s x => { s with f_header_table := x }) (Src.HeaderTable.add fuel (absE e).f_header_table name value)) fun r =>
               (.ok (r.1, enc) : Py.RS Src.Encoder (Src.Encoder × Bytes)))
           else .ok (absE e, enc))
      (match e.insert name value sensitive with
       | .ok e' => (.ok (enc, e') : Impl.Out (Bytes × Impl.EncState))
       | .err x => .err x
       | .esc x => .esc x)
      (fun r => (absE r.2, r.1)) (absE e) := by
  unfold Impl.EncState.insert
  cases sensitive with
  | true => simp [Agree, opure]
  | false =>
    simp only [Bool.false_eq_true, not_false_eq_true, if_true, Bool.not_false]
    have hadd := add_tie e.table ⟨name, false⟩ ⟨value, false⟩ fuel hf
    unfold tableRes at hadd
    have habs : (absE e).f_header_table = absT e.table := rfl
    rw [habs]
    cases ho : e.table.add ⟨name, false⟩ ⟨value, false⟩ with
    | err x => exact absurd ho (add_no_err _ _ _ x)
    | ok t' =>
      rw [ho] at hadd
      have h1 := dropS_eq_ok _ _ hadd
      simp only [mapOut] at h1
      simp only [h1, liftSub_ok, ebind_ok, obind_ok, opure, Agree]
      rfl
    | esc x =>
      rw [ho] at hadd
      simp only [obind_esc, Agree]
      cases hr : Src.HeaderTable.add fuel (absT e.table) name value with
      | ok a => rw [hr] at hadd; simp [dropS, mapOut, outToR_esc] at hadd
      | error es =>
        obtain ⟨ex, s⟩ := es
        rw [hr] at hadd
        simp only [dropS, mapOut, outToR_esc, Except.error.injEq] at hadd
        simp [liftSub_error, ebind_err, dropS, hadd]

/-- the fuel `add` needs for a given field: the loops of `encode_integer` (index, string lengths) and of the table's eviction -/
def addFuel (e : Impl.EncState) (name value : Bytes) : Nat :=
  name.length + value.length + (Impl.huffEncode Gen.codes name).length + (Impl.huffEncode Gen.codes value).length +
    e.table.entries.length + (match e.table.search name value with | some p => p.1 | none => 0) + 2

/-- **`Encoder.add((name, value), sensitive, huffman)`**: translated method = `Impl.EncState.add` (with the repaired
`is not None` test): a full match is sent as one index and nothing is inserted; a name match as a literal with an
indexed name; no match as a literal with a literal name; the indexing octet is 0x40 for ordinary and 0x10 for
sensitive fields; ordinary fields that were not a full match are inserted. -/
theorem enc_add_agree (fuel : Nat) (e : Impl.EncState) (name value : Bytes) (sensitive huff : Bool)
    (hf : fuel > addFuel e name value) :
    Agree (Src.Encoder.add fuel (absE e) (name, value) sensitive huff) (e.add true name value sensitive huff)
      (fun r => (absE r.2, r.1)) (absE e) := by
  unfold addFuel at hf
  unfold Src.Encoder.add Impl.EncState.add
  have habs : (absE e).f_header_table = absT e.table := rfl
  have hput : ∀ (r : Option (Int × Bytes × Option Bytes)), Py.liftSub (absE e) (fun s x => { s with f_header_table := x })
      (.ok (absT e.table, r) : Py.RS Src.HeaderTable (Src.HeaderTable × Option (Int × Bytes × Option Bytes))) = .ok (absE e, r) := by
    intro r; rfl
  simp only [habs, search_tie, hput, bind, ebind_ok]
  have hib : (if (¬ (sensitive = true)) then Src.c_INDEX_INCREMENTAL else Src.c_INDEX_NEVER) =
      [UInt8.ofNat (if !sensitive then 0x40 else 0x10)] := by cases sensitive <;> rfl
  simp only [hib]
  cases hs : e.table.search name value with
  | none =>
    rw [hs] at hf
    simp only [castRes, Option.map_none]
    have hl := encode_literal_eq fuel (absE e) name value [UInt8.ofNat (if !sensitive then 0x40 else 0x10)] huff (by omega)
    simp only [hl, ebind_ok]
    have := insert_agree fuel e name value ([UInt8.ofNat (if !sensitive then 0x40 else 0x10)] ++ Impl.encString huff name ++ Impl.encString huff value) sensitive (by omega)
    cases hi : e.insert name value sensitive with
    | ok e' => rw [hi] at this; simpa [obind_ok, opure] using this
    | err x => exact absurd hi (insert_no_err _ _ _ _ x)
    | esc x => rw [hi] at this; simpa [obind_esc] using this
  | some p =>
    obtain ⟨idx, perfect⟩ := p
    rw [hs] at hf
    simp only at hf
    simp only [castRes, Option.map_some]
    cases perfect with
    | true =>
      rw [encode_indexed_eq fuel (absE e) idx (by omega), ebind_ok]
      simp [opure, Agree]
    | false =>
      simp only [Bool.false_eq_true, if_false, false_and]
      have hib2 : (if !sensitive then 0x40 else 0x10) = 0x40 ∨ (if !sensitive then 0x40 else 0x10) = 0x10 := by cases sensitive <;> simp
      have hl := encode_indexed_literal_eq fuel (absE e) idx value (if !sensitive then 0x40 else 0x10) huff hib2 (by omega)
      simp only [hl, ebind_ok]
      have := insert_agree fuel e name value
        (Impl.orFirst (if (if !sensitive then 0x40 else 0x10) ≠ 0x40 then Impl.encodeInt idx 4 else Impl.encodeInt idx 6) (if !sensitive then 0x40 else 0x10) ++ Impl.encString huff value)
        sensitive (by omega)
      cases hi : e.insert name value sensitive with
      | ok e' => rw [hi] at this; simpa [obind_ok, opure] using this
      | err x => exact absurd hi (insert_no_err _ _ _ _ x)
      | esc x => rw [hi] at this; simpa [obind_esc] using this

end SrcTie
