import HpackVerif.Generated.Static
import HpackVerif.Generated.Codes
import HpackVerif.RFC.TablesStatic
import HpackVerif.RFC.TablesCodes
set_option maxRecDepth 100000 in
theorem static_eq_rfc : Gen.staticTable = RFCT.staticTable := by decide +kernel
set_option maxRecDepth 100000 in
theorem codes_eq_rfc : Gen.codes = RFCT.codes := by decide +kernel
/-- Appendix B sanity: Kraft equality (the code is complete) -/
def kraft (codes : List (Nat × Nat)) : Nat := (codes.map fun p => 2 ^ (30 - p.2)).sum
set_option maxRecDepth 100000 in
theorem rfc_code_kraft : kraft RFCT.codes = 2 ^ 30 := by decide +kernel
/-- Appendix B sanity: the code is the canonical code of its lengths -/
def insertBy (le : Nat → Nat → Bool) (x : Nat) : List Nat → List Nat
  | [] => [x]
  | y :: ys => if le x y then x :: y :: ys else y :: insertBy le x ys
def isort (le : Nat → Nat → Bool) : List Nat → List Nat
  | [] => []
  | x :: xs => insertBy le x (isort le xs)
def canonicalOK (codes : List (Nat × Nat)) : Bool :=
  let idx := (List.range codes.length)
  let sorted := isort (fun a b => (codes.getD a (0,0)).2 < (codes.getD b (0,0)).2 || ((codes.getD a (0,0)).2 == (codes.getD b (0,0)).2 && a ≤ b)) idx
  let rec go : List Nat → Nat → Nat → Bool
    | [], _, _ => true
    | s :: rest, code, prevLen =>
      let (c, l) := codes.getD s (0, 0)
      let code := code <<< (l - prevLen)
      c == code && go rest (code + 1) l
  match sorted with
  | [] => true
  | s :: _ => go sorted 0 (codes.getD s (0,0)).2
set_option maxRecDepth 100000 in
theorem rfc_code_canonical : canonicalOK RFCT.codes = true := by decide +kernel
