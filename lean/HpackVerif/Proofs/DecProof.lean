import HpackVerif.Proofs.TableProof
import HpackVerif.Proofs.HuffProof
namespace Impl
variable {own : Bool}

def Out.isEsc {α : Type} : Out α → Bool
  | .esc _ => true
  | _ => false

/-! ### decode_integer: consumed count, value bound, no escape -/

theorem decLoop_spec (c : Nat) (rest : Bytes) (number shift index : Nat) (hs : shift ≤ c) {v k : Nat}
    (h : decLoop (some c) rest number shift index = .ok (v, k)) :
    index + 1 ≤ k ∧ k ≤ index + rest.length ∧ v + 2 ^ shift ≤ number + 2 ^ (c + 7) := by
  induction rest generalizing number shift index with
  | nil => simp [decLoop] at h
  | cons b bs ih =>
    rw [decLoop] at h
    have hb := b.toNat_lt
    by_cases hge : b.toNat ≥ 128
    · simp only [hge, if_true] at h
      by_cases hcap : shift + 7 > c
      · simp [capExceeded, hcap] at h
      · simp only [capExceeded, hcap, decide_false, Bool.false_eq_true, if_false] at h
        obtain ⟨h1, h2, h3⟩ := ih _ _ _ (by omega) h
        refine ⟨by omega, by simp; omega, ?_⟩
        rw [Nat.shiftLeft_eq] at h3
        have e : 2 ^ (shift + 7) = 128 * 2 ^ shift := by rw [Nat.pow_add]; omega
        rw [e] at h3
        have : (b.toNat - 128) * 2 ^ shift ≤ 127 * 2 ^ shift := Nat.mul_le_mul_right _ (by omega)
        omega
    · simp only [hge, if_false, Out.ok.injEq, Prod.mk.injEq] at h
      obtain ⟨rfl, rfl⟩ := h
      refine ⟨by omega, by simp, ?_⟩
      rw [Nat.shiftLeft_eq]
      have : b.toNat * 2 ^ shift ≤ 127 * 2 ^ shift := Nat.mul_le_mul_right _ (by omega)
      have e : 2 ^ (c + 7) = 2 ^ (c - shift) * (128 * 2 ^ shift) := by
        rw [show 128 * 2 ^ shift = 2 ^ (shift + 7) by rw [Nat.pow_add]; omega, ← Nat.pow_add]; congr 1; omega
      have : 128 * 2 ^ shift ≤ 2 ^ (c + 7) := by
        rw [e]; exact Nat.le_mul_of_pos_left _ (Nat.two_pow_pos _)
      omega

theorem decLoop_no_esc (cap : Option Nat) (rest : Bytes) (number shift index : Nat) :
    (decLoop cap rest number shift index).isEsc = false := by
  induction rest generalizing number shift index with
  | nil => simp [decLoop, Out.isEsc]
  | cons b bs ih =>
    unfold decLoop
    by_cases hge : b.toNat ≥ 128
    · simp only [hge, if_true]
      cases cap with
      | none => simpa [capExceeded] using ih _ _ _
      | some c =>
        by_cases hc : shift + 7 > c
        · simp [capExceeded, hc, Out.isEsc]
        · simpa [capExceeded, hc] using ih _ _ _
    · simp [hge, Out.isEsc]

theorem decodeInt_no_esc (cap : Option Nat) (data : Bytes) (N : Nat) : (decodeInt cap data N).isEsc = false := by
  unfold decodeInt
  cases data with
  | nil => simp [Out.isEsc]
  | cons b rest =>
    simp only; split
    · exact decLoop_no_esc _ _ _ _ _
    · simp [Out.isEsc]

theorem decodeInt_spec (c : Nat) (data : Bytes) (N : Nat) {v k : Nat}
    (h : decodeInt (some c) data N = .ok (v, k)) : 1 ≤ k ∧ k ≤ data.length ∧ v < 2 ^ (c + 9) := by
  unfold decodeInt at h
  cases data with
  | nil => simp at h
  | cons b rest =>
    simp only at h
    have hb := b.toNat_lt
    have hand : b.toNat &&& (0xFF >>> (8 - N)) ≤ b.toNat := Nat.and_le_left
    have h128 : (128 : Nat) ≤ 2 ^ (c + 7) := by
      calc (128:Nat) = 2 ^ 7 := by decide
        _ ≤ 2 ^ (c + 7) := Nat.pow_le_pow_right (by omega) (by omega)
    have h8 : 2 ^ (c + 9) = 4 * 2 ^ (c + 7) := by
      rw [show c + 9 = (c + 7) + 2 by omega, Nat.pow_add]; omega
    split at h
    · obtain ⟨h1, h2, h3⟩ := decLoop_spec c rest _ 0 1 (by omega) h
      refine ⟨by omega, by simp; omega, ?_⟩
      simp only [Nat.pow_zero] at h3
      omega
    · simp only [Out.ok.injEq, Prod.mk.injEq] at h
      obtain ⟨rfl, rfl⟩ := h
      exact ⟨by omega, by simp, by omega⟩

/-! ### get_by_index -/
theorem getByIndex_no_esc (t : Table) (i : Nat) (h : i < 10 ^ maxStrDigits) : (t.getByIndex i).isEsc = false := by
  unfold Table.getByIndex
  have hf : ¬ i ≥ 10 ^ maxStrDigits := by omega
  simp only [hf, if_false]
  split
  · simp [Out.isEsc]
  · split
    · rename_i hlt
      have : (staticEntry (i - 1)).isSome := by simp [staticEntry, hlt]
      cases hs : staticEntry (i - 1) with
      | none => simp [hs] at this
      | some e => simp [Out.isEsc]
    · split <;> simp [Out.isEsc]

/-! ### strings -/
theorem huffDecodeBuf_no_esc (w : Bytes) : (huffDecodeBuf w).isEsc = false := by
  unfold huffDecodeBuf
  rw [gen_huffDecode_eq_ref]
  cases Ref.huffDecode Gen.tree w <;> simp [Out.isEsc]

theorem readString_spec (cap : Option Nat) (data : Bytes) :
    (readString cap own data).isEsc = false := by
  unfold readString
  have h1 := decodeInt_no_esc cap data 7
  cases hd : decodeInt cap data 7 with
  | esc x => simp [hd, Out.isEsc] at h1
  | err e => simp [bind, Out.isEsc]
  | ok r =>
    obtain ⟨length, consumed⟩ := r
    simp only [bind]
    split
    · simp [Out.isEsc]
    · cases data with
      | nil => simp [decodeInt] at hd
      | cons b0 rest =>
        simp only
        split
        · have h2 := huffDecodeBuf_no_esc ((List.drop consumed (b0 :: rest)).take length)
          cases hh : huffDecodeBuf ((List.drop consumed (b0 :: rest)).take length) <;> simp [hh, Out.isEsc, pure] at h2 ⊢
        · simp [pure, Out.isEsc]

theorem readString_consumed (c : Nat) (data : Bytes) {s : PyBuf} {k : Nat}
    (h : readString (some c) own data = .ok (s, k)) : 1 ≤ k ∧ k ≤ data.length := by
  unfold readString at h
  cases hd : decodeInt (some c) data 7 with
  | esc x => simp [hd, bind] at h
  | err e => simp [hd, bind] at h
  | ok r =>
    obtain ⟨length, consumed⟩ := r
    obtain ⟨h1, h2, _⟩ := decodeInt_spec c data 7 hd
    simp only [hd, bind] at h
    split at h
    · simp at h
    · rename_i hlen
      have hlen : ((List.drop consumed data).take length).length = length := by simpa using hlen
      have hl : length ≤ data.length - consumed := by
        have := List.length_take_le' length (List.drop consumed data)
        simp only [List.length_drop] at this; omega
      cases data with
      | nil => simp at h2; omega
      | cons b0 rest =>
        simp only at h
        split at h
        · cases hh : huffDecodeBuf ((List.drop consumed (b0 :: rest)).take length) with
          | ok s' => simp [hh, pure] at h; omega
          | err e => simp [hh] at h
          | esc x => simp [hh] at h
        · simp [pure] at h; omega

end Impl
