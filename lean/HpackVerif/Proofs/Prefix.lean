import HpackVerif.Proofs.Sound3
/-! C05 / C07: the first defective representation decides the outcome, **whatever octets follow it**.

`interpPrefix` is the RFC meaning of a list of representations *without* the end-of-block check: it
either fails at the first defective representation (bad index, update above the permitted maximum or
after a field, running list size crossing the limit) or yields the fields so far. The theorem says
that when it fails, decoding `blockOctets rcs ++ rest` raises exactly that class — for every `rest`,
well-formed or not — and leaves exactly the context reached before the defect. -/
namespace RFC
open Impl
variable {own : Bool}

def interpPrefix (ctx : Ctx) : List Rep → List Field → Nat → Except (DErr × Ctx) (List Field × Nat × Ctx)
  | [], fs, size => .ok (fs, size, ctx)
  | r :: rs, fs, size =>
    match interpField ctx (!fs.isEmpty) r with
    | .error e => .error (e, ctx)
    | .ok (some f, ctx') =>
      if size + esize (f.name, f.value) > ctx'.listLimit then .error (.oversized, ctx')
      else interpPrefix ctx' rs (f :: fs) (size + esize (f.name, f.value))
    | .ok (none, ctx') => interpPrefix ctx' rs fs size

/-- **the defect decides**: if the representations fail at some point, the block fails with that class
    no matter what follows, and the decoder's context is the one reached just before the defect -/
theorem decodeLoop_prefix_error (cap : Option Nat) (fuel : Nat) (st : DecState) (hinv : Inv st.table)
    (rcs : List (Rep × Choice)) (hok : ∀ rc ∈ rcs, RepOK cap rc.1 rc.2) (rest : Bytes)
    (hfuel : (blockOctets rcs ++ rest).length < fuel) (hs : List Header) (infl : Nat)
    (e : DErr) (ctx : Ctx)
    (hp : interpPrefix (abs st) (rcs.map (·.1)) (hs.map absH) infl = .error (e, ctx)) :
    (decodeLoop cap own fuel st (blockOctets rcs ++ rest) hs infl).1 = .err e ∧
    abs (decodeLoop cap own fuel st (blockOctets rcs ++ rest) hs infl).2 = ctx := by
  induction rcs generalizing fuel st hs infl with
  | nil => simp [interpPrefix] at hp
  | cons rc rcs ih =>
    obtain ⟨r, ch⟩ := rc
    cases fuel with
    | zero => simp at hfuel
    | succ fuel =>
      obtain ⟨b, tl, hcons⟩ := reprOctets_cons r ch
      have hblock : blockOctets ((r, ch) :: rcs) ++ rest = reprOctets r ch ++ (blockOctets rcs ++ rest) := by
        simp [blockOctets, List.append_assoc]
      have hdata : reprOctets r ch ++ (blockOctets rcs ++ rest) = b :: (tl ++ (blockOctets rcs ++ rest)) := by
        rw [hcons]; rfl
      have hfield := decodeField_reprOctets (own := own) cap st hinv r ch (hok (r, ch) (by simp))
        (blockOctets rcs ++ rest) (!hs.isEmpty)
      have hseen : (!(hs.map absH).isEmpty) = (!hs.isEmpty) := by cases hs <;> rfl
      have hdrop : List.drop (reprOctets r ch).length (reprOctets r ch ++ (blockOctets rcs ++ rest))
          = blockOctets rcs ++ rest := by simp
      have hfuel' : (blockOctets rcs ++ rest).length < fuel := by
        rw [hblock, List.length_append, hcons] at hfuel
        simp only [List.length_cons] at hfuel; omega
      have hok' : ∀ rc ∈ rcs, RepOK cap rc.1 rc.2 := fun rc h => hok rc (by simp [h])
      rw [hblock, hdata, decodeLoop_cons, ← hdata]
      simp only [List.map_cons, interpPrefix, hseen] at hp
      cases hif : interpField (abs st) (!hs.isEmpty) r with
      | error e' =>
        rw [hif] at hfield hp
        simp only [FieldAgrees] at hfield
        simp only [Except.error.injEq, Prod.mk.injEq] at hp
        obtain ⟨rfl, rfl⟩ := hp
        rw [hfield]
        exact ⟨rfl, rfl⟩
      | ok res =>
        obtain ⟨of, ctx'⟩ := res
        rw [hif] at hfield hp
        obtain ⟨oh, st', hd, hoh, habs, hinv'⟩ := hfield
        rw [hd]
        cases oh with
        | none =>
          simp only [Option.map_none] at hoh
          subst hoh
          simp only [hdrop]
          simp only at hp
          rw [← habs] at hp
          exact ih fuel st' hinv' hok' hfuel' hs infl hp
        | some h =>
          simp only [Option.map_some] at hoh
          subst hoh
          simp only [hdrop]
          simp only at hp
          by_cases hover : infl + entrySize (h.name, h.value) > st'.listLimit
          · have hover' : infl + esize ((absH h).name, (absH h).value) > ctx'.listLimit := by
              rw [← habs]; exact hover
            rw [if_pos hover' ] at hp
            simp only [Except.error.injEq, Prod.mk.injEq] at hp
            obtain ⟨rfl, rfl⟩ := hp
            rw [if_pos hover]
            exact ⟨rfl, habs⟩
          · have hover' : ¬ infl + esize ((absH h).name, (absH h).value) > ctx'.listLimit := by
              rw [← habs]; exact hover
            rw [if_neg hover'] at hp
            rw [if_neg hover]
            rw [← habs] at hp
            exact ih fuel st' hinv' hok' hfuel' (h :: hs) (infl + entrySize (h.name, h.value)) hp

/-- top level -/
theorem decode_prefix_error (cap : Option Nat) (st : DecState) (hinv : Inv st.table)
    (rcs : List (Rep × Choice)) (hok : ∀ rc ∈ rcs, RepOK cap rc.1 rc.2) (rest : Bytes) (e : DErr) (ctx : Ctx)
    (hp : interpPrefix (abs st) (rcs.map (·.1)) [] 0 = .error (e, ctx)) :
    (decode cap own st (blockOctets rcs ++ rest)).1 = .err e ∧ abs (decode cap own st (blockOctets rcs ++ rest)).2 = ctx := by
  have := decodeLoop_prefix_error (own := own) cap ((blockOctets rcs ++ rest).length + 1) st hinv rcs hok rest
    (by omega) [] 0 e ctx (by simpa using hp)
  simpa [decode] using this

/-- the defective representations, one by one (for a prefix `good` that is fine) -/
theorem interpPrefix_append_error (ctx : Ctx) (good : List Rep) (bad : Rep) (fs0 : List Field) (size0 : Nat)
    (fs : List Field) (size : Nat) (ctx' : Ctx)
    (hg : interpPrefix ctx good fs0 size0 = .ok (fs, size, ctx'))
    (e : DErr) (hb : interpField ctx' (!fs.isEmpty) bad = .error e) :
    interpPrefix ctx (good ++ [bad]) fs0 size0 = .error (e, ctx') := by
  induction good generalizing ctx fs0 size0 with
  | nil =>
    simp only [interpPrefix, Except.ok.injEq, Prod.mk.injEq] at hg
    obtain ⟨rfl, rfl, rfl⟩ := hg
    simp [interpPrefix, hb]
  | cons r rs ih =>
    simp only [List.cons_append, interpPrefix] at hg ⊢
    cases hif : interpField ctx (!fs0.isEmpty) r with
    | error e' => simp only [hif] at hg; cases hg
    | ok res =>
      obtain ⟨of, c2⟩ := res
      simp only [hif] at hg ⊢
      cases of with
      | none => exact ih c2 fs0 size0 hg
      | some f =>
        simp only at hg ⊢
        split at hg
        · cases hg
        · rename_i hno
          rw [if_neg hno]
          exact ih c2 _ _ hg

end RFC
