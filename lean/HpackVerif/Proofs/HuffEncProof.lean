import HpackVerif.Proofs.HuffSpec
import HpackVerif.Impl.EncModel
/-! C12 core: HuffmanEncoder.encode emits the concatenated codes, msb first, padded with < 8 ones -/

def bitsToNat : List Bool → Nat
  | [] => 0
  | b :: bs => b.toNat * 2 ^ bs.length + bitsToNat bs

theorem bitsToNat_lt (bs : List Bool) : bitsToNat bs < 2 ^ bs.length := by
  induction bs with
  | nil => simp [bitsToNat]
  | cons b bs ih =>
    simp only [bitsToNat, List.length_cons, Nat.pow_succ]
    have : b.toNat ≤ 1 := by cases b <;> simp
    have : b.toNat * 2 ^ bs.length ≤ 1 * 2 ^ bs.length := Nat.mul_le_mul_right _ this
    omega

theorem bitsToNat_append (a b : List Bool) : bitsToNat (a ++ b) = bitsToNat a * 2 ^ b.length + bitsToNat b := by
  induction a with
  | nil => simp [bitsToNat]
  | cons x xs ih =>
    simp only [List.cons_append, bitsToNat, ih, List.length_append, Nat.pow_add, Nat.add_mul]
    rw [Nat.mul_assoc]; omega

theorem bitsToNat_ones (k : Nat) : bitsToNat (List.replicate k true) = 2 ^ k - 1 := by
  induction k with
  | zero => simp [bitsToNat]
  | succ k ih =>
    simp only [List.replicate_succ, bitsToNat, ih, List.length_replicate, Bool.toNat_true, Nat.one_mul, Nat.pow_succ]
    have := Nat.two_pow_pos k; omega

theorem bitsOf_length (v len : Nat) : (bitsOf v len).length = len := by simp [bitsOf]

theorem bitsOf_succ (v k : Nat) : bitsOf v (k + 1) = v.testBit k :: bitsOf v k := by
  simp only [bitsOf, List.range_succ_eq_map, List.map_cons, List.map_map]
  congr 1
  apply List.map_congr_left
  intro i _
  simp only [Function.comp]
  congr 1; omega

theorem bitsToNat_bitsOf (v k : Nat) : bitsToNat (bitsOf v k) = v % 2 ^ k := by
  induction k with
  | zero => simp [bitsOf, bitsToNat, Nat.mod_one]
  | succ k ih =>
    rw [bitsOf_succ, bitsToNat, ih, bitsOf_length]
    rw [Nat.mod_pow_succ, ← Nat.toNat_testBit, Nat.mul_comm]; omega

theorem bitsOf_mod (v k : Nat) : bitsOf (v % 2 ^ k) k = bitsOf v k := by
  simp only [bitsOf]
  apply List.map_congr_left
  intro i hi
  simp only [List.mem_range] at hi
  rw [Nat.testBit_mod_two_pow]
  have : k - 1 - i < k := by omega
  simp [this]

theorem bitsOf_bitsToNat (bs : List Bool) : bitsOf (bitsToNat bs) bs.length = bs := by
  induction bs with
  | nil => simp [bitsOf]
  | cons b bs ih =>
    simp only [List.length_cons]
    rw [bitsOf_succ]
    have hlt := bitsToNat_lt bs
    congr 1
    · simp only [bitsToNat]
      rw [Nat.testBit_eq_decide_div_mod_eq]
      have : (b.toNat * 2 ^ bs.length + bitsToNat bs) / 2 ^ bs.length = b.toNat := by
        rw [Nat.mul_comm, Nat.mul_add_div (Nat.two_pow_pos _), Nat.div_eq_of_lt hlt]; simp
      rw [this]; cases b <;> simp
    · rw [← bitsOf_mod]
      simp only [bitsToNat]
      rw [Nat.mul_comm, Nat.mul_add_mod, Nat.mod_eq_of_lt hlt, ih]

theorem bitsOf_add (v a b : Nat) : bitsOf v (a + b) = bitsOf (v >>> b) a ++ bitsOf v b := by
  induction a with
  | zero => simp [bitsOf]
  | succ a ih =>
    rw [show a + 1 + b = (a + b) + 1 by omega, bitsOf_succ, bitsOf_succ, ih]
    simp only [List.cons_append]
    congr 1
    rw [Nat.testBit_shiftRight]; congr 1; omega

set_option maxRecDepth 100000 in
/-- one octet = two nibbles = eight bits, msb first -/
theorem byte_bits : ∀ b : Fin 256, nibbleBits (b.val / 16) ++ nibbleBits (b.val % 16) = bitsOf b.val 8 := by
  decide +kernel

theorem bytesBits_toBytesBE (num n : Nat) : bytesBits (Impl.toBytesBE num n) = bitsOf num (8 * n) := by
  induction n generalizing num with
  | zero => simp [Impl.toBytesBE, bytesBits, bitsOf]
  | succ n ih =>
    have hsplit : Impl.toBytesBE num (n + 1) = UInt8.ofNat ((num >>> (8 * n)) % 256) :: Impl.toBytesBE num n := rfl
    rw [hsplit]
    simp only [bytesBits, List.flatMap_cons]
    have hb : (UInt8.ofNat ((num >>> (8 * n)) % 256)).toNat = (num >>> (8 * n)) % 256 := by
      rw [UInt8.toNat_ofNat']; exact Nat.mod_eq_of_lt (Nat.mod_lt _ (by omega))
    rw [hb]
    have := byte_bits ⟨(num >>> (8 * n)) % 256, Nat.mod_lt _ (by omega)⟩
    simp only at this
    rw [this]
    have ih' := ih num
    simp only [bytesBits] at ih'
    rw [ih', show 8 * (n + 1) = 8 + 8 * n by omega, bitsOf_add]
    congr 1
    have : (256:Nat) = 2 ^ 8 := by decide
    rw [this, bitsOf_mod]

/-- table validity needed by the encoder: every code fits its length -/
def codesFit (codes : List (Nat × Nat)) : Bool := codes.all fun p => p.1 < 2 ^ p.2 && 0 < p.2
theorem gen_codesFit : codesFit Gen.codes = true := by decide +kernel

theorem huffAccum_spec (codes : List (Nat × Nat)) (hfit : codesFit codes = true) (hlen : codes.length = 257)
    (s : Bytes) (num len : Nat) :
    Impl.huffAccum codes s num len =
      (num * 2 ^ (huffBits codes (s.map (·.toNat))).length + bitsToNat (huffBits codes (s.map (·.toNat))),
       len + (huffBits codes (s.map (·.toNat))).length) := by
  induction s generalizing num len with
  | nil => simp [Impl.huffAccum, huffBits, bitsToNat]
  | cons b bs ih =>
    have hb : b.toNat < codes.length := by have := b.toNat_lt; omega
    simp only [Impl.huffAccum, List.map_cons, huffBits, List.flatMap_cons]
    have hget : codes.getD b.toNat (0, 0) = codes[b.toNat] := by simp [List.getD, List.getElem?_eq_getElem hb]
    rw [hget]
    rcases hc : codes[b.toNat] with ⟨c, l⟩
    have hcl : c < 2 ^ l := by
      simp only [codesFit, List.all_eq_true, Bool.and_eq_true, decide_eq_true_eq] at hfit
      have := hfit (c, l) (by rw [← hc]; exact List.getElem_mem hb)
      exact this.1
    simp only
    have hmask : c &&& (2 ^ (l + 1) - 1) = c := by
      rw [Nat.and_two_pow_sub_one_eq_mod]
      exact Nat.mod_eq_of_lt (by rw [Nat.pow_succ]; omega)
    rw [hmask, ← Nat.shiftLeft_add_eq_or_of_lt hcl, ih]
    have hcb : codeBits codes b.toNat = bitsOf c l := by
      simp [codeBits, List.getElem?_eq_getElem hb, hc]
    simp only [huffBits] at *
    rw [hcb, List.length_append, bitsOf_length, bitsToNat_append, bitsToNat_bitsOf, Nat.mod_eq_of_lt hcl,
      Nat.shiftLeft_eq, Nat.pow_add]
    refine Prod.ext ?_ ?_
    · simp only [Nat.add_mul, Nat.mul_assoc]; omega
    · simp only; omega

/-- C12: the bits of the encoder's output are the concatenated codes followed by `pad` < 8 one-bits -/
theorem huffEncode_bits (codes : List (Nat × Nat)) (hfit : codesFit codes = true) (hlen : codes.length = 257)
    (s : Bytes) :
    let bits := huffBits codes (s.map (·.toNat))
    let pad := (8 - bits.length % 8) % 8
    bytesBits (Impl.huffEncode codes s) = bits ++ List.replicate pad true ∧ pad < 8 := by
  intro bits pad
  refine ⟨?_, by omega⟩
  unfold Impl.huffEncode
  cases s with
  | nil => simp [bits, pad, huffBits, bytesBits]
  | cons b bs =>
    simp only [List.isEmpty_cons, Bool.false_eq_true, if_false]
    rw [huffAccum_spec codes hfit hlen]
    simp only [Nat.zero_mul, Nat.zero_add]
    show bytesBits (Impl.toBytesBE _ _) = bits ++ List.replicate pad true
    have hnum : ((bitsToNat bits) <<< pad) ||| ((1 <<< pad) - 1) = bitsToNat (bits ++ List.replicate pad true) := by
      rw [bitsToNat_append, bitsToNat_ones, List.length_replicate, Nat.shiftLeft_eq, Nat.one_shiftLeft]
      have : 2 ^ pad - 1 < 2 ^ pad := by have := Nat.two_pow_pos pad; omega
      rw [← Nat.shiftLeft_eq, Nat.shiftLeft_add_eq_or_of_lt this]
    have hl8 : (bits.length + pad) % 8 = 0 := by omega
    have htot : 8 * ((bits.length + pad) / 8) = bits.length + pad := by omega
    have hbl : (bits ++ List.replicate pad true).length = bits.length + pad := by simp
    -- the bits are never empty: every code has positive length is not needed; total ≥ byteLen suffices
    have hlt := bitsToNat_lt (bits ++ List.replicate pad true)
    rw [hbl] at hlt
    have hpos : 0 < bits.length := by
      have hb : b.toNat < codes.length := by have := b.toNat_lt; omega
      rcases hc : codes[b.toNat] with ⟨c, l⟩
      have hl : 0 < l := by
        simp only [codesFit, List.all_eq_true, Bool.and_eq_true, decide_eq_true_eq] at hfit
        have := hfit (c, l) (by rw [← hc]; exact List.getElem_mem hb)
        exact this.2
      have hcb : codeBits codes b.toNat = bitsOf c l := by
        simp [codeBits, List.getElem?_eq_getElem hb, hc]
      simp only [bits, List.map_cons, huffBits, List.flatMap_cons, List.length_append, hcb, bitsOf_length]
      omega
    have hmax : max ((bits.length + pad) / 8) (Impl.byteLen (bitsToNat (bits ++ List.replicate pad true)))
        = (bits.length + pad) / 8 := by
      apply Nat.max_eq_left
      unfold Impl.byteLen
      by_cases hz : bitsToNat (bits ++ List.replicate pad true) = 0
      · rw [hz, Nat.log2_zero]; omega
      · have := (Nat.log2_lt hz).mpr hlt
        omega
    show bytesBits (Impl.toBytesBE (bitsToNat bits <<< pad ||| (1 <<< pad) - 1)
      (max ((bits.length + pad) / 8) (Impl.byteLen (bitsToNat bits <<< pad ||| (1 <<< pad) - 1)))) = _
    rw [hnum, hmax, bytesBits_toBytesBE, htot, ← hbl, bitsOf_bitsToNat]

theorem gen_huffEncode_bits (s : Bytes) :
    let bits := huffBits Gen.codes (s.map (·.toNat))
    let pad := (8 - bits.length % 8) % 8
    bytesBits (Impl.huffEncode Gen.codes s) = bits ++ List.replicate pad true ∧ pad < 8 :=
  huffEncode_bits Gen.codes gen_codesFit (by decide +kernel) s

/-- C12 round trip: decode_huffman (encode s) = s, for every byte string -/
theorem gen_huff_roundtrip (s : Bytes) :
    Impl.huffDecode Gen.huffTable (Impl.huffEncode Gen.codes s) = .ok (s.map (·.toNat)) := by
  rw [gen_impl_huffDecode_iff]
  obtain ⟨hb, hp⟩ := gen_huffEncode_bits s
  refine ⟨?_, _, hp, hb⟩
  intro x hx
  simp only [List.mem_map] at hx
  obtain ⟨b, _, rfl⟩ := hx
  exact b.toNat_lt

#print axioms gen_huff_roundtrip
