import HpackVerif.Proofs.Limits
namespace Impl
variable {own : Bool}

/-- the table invariant survives the literal branch for *any* cap (also on the unfixed tree) -/
theorem decodeLiteral_inv (cap : Option Nat) (t : Table) (hinv : Inv t) (data : Bytes) (si : Bool)
    {h : Header} {k : Nat} {t' : Table} (hd : decodeLiteral cap own t data si = .ok (h, k, t')) : Inv t' := by
  unfold decodeLiteral at hd
  cases data with
  | nil => simp at hd
  | cons b0 tail =>
    dsimp only at hd
    generalize (if si = true then (b0.toNat &&& 0x3F, 6, false)
        else (b0.toNat &&& 0x0F, 4, decide (b0.toNat &&& 0x10 ≠ 0))) = trip at hd
    obtain ⟨indexedName, nameLen, notIndexable⟩ := trip
    dsimp only at hd
    -- whatever the name branch returned, the tail of the computation is: readString; optional add
    have key : ∀ (name : PyBuf) (c1 : Nat) (rest : Bytes),
        (do let (value, c2) ← readString cap own rest
            let t' ← if si then t.add name value else pure t
            pure ((⟨name, value, notIndexable⟩ : Header), c1 + c2, t') : Out (Header × Nat × Table))
          = .ok (h, k, t') → Inv t' := by
      intro name c1 rest hh
      cases hr : readString cap own rest with
      | err e => simp [hr, bind] at hh
      | esc x => simp [hr, bind] at hh
      | ok r =>
        obtain ⟨value, c2⟩ := r
        simp only [hr, bind, pure] at hh
        cases si with
        | true =>
          simp only [if_true] at hh
          obtain ⟨t2, ha, _, _, hinv2⟩ := add_spec t name value hinv
          simp only [ha, Out.ok.injEq, Prod.mk.injEq] at hh
          obtain ⟨_, _, rfl⟩ := hh; exact hinv2
        | false =>
          simp only [Bool.false_eq_true, if_false, Out.ok.injEq, Prod.mk.injEq] at hh
          obtain ⟨_, _, rfl⟩ := hh; exact hinv
    by_cases hin : indexedName ≠ 0
    · rw [if_pos hin] at hd
      cases hdi : decodeInt cap (b0 :: tail) nameLen with
      | err e => simp [hdi, bind] at hd
      | esc x => simp [hdi, bind] at hd
      | ok r =>
        simp only [hdi, bind, pure] at hd
        cases hg : t.getByIndex r.1 with
        | err e => simp [hg] at hd
        | esc x => simp [hg] at hd
        | ok ent =>
          simp only [hg] at hd
          exact key ent.1 r.2 _ (by simpa [bind, pure] using hd)
    · rw [if_neg hin] at hd
      cases hr1 : readString cap own tail with
      | err e => simp [hr1, bind] at hd
      | esc x => simp [hr1, bind] at hd
      | ok r1 =>
        simp only [hr1, bind, pure] at hd
        exact key r1.1 (r1.2 + 1) _ (by simpa [bind, pure] using hd)

theorem decodeField_inv (cap : Option Nat) (st : DecState) (hinv : Inv st.table) (data : Bytes) (seen : Bool)
    {oh : Option Header} {k : Nat} {st' : DecState} (h : decodeField cap own st data seen = .ok (oh, k, st')) :
    Inv st'.table := by
  unfold decodeField at h
  cases data with
  | nil => simp at h
  | cons b0 rest =>
    dsimp only at h
    split at h
    · cases hd : decodeInt cap (b0 :: rest) 7 with
      | ok r =>
        simp only [hd, bind, pure] at h
        cases hg : st.table.getByIndex r.1 with
        | ok e => simp only [hg, Out.ok.injEq, Prod.mk.injEq] at h; obtain ⟨_, _, rfl⟩ := h; exact hinv
        | err e => simp [hg] at h
        | esc x => simp [hg] at h
      | err e => simp [hd, bind] at h
      | esc x => simp [hd, bind] at h
    · split at h
      · generalize decide (b0.toNat &&& 0x40 ≠ 0) = si at h
        cases hl : decodeLiteral cap own st.table (b0 :: rest) si with
        | ok r =>
          simp only [hl, bind, pure, Out.ok.injEq, Prod.mk.injEq] at h
          obtain ⟨_, _, rfl⟩ := h
          exact decodeLiteral_inv (own := own) cap st.table hinv _ _ hl
        | err e => simp [hl, bind] at h
        | esc x => simp [hl, bind] at h
      · split at h
        · simp at h
        · cases hd : decodeInt cap (b0 :: rest) 5 with
          | ok r =>
            simp only [hd, bind, pure] at h
            split at h
            · simp at h
            · obtain ⟨t', hs, _, _, hinv', _⟩ := setMaxsize_spec st.table r.1 hinv
              simp only [hs, Out.ok.injEq, Prod.mk.injEq] at h
              obtain ⟨_, _, rfl⟩ := h; exact hinv'
          | err e => simp [hd, bind] at h
          | esc x => simp [hd, bind] at h

/-- **C06 in the decoder, any outcome, any cap**: whatever `decode` does — return, documented error or
    escape — the table it leaves satisfies the invariant -/
theorem decodeLoop_inv (cap : Option Nat) (fuel : Nat) (st : DecState) (hinv : Inv st.table) (data : Bytes)
    (hs : List Header) (infl : Nat) : Inv (decodeLoop cap own fuel st data hs infl).2.table := by
  induction fuel generalizing st data hs infl with
  | zero => simpa [decodeLoop] using hinv
  | succ fuel ih =>
    unfold decodeLoop
    cases data with
    | nil => dsimp only; split <;> exact hinv
    | cons b0 rest =>
      dsimp only
      cases hf : decodeField cap own st (b0 :: rest) (!hs.isEmpty) with
      | err e => exact hinv
      | esc x => exact hinv
      | ok r =>
        obtain ⟨oh, consumed, st'⟩ := r
        have hinv' := decodeField_inv (own := own) cap st hinv _ _ hf
        cases oh with
        | none => exact ih st' hinv' _ _ _
        | some hd =>
          dsimp only
          split
          · exact hinv'
          · exact ih st' hinv' _ _ _

theorem decode_inv (cap : Option Nat) (st : DecState) (hinv : Inv st.table) (data : Bytes) :
    Inv (decode cap own st data).2.table := decodeLoop_inv (own := own) cap _ st hinv data [] 0

end Impl
#print axioms Impl.decode_inv
