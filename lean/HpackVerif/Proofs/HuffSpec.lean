import HpackVerif.Proofs.HuffProof

/-! relational Appendix-B spec and its equivalence with the tree walk -/

def codeBits (codes : List (Nat × Nat)) (s : Nat) : List Bool :=
  match codes[s]? with
  | some (c, l) => bitsOf c l
  | none => []

def huffBits (codes : List (Nat × Nat)) (syms : List Nat) : List Bool := syms.flatMap (codeBits codes)

/-- `bits` is the Appendix-B coding of `syms` followed by fewer than eight one-bits -/
def HuffWire (codes : List (Nat × Nat)) (bits : List Bool) (syms : List Nat) : Prop :=
  (∀ s ∈ syms, s < 256) ∧ ∃ k, k < 8 ∧ bits = huffBits codes syms ++ List.replicate k true

namespace HTree
def leaves : HTree → List (List Bool × Nat)
  | .leaf s => [([], s)]
  | .node z o => (leaves z).map (fun r => (false :: r.1, r.2)) ++ (leaves o).map (fun r => (true :: r.1, r.2))

theorem descend?_append (t : HTree) (a b : List Bool) :
    t.descend? (a ++ b) = (t.descend? a).bind (descend? · b) := by
  induction a generalizing t with
  | nil => simp [descend?]
  | cons x xs ih =>
    simp only [List.cons_append, descend?]
    cases t.step? x <;> simp [ih]

theorem descend?_leaf_nil {s : Nat} {q : List Bool} {t : HTree} (h : (HTree.leaf s).descend? q = some t) : q = [] := by
  cases q with
  | nil => rfl
  | cons b bs => simp [descend?, step?] at h

theorem mem_leaves_of_descend? {t : HTree} {q : List Bool} {s : Nat}
    (h : t.descend? q = some (.leaf s)) : (q, s) ∈ t.leaves := by
  induction q generalizing t with
  | nil => simp [descend?] at h; subst h; simp [leaves]
  | cons b bs ih =>
    cases t with
    | leaf s' => simp [descend?, step?] at h
    | node z o =>
      simp only [descend?, step?, Option.bind_some] at h
      cases b with
      | false => simp at h; simp only [leaves, List.mem_append, List.mem_map]; left; exact ⟨(bs, s), ih h, rfl⟩
      | true => simp at h; simp only [leaves, List.mem_append, List.mem_map]; right; exact ⟨(bs, s), ih h, rfl⟩
end HTree

/-- finite obligations tying the tree witness to the code table -/
def codeTreeOK (root : HTree) (codes : List (Nat × Nat)) : Bool :=
  codes.length == 257 &&
  ((List.range 257).all fun s => root.descend? (codeBits codes s) == some (.leaf s)) &&
  (root.leaves.all fun r => r.2 < 257 && r.1 == codeBits codes r.2) &&
  codeBits codes 256 == List.replicate 30 true

set_option maxRecDepth 100000 in
theorem gen_codeTreeOK : codeTreeOK Gen.tree Gen.codes = true := by decide +kernel

section
variable {root : HTree} {codes : List (Nat × Nat)}

theorem code_leaf (h : codeTreeOK root codes = true) {s : Nat} (hs : s < 257) :
    root.descend? (codeBits codes s) = some (.leaf s) := by
  simp only [codeTreeOK, Bool.and_eq_true, List.all_eq_true, List.mem_range, beq_iff_eq] at h
  exact h.1.1.2 s hs

theorem leaf_code (h : codeTreeOK root codes = true) {q : List Bool} {s : Nat}
    (hq : root.descend? q = some (.leaf s)) : s < 257 ∧ q = codeBits codes s := by
  simp only [codeTreeOK, Bool.and_eq_true, List.all_eq_true, beq_iff_eq, decide_eq_true_eq] at h
  have := h.1.2 _ (HTree.mem_leaves_of_descend? hq)
  exact this

theorem eos_code (h : codeTreeOK root codes = true) : codeBits codes 256 = List.replicate 30 true := by
  simp only [codeTreeOK, Bool.and_eq_true, beq_iff_eq] at h
  exact h.2

/-- a proper prefix of a path to a leaf ends at an internal node -/
theorem prefix_node {t : HTree} {a b : List Bool} {s : Nat} (hb : b ≠ [])
    (h : t.descend? (a ++ b) = some (.leaf s)) : ∃ z o, t.descend? a = some (.node z o) := by
  rw [HTree.descend?_append] at h
  cases ha : t.descend? a with
  | none => simp [ha] at h
  | some u =>
    cases u with
    | leaf s' => simp only [ha, Option.bind_some] at h; exact absurd (HTree.descend?_leaf_nil h) hb
    | node z o => exact ⟨z, o, rfl⟩

/-- walking through the remaining bits `b` of the code of `s`, having consumed `a` -/
theorem bits_code (h : codeTreeOK root codes = true) {s : Nat} (hs : s < 256)
    (a b rest : List Bool) (hab : a ++ b = codeBits codes s) (hb : b ≠ []) (out : List Nat) :
    Ref.bits root a (b ++ rest) out = Ref.bits root [] rest (out ++ [s]) := by
  induction b generalizing a with
  | nil => exact absurd rfl hb
  | cons x xs ih =>
    have hleaf := code_leaf h (show s < 257 by omega)
    rw [← hab] at hleaf
    simp only [List.cons_append]
    rw [Ref.bits]
    by_cases hxs : xs = []
    · subst hxs
      simp only [hleaf]
      have : ¬ (s == 256) = true := by simp; omega
      simp [this]
    · have e : a ++ x :: xs = (a ++ [x]) ++ xs := by simp
      rw [e] at hleaf hab
      obtain ⟨z, o, hn⟩ := prefix_node hxs hleaf
      simp only [hn]
      exact ih (a ++ [x]) hab hxs

theorem bits_huffBits (h : codeTreeOK root codes = true) (syms : List Nat) (hs : ∀ s ∈ syms, s < 256)
    (rest : List Bool) (out : List Nat) :
    Ref.bits root [] (huffBits codes syms ++ rest) out = Ref.bits root [] rest (out ++ syms) := by
  induction syms generalizing out with
  | nil => simp [huffBits]
  | cons s ss ih =>
    have hs0 : s < 256 := hs s (by simp)
    have hne : codeBits codes s ≠ [] := by
      intro hnil
      have := code_leaf h (show s < 257 by omega)
      rw [hnil] at this
      simp only [HTree.descend?, Option.some.injEq] at this
      -- root would be a leaf, but EOS has a 30-bit code
      have he := code_leaf h (show 256 < 257 by omega)
      rw [eos_code h, this] at he
      simp [HTree.descend?, HTree.step?] at he
    simp only [huffBits, List.flatMap_cons, List.append_assoc]
    rw [bits_code h hs0 [] (codeBits codes s) _ (by simp) hne]
    have := ih (fun x hx => hs x (by simp [hx])) (out ++ [s])
    simp only [huffBits] at this
    rw [this]; simp

theorem bits_ones (h : codeTreeOK root codes = true) (j m : Nat) (hjm : j + m < 30) (out : List Nat) :
    Ref.bits root (List.replicate j true) (List.replicate m true) out = some (List.replicate (j + m) true, out) := by
  induction m generalizing j with
  | zero => simp [Ref.bits]
  | succ m ih =>
    have he := code_leaf h (show 256 < 257 by omega)
    rw [eos_code h] at he
    have hsplit : List.replicate 30 true = (List.replicate j true ++ [true]) ++ List.replicate (30 - (j+1)) true := by
      rw [show [true] = List.replicate 1 true from rfl, List.replicate_append_replicate, List.replicate_append_replicate]
      congr 1; omega
    rw [hsplit] at he
    obtain ⟨z, o, hn⟩ := prefix_node (by simp; omega) he
    rw [List.replicate_succ, Ref.bits]
    simp only [hn]
    have e1 : List.replicate j true ++ [true] = List.replicate (j+1) true := by
      rw [show [true] = List.replicate 1 true from rfl, List.replicate_append_replicate]
    rw [e1, ih (j+1) (by omega)]
    congr 3; omega

/-- soundness: a string of the Appendix-B form decodes to its symbols -/
theorem ref_sound (h : codeTreeOK root codes = true) {bs : List Bool} {syms : List Nat}
    (hw : HuffWire codes bs syms) : Ref.bits root [] bs [] = some (List.replicate (bs.length - (huffBits codes syms).length) true, syms) := by
  obtain ⟨hs, k, hk, rfl⟩ := hw
  rw [bits_huffBits h syms hs]
  have := bits_ones h 0 k (by omega) ([] ++ syms)
  simp only [List.replicate_zero, Nat.zero_add] at this
  rw [this]; simp

/-- completeness: whatever the walk accepts has the Appendix-B form -/
theorem ref_complete (h : codeTreeOK root codes = true) (bs p : List Bool) (out : List Nat) {p' : List Bool} {out' : List Nat}
    (hb : Ref.bits root p bs out = some (p', out')) :
    ∃ e, out' = out ++ e ∧ p ++ bs = huffBits codes e ++ p' ∧ ∀ s ∈ e, s < 256 := by
  induction bs generalizing p out with
  | nil =>
    simp only [Ref.bits, Option.some.injEq, Prod.mk.injEq] at hb
    exact ⟨[], by simp [hb.2], by simp [huffBits, hb.1], by simp⟩
  | cons b bs ih =>
    rw [Ref.bits] at hb
    cases hd : root.descend? (p ++ [b]) with
    | none => simp [hd] at hb
    | some t =>
      cases t with
      | leaf s =>
        simp only [hd] at hb
        by_cases h256 : (s == 256) = true
        · simp [h256] at hb
        · simp only [h256, Bool.false_eq_true, if_false] at hb
          obtain ⟨e, he1, he2, he3⟩ := ih [] (out ++ [s]) hb
          obtain ⟨hlt, hcode⟩ := leaf_code h hd
          refine ⟨s :: e, by simp [he1], ?_, ?_⟩
          · simp only [List.nil_append] at he2
            simp only [huffBits, List.flatMap_cons, List.append_assoc]
            simp only [huffBits] at he2
            rw [← he2, ← hcode]; simp
          · intro x hx
            simp only [List.mem_cons] at hx
            rcases hx with rfl | hx
            · simp at h256; omega
            · exact he3 x hx
      | node z o =>
        simp only [hd] at hb
        obtain ⟨e, he1, he2, he3⟩ := ih (p ++ [b]) out hb
        exact ⟨e, he1, by simpa using he2, he3⟩

theorem accept_iff (p : List Bool) : Ref.accept p = true ↔ ∃ k, k < 8 ∧ p = List.replicate k true := by
  simp only [Ref.accept, Bool.and_eq_true, List.all_eq_true, decide_eq_true_eq]
  constructor
  · rintro ⟨hall, hlen⟩
    refine ⟨p.length, hlen, ?_⟩
    apply List.eq_replicate_iff.mpr
    exact ⟨rfl, fun b hb => by simpa using hall b hb⟩
  · rintro ⟨k, hk, rfl⟩
    exact ⟨fun b hb => by simp [List.mem_replicate] at hb; simp [hb.2], by simpa using hk⟩

/-- C13 core: the reference decoder accepts exactly the Appendix-B-coded strings with < 8 one-bits of padding -/
theorem ref_huffDecode_iff (h : codeTreeOK root codes = true) (w : Bytes) (syms : List Nat) :
    Ref.huffDecode root w = some syms ↔ HuffWire codes (bytesBits w) syms := by
  constructor
  · intro hd
    unfold Ref.huffDecode at hd
    cases hb : Ref.bits root [] (bytesBits w) [] with
    | none => simp [hb] at hd
    | some r =>
      obtain ⟨p, out⟩ := r
      simp only [hb] at hd
      by_cases ha : Ref.accept p = true
      · simp only [ha, if_true, Option.some.injEq] at hd
        subst hd
        obtain ⟨e, he1, he2, he3⟩ := ref_complete h _ _ _ hb
        simp only [List.nil_append] at he1 he2
        subst he1
        obtain ⟨k, hk, rfl⟩ := (accept_iff p).mp ha
        exact ⟨he3, k, hk, he2⟩
      · simp [ha] at hd
  · intro hw
    have hs := ref_sound h hw
    obtain ⟨_, k, hk, hbits⟩ := hw
    unfold Ref.huffDecode
    rw [hs]
    have : Ref.accept (List.replicate ((bytesBits w).length - (huffBits codes syms).length) true) = true := by
      apply (accept_iff _).mpr
      refine ⟨k, hk, ?_⟩
      rw [hbits]; simp
    simp [this]
end

theorem gen_impl_huffDecode_iff (w : Bytes) (syms : List Nat) :
    Impl.huffDecode Gen.huffTable w = .ok syms ↔ HuffWire Gen.codes (bytesBits w) syms := by
  rw [gen_huffDecode_eq_ref, ← ref_huffDecode_iff gen_codeTreeOK]
  cases Ref.huffDecode Gen.tree w <;> simp

#print axioms gen_impl_huffDecode_iff
