import HpackVerif.Proofs.Conn
import HpackVerif.Proofs.InvAny
namespace RFC
open Impl
variable {own : Bool}

/-- operations on one HTTP/2-like connection: the application sets the encoder's table size, or a
    header block is encoded and handed to the decoder -/
inductive ConnOp
  | setSize (n : Nat)
  | block (hs : List (Bytes × Bytes × Bool)) (huff : Bool)

structure Conn where
  enc : EncState
  dec : DecState

/-- run a history on the (repaired) encoder and the decoder; collect what the decoder returned per block -/
def runConn (cap : Option Nat) (own : Bool) : Conn → List ConnOp → Option (Conn × List (List Header))
  | c, [] => some (c, [])
  | c, .setSize n :: ops =>
    match c.enc.setSize true n with
    | .ok e' => runConn cap own ⟨e', c.dec⟩ ops
    | _ => none
  | c, .block hs huff :: ops =>
    match c.enc.encode true hs huff with
    | .ok (bytes, e') =>
      match decode cap own c.dec bytes with
      | (.ok out, d') => (runConn cap own ⟨e', d'⟩ ops).map fun r => (r.1, out :: r.2)
      | _ => none
    | _ => none

def blocksOf : List ConnOp → List (List (Bytes × Bytes × Bool))
  | [] => []
  | .setSize _ :: ops => blocksOf ops
  | .block hs _ :: ops => hs :: blocksOf ops

/-- side conditions of C01: every size the application sets is admitted by the decoder's permitted
    maximum, every block fits the decoder's list limit (and integers stay within the implementation cap) -/
def OpsOK (cap : Option Nat) (allowed limit : Nat) : EncState → List ConnOp → Prop
  | _, [] => True
  | e, .setSize n :: ops => n ≤ allowed ∧ ∀ e', e.setSize true n = .ok e' → OpsOK cap allowed limit e' ops
  | e, .block hs huff :: ops =>
    listSize hs ≤ limit ∧
    (∀ rc ∈ updReps e.changes ++ encReps true huff ⟨{ e.table with resized := false }, []⟩ hs, RepOK cap rc.1 rc.2) ∧
    ∀ b e', e.encode true hs huff = .ok (b, e') → OpsOK cap allowed limit e' ops

structure ConnInv (c : Conn) : Prop where
  enc : EncOK c.enc
  dec : Inv c.dec.table
  pending : Pending c.enc c.dec
  allow : ∀ v ∈ c.enc.changes, v ≤ c.dec.allowed
  cur : c.enc.table.maxsize ≤ c.dec.allowed

/-- **C01 + C10 over whole histories** (repaired setter and match test): every block decodes to the
    list that was encoded, for every interleaving of size changes and blocks -/
theorem connection_roundtrip (cap : Option Nat) (c : Conn) (hinv : ConnInv c) (ops : List ConnOp)
    (hops : OpsOK cap c.dec.allowed c.dec.listLimit c.enc ops) :
    ∃ c' outs, runConn cap own c ops = some (c', outs) ∧ ConnInv c' ∧
      outs.map (fun out => out.map fun h => (h.name.bytes, h.value.bytes))
        = (blocksOf ops).map (fun hs => hs.map fun h => (h.1, h.2.1)) := by
  induction ops generalizing c with
  | nil => exact ⟨c, [], rfl, hinv, rfl⟩
  | cons op ops ih =>
    cases op with
    | setSize n =>
      obtain ⟨hn, hrest⟩ := hops
      obtain ⟨e', hset, hok', hp', hmax', hsub⟩ := setSize_ok c.enc c.dec hinv.enc hinv.pending n
      have hinv' : ConnInv ⟨e', c.dec⟩ := ⟨hok', hinv.dec, hp', by
        intro v hv
        rcases hsub v hv with h | h
        · exact hinv.allow v h
        · rw [h]; exact hn, by show e'.table.maxsize ≤ c.dec.allowed; rw [hmax']; exact hn⟩
      obtain ⟨c', outs, hrun, hci, hout⟩ := ih ⟨e', c.dec⟩ hinv' (hrest e' hset)
      exact ⟨c', outs, by simp only [runConn, hset]; exact hrun, hci, by simpa [blocksOf] using hout⟩
    | block hs huff =>
      obtain ⟨hlim, hrep, hrest⟩ := hops
      obtain ⟨bytes, e', henc, _, hok', hch', hmax', hs', hd1, hd2, hp'⟩ :=
        roundtrip_block' (own := own) cap c.enc c.dec hinv.enc hinv.dec hinv.pending hinv.allow hinv.cur hs huff hlim hrep
      -- decoder-side facts about the state after the block
      obtain ⟨_, _, hl3, hl4⟩ := decodeLoop_limits (own := own) cap _ c.dec bytes [] 0 rfl (by omega) hd1
      have hl3' : (decode cap own c.dec bytes).2.listLimit = c.dec.listLimit := hl3
      have hl4' : (decode cap own c.dec bytes).2.allowed = c.dec.allowed := hl4
      have hdinv : Inv (decode cap own c.dec bytes).2.table := decode_inv (own := own) cap c.dec hinv.dec bytes
      have hinv' : ConnInv ⟨e', (decode cap own c.dec bytes).2⟩ :=
        ⟨hok', hdinv, hp', by rw [hch']; simp, by
          show e'.table.maxsize ≤ (decode cap own c.dec bytes).2.allowed
          rw [hmax', hl4']; exact hinv.cur⟩
      have hops' : OpsOK cap (decode cap own c.dec bytes).2.allowed (decode cap own c.dec bytes).2.listLimit e' ops := by
        rw [hl3', hl4']; exact hrest bytes e' henc
      obtain ⟨c', outs, hrun, hci, hout⟩ := ih ⟨e', (decode cap own c.dec bytes).2⟩ hinv' hops'
      refine ⟨c', hs' :: outs, ?_, hci, ?_⟩
      · simp only [runConn, henc]
        have : decode cap own c.dec bytes = (.ok hs', (decode cap own c.dec bytes).2) := by
          rw [← hd1]
        rw [this]; simp only [hrun, Option.map_some]
      · simp only [blocksOf, List.map_cons, hd2, hout]

end RFC
#print axioms RFC.connection_roundtrip

namespace RFC
open Impl
/-- non-vacuity: a fresh Encoder/Decoder pair satisfies the connection invariant -/
example : ConnInv ⟨{}, {}⟩ :=
  ⟨⟨⟨rfl, by simp [tsize]⟩, by simp⟩, ⟨rfl, by simp [tsize]⟩, rfl, by simp, by decide⟩
end RFC
